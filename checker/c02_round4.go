package main

// Rules of C02 added after the fourth round of independently written breaking changes (DESIGN 11.12); wired by
// zzz_round4.go.
//
//   - C02.L5 — "the next valid configuration is still applied": the stateful reader (a *bytes.Buffer) the update loop
//     hands to the text constructor holds nothing but the text of the current iteration. The constructor stops reading
//     at the first bad line, so a rejected text leaves an unread rest in the reader; a write that is followed by
//     `continue` leaves the whole text. Either survives into the next constructor call unless the reader is emptied
//     on the way (or is a new one).
//   - C02.P10 — "never crashes ... every interleaving": tables are built by several goroutines (the update loop, the
//     consul service monitors that validate route commands, the custom backend's poller); package-level state that
//     table construction writes must be written - and, for a map, read - under a lock. An unsynchronised map cache
//     kills the process with `fatal error: concurrent map writes`, which no recover() catches.

import (
	"fmt"
	"go/token"
	"go/types"
	"os"
	"sort"
	"strings"

	"golang.org/x/tools/go/ssa"
)

// c02cur is the publication analysis of the Ctx that runC02 is working on (the round-4 rules run right after it).
var c02cur *c02pubs

func init() {
	const loopOld = "\t\t\ttableBuffer.Reset()\n\t\t\ttableBuffer.WriteString(svccfg)\n\t\t\ttableBuffer.WriteString(\"\\n\")\n\t\t\ttableBuffer.WriteString(mancfg)\n"
	const helperTail = "func watchNoRouteHTML(cfg *config.Config) {"
	addRound4("C02", "(L5) the stateful reader handed to the text constructor inside the update loop holds only the text of the current iteration: it is a new reader, or no content put into it (a write, or the unread rest the constructor leaves behind when it rejects a text) survives through the loop head into the next constructor call without the reader being emptied (Reset/Truncate(0), directly or in a helper that does it on all of its paths) - followed through the helpers the loop body is cut into.", runC02L5,
		mutant{Name: "buffer filled only when the text changed, never emptied", File: "main.go", Old: loopOld, New: "", Expect: "C02.L5",
			More: []repl{{"if nextTable = tableBuffer.String(); nextTable == lastTable {", "if nextTable = svccfg + \"\\n\" + mancfg; nextTable == lastTable {"}, {"\t\t\tt, err := route.NewTable(tableBuffer)\n", "\t\t\ttableBuffer.WriteString(nextTable)\n\t\t\tt, err := route.NewTable(tableBuffer)\n"}}},
		mutant{Name: "buffer emptied only after a successful installation", File: "main.go", Old: "\t\t\ttableBuffer.Reset()\n", New: "", Expect: "C02.L5",
			More: []repl{{"\t\t\troute.SetTable(t)\n", "\t\t\troute.SetTable(t)\n\t\t\ttableBuffer.Reset()\n"}}},
		mutant{Name: "buffer emptied only when it has grown large", File: "main.go", Old: "\t\t\ttableBuffer.Reset()\n", New: "\t\t\tif tableBuffer.Cap() > 1<<20 {\n\t\t\t\ttableBuffer.Reset()\n\t\t\t}\n", Expect: "C02.L5"},
		mutant{Name: "build+install helper fills the buffer it is handed without emptying it", File: "main.go", Old: loopOld, New: "", Expect: "C02.L5",
			More: []repl{{"if nextTable = tableBuffer.String(); nextTable == lastTable {", "if nextTable = svccfg + \"\\n\" + mancfg; nextTable == lastTable {"},
				{"\t\t\tt, err := route.NewTable(tableBuffer)\n", "\t\t\tt, err := buildFrom(tableBuffer, nextTable)\n"},
				{helperTail, "func buildFrom(buf *bytes.Buffer, text string) (route.Table, error) {\n\tbuf.WriteString(text)\n\treturn route.NewTable(buf)\n}\n\n" + helperTail}}},
		mutant{Name: "emptying helper skips the reset for an empty service text", File: "main.go", Old: loopOld, New: "\t\t\trefill(tableBuffer, svccfg, mancfg)\n", Expect: "C02.L5",
			More: []repl{{helperTail, "func refill(buf *bytes.Buffer, svccfg, mancfg string) {\n\tif svccfg != \"\" {\n\t\tbuf.Reset()\n\t\tbuf.WriteString(svccfg)\n\t}\n\tbuf.WriteString(\"\\n\")\n\tbuf.WriteString(mancfg)\n}\n\n" + helperTail}}},
		mutant{Name: "benign: buffer emptied after every use instead of before", File: "main.go", Old: "\t\t\ttableBuffer.Reset()\n", New: "", Expect: "",
			More: []repl{{"nextTable == lastTable {\n\t\t\t\tcontinue\n", "nextTable == lastTable {\n\t\t\t\ttableBuffer.Reset()\n\t\t\t\tcontinue\n"}, {"\t\t\tt, err := route.NewTable(tableBuffer)\n", "\t\t\tt, err := route.NewTable(tableBuffer)\n\t\t\ttableBuffer.Reset()\n"}}},
		mutant{Name: "benign: a new reader for every constructor call", File: "main.go", Old: "\t\t\tt, err := route.NewTable(tableBuffer)\n", New: "\t\t\tt, err := route.NewTable(bytes.NewBufferString(nextTable))\n", Expect: ""},
		mutant{Name: "benign: buffer filled only when the text changed, emptied first", File: "main.go", Old: loopOld, New: "", Expect: "",
			More: []repl{{"if nextTable = tableBuffer.String(); nextTable == lastTable {", "if nextTable = svccfg + \"\\n\" + mancfg; nextTable == lastTable {"}, {"\t\t\tt, err := route.NewTable(tableBuffer)\n", "\t\t\ttableBuffer.Reset()\n\t\t\ttableBuffer.WriteString(nextTable)\n\t\t\tt, err := route.NewTable(tableBuffer)\n"}}},
		mutant{Name: "benign: buffer emptied and filled by a helper", File: "main.go", Old: loopOld, New: "\t\t\trefill(tableBuffer, svccfg, mancfg)\n", Expect: "",
			More: []repl{{helperTail, "func refill(buf *bytes.Buffer, svccfg, mancfg string) {\n\tbuf.Truncate(0)\n\tbuf.WriteString(svccfg)\n\tbuf.WriteString(\"\\n\")\n\tbuf.WriteString(mancfg)\n}\n\n" + helperTail}}},
		mutant{Name: "benign: build helper empties the buffer it is handed before filling it", File: "main.go", Old: loopOld, New: "", Expect: "",
			More: []repl{{"if nextTable = tableBuffer.String(); nextTable == lastTable {", "if nextTable = svccfg + \"\\n\" + mancfg; nextTable == lastTable {"},
				{"\t\t\tt, err := route.NewTable(tableBuffer)\n", "\t\t\tt, err := buildFrom(tableBuffer, nextTable)\n"},
				{helperTail, "func buildFrom(buf *bytes.Buffer, text string) (route.Table, error) {\n\tbuf.Reset()\n\tbuf.WriteString(text)\n\treturn route.NewTable(buf)\n}\n\n" + helperTail}}},
	)

	// the same defect in two other cuts of the loop body, derived from the benign rewrites of c02_mutants.go
	var derived []mutant
	for _, m := range c02moreMutants {
		switch m.Name {
		case "benign: update loop state in a watcher struct with an update method":
			b := m
			b.Name, b.Expect, b.More = "watcher struct: the update method never empties the buffer it keeps in a field", "C02.L5", nil
			for _, r := range m.More {
				b.More = append(b.More, repl{r.Old, strings.Replace(r.New, "\tw.buf.Reset()\n", "", 1)})
			}
			derived = append(derived, b)
		case "benign: loop body in a closure that captures the last text":
			b := m
			b.Name, b.Expect = "loop body in a closure: the captured buffer is emptied only after a successful installation", "C02.L5"
			b.New = strings.Replace(strings.Replace(m.New, "\t\t\ttableBuffer.Reset()\n", "", 1), "\t\t\tlastTable = nextTable\n", "\t\t\tlastTable = nextTable\n\t\t\ttableBuffer.Reset()\n", 1)
			derived = append(derived, b)
		}
	}
	addRound4("C02", "", func(*Ctx) {}, derived...)

	const addRouteDoc = "// addRoute adds a new route prefix -> target for the given service.\n"
	const compileCall = "g, err := glob.Compile(path)"
	cache := func(decl, body string) string {
		return decl + "\n// compilePath returns the compiled glob pattern for a route path.\nfunc compilePath(path string) (glob.Glob, error) {\n" + body + "}\n\n" + addRouteDoc
	}
	addRound4("C02", "(P10) table construction runs in several goroutines at once (update loop, consul service monitors validating route commands, custom backend): in every function reachable from the constructors and the exported text parsers of package route, outside package initialisation, a write to memory rooted in a package-level variable (store, map update, delete, append/copy target) happens while a sync.Mutex / the write side of a sync.RWMutex is held (in the function or in all of its callers) or inside a sync.Once body, and a read of a package-level map that is written anywhere outside initialisation happens under a lock too.", runC02P10,
		mutant{Name: "package-level map cache of compiled path globs without a lock", File: "route/table.go", Old: compileCall, New: "g, err := compilePath(path)", All: true, Expect: "C02.P10",
			More: []repl{{addRouteDoc, cache("var pathGlobs = map[string]glob.Glob{}\n", "\tif g, ok := pathGlobs[path]; ok {\n\t\treturn g, nil\n\t}\n\tg, err := glob.Compile(path)\n\tif err != nil {\n\t\treturn nil, err\n\t}\n\tpathGlobs[path] = g\n\treturn g, nil\n")}}},
		mutant{Name: "glob cache locked for the update only, looked up without the lock", File: "route/table.go", Old: compileCall, New: "g, err := compilePath(path)", All: true, Expect: "C02.P10",
			More: []repl{{addRouteDoc, cache("var (\n\tpathGlobsMu sync.Mutex\n\tpathGlobs   = map[string]glob.Glob{}\n)\n", "\tif g, ok := pathGlobs[path]; ok {\n\t\treturn g, nil\n\t}\n\tg, err := glob.Compile(path)\n\tif err != nil {\n\t\treturn nil, err\n\t}\n\tpathGlobsMu.Lock()\n\tpathGlobs[path] = g\n\tpathGlobsMu.Unlock()\n\treturn g, nil\n")},
				{"import (\n", "import (\n\t\"sync\"\n"}}},
		mutant{Name: "glob cache in a package-level struct, updated under the read lock", File: "route/table.go", Old: compileCall, New: "g, err := compilePath(path)", All: true, Expect: "C02.P10",
			More: []repl{{addRouteDoc, cache("var globCacheState = struct {\n\tsync.RWMutex\n\tm map[string]glob.Glob\n}{m: map[string]glob.Glob{}}\n", "\tglobCacheState.RLock()\n\tdefer globCacheState.RUnlock()\n\tif g, ok := globCacheState.m[path]; ok {\n\t\treturn g, nil\n\t}\n\tg, err := glob.Compile(path)\n\tif err != nil {\n\t\treturn nil, err\n\t}\n\tglobCacheState.m[path] = g\n\treturn g, nil\n")},
				{"import (\n", "import (\n\t\"sync\"\n"}}},
		mutant{Name: "glob cache object with a get method that fills its map without a lock", File: "route/table.go", Old: compileCall, New: "g, err := pathCache.get(path)", All: true, Expect: "C02.P10",
			More: []repl{{addRouteDoc, "type pathGlobCache struct {\n\tm map[string]glob.Glob\n}\n\nvar pathCache = &pathGlobCache{m: map[string]glob.Glob{}}\n\nfunc (c *pathGlobCache) get(path string) (glob.Glob, error) {\n\tif g := c.m[path]; g != nil {\n\t\treturn g, nil\n\t}\n\tg, err := glob.Compile(path)\n\tif err != nil {\n\t\treturn nil, err\n\t}\n\tc.m[path] = g\n\treturn g, nil\n}\n\n" + addRouteDoc}}},
		mutant{Name: "benign: glob cache object with a get method that locks its own mutex", File: "route/table.go", Old: compileCall, New: "g, err := pathCache.get(path)", All: true, Expect: "",
			More: []repl{{addRouteDoc, "type pathGlobCache struct {\n\tmu sync.Mutex\n\tm  map[string]glob.Glob\n}\n\nvar pathCache = &pathGlobCache{m: map[string]glob.Glob{}}\n\nfunc (c *pathGlobCache) get(path string) (glob.Glob, error) {\n\tc.mu.Lock()\n\tdefer c.mu.Unlock()\n\tif g := c.m[path]; g != nil {\n\t\treturn g, nil\n\t}\n\tg, err := glob.Compile(path)\n\tif err != nil {\n\t\treturn nil, err\n\t}\n\tc.m[path] = g\n\treturn g, nil\n}\n\n" + addRouteDoc},
				{"import (\n", "import (\n\t\"sync\"\n"}}},
		mutant{Name: "parser counts the parsed lines in a package-level statistics struct", File: "route/parse_new.go", Old: "func Parse(in *bytes.Buffer) (defs []*RouteDef, err error) {\n", New: "var parseStats struct {\n\tcalls int\n\tlast  []string\n}\n\nfunc Parse(in *bytes.Buffer) (defs []*RouteDef, err error) {\n\tparseStats.calls++\n\tparseStats.last = append(parseStats.last[:0], in.String())\n", Expect: "C02.P10"},
		mutant{Name: "benign: glob cache behind a mutex", File: "route/table.go", Old: compileCall, New: "g, err := compilePath(path)", All: true, Expect: "",
			More: []repl{{addRouteDoc, cache("var (\n\tpathGlobsMu sync.Mutex\n\tpathGlobs   = map[string]glob.Glob{}\n)\n", "\tpathGlobsMu.Lock()\n\tdefer pathGlobsMu.Unlock()\n\tif g, ok := pathGlobs[path]; ok {\n\t\treturn g, nil\n\t}\n\tg, err := glob.Compile(path)\n\tif err != nil {\n\t\treturn nil, err\n\t}\n\tpathGlobs[path] = g\n\treturn g, nil\n")},
				{"import (\n", "import (\n\t\"sync\"\n"}}},
		mutant{Name: "benign: glob cache behind a read/write lock", File: "route/table.go", Old: compileCall, New: "g, err := compilePath(path)", All: true, Expect: "",
			More: []repl{{addRouteDoc, cache("var (\n\tpathGlobsMu sync.RWMutex\n\tpathGlobs   = map[string]glob.Glob{}\n)\n", "\tpathGlobsMu.RLock()\n\tg, ok := pathGlobs[path]\n\tpathGlobsMu.RUnlock()\n\tif ok {\n\t\treturn g, nil\n\t}\n\tg, err := glob.Compile(path)\n\tif err != nil {\n\t\treturn nil, err\n\t}\n\tpathGlobsMu.Lock()\n\tpathGlobs[path] = g\n\tpathGlobsMu.Unlock()\n\treturn g, nil\n")},
				{"import (\n", "import (\n\t\"sync\"\n"}}},
		mutant{Name: "benign: glob cache in a sync.Map", File: "route/table.go", Old: compileCall, New: "g, err := compilePath(path)", All: true, Expect: "",
			More: []repl{{addRouteDoc, cache("var pathGlobs sync.Map\n", "\tif v, ok := pathGlobs.Load(path); ok {\n\t\treturn v.(glob.Glob), nil\n\t}\n\tg, err := glob.Compile(path)\n\tif err != nil {\n\t\treturn nil, err\n\t}\n\tpathGlobs.Store(path, g)\n\treturn g, nil\n")},
				{"import (\n", "import (\n\t\"sync\"\n"}}},
		mutant{Name: "sync.Map glob cache that also remembers patterns which did not compile", File: "route/table.go", Old: compileCall, New: "g, err := compilePath(path)", All: true, Expect: "C02.P9",
			More: []repl{{addRouteDoc, cache("var pathGlobs sync.Map\n", "\tif v, ok := pathGlobs.Load(path); ok {\n\t\tg, _ := v.(glob.Glob)\n\t\treturn g, nil\n\t}\n\tg, err := glob.Compile(path)\n\tpathGlobs.Store(path, g)\n\tif err != nil {\n\t\treturn nil, err\n\t}\n\treturn g, nil\n")},
				{"import (\n", "import (\n\t\"sync\"\n"}}},
		mutant{Name: "benign: glob cache that lives as long as one table build (a local map handed down)", File: "route/table.go", Old: "\t\t\terr = t.addRoute(d)\n", New: "\t\t\terr = t.addRouteCached(d, globs)\n", Expect: "",
			More: []repl{
				{"\t\t\terr = t.addRoute(&d)\n", "\t\t\terr = t.addRouteCached(&d, globs)\n"},
				{"func NewTable(b *bytes.Buffer) (t Table, err error) {\n", "func NewTable(b *bytes.Buffer) (t Table, err error) {\n\tglobs := map[string]glob.Glob{}\n"},
				{"func NewTableCustom(defs *[]RouteDef) (t Table, err error) {\n", "func NewTableCustom(defs *[]RouteDef) (t Table, err error) {\n\tglobs := map[string]glob.Glob{}\n"},
				{addRouteDoc, "func (t Table) addRouteCached(d *RouteDef, globs map[string]glob.Glob) error {\n\t_, path := hostpath(d.Src)\n\tif _, ok := globs[path]; !ok {\n\t\tg, err := glob.Compile(path)\n\t\tif err != nil {\n\t\t\treturn err\n\t\t}\n\t\tglobs[path] = g\n\t}\n\treturn t.addRoute(d)\n}\n\n" + addRouteDoc}}},
		mutant{Name: "benign: lazily built package-level parser table inside a sync.Once", File: "route/parse_new.go", Old: "func Parse(in *bytes.Buffer) (defs []*RouteDef, err error) {\n", New: "var (\n\tcmdNamesOnce sync.Once\n\tcmdNames     map[string]bool\n)\n\nfunc Parse(in *bytes.Buffer) (defs []*RouteDef, err error) {\n\tcmdNamesOnce.Do(func() {\n\t\tcmdNames = map[string]bool{}\n\t\tcmdNames[\"route add\"] = true\n\t})\n", Expect: "",
			More: []repl{{"import (\n", "import (\n\t\"sync\"\n"}}},
	)
}

// ---- shared small helpers -------------------------------------------------------------------------------------------

// c02ctorCalls: the calls of the text constructor from which a published table derives (as in L4).
func (x *c02pubs) ctorCalls() []*ssa.Call {
	var c0s []*ssa.Call
	seen := map[*ssa.Call]bool{}
	for _, s := range x.sites {
		if s.forwarded || x.initLike(s.fn, 0) {
			continue
		}
		derives(s.val, func(o ssa.Value) bool {
			if call, ok := o.(*ssa.Call); ok && call.Call.StaticCallee() == x.text && !seen[call] {
				seen[call] = true
				c0s = append(c0s, call)
			}
			return false
		})
	}
	return c0s
}

// c02reachAvoiding: starting at instruction idx of block b, can control arrive at an instruction satisfying target, or
// enter block targetBlock, without executing an instruction that satisfies avoid?
func c02reachAvoiding(b *ssa.BasicBlock, idx int, avoid, target func(ssa.Instruction) bool, targetBlock *ssa.BasicBlock) bool {
	type item struct {
		b   *ssa.BasicBlock
		idx int
	}
	seen := map[*ssa.BasicBlock]bool{}
	stack := []item{{b, idx}}
	for len(stack) > 0 {
		it := stack[len(stack)-1]
		stack = stack[:len(stack)-1]
		blocked := false
		for k := it.idx; k < len(it.b.Instrs); k++ {
			in := it.b.Instrs[k]
			if target != nil && target(in) {
				return true
			}
			if avoid != nil && avoid(in) {
				blocked = true
				break
			}
		}
		if blocked {
			continue
		}
		for _, s := range it.b.Succs {
			if s == targetBlock {
				return true
			}
			if !seen[s] {
				seen[s] = true
				stack = append(stack, item{s, 0})
			}
		}
	}
	return false
}

// c02sameObj: a and b designate the same object - the same SSA value, or two loads of the same memory path.
func c02sameObj(a, b ssa.Value) bool {
	a, b = c02strip(a), c02strip(b)
	if a == nil || b == nil {
		return false
	}
	if a == b {
		return true
	}
	// the address of the same field of the same object (a buffer kept by value in a struct: every `u.buf.M()` computes
	// &u.buf anew)
	if fa, isFA := a.(*ssa.FieldAddr); isFA {
		fb, isFB := b.(*ssa.FieldAddr)
		return isFB && fa.Field == fb.Field && c02sameObj(fa.X, fb.X)
	}
	ua, ok1 := a.(*ssa.UnOp)
	ub, ok2 := b.(*ssa.UnOp)
	if !ok1 || !ok2 || ua.Op != token.MUL || ub.Op != token.MUL {
		return false
	}
	pa := accessPath(a)
	return pa != "" && pa == accessPath(b)
}

// ---- C02.L5 ---------------------------------------------------------------------------------------------------------

var c02readerResets = map[string]bool{
	"(*bytes.Buffer).Reset": true, "(*strings.Reader).Reset": true, "(*bytes.Reader).Reset": true, "(*bufio.Reader).Reset": true,
}

// methods of the readers that neither add content nor matter for what is left in them
var c02readerPure = map[string]bool{
	"String": true, "Len": true, "Cap": true, "Bytes": true, "Available": true, "AvailableBuffer": true, "Size": true, "Grow": true,
	"Read": true, "ReadByte": true, "ReadBytes": true, "ReadRune": true, "ReadString": true, "Next": true, "WriteTo": true,
	"UnreadByte": true, "UnreadRune": true,
}

// c02isStatefulReader: a pointer to one of the library's readers that keep a read position / content.
func c02isStatefulReader(t types.Type) bool {
	switch typeKey(t) {
	case "bytes.Buffer", "bytes.Reader", "strings.Reader", "bufio.Reader":
		_, isPtr := t.Underlying().(*types.Pointer)
		return isPtr
	}
	return false
}

// c02argIndex: the positions at which buf is handed to the call.
func c02argIndex(cc *ssa.CallCommon, buf ssa.Value) []int {
	var out []int
	for k, a := range cc.Args {
		if c02sameObj(a, buf) {
			out = append(out, k)
		}
	}
	return out
}

// c02empties: instruction i leaves the reader buf empty - Reset / Truncate(0) on it, or a static call of a repository
// helper that does so with the corresponding parameter on all of its paths.
func c02empties(i ssa.Instruction, buf ssa.Value, depth int) bool {
	if st, isSt := i.(*ssa.Store); isSt {
		// *buf = bytes.Buffer{}: the whole reader is replaced by its zero value
		k, isK := st.Val.(*ssa.Const)
		return isK && k.Value == nil && c02sameObj(st.Addr, buf)
	}
	ci, ok := i.(ssa.CallInstruction)
	if !ok || ci.Common().IsInvoke() {
		return false
	}
	switch i.(type) {
	case *ssa.Call:
	case *ssa.Defer:
		if depth == 0 {
			return false // in the function under examination a deferred reset runs when the loop is over
		}
		// in a helper: it runs before the helper returns, whatever path is taken from here
	default:
		return false
	}
	cc := ci.Common()
	ks := c02argIndex(cc, buf)
	if len(ks) == 0 {
		return false
	}
	n := calleeName(cc)
	if ks[0] == 0 {
		if c02readerResets[n] {
			return true
		}
		if n == "(*bytes.Buffer).Truncate" && len(cc.Args) == 2 {
			if k, isK := constInt(cc.Args[1]); isK && k == 0 {
				return true
			}
		}
	}
	sc := cc.StaticCallee()
	if sc == nil || !isRepoFn(sc) || depth > 2 {
		return false
	}
	sc = unwrap(sc)
	if len(sc.Blocks) == 0 || ks[0] >= len(sc.Params) {
		return false
	}
	p := sc.Params[ks[0]]
	isRet := func(j ssa.Instruction) bool { _, r := j.(*ssa.Return); return r }
	return !c02reachAvoiding(sc.Blocks[0], 0, func(j ssa.Instruction) bool { return c02empties(j, p, depth+1) }, isRet, nil)
}

// c02fills: instruction i may put content into the reader buf (a write method, or handing it to anything that is not
// known to only read it). The constructor chain itself (skip) is judged separately.
func c02fills(i ssa.Instruction, buf ssa.Value, skip map[ssa.Instruction]bool) bool {
	cc := callCommon(i)
	if cc == nil || skip[i] {
		return false
	}
	if cc.IsInvoke() {
		return c02sameObj(cc.Value, buf) && !c02readerPure[cc.Method.Name()]
	}
	ks := c02argIndex(cc, buf)
	if len(ks) == 0 || c02empties(i, buf, 0) {
		return false
	}
	n := calleeName(cc)
	if ks[0] == 0 && cc.Signature().Recv() != nil {
		if dot := strings.LastIndex(n, "."); dot >= 0 && c02readerPure[n[dot+1:]] {
			return false
		}
	}
	return true
}

// c02freshReader: v is a reader made where it is used: an allocation or a library/repository constructor call - inside
// the loop body when lp is given.
func c02freshReader(v ssa.Value, lp *loop, depth int) bool {
	v = c02strip(v)
	in, ok := v.(ssa.Instruction)
	if !ok || (lp != nil && !lp.Body[in.Block()]) {
		return false
	}
	switch y := v.(type) {
	case *ssa.Alloc:
		return true
	case *ssa.Call:
		switch calleeName(&y.Call) {
		case "bytes.NewBuffer", "bytes.NewBufferString", "bytes.NewReader", "strings.NewReader", "bufio.NewReader", "bufio.NewReaderSize":
			return true
		}
		sc := y.Call.StaticCallee()
		if sc == nil || !isRepoFn(sc) || len(sc.Blocks) == 0 || depth > 1 {
			return false
		}
		all, n := true, 0
		eachInstr(unwrap(sc), func(i ssa.Instruction) {
			if r, isR := i.(*ssa.Return); isR && len(r.Results) == 1 {
				n++
				if !c02freshReader(r.Results[0], nil, depth+1) {
					all = false
				}
			}
		})
		return all && n > 0
	}
	return false
}

func runC02L5(c *Ctx) {
	x := c02cur
	if x == nil || x.c != c || x.text == nil || x.holder == nil {
		c.undecided("C02.L5", "anchor|update loop", "the text constructor route.NewTable or the table holder was not found")
		return
	}
	nCtx := 0
	for _, c0 := range x.ctorCalls() {
		for _, lc := range x.loopContexts(c0) {
			m := len(lc.frames) - 1
			F := lc.frames[m].Parent()
			key := fnKey(F) + "|constructor input holds only this iteration's text"
			nCtx++
			// the reader argument of the constructor call, and what it is called in the frames above
			var arg ssa.Value
			for _, a := range c0.Call.Args {
				if c02isStatefulReader(c02strip(a).Type()) {
					arg = c02strip(a)
				}
			}
			if arg == nil {
				c.ob("C02.L5", key, c0.Pos(), OK, "the constructor is handed an immutable text, no reader that keeps content between two calls")
				continue
			}
			bufs := []ssa.Value{arg}
			for j := 0; j < m; j++ {
				p, isParam := bufs[j].(*ssa.Parameter)
				if !isParam || p.Parent() != lc.frames[j].Parent() {
					break // held in memory (a field, a captured variable): it outlives the call whatever the caller does
				}
				cc := lc.frames[j+1].(ssa.CallInstruction).Common()
				k := c02paramIndex(p)
				if cc.IsInvoke() || k < 0 || k >= len(cc.Args) {
					break
				}
				bufs = append(bufs, c02strip(cc.Args[k]))
			}
			top := len(bufs) - 1
			var inLoop *loop
			if top == m {
				inLoop = lc.lp
			}
			if c02freshReader(bufs[top], inLoop, 0) {
				c.ob("C02.L5", key, c0.Pos(), OK, "a new reader is made for every constructor call")
				continue
			}
			skip := map[ssa.Instruction]bool{}
			for _, fr := range lc.frames {
				skip[fr] = true
			}
			empties := func(j int) func(ssa.Instruction) bool {
				return func(i ssa.Instruction) bool { return c02empties(i, bufs[j], 0) }
			}
			isRet := func(i ssa.Instruction) bool { _, r := i.(*ssa.Return); return r }
			// (a) un-emptied arrival: from the loop head (level m) / the helper's entry (levels below) to the constructor call
			arrives := true
			for j := 0; j <= top && arrives; j++ {
				at := lc.frames[j]
				start := at.Parent().Blocks[0]
				if j == m {
					start = lc.lp.Head
				}
				arrives = c02reachAvoiding(start, 0, empties(j), func(i ssa.Instruction) bool { return i == at }, nil)
			}
			// (b) un-emptied departure: from a point that leaves content in the reader to the loop head
			var leaks func(j int, from ssa.Instruction) bool
			leaks = func(j int, from ssa.Instruction) bool {
				if j == m {
					return c02reachAvoiding(from.Block(), instrIndex(from)+1, empties(j), nil, lc.lp.Head)
				}
				if !c02reachAvoiding(from.Block(), instrIndex(from)+1, empties(j), isRet, nil) {
					return false
				}
				if j == top {
					return true
				}
				return leaks(j+1, lc.frames[j+1])
			}
			var origin ssa.Instruction
			what := ""
			if !c02empties(c0, bufs[0], 0) && leaks(0, c0) { // a constructor that empties its reader itself leaves nothing
				origin, what = c0, "the unread rest of a text the constructor rejected (it stops reading at the first bad line)"
			}
			for j := 0; j <= top && origin == nil; j++ {
				fn := lc.frames[j].Parent()
				eachInstr(fn, func(i ssa.Instruction) {
					if origin != nil || !c02fills(i, bufs[j], skip) {
						return
					}
					if leaks(j, i) {
						origin, what = i, "what "+c.pos(i.Pos())+" wrote into it on a path that comes back to the loop head"
					}
				})
			}
			c.check("C02.L5", key, c0.Pos(), !(arrives && origin != nil),
				"the reader handed to route.NewTable outlives the iteration and is not emptied (Reset) between the loop head and the constructor call, while content can be left in it from an earlier iteration: "+what+
					". The next configuration is then parsed as <left-over> + <new text>: after a rejected configuration larger than the parser's read chunk the next VALID configuration is rejected too (or stale route commands of the rejected text are merged into the installed table) - 'the next valid configuration is still applied' is broken")
		}
	}
	c.atLeast("C02.L5", "update loops around a NewTable call whose result is installed", nCtx, 1)
}

// ---- C02.P10 --------------------------------------------------------------------------------------------------------

// c02globalRoot: the package-level variable in whose memory addr lies (through fields, elements, loads of pointers,
// maps and slices kept there, and parameterless accessor functions that return such memory); nil when addr is local.
func c02globalRoot(v ssa.Value, depth int) *ssa.Global {
	for n := 0; n < 24 && v != nil; n++ {
		switch y := v.(type) {
		case *ssa.Global:
			if y.Pkg != nil && strings.HasPrefix(y.Pkg.Pkg.Path(), repoMod) {
				return y
			}
			return nil
		case *ssa.UnOp:
			if y.Op != token.MUL {
				return nil
			}
			v = y.X
		case *ssa.FieldAddr:
			v = y.X
		case *ssa.Field:
			v = y.X
		case *ssa.IndexAddr:
			v = y.X
		case *ssa.Index:
			v = y.X
		case *ssa.Lookup:
			v = y.X
		case *ssa.Slice:
			v = y.X
		case *ssa.ChangeType:
			v = y.X
		case *ssa.Convert:
			v = y.X
		case *ssa.MakeInterface:
			v = y.X
		case *ssa.TypeAssert:
			v = y.X
		case *ssa.Extract:
			v = y.Tuple
		case *ssa.Parameter:
			// the receiver / argument of a method of a cache object: rooted where some static caller's argument is
			fn := y.Parent()
			k := c02paramIndex(y)
			if fn == nil || k < 0 || depth > 2 {
				return nil
			}
			for _, s := range c02sites(fn) {
				if args := s.Common().Args; k < len(args) && s.Parent() != fn {
					if g := c02globalRoot(args[k], depth+1); g != nil {
						return g
					}
				}
			}
			return nil
		case *ssa.Phi:
			for _, e := range y.Edges {
				if e != v && depth < 3 {
					if g := c02globalRoot(e, depth+1); g != nil {
						return g
					}
				}
			}
			return nil
		case *ssa.Call:
			sc := y.Call.StaticCallee()
			if sc == nil || !isRepoFn(sc) || len(sc.Blocks) == 0 || depth > 1 {
				return nil
			}
			var g *ssa.Global
			eachInstr(unwrap(sc), func(i ssa.Instruction) {
				if r, ok := i.(*ssa.Return); ok && len(r.Results) >= 1 && g == nil {
					switch r.Results[0].Type().Underlying().(type) {
					case *types.Pointer, *types.Map, *types.Slice:
						g = c02globalRoot(r.Results[0], depth+1)
					}
				}
			})
			return g
		default:
			return nil
		}
	}
	return nil
}

type c02access struct {
	i     ssa.Instruction
	g     *ssa.Global
	write bool
	what  string
}

// c02globalAccesses: the accesses of f to memory rooted in package-level variables that matter for P10: every write,
// and the reads of maps (lookup, range).
func c02globalAccesses(f *ssa.Function) []c02access {
	var out []c02access
	add := func(i ssa.Instruction, addr ssa.Value, write bool, what string) {
		if g := c02globalRoot(addr, 0); g != nil {
			out = append(out, c02access{i, g, write, what})
		}
	}
	eachInstr(f, func(i ssa.Instruction) {
		switch y := i.(type) {
		case *ssa.Store:
			add(i, y.Addr, true, "store")
		case *ssa.MapUpdate:
			add(i, y.Map, true, "map update")
		case *ssa.Lookup:
			if _, isMap := y.X.Type().Underlying().(*types.Map); isMap {
				add(i, y.X, false, "map lookup")
			}
		case *ssa.Range:
			if _, isMap := y.X.Type().Underlying().(*types.Map); isMap {
				add(i, y.X, false, "map iteration")
			}
		case *ssa.Call:
			if b, isB := y.Call.Value.(*ssa.Builtin); isB && len(y.Call.Args) > 0 {
				switch b.Name() {
				case "delete", "clear", "copy":
					add(i, y.Call.Args[0], true, b.Name())
				}
			}
		}
	})
	return out
}

// c02onceBody: f is a function literal whose only use is as the argument of (*sync.Once).Do.
func c02onceBody(f *ssa.Function) bool {
	if f.Parent() == nil {
		return false
	}
	n, ok := 0, true
	use := func(user ssa.Instruction) {
		n++
		if cc := callCommon(user); cc == nil || calleeName(cc) != "(*sync.Once).Do" {
			ok = false
		}
	}
	eachInstr(f.Parent(), func(i ssa.Instruction) {
		if mc, isMC := i.(*ssa.MakeClosure); isMC {
			if mc.Fn == ssa.Value(f) {
				for _, r := range *mc.Referrers() {
					use(r)
				}
			}
			return
		}
		for _, op := range i.Operands(nil) {
			if op != nil && *op == ssa.Value(f) { // a literal that captures nothing is used as a plain function value
				use(i)
			}
		}
	})
	return ok && n > 0
}

// c02underLock: instruction at runs while a mutex is held (the write side for a write) - in its function, in every
// static caller (for a function that has no other callers), or it is part of a sync.Once body.
func (x *c02pubs) underLock(at ssa.Instruction, write bool, depth int) bool {
	if len(heldAt(at, write)) > 0 {
		return true
	}
	f := at.Parent()
	if c02onceBody(f) {
		return true
	}
	if depth > 2 || !x.onlyStatic(f) {
		return false
	}
	sites := c02sites(f)
	if f.Parent() != nil {
		// a closure: where it is called in its maker
		sites = nil
		eachInstr(f.Parent(), func(i ssa.Instruction) {
			if ci, ok := i.(ssa.CallInstruction); ok && ci.Common().StaticCallee() == f {
				sites = append(sites, ci)
			}
		})
	}
	if len(sites) == 0 {
		return false
	}
	for _, s := range sites {
		if _, isGo := s.(*ssa.Go); isGo || !x.underLock(s, write, depth+1) {
			return false
		}
	}
	return true
}

func runC02P10(c *Ctx) {
	x := c02cur
	if x == nil || x.c != c || len(x.ctors) == 0 {
		c.undecided("C02.P10", "anchor|table constructors", "the table constructors were not found")
		return
	}
	// entries: the constructors, and the exported functions of their package that turn configuration text into
	// definitions (they are called with the same texts from the same goroutines)
	home := rootPkg(x.ctors[0])
	entries := append([]*ssa.Function{}, x.ctors...)
	for _, f := range c02fns(c) {
		if rootPkg(f) != home || f.Parent() != nil || f.Signature.Recv() != nil || !token.IsExported(f.Name()) || x.isCtor(f) {
			continue
		}
		res := f.Signature.Results()
		if res.Len() == 0 || typeStr(res.At(res.Len()-1).Type()) != "error" {
			continue
		}
		takesText := false
		for k := 0; k < f.Signature.Params().Len(); k++ {
			t := f.Signature.Params().At(k).Type()
			if c02isString(t) || c02isStatefulReader(t) || typeStr(t) == "[]byte" || typeStr(t) == "io.Reader" {
				takesText = true
			}
		}
		if takesText && f.Signature.Params().Len() == 1 {
			entries = append(entries, f)
		}
	}
	// who builds tables: the distinct functions outside the package that call an entry
	callers := map[string]bool{}
	for _, e := range entries {
		for _, s := range c02sites(e) {
			if rootPkg(s.Parent()) != home {
				callers[fnKey(s.Parent())] = true
			}
		}
	}
	var callerNames []string
	for k := range callers {
		callerNames = append(callerNames, k)
	}
	sort.Strings(callerNames)
	c.atLeast("C02.P10", "functions outside package route that build tables or parse route texts", len(callers), 2)

	reach := c.c02reach(entries...)
	var fns []*ssa.Function
	for f := range reach {
		if isRepoFn(f) && len(f.Blocks) > 0 && !x.initLike(f, 0) {
			fns = append(fns, f)
		}
	}
	sortFns(fns)
	c.atLeast("C02.P10", "functions reachable from the table constructors", len(fns), 5)

	// package-level maps whose content changes after initialisation (anywhere in the repository)
	mutated := map[*ssa.Global]bool{}
	for _, f := range c02fns(c) {
		if x.initLike(f, 0) {
			continue
		}
		for _, a := range c02globalAccesses(f) {
			if a.write && a.what != "store" {
				mutated[a.g] = true
			}
			if a.write && a.what == "store" {
				// a store that replaces the map kept in the variable
				if st := a.i.(*ssa.Store); st.Addr == ssa.Value(a.g) {
					if _, isMap := st.Val.Type().Underlying().(*types.Map); isMap {
						mutated[a.g] = true
					}
				}
			}
		}
	}
	n := 0
	for _, f := range fns {
		for _, a := range c02globalAccesses(f) {
			if !a.write && !mutated[a.g] {
				continue
			}
			n++
			name := a.g.Pkg.Pkg.Name() + "." + a.g.Name()
			kind := "read"
			if a.write {
				kind = "write"
			}
			c.check("C02.P10", fnKey(f)+"|"+kind+" of package-level state "+name+" under a lock", a.i.Pos(), x.underLock(a.i, a.write, 0),
				"this "+a.what+" on package-level state "+name+" is reachable from table construction / route text parsing, which runs concurrently in several goroutines ("+strings.Join(callerNames, ", ")+
					"; the consul backend validates route commands in parallel service monitors while the update loop builds the next table) and no mutex is held here (for a write: exclusively): two builds race on it - for a map the Go runtime aborts the whole process with 'fatal error: concurrent map writes' / 'concurrent map read and map write', which no recover() catches, so a route configuration that introduces a new path takes fabio down instead of keeping the last good table")
		}
	}
	c.ob("C02.P10", "route|package-level state touched by table construction", token.NoPos, OK, "judged "+itoa(n)+" access(es) in "+itoa(len(fns))+" function(s)")
	if os.Getenv("C02_DEBUG") != "" {
		for _, o := range c.Obs {
			if o.Rule == "C02.L5" || o.Rule == "C02.P10" {
				fmt.Fprintf(os.Stderr, "OB %-11s %-5s [%s] at %s: %s\n", o.Status, o.Rule, o.Construct, o.Pos, firstLine(o.Detail))
			}
		}
	}
}
