package main

import (
	"fmt"
	"go/token"
	"go/types"
	"os"
	"sort"
	"strings"

	"golang.org/x/tools/go/ssa"
)

func init() {
	register(&propDef{
		ID:      "C09",
		Level:   "other",
		Explain: "Structural necessary conditions of byte-stream transparency, each quantifying over all segmentations / close orders. The rules are evaluated per TUNNEL: a tcp.Handler implementation of package proxy/tcp that dials (found through the method set, whatever the receiver kind), or the HTTP handler of package proxy that hijacks the client connection (found by what it does, closure or method alike), together with its REGION (the same-package helpers, closures and goroutine bodies it reaches); sites are found by role inside the region, values are compared by object identity across helper parameters, results, captured variables, struct fields (whoever stores them: constructor, method, field assignment) and methods reached through an interface of the repository (c09_flow.go); a struct that is itself a reader (a buffered connection: embedded net.Conn, Read overridden to read through its bufio.Reader) counts as what its Read method reads from. (B1) once a buffered reader (bufio.NewReader, or the ReadWriter returned by Hijack) has been placed over a connection, the raw connection is never used as a copy source afterwards — the reader is — and a hijacked ReadWriter is not discarded; (B2) a tunnel that starts copy goroutines receives as many completions as it started on every path to return, wherever the go statements and the receives live (otherwise the deferred Close of both sides cuts the direction still running: a client that half-closes after sending loses the reply); the obligation is keyed by the tunnel, not by the function that happens to contain the go statements; (B3) copy loops write exactly buf[0:n] with n the count returned by the read of the same buffer in the same iteration, (a handshake relay that collects one message with several reads into windows buf[n:] writes buf[0:n] once, after its loop, with n the sum of the counts those reads returned - or, the hand-written io.ReadFull, is left towards the write only when that sum has reached len(buf) and writes the buffer unsliced; such a loop may live in a helper of its own whose every return either knows the buffer is full or hands back a non-nil error, the callers then write the buffer whole), and a short or failed write leaves the loop with an error; the Read and the Write of a relay are also recognised behind forwarding helpers (a function that hands its own parameter to one Read / Write and returns exactly what that call returned) and the Write inside a helper that is handed exactly the slice to write and returns an error only - the short-write and error tests are then looked for inside that helper and the caller must test the helper's error; a buffer may be array-backed (Read(hs[:]), Write(hs[:n])); a streaming relay writes the bytes a read returned before it looks at the read error; (B4) when the route asks for the PROXY protocol the header is written before any other byte can reach the upstream, and a buffer filled by a consuming read from the client before the tunnel starts (the captured ClientHello: io.ReadFull / io.ReadAtLeast, or the hand-written equivalent - a Read into the window buf[n:] with n the running count) is written to the upstream, whole (a Write, possibly through a forwarding helper, or io.Copy from a bytes.NewReader over the buffer), before the copy goroutines start; (B5) every tcp.Handler implementation that dials supports the PROXY header option; (W1) every connection wrapper of proxy/tcp (a struct over a net.Conn that implements Read/Write/Close) forwards Read/Write/Close unchanged - to the wrapped connection, or for Read to a reader that was placed over that very connection - and makes no other call of that method on the wrapped connection. (B6) Peek lengths stay within the reader buffer. (B7) no SetLinger(n >= 0) on a tunnel connection (Close would discard queued data); Not decided: byte-for-byte delivery over real sockets (run-time behaviour of the kernel and net package).",
		Run:     runC09,
		Trusted: []string{"bufio.Reader returns buffered bytes before reading from the underlying connection", "io.Copy/copyBuffer deliver what Read returns, in order"},
		Mutants: c09devFilter(append(append(append([]mutant{}, c09mutants...), c09mutants2...), c09mutants3...)...),
	})
}

// ---- tunnels ------------------------------------------------------------------------------------------------------

// c09wsLabel is the recorded construct name of the ROLE "the HTTP handler of package proxy that hijacks the client
// connection and tunnels it" (known-findings.txt). The handler is found by what it does; the label stays the same
// when the closure becomes a method or is renamed, so that the recorded defect of that role is recognised.
const c09wsLabel = "proxy.newWSHandler$1"

type c09relay struct {
	fn     *ssa.Function
	rd, wr *ssa.Call
	sl     *ssa.Slice // the slice expression written, nil when the buffer is written unsliced
	rsl    *ssa.Slice // the window buf[lo:] the read fills when it reads into a part of the buffer (an accumulating read), else nil
	inner  *ssa.Call  // wr is a call of a write-through helper (c09_fwd.go): the Write inside the helper, else nil
}

type c09tunnel struct {
	c         *Ctx
	entry     *ssa.Function
	label     string
	tcp       bool
	reg       []*ssa.Function
	inReg     map[*ssa.Function]bool
	relays    []c09relay
	relayRead map[ssa.Instruction]bool
	unmatched []*ssa.Call // reads of a byte buffer that no write relays
}

func c09newTunnel(c *Ctx, entry *ssa.Function, label string, tcp bool) *c09tunnel {
	t := &c09tunnel{c: c, entry: entry, label: label, tcp: tcp, inReg: map[*ssa.Function]bool{}, relayRead: map[ssa.Instruction]bool{}}
	t.reg = c.regionDepth(6, entry)
	// methods reached through an interface of the repository (an interface where a callback used to be) belong to the
	// region like the closures they replace
	inReg := map[*ssa.Function]bool{}
	for _, f := range t.reg {
		inReg[f] = true
	}
	for k, round := 0, 0; k < len(t.reg) && round < 400; k, round = k+1, round+1 {
		eachInstr(t.reg[k], func(i ssa.Instruction) {
			ci, ok := i.(ssa.CallInstruction)
			if !ok || !c09repoInvoke(ci.Common()) {
				return
			}
			for _, m := range c09invokeTargets(i.Parent(), ci.Common().Value, ci.Common().Method) {
				for _, g := range c.regionDepth(4, m) {
					if !inReg[g] {
						inReg[g] = true
						t.reg = append(t.reg, g)
					}
				}
			}
		})
	}
	for _, f := range t.reg {
		t.inReg[f] = true
		rs, un := c09relaysOf(f)
		t.relays = append(t.relays, rs...)
		t.unmatched = append(t.unmatched, un...)
	}
	for _, r := range t.relays {
		t.relayRead[r.rd] = true
	}
	return t
}

func c09isByteSlice(t types.Type) bool {
	s, ok := t.Underlying().(*types.Slice)
	if !ok {
		return false
	}
	b, ok := s.Elem().Underlying().(*types.Basic)
	return ok && b.Kind() == types.Uint8
}

// c09relaysOf: the (Read, Write) pairs of f in which the Write writes (a slice of) the buffer the Read filled.
func c09relaysOf(f *ssa.Function) (relays []c09relay, unmatched []*ssa.Call) {
	type rdSite struct {
		call  *ssa.Call
		roots map[c09key]ssa.Value
		win   *ssa.Slice
		used  bool
	}
	var reads []*rdSite
	eachInstr(f, func(i ssa.Instruction) {
		call, ok := i.(*ssa.Call)
		if !ok {
			return
		}
		// src.Read(buf), or a call of a helper that forwards to one (c09_fwd.go)
		if _, buf, ok := c09ioFwd(call, "Read", 0); ok {
			args := []ssa.Value{buf}
			rs := &rdSite{call: call, roots: c09roots(args[0])}
			// a read into a window of a buffer (`Read(b[n:])`, the accumulating read of a handshake relay) fills that
			// buffer: the write of (a slice of) the buffer relays it (round 4)
			if win := c09window(args[0]); win != nil {
				rs.win = win
				for k, v := range c09roots(win.X) {
					rs.roots[k] = v
				}
			}
			// a read into the whole of an array-backed buffer (`var hs [1024]byte; Read(hs[:])`) fills that array: the
			// write of another slice of it (hs[:n]) relays it (hardening round 3)
			if sl, ok := args[0].(*ssa.Slice); ok && rs.win == nil && (sl.Low == nil || isZero(sl.Low)) && sl.High == nil && c09isByteBuf(sl.X.Type()) {
				for k, v := range c09roots(sl.X) {
					rs.roots[k] = v
				}
			}
			reads = append(reads, rs)
		}
	})
	if len(reads) == 0 {
		return nil, nil
	}
	eachInstr(f, func(i ssa.Instruction) {
		call, ok := i.(*ssa.Call)
		if !ok {
			return
		}
		_, wbuf, ok := c09ioFwd(call, "Write", 0)
		var inner *ssa.Call
		if !ok {
			// the write block of the loop extracted into a helper that reports with an error only (`flush(dst, buf[:nr])`)
			if inner, wbuf, ok = c09writeThrough(call); !ok {
				return
			}
		}
		args := []ssa.Value{wbuf}
		// the buffer itself, or a slice of it (make([]byte, K) is itself a Slice of an array in SSA: try the value first)
		match := func(buf ssa.Value) *rdSite {
			br := c09roots(buf)
			var hit *rdSite
			for _, r := range reads {
				if c09meet(br, r.roots) && (hit == nil || dominatesInstr(r.call, call)) {
					hit = r
				}
			}
			return hit
		}
		var sl *ssa.Slice
		hit := match(args[0])
		if hit == nil {
			if sl, _ = args[0].(*ssa.Slice); sl != nil {
				hit = match(sl.X)
			}
		}
		if hit == nil {
			return
		}
		hit.used = true
		relays = append(relays, c09relay{fn: f, rd: hit.call, wr: call, sl: sl, rsl: hit.win, inner: inner})
	})
	for _, r := range reads {
		if !r.used && !c09forwardingRead(f, r.call) && !c09fwdInner(f, r.call, "Read") {
			unmatched = append(unmatched, r.call)
		}
	}
	return relays, unmatched
}

// c09window: v is a slice expression x[lo:] / x[lo:hi] (lo present and not the constant 0) over a byte buffer x, or a loop
// variable that is assigned one: a window of a buffer. (make([]byte, K) is itself a Slice of an array in SSA and `b[:n]` has no low bound: neither is a window.)
func c09window(v ssa.Value) *ssa.Slice {
	if phi, ok := v.(*ssa.Phi); ok {
		// a buffer variable of the loop that holds the rest of the buffer: `for rest := b; ...; rest = b[n:]`
		for _, e := range phi.Edges {
			if _, isPhi := e.(*ssa.Phi); !isPhi {
				if w := c09window(e); w != nil {
					return w
				}
			}
		}
		return nil
	}
	sl, ok := v.(*ssa.Slice)
	if !ok || sl.Low == nil || isZero(sl.Low) {
		return nil
	}
	if !c09isByteBuf(sl.X.Type()) {
		return nil
	}
	return sl
}

// c09forwardingRead: f is itself an io.Reader's Read method and rd fills f's own buffer parameter: the Read of a
// reader object (a buffered connection that reads through its bufio.Reader) is a reader, not half of a relay.
func c09forwardingRead(f *ssa.Function, rd *ssa.Call) bool {
	sig := f.Signature
	if sig.Recv() == nil || f.Name() != "Read" || sig.Params().Len() != 1 || !c09isByteSlice(sig.Params().At(0).Type()) || len(f.Params) != 2 {
		return false
	}
	_, args, ok := c09ioCall(&rd.Call, "Read")
	return ok && len(args) == 1 && args[0] == ssa.Value(f.Params[1])
}

// c09recvLabel: "(*proxy/tcp.Proxy).ServeTCP" for a method of Proxy, whatever the receiver kind.
func c09recvLabel(f *ssa.Function) string {
	if f.Signature.Recv() != nil {
		t := f.Signature.Recv().Type()
		if p, ok := t.(*types.Pointer); ok {
			t = p.Elem()
		}
		if n, ok := types.Unalias(t).(*types.Named); ok && n.Obj().Pkg() != nil {
			pk := strings.TrimPrefix(strings.TrimPrefix(n.Obj().Pkg().Path(), repoMod), "/")
			if pk == "" {
				pk = "main"
			}
			return "(*" + pk + "." + n.Obj().Name() + ")." + f.Name()
		}
	}
	return fnKey(f)
}

// c09handlers: the declared ServeTCP methods of the types of proxy/tcp that implement tcp.Handler and dial.
func c09handlers(c *Ctx) (fns []*ssa.Function, nTypes int) {
	sp := c.spkg("proxy/tcp")
	if sp == nil {
		return nil, 0
	}
	var names []string
	for n, m := range sp.Members {
		if _, ok := m.(*ssa.Type); ok {
			names = append(names, n)
		}
	}
	sort.Strings(names)
	seen := map[*ssa.Function]bool{}
	for _, n := range names {
		nt := sp.Members[n].(*ssa.Type).Type()
		if _, isIface := nt.Underlying().(*types.Interface); isIface {
			continue
		}
		for _, tt := range []types.Type{nt, types.NewPointer(nt)} {
			sel := c.Prog.MethodSets.MethodSet(tt).Lookup(sp.Pkg, "ServeTCP")
			if sel == nil {
				continue
			}
			f := c.Prog.MethodValue(sel)
			if f != nil && f.Synthetic != "" {
				// promoted through an embedded field: the declared method
				if obj, ok := sel.Obj().(*types.Func); ok {
					f = c.Prog.FuncValue(obj)
				}
			}
			if f == nil || len(f.Blocks) == 0 || !isRepoFn(f) || len(c.contactSites(f)) == 0 {
				continue
			}
			nTypes++
			if !seen[f] {
				seen[f] = true
				fns = append(fns, f)
			}
			break
		}
	}
	return fns, nTypes
}

func c09isHijack(i ssa.Instruction) bool {
	call, ok := i.(*ssa.Call)
	return ok && call.Call.IsInvoke() && call.Call.Method.Name() == "Hijack"
}

// c09hijackers: the innermost functions of the repository with the signature of an HTTP handler whose region hijacks
// the client connection.
func c09hijackers(c *Ctx) []*ssa.Function {
	isHandlerSig := func(f *ssa.Function) bool {
		ps := f.Signature.Params()
		return ps.Len() == 2 && typeStr(ps.At(0).Type()) == "net/http.ResponseWriter" && typeStr(ps.At(1).Type()) == "*net/http.Request"
	}
	type cand struct {
		f   *ssa.Function
		reg map[*ssa.Function]bool
	}
	var cands []cand
	for _, f := range c.fnsWhere("", isHandlerSig) {
		reg := map[*ssa.Function]bool{}
		hj := false
		for _, g := range c.regionDepth(6, f) {
			reg[g] = true
			eachInstr(g, func(i ssa.Instruction) {
				if c09isHijack(i) {
					hj = true
				}
			})
		}
		if hj {
			cands = append(cands, cand{f, reg})
		}
	}
	var out []*ssa.Function
	for _, x := range cands {
		outer := false
		for _, y := range cands {
			if y.f != x.f && x.reg[y.f] && !y.reg[x.f] {
				outer = true
			}
		}
		if !outer {
			out = append(out, x.f)
		}
	}
	return out
}

func runC09(c *Ctx) {
	c09init(c)
	handlers, nTypes := c09handlers(c)
	c.atLeast("C09.B5", "tcp.Handler implementations that dial", nTypes, 3)
	var tunnels []*c09tunnel
	for _, f := range handlers {
		tunnels = append(tunnels, c09newTunnel(c, f, c09recvLabel(f), true))
	}
	ws := c09hijackers(c)
	if len(ws) == 0 {
		c.undecided("C09.B1", "proxy.newWSHandler|handler closure", "no HTTP handler of package proxy hijacks the client connection: the websocket tunnel is not found")
	}
	for _, f := range ws {
		label := c09recvLabel(f)
		if len(ws) == 1 {
			label = c09wsLabel
		}
		tunnels = append(tunnels, c09newTunnel(c, f, label, false))
	}
	nJoin := 0
	for _, t := range tunnels {
		runC09B1(t)
		if runC09B2(t) {
			nJoin++
		}
	}
	if len(tunnels) > 0 {
		c.atLeast("C09.B2", "tunnels that start copy goroutines", nJoin, 1)
	}
	runC09B3(c, tunnels)
	for _, t := range tunnels {
		if t.tcp {
			runC09B4(t)
		}
		runC09B6(t)
	}
	runC09W1(c)
	runC09B7(c, tunnels)
	if os.Getenv("C09_DEBUG") != "" {
		for _, o := range c.Obs {
			fmt.Fprintf(os.Stderr, "OB %-10s %s [%s] at %s\n", o.Status, o.Rule, o.Construct, o.Pos)
		}
	}
}

// ---- copies -------------------------------------------------------------------------------------------------------

var c09copyFns = map[string]bool{"io.Copy": true, "io.CopyBuffer": true, "io.CopyN": true}

// isCopyInstr: the instruction moves a stream: io.Copy and friends, WriteTo/ReadFrom, or the Read of a relay.
func (t *c09tunnel) isCopyInstr(i ssa.Instruction) bool {
	call, ok := i.(*ssa.Call)
	if !ok {
		return false
	}
	if t.relayRead[i] || c09copyFns[calleeName(&call.Call)] {
		return true
	}
	if _, _, ok := c09ioCall(&call.Call, "WriteTo"); ok {
		return true
	}
	_, _, ok = c09ioCall(&call.Call, "ReadFrom")
	return ok
}

type c09src struct {
	at ssa.Instruction
	v  ssa.Value
}

// copySources: the values streams are copied FROM anywhere in the tunnel's region.
func (t *c09tunnel) copySources() []c09src {
	var out []c09src
	eachInstrOf(t.reg, func(f *ssa.Function, i ssa.Instruction) {
		call, ok := i.(*ssa.Call)
		if !ok {
			return
		}
		switch {
		case c09copyFns[calleeName(&call.Call)] && len(call.Call.Args) >= 2:
			out = append(out, c09src{i, call.Call.Args[1]})
		case t.relayRead[i]:
			recv, _, _ := c09ioFwd(call, "Read", 0)
			out = append(out, c09src{i, recv})
		default:
			if recv, _, ok := c09ioCall(&call.Call, "WriteTo"); ok {
				out = append(out, c09src{i, recv})
			} else if _, args, ok := c09ioCall(&call.Call, "ReadFrom"); ok && len(args) == 1 {
				out = append(out, c09src{i, args[0]})
			}
		}
	})
	return out
}

// goTargets: the repository functions a go statement may start.
func c09goTargets(g *ssa.Go) []*ssa.Function {
	if g.Call.IsInvoke() {
		return c09invokeTargets(g.Parent(), g.Call.Value, g.Call.Method)
	}
	fns := funcsOf(g.Call.Value)
	if sc := g.Call.StaticCallee(); sc != nil && isRepoFn(sc) {
		fns = append(fns, unwrap(sc))
	}
	return fns
}

// c09repoInvoke: a method call through an interface type that is declared in the repository.
func c09repoInvoke(cc *ssa.CallCommon) bool {
	if cc == nil || !cc.IsInvoke() || cc.Method == nil || cc.Method.Pkg() == nil {
		return false
	}
	return strings.HasPrefix(cc.Method.Pkg().Path(), repoMod)
}

// c09reach: fn, its closures, and the repository functions they call (statically, or through a local function value).
func c09reach(fn *ssa.Function, depth int, seen map[*ssa.Function]bool) []*ssa.Function {
	if fn == nil || seen[fn] || depth > 3 {
		return nil
	}
	var out []*ssa.Function
	for _, h := range withAnon(fn) {
		if seen[h] {
			continue
		}
		seen[h] = true
		out = append(out, h)
		eachInstr(h, func(i ssa.Instruction) {
			call, ok := i.(*ssa.Call)
			if !ok || call.Call.IsInvoke() {
				return
			}
			if sc := c09bodyOf(&call.Call); sc != nil {
				out = append(out, c09reach(unwrap(sc), depth+1, seen)...)
			} else if call.Call.StaticCallee() == nil {
				for _, g := range funcsOf(call.Call.Value) {
					out = append(out, c09reach(g, depth+1, seen)...)
				}
			}
		})
	}
	return out
}

// c09invokeTargets: `go x.m(...)` with x of interface type (an interface where a callback used to be): the declared
// methods m of the concrete types that visibly flow into x; when none is visible (x comes out of a field or a
// parameter nobody fills statically), of every type of the package that has such a method.
func c09invokeTargets(in *ssa.Function, x ssa.Value, m *types.Func) []*ssa.Function {
	if in == nil || in.Prog == nil || m == nil {
		return nil
	}
	prog := in.Prog
	var out []*ssa.Function
	seen := map[*ssa.Function]bool{}
	add := func(t types.Type) {
		sel := prog.MethodSets.MethodSet(t).Lookup(m.Pkg(), m.Name())
		if sel == nil {
			return
		}
		f := prog.MethodValue(sel)
		if obj, ok := sel.Obj().(*types.Func); ok {
			if d := prog.FuncValue(obj); d != nil && len(d.Blocks) > 0 {
				f = d
			}
		}
		if f != nil && len(f.Blocks) > 0 && isRepoFn(f) && !seen[f] {
			seen[f] = true
			out = append(out, f)
		}
	}
	w := c09newWalker()
	w.visit = func(v ssa.Value) {
		if mi, ok := v.(*ssa.MakeInterface); ok {
			if _, isIface := mi.X.Type().Underlying().(*types.Interface); !isIface {
				add(mi.X.Type())
			}
		}
	}
	w.walk(x)
	if len(out) > 0 {
		return out
	}
	sp := rootPkg(in)
	if sp == nil {
		return nil
	}
	var names []string
	for n, mem := range sp.Members {
		if _, ok := mem.(*ssa.Type); ok {
			names = append(names, n)
		}
	}
	sort.Strings(names)
	for _, n := range names {
		nt := sp.Members[n].(*ssa.Type).Type()
		if _, isIface := nt.Underlying().(*types.Interface); isIface {
			continue
		}
		for _, t := range []types.Type{nt, types.NewPointer(nt)} {
			if sel := prog.MethodSets.MethodSet(t).Lookup(m.Pkg(), m.Name()); sel != nil && types.Identical(sel.Type().(*types.Signature).Params(), m.Type().(*types.Signature).Params()) {
				add(t)
				break
			}
		}
	}
	return out
}

// isCopyStart: a go statement whose goroutine copies a stream.
func (t *c09tunnel) isCopyStart(i ssa.Instruction) bool {
	g, ok := i.(*ssa.Go)
	if !ok {
		return false
	}
	for _, fn := range c09goTargets(g) {
		if mayExec(fn, t.isCopyInstr, 0) {
			return true
		}
	}
	return false
}

// ---- B1 -----------------------------------------------------------------------------------------------------------

func runC09B1(t *c09tunnel) {
	c := t.c
	type wrap struct {
		at       *ssa.Call
		conn     ssa.Value
		isReader func(ssa.Value) bool
		what     string
		noReader bool
	}
	var wraps []wrap
	eachInstrOf(t.reg, func(f *ssa.Function, i ssa.Instruction) {
		call, ok := i.(*ssa.Call)
		if !ok {
			return
		}
		n := calleeName(&call.Call)
		switch {
		case n == "bufio.NewReader" || n == "bufio.NewReaderSize":
			// only readers over a connection
			w := c09newWalker()
			w.through = true
			w.walk(call.Call.Args[0])
			over := c09connLike(stripIface(call.Call.Args[0]).Type())
			for _, rv := range w.roots {
				if c09connLike(rv.Type()) {
					over = true
				}
			}
			if over {
				wraps = append(wraps, wrap{at: call, conn: call.Call.Args[0], isReader: func(v ssa.Value) bool { return v == ssa.Value(call) }, what: "bufio.NewReader"})
			}
		case c09isHijack(i):
			var conn ssa.Value
			hasRW := false
			for _, r := range *call.Referrers() {
				if e, ok := r.(*ssa.Extract); ok {
					if e.Index == 0 {
						conn = e
					}
					if e.Index == 1 {
						hasRW = true
					}
				}
			}
			wraps = append(wraps, wrap{at: call, conn: conn, noReader: !hasRW, what: "Hijack",
				isReader: func(v ssa.Value) bool {
					e, ok := v.(*ssa.Extract)
					return ok && e.Tuple == ssa.Value(call) && e.Index == 1
				}})
		}
	})
	if len(wraps) == 0 {
		return
	}
	srcs := t.copySources()
	for _, w := range wraps {
		key := t.label + "|" + w.what + " over the client connection"
		if w.noReader {
			c.check("C09.B1", key, w.at.Pos(), false, "the *bufio.ReadWriter returned by Hijack is discarded: bytes the client sent right after its handshake request sit in its buffer and never reach the upstream")
			continue
		}
		var connRoots map[c09key]ssa.Value
		if w.conn != nil {
			cw := c09newWalker()
			cw.through = true // a reader over a reader over the connection
			cw.walk(w.conn)
			connRoots = cw.roots
		}
		// a merge takes the raw connection only on paths that pass the place where the reader is made
		after := reachableFrom([]*ssa.BasicBlock{w.at.Block()}, nil)
		after[w.at.Block()] = true
		rawUsed, readerUsed := false, false
		for _, s := range srcs {
			if !c09mayRunAfter(w.at, s.at, 0) {
				continue // copied (synchronously) before the reader existed
			}
			sw := c09newWalker()
			sw.through = true
			sw.stop = w.isReader
			sw.edgeOK = func(p *ssa.Phi, k int) bool {
				return p.Parent() != w.at.Parent() || after[p.Block().Preds[k]]
			}
			sw.walk(s.v)
			if sw.hit {
				readerUsed = true
			}
			if c09meet(sw.roots, connRoots) {
				rawUsed = true
			}
		}
		c.check("C09.B1", key, w.at.Pos(), !rawUsed && readerUsed,
			"after a buffered reader has read from the client connection the raw connection must not be the copy source (the reader must be): whatever the reader buffered beyond what was parsed — data sent in the same segment as the ClientHello or the handshake request — would be dropped")
	}
}

// c09mayRunAfter: can instruction s execute after w has? Same function: a CFG path from w to s. Another function: yes,
// unless it is a helper that is only called synchronously from places of w's function that w cannot reach (a handshake
// relayed by a helper before the buffered reader is made). Goroutines and anything unresolved count as "after".
func c09mayRunAfter(w, s ssa.Instruction, depth int) bool {
	if s.Parent() == w.Parent() {
		return canReach(w, s)
	}
	if depth > 4 {
		return true
	}
	// a helper that is only ever called synchronously stands for its call sites
	syncSites := func(g *ssa.Function) []ssa.CallInstruction {
		sites := gSites[g]
		if g == nil || len(sites) == 0 || !onlyStaticallyCalled(g) {
			return nil
		}
		for _, site := range sites {
			if _, isCall := site.(*ssa.Call); !isCall {
				return nil
			}
		}
		return sites
	}
	if sites := syncSites(s.Parent()); sites != nil {
		for _, site := range sites {
			if c09mayRunAfter(w, site, depth+1) {
				return true
			}
		}
		return false
	}
	// the reader is made in a helper (a constructor of a buffered connection): after w = after the call of the helper
	// (s is not in that helper nor below it, or the branch above would have met w's function)
	if sites := syncSites(w.Parent()); sites != nil {
		for _, site := range sites {
			if c09mayRunAfter(site, s, depth+1) {
				return true
			}
		}
		return false
	}
	return true
}

// ---- B2 -----------------------------------------------------------------------------------------------------------

type c09join struct {
	t         *c09tunnel
	sendRoots map[c09key]ssa.Value
	hasWG     bool
	memo      map[*ssa.Function][2]int
	busy      map[*ssa.Function]bool
	lastGo    *ssa.Go
}

func c09isWait(cc *ssa.CallCommon) bool {
	n := calleeName(cc)
	return n == "(*sync.WaitGroup).Wait" || strings.HasSuffix(n, "errgroup.Group).Wait")
}

// collect: the channels the goroutine started by g reports on.
func (j *c09join) collect(g *ssa.Go) {
	if j.lastGo == nil || g.Pos() > j.lastGo.Pos() {
		j.lastGo = g
	}
	for _, fn := range c09goTargets(g) {
		for _, h := range c09reach(fn, 0, map[*ssa.Function]bool{}) {
			eachInstr(h, func(i ssa.Instruction) {
				if snd, ok := i.(*ssa.Send); ok {
					w := c09newWalker()
					if g.Call.IsInvoke() && len(fn.Params) > 0 {
						// the receiver of a method started through an interface is the object in the interface
						w.bind[fn.Params[0]] = []ssa.Value{g.Call.Value}
					}
					w.walk(snd.Chan)
					for k, v := range w.roots {
						j.sendRoots[k] = v
					}
				}
				if cc := callCommon(i); cc != nil && calleeName(cc) == "(*sync.WaitGroup).Done" {
					j.hasWG = true
				}
			})
		}
	}
}

func (j *c09join) isCompletionChan(ch ssa.Value) bool {
	return c09meet(c09roots(ch), j.sendRoots)
}

// worst: over the paths of f from entry to return, the one that leaves most started copy goroutines un-awaited:
// (starts, completions received). Calls of repository helpers contribute their own worst path.
func (j *c09join) worst(f *ssa.Function, depth int) (int, int) {
	if f == nil || len(f.Blocks) == 0 || depth > 4 || j.busy[f] {
		return 0, 0
	}
	if m, ok := j.memo[f]; ok {
		return m[0], m[1]
	}
	j.busy[f] = true
	defer delete(j.busy, f)
	deferWait := false
	eachInstr(f, func(i ssa.Instruction) {
		if d, ok := i.(*ssa.Defer); ok && c09isWait(&d.Call) {
			deferWait = true
		}
	})
	// loops with a constant trip count (for i := 0; i < K; i++ / for range K): the body runs K times, the path that
	// skips the body does not exist; everything received in the body counts K-fold and the body is walked once
	counted := c09countedLoops(f)
	weight := func(b *ssa.BasicBlock) int {
		for _, cl := range counted {
			if cl.body[b] && (b != cl.head || cl.latch != nil) {
				return cl.k
			}
		}
		return 1
	}
	latches := map[*ssa.BasicBlock]*c09loop{}
	for _, cl := range counted {
		if cl.latch != nil {
			latches[cl.latch] = cl
		}
	}
	type item struct {
		b       *ssa.BasicBlock
		s, r    int
		viaBack bool
	}
	type bkey struct {
		b       *ssa.BasicBlock
		viaBack bool
	}
	best := map[bkey][2]int{} // (outstanding, starts) of the worst state a block was entered with
	resS, resR, have := 0, 0, false
	stack := []item{{f.Blocks[0], 0, 0, false}}
	for len(stack) > 0 {
		it := stack[len(stack)-1]
		stack = stack[:len(stack)-1]
		s, r := it.s, it.r
		returned := false
		wt := weight(it.b)
		for _, in := range it.b.Instrs {
			switch x := in.(type) {
			case *ssa.Go:
				if j.t.isCopyStart(x) {
					j.collect(x)
					if s < 8 {
						s++
					}
				}
			case *ssa.UnOp:
				if x.Op == token.ARROW && j.isCompletionChan(x.X) {
					r += wt
				}
			case *ssa.Select:
				for _, st := range x.States {
					if st.Dir == types.RecvOnly && j.isCompletionChan(st.Chan) {
						r += wt
						break
					}
				}
			case *ssa.Call:
				if c09isWait(&x.Call) {
					r = s
				} else if sc := c09bodyOf(&x.Call); sc != nil {
					hs, hr := j.worst(unwrap(sc), depth+1)
					s, r = s+hs, r+hr
				} else if c09repoInvoke(&x.Call) {
					// a step of the tunnel behind an interface of the repository: the worst of its implementations
					bs, br := 0, 0
					for _, m := range c09invokeTargets(x.Parent(), x.Call.Value, x.Call.Method) {
						if hs, hr := j.worst(m, depth+1); hs-hr > bs-br || (hs-hr == bs-br && hs > bs) {
							bs, br = hs, hr
						}
					}
					s, r = s+bs, r+br
				}
			case *ssa.Return:
				if deferWait {
					r = s
				}
				if !have || s-r > resS-resR || (s-r == resS-resR && s > resS) {
					resS, resR, have = s, r, true
				}
				returned = true
			}
		}
		if returned {
			continue
		}
		cl := counted[it.b]
		if cl != nil && cl.latch != nil {
			cl = nil // rotated loop: the test sits in the latch
		}
		for k, nb := range it.b.Succs {
			if cl != nil && cl.body[nb] == it.viaBack {
				continue // first entry: into the body only; back from the body: out of the loop only
			}
			if rl := latches[it.b]; rl != nil && nb == rl.head {
				continue // rotated loop: the body was walked once with K-fold weight
			}
			if truth, isK := c09constCond(it.b); isK && (k == 0) != truth {
				continue // `0 < 2` guarding a rotated loop: the other edge does not exist
			}
			via := false
			if h := counted[nb]; h != nil && h.latch == nil && h.body[it.b] {
				via = true
			}
			bk := bkey{nb, via}
			if old, ok := best[bk]; ok && (old[0] > s-r || (old[0] == s-r && old[1] >= s)) {
				continue
			}
			best[bk] = [2]int{s - r, s}
			stack = append(stack, item{nb, s, r, via})
		}
	}
	j.memo[f] = [2]int{resS, resR}
	return resS, resR
}

type c09loop struct {
	head  *ssa.BasicBlock
	latch *ssa.BasicBlock // rotated loop (for range K): the block that tests i+1 < K and jumps back to head
	body  map[*ssa.BasicBlock]bool
	k     int
}

// c09constCond: block b ends in an If on a comparison of two integer constants; its value.
func c09constCond(b *ssa.BasicBlock) (truth, ok bool) {
	if len(b.Instrs) == 0 {
		return false, false
	}
	iff, isIf := b.Instrs[len(b.Instrs)-1].(*ssa.If)
	if !isIf {
		return false, false
	}
	cmp, isB := iff.Cond.(*ssa.BinOp)
	if !isB {
		return false, false
	}
	x, okX := constInt(cmp.X)
	y, okY := constInt(cmp.Y)
	if !okX || !okY {
		return false, false
	}
	switch cmp.Op {
	case token.LSS:
		return x < y, true
	case token.LEQ:
		return x <= y, true
	case token.GTR:
		return x > y, true
	case token.GEQ:
		return x >= y, true
	case token.EQL:
		return x == y, true
	case token.NEQ:
		return x != y, true
	}
	return false, false
}

// c09countedLoops: the natural loops of f with a constant trip count K (1..8) and an induction variable that starts
// at 0 and is incremented by 1: `for i := 0; i < K; i++` (test in the header) and `for range K` (rotated by the SSA
// builder: the header is the body, the latch tests i+1 < K).
func c09countedLoops(f *ssa.Function) map[*ssa.BasicBlock]*c09loop {
	out := map[*ssa.BasicBlock]*c09loop{}
	lastIf := func(b *ssa.BasicBlock) *ssa.BinOp {
		if len(b.Instrs) == 0 || len(b.Succs) != 2 {
			return nil
		}
		iff, ok := b.Instrs[len(b.Instrs)-1].(*ssa.If)
		if !ok {
			return nil
		}
		cmp, ok := iff.Cond.(*ssa.BinOp)
		if !ok || cmp.Op != token.LSS {
			return nil
		}
		if k, isK := constInt(cmp.Y); !isK || k < 1 || k > 8 {
			return nil
		}
		return cmp
	}
	// induction: phi in h with edges {0, phi+1}; returns the increment
	induction := func(phi *ssa.Phi, h *ssa.BasicBlock) ssa.Value {
		if phi.Block() != h || len(phi.Edges) != 2 {
			return nil
		}
		var inc ssa.Value
		init := false
		for _, e := range phi.Edges {
			if isZero(e) {
				init = true
			} else if b, ok := e.(*ssa.BinOp); ok && b.Op == token.ADD && b.X == ssa.Value(phi) {
				if one, ok := constInt(b.Y); ok && one == 1 {
					inc = b
				}
			}
		}
		if !init {
			return nil
		}
		return inc
	}
	for _, l := range loopsOf(f) {
		h := l.Head
		if cmp := lastIf(h); cmp != nil {
			phi, isPhi := cmp.X.(*ssa.Phi)
			if isPhi && induction(phi, h) != nil && l.Body[h.Succs[0]] && !l.Body[h.Succs[1]] {
				k, _ := constInt(cmp.Y)
				out[h] = &c09loop{head: h, body: l.Body, k: int(k)}
				continue
			}
		}
		// rotated: a single latch in the body tests inc < K, true edge back to the header
		var latch *ssa.BasicBlock
		nBack := 0
		for _, p := range h.Preds {
			if l.Body[p] {
				nBack++
				latch = p
			}
		}
		if nBack != 1 {
			continue
		}
		cmp := lastIf(latch)
		if cmp == nil || latch.Succs[0] != h || l.Body[latch.Succs[1]] {
			continue
		}
		inc, ok := cmp.X.(*ssa.BinOp)
		if !ok {
			continue
		}
		phi, isPhi := inc.X.(*ssa.Phi)
		if !isPhi || induction(phi, h) != ssa.Value(inc) {
			continue
		}
		// no other way out of the loop than the latch (a break would leave early)
		exits := 0
		for b := range l.Body {
			for _, sc := range b.Succs {
				if !l.Body[sc] {
					exits++
				}
			}
		}
		if exits != 1 {
			continue
		}
		k, _ := constInt(cmp.Y)
		out[h] = &c09loop{head: h, latch: latch, body: l.Body, k: int(k)}
	}
	return out
}

// runC09B2 reports whether the tunnel starts copy goroutines (the rule applied).
func runC09B2(t *c09tunnel) bool {
	c := t.c
	j := &c09join{t: t, sendRoots: map[c09key]ssa.Value{}, memo: map[*ssa.Function][2]int{}, busy: map[*ssa.Function]bool{}}
	// first pass: learn the completion channels of all copy goroutines of the region, second pass: count
	eachInstrOf(t.reg, func(f *ssa.Function, i ssa.Instruction) {
		if g, ok := i.(*ssa.Go); ok && t.isCopyStart(g) {
			j.collect(g)
		}
	})
	s, r := j.worst(t.entry, 0)
	if s < 2 || j.lastGo == nil {
		return false
	}
	if len(j.sendRoots) == 0 && !j.hasWG {
		c.undecided("C09.B2", t.label+"|completion channel", "copy goroutines do not report on a channel")
		return true
	}
	// "errc" names the role (the completion channel of the tunnel's copy goroutines), not the variable
	c.check("C09.B2", t.label+"|chan_errc", j.lastGo.Pos(), r >= s,
		"the tunnel starts "+itoa(s)+" copy goroutines but a path to return receives only "+itoa(r)+" completion(s); the deferred Close of both connections then cuts the direction still running — a client that half-closes after sending (shutdown(SHUT_WR)) ends client->upstream first and never receives the reply")
	return true
}

func itoa(n int) string {
	if n < 0 {
		return "-" + itoa(-n)
	}
	if n < 10 {
		return string(rune('0' + n))
	}
	return itoa(n/10) + string(rune('0'+n%10))
}
