package main

import (
	"go/token"
	"go/types"
	"strings"

	"golang.org/x/tools/go/ssa"
)

func init() {
	register(&propDef{
		ID:      "C09",
		Level:   "other",
		Explain: "Structural necessary conditions of byte-stream transparency, each quantifying over all segmentations / close orders: (B1) once a buffered reader (bufio.NewReader, or the ReadWriter returned by Hijack) has been placed over a client connection, the raw connection is never used as a copy source — the reader is — and a hijacked ReadWriter is not discarded; (B2) a function that starts copy goroutines reporting on one channel receives as many completions as it started on every path to return (otherwise the deferred Close of both sides cuts the direction still running: a client that half-closes after sending loses the reply); (B3) copy loops write exactly buf[0:n] with n the count returned by the read of the same buffer in the same iteration, and a short or failed write leaves the loop with an error; (B4) when the route asks for the PROXY protocol the header is written before any other byte can reach the upstream, and a buffer filled by a consuming read from the client before the tunnel starts (the captured ClientHello) is written to the upstream, whole, before the copy goroutines start; (B5) every tcp.Handler implementation that dials supports the PROXY header option; (W1) the tcp.conn wrapper forwards Read/Write/Close unchanged. Also: a relay writes the bytes a read returned before it looks at the read error, and Peek lengths stay within the reader buffer (B6). (B7) no SetLinger(n >= 0) on a tunnel connection (Close would discard queued data); Not decided: byte-for-byte delivery over real sockets (run-time behaviour of the kernel and net package).",
		Run:     runC09,
		Trusted: []string{"bufio.Reader returns buffered bytes before reading from the underlying connection", "io.Copy/copyBuffer deliver what Read returns, in order"},
		Mutants: []mutant{
			{Name: "abortive close configured on the upstream connection", File: "proxy/tcp/tcp_proxy.go", Old: "\tdefer out.Close()\n", New: "\tdefer out.Close()\n\tif tc, ok := out.(*net.TCPConn); ok {\n\t\ttc.SetLinger(0)\n\t}\n", Expect: "C09.B7"},
			{Name: "benign: default linger restored explicitly", File: "proxy/tcp/tcp_proxy.go", Old: "\tdefer out.Close()\n", New: "\tdefer out.Close()\n\tif tc, ok := out.(*net.TCPConn); ok {\n\t\ttc.SetLinger(-1)\n\t}\n", Expect: ""},

			{Name: "SNI proxy copies from the raw connection again", File: "proxy/tcp/sni_proxy.go", Old: "go cp(out, tlsReader, t.TxCounter)", New: "go cp(out, in, t.TxCounter)", Expect: "C09.B1"},
			{Name: "ws handler discards the hijacked reader", File: "proxy/ws_handler.go", Old: "go cp(out, brw)", New: "_ = brw\n\t\tgo cp(out, in)", Expect: "C09.B1"},
			{Name: "copyBuffer writes one byte less", File: "proxy/tcp/copy_buffer.go", Old: "nw, ew := dst.Write(buf[0:nr])", New: "nw, ew := dst.Write(buf[0 : nr-1])", Expect: "C09.B3"},
			{Name: "copyBuffer writes the whole buffer", File: "proxy/tcp/copy_buffer.go", Old: "nw, ew := dst.Write(buf[0:nr])", New: "nw, ew := dst.Write(buf)", Expect: "C09.B3"},
			{Name: "read error examined before the bytes are written", File: "proxy/tcp/copy_buffer.go", Old: "\t\tnr, er := src.Read(buf)\n\t\tif nr > 0 {", New: "\t\tnr, er := src.Read(buf)\n\t\tif er != nil {\n\t\t\tif er != io.EOF {\n\t\t\t\terr = er\n\t\t\t}\n\t\t\tbreak\n\t\t}\n\t\tif nr > 0 {", Expect: "C09.B3"},
			{Name: "short write ignored", File: "proxy/tcp/copy_buffer.go", Old: "\t\t\tif nr != nw {\n\t\t\t\terr = io.ErrShortWrite\n\t\t\t\tbreak\n\t\t\t}\n", New: "", Expect: "C09.B3"},
			{Name: "PROXY header after the ClientHello", File: "proxy/tcp/sni_proxy.go", Old: "\t// write the data already read from the connection\n\tn, err := out.Write(data)", New: "\t// write the data already read from the connection\n\tn, err := out.Write(data)\n\tif t.ProxyProto {\n\t\tWriteProxyHeader(out, in)\n\t}", Expect: "C09.B4"},
			{Name: "captured ClientHello not replayed", File: "proxy/tcp/sni_proxy.go", Old: "\tn, err := out.Write(data)\n", New: "\tn, err := len(data), error(nil)\n", Expect: "C09.B4"},
			{Name: "captured ClientHello replayed without its record header", File: "proxy/tcp/sni_proxy.go", Old: "\tn, err := out.Write(data)\n", New: "\tn, err := out.Write(data[5:])\n", Expect: "C09.B4"},
			{Name: "dynamic proxy ignores pxyproto again", File: "proxy/tcp/tcp_dynamic_proxy.go", Old: "\tif t.ProxyProto {\n\t\terr := WriteProxyHeader(out, in)", New: "\tif false {\n\t\terr := WriteProxyHeader(out, in)", Expect: "C09.B"},
			{Name: "conn.Read reads into a shorter slice", File: "proxy/tcp/server.go", Old: "\treturn c.c.Read(b)", New: "\treturn c.c.Read(b[:len(b)/2])", Expect: "C09.W1"},
			{Name: "conn.Write drops the error", File: "proxy/tcp/server.go", Old: "\treturn c.c.Write(b)", New: "\tn, _ := c.c.Write(b)\n\treturn n, nil", Expect: "C09.W1"},
			{Name: "benign: MultiReader as copy source", File: "proxy/tcp/sni_proxy.go", Old: "go cp(out, tlsReader, t.TxCounter)", New: "go cp(out, io.MultiReader(tlsReader), t.TxCounter)", Expect: ""},
		},
	})
}

func runC09(c *Ctx) {
	var handlers []*ssa.Function
	for _, f := range c.AllFns {
		if f.Name() == "ServeTCP" && f.Signature.Recv() != nil && f.Pkg == c.spkg("proxy/tcp") && len(c.contactSites(f)) > 0 {
			handlers = append(handlers, f)
		}
	}
	c.atLeast("C09.B5", "tcp.Handler implementations that dial", len(handlers), 3)
	var ws *ssa.Function
	if nw := c.fn("proxy", "newWSHandler"); nw != nil && len(nw.AnonFuncs) > 0 {
		ws = nw.AnonFuncs[0]
	}
	if ws == nil {
		c.undecided("C09.B1", "proxy.newWSHandler|handler closure", "not found")
	}
	tunnels := append([]*ssa.Function{}, handlers...)
	if ws != nil {
		tunnels = append(tunnels, ws)
	}
	for _, f := range tunnels {
		runC09B1(c, f)
		runC09B2(c, f)
	}
	runC09B3(c, ws)
	runC09B3c(c)
	for _, f := range handlers {
		runC09B4(c, f)
		runC09B6(c, f)
	}
	runC09W1(c)
	// B7: no tunnel end is configured to discard unsent data on close
	for _, f := range c.AllFns {
		if rootPkg(f) != c.spkg("proxy/tcp") && rootPkg(f) != c.spkg("proxy") {
			continue
		}
		eachInstr(f, func(i ssa.Instruction) {
			cc := callCommon(i)
			if cc == nil || !strings.HasSuffix(calleeName(cc), ".SetLinger") {
				return
			}
			sec, isK := constInt(cc.Args[len(cc.Args)-1])
			c.check("C09.B7", fnKey(f)+"|SetLinger on a tunnel connection", i.Pos(), isK && sec < 0,
				"SetLinger(n >= 0) makes Close discard data that is still queued (n == 0 sends RST at once): when the other side finishes first, the deferred Close of this connection throws away the tail of the stream — whichever side finishes first must have had all of its data delivered")
		})
	}
	c.ob("C09.B7", "proxy, proxy/tcp|no linger override on tunnel connections", token.NoPos, OK, "scanned for SetLinger calls")
}

// copyStarts: go statements in f (incl. closures called via `go cp(dst, src, ...)`) with (dst, src) arguments.
type copyStart struct {
	g        *ssa.Go
	dst, src ssa.Value
}

func copyStartsOf(f *ssa.Function) []copyStart {
	var out []copyStart
	eachInstr(f, func(i ssa.Instruction) {
		g, ok := i.(*ssa.Go)
		if !ok || len(g.Call.Args) < 2 {
			return
		}
		out = append(out, copyStart{g, stripIface(g.Call.Args[0]), stripIface(g.Call.Args[1])})
	})
	return out
}

func runC09B1(c *Ctx, f *ssa.Function) {
	// buffered readers over a connection
	type wrap struct {
		conn   ssa.Value
		reader ssa.Value
		pos    token.Pos
		what   string
	}
	var wraps []wrap
	eachInstr(f, func(i ssa.Instruction) {
		call, ok := i.(*ssa.Call)
		if !ok {
			return
		}
		switch {
		case calleeName(&call.Call) == "bufio.NewReader" || calleeName(&call.Call) == "bufio.NewReaderSize":
			wraps = append(wraps, wrap{stripIface(call.Call.Args[0]), call, call.Pos(), "bufio.NewReader"})
		case call.Call.IsInvoke() && call.Call.Method.Name() == "Hijack":
			var conn, rw ssa.Value
			for _, r := range *call.Referrers() {
				if e, ok := r.(*ssa.Extract); ok {
					if e.Index == 0 {
						conn = e
					}
					if e.Index == 1 {
						rw = e
					}
				}
			}
			wraps = append(wraps, wrap{conn, rw, call.Pos(), "Hijack"})
		}
	})
	if len(wraps) == 0 {
		return
	}
	starts := copyStartsOf(f)
	for _, w := range wraps {
		key := fnKey(f) + "|" + w.what + " over the client connection"
		if w.reader == nil {
			c.check("C09.B1", key, w.pos, false, "the *bufio.ReadWriter returned by Hijack is discarded: bytes the client sent right after its handshake request sit in its buffer and never reach the upstream")
			continue
		}
		rawUsed, readerUsed := false, false
		for _, s := range starts {
			if w.conn != nil && s.src == w.conn {
				rawUsed = true
			}
			if s.src == w.reader || derives(s.src, func(v ssa.Value) bool { return v == w.reader }) {
				readerUsed = true
			}
		}
		// also synchronous copies (io.Copy / copy helpers called directly)
		eachInstr(f, func(i ssa.Instruction) {
			call, ok := i.(*ssa.Call)
			if !ok {
				return
			}
			n := calleeName(&call.Call)
			if n == "io.Copy" || n == "io.CopyBuffer" || n == "io.CopyN" {
				src := stripIface(call.Call.Args[1])
				if w.conn != nil && src == w.conn {
					rawUsed = true
				}
				if src == w.reader {
					readerUsed = true
				}
			}
		})
		c.check("C09.B1", key, w.pos, !rawUsed && readerUsed,
			"after a buffered reader has read from the client connection the raw connection must not be the copy source (the reader must be): whatever the reader buffered beyond what was parsed — data sent in the same segment as the ClientHello or the handshake request — would be dropped")
	}
}

func runC09B2(c *Ctx, f *ssa.Function) {
	starts := copyStartsOf(f)
	if len(starts) < 2 {
		return
	}
	// the completion channel: the one the started closures send on
	var ch ssa.Value
	for _, s := range starts {
		var fn *ssa.Function
		switch v := s.g.Call.Value.(type) {
		case *ssa.MakeClosure:
			fn = v.Fn.(*ssa.Function)
		case *ssa.Function:
			fn = v
		}
		if fn == nil {
			continue
		}
		eachInstr(fn, func(i ssa.Instruction) {
			if snd, ok := i.(*ssa.Send); ok {
				// free variable -> binding
				if fv, ok := stripLoad(snd.Chan).(*ssa.FreeVar); ok {
					if mc, ok := s.g.Call.Value.(*ssa.MakeClosure); ok {
						for k, x := range fn.FreeVars {
							if x == fv {
								ch = mc.Bindings[k]
							}
						}
					}
				}
			}
		})
	}
	if ch == nil {
		c.undecided("C09.B2", fnKey(f)+"|completion channel", "copy goroutines do not report on a channel")
		return
	}
	isRecv := func(i ssa.Instruction) bool {
		u, ok := i.(*ssa.UnOp)
		if !ok || u.Op != token.ARROW {
			return false
		}
		x := u.X
		if l, ok := x.(*ssa.UnOp); ok && l.Op == token.MUL {
			x = l.X
		}
		return x == ch || u.X == ch
	}
	// minimum number of receives on any path from the last go statement to a return
	last := starts[len(starts)-1].g
	type state struct {
		b   *ssa.BasicBlock
		idx int
	}
	best := map[*ssa.BasicBlock]int{}
	minRecv := -1
	type item struct {
		s state
		n int
	}
	queue := []item{{state{last.Block(), instrIndex(last) + 1}, 0}}
	for len(queue) > 0 {
		it := queue[0]
		queue = queue[1:]
		n := it.n
		returned := false
		for k := it.s.idx; k < len(it.s.b.Instrs); k++ {
			in := it.s.b.Instrs[k]
			if isRecv(in) {
				n++
			}
			if _, ok := in.(*ssa.Return); ok {
				if minRecv < 0 || n < minRecv {
					minRecv = n
				}
				returned = true
			}
		}
		if returned {
			continue
		}
		for _, s := range it.s.b.Succs {
			if old, seen := best[s]; seen && old <= n {
				continue
			}
			best[s] = n
			queue = append(queue, item{state{s, 0}, n})
		}
	}
	chName := "errc"
	if a, ok := ch.(*ssa.Alloc); ok && a.Comment != "" {
		chName = a.Comment
	}
	c.check("C09.B2", fnKey(f)+"|chan_"+chName, last.Pos(), minRecv >= len(starts),
		"the function starts "+itoa(len(starts))+" copy goroutines but a path to return receives only "+itoa(minRecv)+" completion(s); the deferred Close of both connections then cuts the direction still running — a client that half-closes after sending (shutdown(SHUT_WR)) ends client->upstream first and never receives the reply")
}

func itoa(n int) string {
	if n < 0 {
		return "-" + itoa(-n)
	}
	if n < 10 {
		return string(rune('0' + n))
	}
	return itoa(n/10) + string(rune('0'+n%10))
}

// runC09B3: copy loops.
func runC09B3(c *Ctx, ws *ssa.Function) {
	cb := c.fn("proxy/tcp", "copyBuffer")
	if !c.need("C09.B3", cb, "tcp.copyBuffer") {
		return
	}
	checkRelay := func(f *ssa.Function, name string) {
		n := 0
		eachInstr(f, func(i ssa.Instruction) {
			call, ok := i.(*ssa.Call)
			if !ok || !call.Call.IsInvoke() || call.Call.Method.Name() != "Write" || len(call.Call.Args) != 1 {
				return
			}
			arg := call.Call.Args[0]
			// only relays: the written bytes come from a Read in the same function
			sl, isSlice := arg.(*ssa.Slice)
			var buf ssa.Value = arg
			if isSlice {
				buf = sl.X
			}
			var rd *ssa.Call
			eachInstr(f, func(j ssa.Instruction) {
				if rc, ok := j.(*ssa.Call); ok && rc.Call.IsInvoke() && rc.Call.Method.Name() == "Read" && len(rc.Call.Args) == 1 {
					if rc.Call.Args[0] == buf || (isSlice && rc.Call.Args[0] == sl.X) {
						rd = rc
					}
				}
			})
			if rd == nil {
				return
			}
			n++
			okSlice := isSlice && (sl.Low == nil || isZero(sl.Low)) && sl.High != nil
			if okSlice {
				e, isE := sl.High.(*ssa.Extract)
				okSlice = isE && e.Tuple == rd && e.Index == 0
			}
			// same iteration: the read dominates the write and no loop header lies strictly between them
			okSlice = okSlice && dominatesInstr(rd, call)
			c.check("C09.B3", name+"|writes exactly the bytes just read", call.Pos(), okSlice,
				"the relay must write buf[0:n] with n the count returned by the read of the same buffer in this iteration; anything else drops, duplicates or invents bytes")
			// short write / write error leave with an error
			var nw, ew ssa.Value
			for _, r := range *call.Referrers() {
				if e, ok := r.(*ssa.Extract); ok {
					if e.Index == 0 {
						nw = e
					} else {
						ew = e
					}
				}
			}
			var nr ssa.Value
			for _, r := range *rd.Referrers() {
				if e, ok := r.(*ssa.Extract); ok && e.Index == 0 {
					nr = e
				}
			}
			shortChecked, errChecked := false, false
			eachInstr(f, func(j ssa.Instruction) {
				b, ok := j.(*ssa.BinOp)
				if !ok {
					return
				}
				if (b.Op == token.NEQ || b.Op == token.EQL) && nw != nil && nr != nil && ((b.X == nr && b.Y == nw) || (b.X == nw && b.Y == nr)) {
					shortChecked = true
				}
				if b.Op == token.NEQ && ew != nil && b.X == ew && isNilConst(b.Y) {
					errChecked = true
				}
			})
			c.check("C09.B3", name+"|short or failed writes end the relay with an error", call.Pos(), shortChecked && errChecked,
				"a write that fails or accepts fewer bytes than were read must end the copy (error): continuing silently loses the remainder")
		})
		if n == 0 {
			c.undecided("C09.B3", name+"|relay write", "no Write of a buffer filled by Read found")
		}
	}
	checkRelay(cb, "proxy/tcp.copyBuffer")
	if ws != nil {
		checkRelay(ws, "proxy.newWSHandler$1 (handshake relay)")
	}
}

func isZero(v ssa.Value) bool {
	k, ok := constInt(v)
	return ok && k == 0
}

// runC09B6: a Peek on a default-sized bufio.Reader cannot return more than its buffer (4096 bytes):
// a computed Peek length makes the handler fail for larger first records.
func runC09B6(c *Ctx, f *ssa.Function) {
	eachInstr(f, func(i ssa.Instruction) {
		call, ok := i.(*ssa.Call)
		if !ok || calleeName(&call.Call) != "(*bufio.Reader).Peek" {
			return
		}
		n, isK := constInt(call.Call.Args[1])
		sized := false
		derives(call.Call.Args[0], func(v ssa.Value) bool {
			if _, ok := isCallTo(v, "bufio.NewReaderSize"); ok {
				sized = true
			}
			return false
		})
		c.check("C09.B6", fnKey(f)+"|Peek length within the reader's buffer", call.Pos(), (isK && n <= 4096) || sized,
			"bufio.Reader.Peek(n) fails with ErrBufferFull when n exceeds the reader's buffer (4096 bytes for bufio.NewReader): peeking a computed length (e.g. a whole ClientHello) rejects every connection whose first record is larger; read it with io.ReadFull and replay it instead")
	})
}

func runC09B4(c *Ctx, f *ssa.Function) {
	wph := c.fn("proxy/tcp", "WriteProxyHeader")
	if !c.need("C09.B4", wph, "tcp.WriteProxyHeader") {
		return
	}
	// the upstream connection: result of the dial
	var out ssa.Value
	eachInstr(f, func(i ssa.Instruction) {
		if call, ok := i.(*ssa.Call); ok && strings.HasPrefix(calleeName(&call.Call), "net.Dial") {
			for _, r := range *call.Referrers() {
				if e, ok := r.(*ssa.Extract); ok && e.Index == 0 {
					out = e
				}
			}
		}
	})
	if out == nil {
		c.undecided("C09.B4", fnKey(f)+"|upstream connection", "dial result not found")
		return
	}
	var hdr []ssa.Instruction
	eachInstr(f, func(i ssa.Instruction) {
		if staticCalleeIs(i, wph) {
			hdr = append(hdr, i)
		}
	})
	okHdr := len(hdr) > 0
	for _, h := range hdr {
		guard := false
		for _, ft := range factsAt(h.Block()) {
			if _, isF := fieldOf(ft.Cond, "route.Target", "ProxyProto"); isF && ft.Truth {
				guard = true
			}
		}
		if !guard || stripIface(callCommon(h).Args[0]) != out {
			okHdr = false
		}
	}
	c.check("C09.B5", fnKey(f)+"|PROXY protocol header supported", f.Pos(), okHdr,
		"every tunnel handler must write the PROXY header to the upstream on the Target.ProxyProto edge like its siblings; an upstream configured for the PROXY protocol otherwise parses the client's first bytes as the header")
	// anything that writes to the upstream
	var writers []ssa.Instruction
	eachInstr(f, func(i ssa.Instruction) {
		switch x := i.(type) {
		case *ssa.Call:
			if x.Call.IsInvoke() && x.Call.Method.Name() == "Write" && x.Call.Value == out {
				writers = append(writers, i)
			}
		case *ssa.Go:
			if len(x.Call.Args) >= 1 && stripIface(x.Call.Args[0]) == out {
				writers = append(writers, i)
			}
		}
	})
	for _, h := range hdr {
		bad := false
		for _, w := range writers {
			if pathAvoiding(w, h, nil) {
				bad = true
			}
		}
		c.check("C09.B4", fnKey(f)+"|PROXY header is the first write on the upstream", h.Pos(), !bad,
			"the PROXY line must precede every other byte on the upstream connection; a write that can run before it makes the upstream misparse the stream")
	}
	// consuming reads before the tunnel starts
	starts := copyStartsOf(f)
	eachInstr(f, func(i ssa.Instruction) {
		call, ok := i.(*ssa.Call)
		if !ok {
			return
		}
		n := calleeName(&call.Call)
		if n != "io.ReadFull" && n != "io.ReadAtLeast" {
			return
		}
		buf := call.Call.Args[1]
		replay := false
		var rp ssa.Instruction
		for _, w := range writers {
			if wc, ok := w.(*ssa.Call); ok && wc.Call.Args[0] == buf && dominatesInstr(call, w) {
				replay, rp = true, w
			}
		}
		if replay {
			for _, s := range starts {
				if !dominatesInstr(rp, s.g) {
					replay = false
				}
			}
		}
		c.check("C09.B4", fnKey(f)+"|bytes consumed before the tunnel are replayed whole", call.Pos(), replay,
			"bytes read from the client to make the routing decision (the captured ClientHello) are gone from the connection; the very same buffer must be written to the upstream, whole, before the copy goroutines start — the upstream must see the client's stream from its first byte")
	})
}

func runC09W1(c *Ctx) {
	sp := c.spkg("proxy/tcp")
	if sp == nil {
		return
	}
	t := sp.Type("conn")
	if t == nil {
		c.undecided("C09.W1", "proxy/tcp.conn|wrapper type", "not found")
		return
	}
	st, _ := t.Type().Underlying().(*types.Struct)
	inner := ""
	for k := 0; st != nil && k < st.NumFields(); k++ {
		if typeStr(st.Field(k).Type()) == "net.Conn" {
			inner = st.Field(k).Name()
		}
	}
	n := 0
	for _, mn := range []string{"Read", "Write", "Close"} {
		f := c.method("proxy/tcp", "conn", mn)
		if f == nil {
			continue
		}
		n++
		ok := false
		eachInstr(f, func(i ssa.Instruction) {
			call, isC := i.(*ssa.Call)
			if !isC || !call.Call.IsInvoke() || call.Call.Method.Name() != mn {
				return
			}
			if _, isInner := fieldOf(call.Call.Value, "tcp.conn", inner); !isInner {
				return
			}
			same := len(call.Call.Args) == len(f.Params)-1
			for k := range call.Call.Args {
				if same && call.Call.Args[k] != f.Params[k+1] {
					same = false
				}
			}
			if !same {
				return
			}
			// results handed back unchanged
			ret := true
			eachInstr(f, func(j ssa.Instruction) {
				r, isR := j.(*ssa.Return)
				if !isR {
					return
				}
				for k, res := range r.Results {
					if len(r.Results) == 1 {
						if res != call {
							ret = false
						}
					} else if e, isE := res.(*ssa.Extract); !isE || e.Tuple != call || e.Index != k {
						ret = false
					}
				}
			})
			if ret {
				ok = true
			}
		})
		c.check("C09.W1", "(*proxy/tcp.conn)."+mn+"|forwards unchanged to the wrapped connection", f.Pos(), ok,
			"the timeout wrapper sits in every tunnel: "+mn+" must pass its argument to the wrapped connection as received and return its results unchanged")
	}
	c.atLeast("C09.W1", "Read/Write/Close of the tcp.conn wrapper", n, 3)
}
