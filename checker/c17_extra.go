package main

// Rules of C17 added after the rounds of independently authored breaking changes (DESIGN 11.6, 11.7).

import (
	"golang.org/x/tools/go/ssa"
)

// runC17T3: the pooled writer goes back to the pool at most once per response. Either the release clears the
// gzip-writer field (idempotent), or every sync.Pool.Put of the package is reached through exactly one chain of static
// call sites, one link of which is a defer (the handler's deferred Close) - however many helpers the chain has.
func runC17T3(c *Ctx, k *c17kit) {
	nPut := 0
	eachInstrOf(k.fns, func(f *ssa.Function, i ssa.Instruction) {
		if !c17isPoolPut(i) {
			return
		}
		nPut++
		chain := []*ssa.Function{f}
		nDefer, single := 0, true // (a `defer pool.Put(gz)` inside the release itself is not a link of the chain)
		cur := f
		for d := 0; d < 6; d++ {
			sites := gSites[cur]
			if len(sites) == 0 {
				// a method reached through an interface of the package (the release as a method of a small wrapper type):
				// the calls through that interface are its call sites
				sites = k.invokeSites(cur)
			}
			if len(sites) == 0 {
				break
			}
			if len(sites) > 1 {
				single = false
				break
			}
			switch sites[0].(type) {
			case *ssa.Defer:
				nDefer++
			case *ssa.Go:
				single = false
			}
			cur = sites[0].Parent()
			if cur == nil {
				break
			}
			chain = append(chain, cur)
		}
		clears := false
		for _, g := range chain {
			eachInstr(g, func(j ssa.Instruction) {
				if st, ok := j.(*ssa.Store); ok && k.isGz(st.Addr) && isNilConst(st.Val) {
					clears = true
				}
			})
		}
		c.check("C17.T3", fnKey(f)+"|pooled writer returned at most once", i.Pos(), clears || (single && nDefer == 1),
			"the release puts the gzip.Writer back into the shared pool and leaves the field set, so it must run exactly once per response: through the single deferred call in the handler. A second call site (e.g. closing early after a failed write) puts the same writer into the pool twice and two later concurrent responses compress into one writer (corrupted bodies) - unless the release clears the field after Put")
	})
	c.atLeast("C17.T3", "sync.Pool.Put calls", nPut, 1)
}

// invokeSites: the calls in the region that reach f without naming it: through an interface of the region that f's
// receiver type implements, or through a function value (kept in a field, a variable) that can denote f.
func (k *c17kit) invokeSites(f *ssa.Function) []ssa.CallInstruction {
	var out []ssa.CallInstruction
	eachInstrOf(k.fns, func(_ *ssa.Function, i ssa.Instruction) {
		ci, ok := i.(ssa.CallInstruction)
		if !ok {
			return
		}
		cc := ci.Common()
		if cc.StaticCallee() != nil {
			return
		}
		if cc.IsInvoke() && (f.Signature.Recv() == nil || cc.Method.Name() != f.Name()) {
			return
		}
		for _, g := range k.callees(cc) {
			if g == f {
				out = append(out, ci)
			}
		}
	})
	return out
}
