package main

// Rules of C17 added after the rounds of independently authored breaking changes (DESIGN 11.6, 11.7).

import (
	"golang.org/x/tools/go/ssa"
)

func runC17T3(c *Ctx) {
	const G = "proxy/gzip"
	cl := c.method(G, "GzipResponseWriter", "Close")
	if cl == nil {
		return
	}
	// idempotent? (the field is cleared after Put)
	clears := false
	eachInstr(cl, func(i ssa.Instruction) {
		if st, ok := i.(*ssa.Store); ok {
			if _, isF := fieldOf(st.Addr, "gzip.GzipResponseWriter", "gzipWriter"); isF && isNilConst(st.Val) {
				clears = true
			}
		}
	})
	// call sites of Close
	var sites []ssa.Instruction
	for _, f := range c.AllFns {
		eachInstr(f, func(i ssa.Instruction) {
			if cc := callCommon(i); cc != nil && cc.StaticCallee() == cl {
				sites = append(sites, i)
			}
		})
	}
	onlyDeferred := true
	for _, s := range sites {
		if _, isDefer := s.(*ssa.Defer); !isDefer {
			onlyDeferred = false
		}
	}
	c.check("C17.T3", "(*gzip.GzipResponseWriter).Close|pooled writer returned at most once", cl.Pos(), clears || (onlyDeferred && len(sites) == 1),
		"Close puts the gzip.Writer back into the shared pool and leaves the field set, so it must run exactly once per response: the single deferred call in the handler. A second call site (e.g. closing early after a failed write) puts the same writer into the pool twice and two later concurrent responses compress into one writer (corrupted bodies) — unless Close clears the field after Put")
}

// ---- C19.F5b: nothing classifies the error before the net.Error timeout test ------------------------------------------------
