package main

// C06.S10: what a table lookup leaves behind in a keyed container that is shared between requests (the host-pattern
// cache: a sync.Map, or a plain map under a lock) is a function of the KEY it is stored under. The property allows one
// shared effect of a lookup besides load balancing - filling the pattern cache - and that is harmless only because the
// cached value (the compiled pattern) is determined by its key (the pattern text): whichever request stores it first,
// every request reads the same thing. A value computed from more than the key - the routing table of the moment, the
// TLS state or path of the storing request - makes the result of a LATER request with the same key depend on the
// request that happened to come first (seeded/C03-8: the list of matching host patterns remembered per request host;
// it outlives the table and is shared by TLS and plain requests).
//
// Sites are found by role: every (*sync.Map).Store / LoadOrStore / Swap / CompareAndSwap and every map update whose
// container is not freshly built by this request, in the functions reachable from the exported Table.Lookup /
// Table.LookupHost. The stored value is followed backwards through conversions, slices, struct literals, library
// calls and repository helpers (all of whose arguments must be functions of the key); when it reaches parameters of the
// storing function, the check continues at every call site with the key argument passed there.

import (
	"go/token"
	"go/types"
	"strings"

	"golang.org/x/tools/go/ssa"
)

func init() {
	const gc = "route/glob_cache.go"
	const tbl = "route/table.go"
	addRound4("C06", "(S10) what the lookup path stores into a keyed container shared between requests (sync.Map Store/LoadOrStore/Swap, an update of a map that this request did not build) is a function of the key alone - followed through conversions, literals, library calls and helpers, and through the parameters of the storing function to the arguments at its call sites; a value computed from the table, the TLS state or any other part of the storing request makes a later request with the same key depend on the one that came first.", runC06S10,
		mutant{Name: "matching host patterns remembered per request host in a package-level map", File: tbl, Old: "\t\thosts = t.matchingHosts(req, globCache)\n",
			New:  "\t\tif v, ok := hostMemo.Load(req.Host); ok {\n\t\t\thosts = v.([]string)\n\t\t} else {\n\t\t\thosts = t.matchingHosts(req, globCache)\n\t\t\thostMemo.Store(req.Host, hosts[:len(hosts):len(hosts)])\n\t\t}\n",
			More: []repl{{"\t\"strings\"\n\t\"sync/atomic\"\n", "\t\"strings\"\n\t\"sync\"\n\t\"sync/atomic\"\n"}, {"func (t Table) matchingHostNoGlob(", "var hostMemo sync.Map\n\nfunc (t Table) matchingHostNoGlob("}}, Expect: "C06.S10"},
		mutant{Name: "last compiled pattern kept in the cache map under a fixed key", File: gc, Old: "\tc.mu.Lock()\n\tdefer c.mu.Unlock()\n",
			New: "\tc.mu.Lock()\n\tdefer c.mu.Unlock()\n\tc.m.Store(\"\", glbCompiled)\n", Expect: "C06.S10"},
		mutant{Name: "cache insertion helper is handed another pattern's matcher at one call site", File: gc, Old: "\tc.m.Delete(c.l[c.h])\n\tc.m.Store(pattern, glbCompiled)\n",
			New:  "\tc.m.Delete(c.l[c.h])\n\tc.remember(c.l[c.h], glbCompiled)\n\tc.remember(pattern, glbCompiled)\n",
			More: []repl{{"func NewGlobCache(size int) *GlobCache {", "func (c *GlobCache) remember(p string, g glob.Glob) { c.m.Store(p, g) }\n\nfunc NewGlobCache(size int) *GlobCache {"}}, Expect: "C06.S10"},
		mutant{Name: "benign: both insertions go through a helper that stores matcher under pattern", File: gc, Old: "c.m.Store(pattern, glbCompiled)", New: "c.remember(pattern, glbCompiled)", All: true,
			More: []repl{{"func NewGlobCache(size int) *GlobCache {", "func (c *GlobCache) remember(p string, g glob.Glob) { c.m.Store(p, g) }\n\nfunc NewGlobCache(size int) *GlobCache {"}}, Expect: ""},
		mutant{Name: "benign: pattern compiled by a repository helper, matcher kept in a local first", File: gc, Old: "\tglbCompiled, err := glob.Compile(pattern)\n",
			New:  "\tglbCompiled, err := compilePattern(pattern)\n",
			More: []repl{{"func NewGlobCache(size int) *GlobCache {", "func compilePattern(p string) (glob.Glob, error) {\n\tg, err := glob.Compile(p)\n\tif err != nil {\n\t\treturn nil, err\n\t}\n\treturn g, nil\n}\n\nfunc NewGlobCache(size int) *GlobCache {"}}, Expect: ""},
	)
}

// c06keyedStore: instruction i stores val under key into the keyed container cont.
func c06keyedStore(i ssa.Instruction) (cont, key, val ssa.Value, what string, ok bool) {
	if mu, isMU := i.(*ssa.MapUpdate); isMU {
		return mu.Map, mu.Key, mu.Value, "map update", true
	}
	cc := callCommon(i)
	if cc == nil || cc.IsInvoke() {
		return nil, nil, nil, "", false
	}
	switch n := calleeName(cc); n {
	case "(*sync.Map).Store", "(*sync.Map).LoadOrStore", "(*sync.Map).Swap":
		if len(cc.Args) == 3 {
			return cc.Args[0], cc.Args[1], cc.Args[2], strings.TrimPrefix(n, "(*sync.Map)."), true
		}
	case "(*sync.Map).CompareAndSwap":
		if len(cc.Args) == 4 {
			return cc.Args[0], cc.Args[1], cc.Args[3], "CompareAndSwap", true
		}
	}
	return nil, nil, nil, "", false
}

type c06memoCheck struct {
	c    *Ctx
	why  string // the first thing found that is not a function of the key
	seen map[ssa.Value]bool
}

// c06stripBox removes interface boxes and type changes.
func c06stripBox(v ssa.Value) ssa.Value {
	for {
		switch x := v.(type) {
		case *ssa.MakeInterface:
			v = x.X
		case *ssa.ChangeType:
			v = x.X
		case *ssa.ChangeInterface:
			v = x.X
		default:
			return v
		}
	}
}

// keyOnly: v, a value of function f, is determined by key (a value of f). Parameters of f that v depends on are
// collected in leaves (the caller decides about them).
func (m *c06memoCheck) keyOnly(v, key ssa.Value, leaves map[*ssa.Parameter]bool, depth int) bool {
	fail := func(why string) bool {
		if m.why == "" {
			m.why = why
		}
		return false
	}
	if v == nil {
		return true
	}
	if depth > 14 {
		return fail("the value is too deeply nested to follow")
	}
	v = c06stripBox(v)
	if v == c06stripBox(key) {
		return true
	}
	if m.seen[v] {
		return true
	}
	m.seen[v] = true
	all := func(vals ...ssa.Value) bool {
		for _, x := range vals {
			if x != nil && !m.keyOnly(x, key, leaves, depth+1) {
				return false
			}
		}
		return true
	}
	switch x := v.(type) {
	case *ssa.Const, *ssa.Function, *ssa.Builtin:
		return true
	case *ssa.Parameter:
		leaves[x] = true
		return true
	case *ssa.FreeVar:
		return fail("it depends on the captured variable " + x.Name())
	case *ssa.Global:
		if !c06globalWritten(m.c, x) {
			return true
		}
		return fail("it depends on the package variable " + x.Name())
	case *ssa.Convert:
		return all(x.X)
	case *ssa.TypeAssert:
		return all(x.X)
	case *ssa.Slice:
		return all(x.X, x.Low, x.High, x.Max)
	case *ssa.BinOp:
		return all(x.X, x.Y)
	case *ssa.UnOp:
		if x.Op != token.MUL {
			return all(x.X)
		}
		if a, ok := x.X.(*ssa.Alloc); ok {
			return m.allocKeyOnly(a, key, leaves, depth)
		}
		if gl, ok := x.X.(*ssa.Global); ok && !c06globalWritten(m.c, gl) {
			return true // a package-level constant in all but name: set by its initialiser only
		}
		return fail("it is read from memory (" + shortPath(x.X) + ") that is not determined by the key")
	case *ssa.Alloc:
		return m.allocKeyOnly(x, key, leaves, depth)
	case *ssa.MakeSlice, *ssa.MakeMap, *ssa.MakeChan:
		return true
	case *ssa.Extract:
		return all(x.Tuple)
	case *ssa.Field:
		return all(x.X)
	case *ssa.Index:
		return all(x.X, x.Index)
	case *ssa.Lookup:
		return all(x.X, x.Index)
	case *ssa.Phi:
		return all(x.Edges...)
	case *ssa.MakeClosure:
		return all(x.Bindings...)
	case *ssa.Call:
		cc := &x.Call
		if cc.IsInvoke() {
			return all(append([]ssa.Value{cc.Value}, cc.Args...)...)
		}
		sc := cc.StaticCallee()
		if sc == nil {
			if _, isBuiltin := cc.Value.(*ssa.Builtin); isBuiltin {
				return all(cc.Args...)
			}
			return fail("it is the result of a call of a function value")
		}
		if g := unwrap(sc); isRepoFn(g) && len(g.Blocks) > 0 {
			if gl := c06readsGlobal(m.c, g, 0); gl != "" {
				return fail("it is computed by " + fnKey(g) + ", which reads the package variable " + gl)
			}
		}
		if !all(cc.Args...) {
			if m.why == "" {
				m.why = "it is computed by " + calleeName(cc) + " from more than the key"
			}
			return false
		}
		return true
	}
	return fail("it is computed by " + v.String() + ", which is not followed")
}

// allocKeyOnly: a literal / local variable: everything stored into it (its fields, its elements) is determined by key.
func (m *c06memoCheck) allocKeyOnly(a *ssa.Alloc, key ssa.Value, leaves map[*ssa.Parameter]bool, depth int) bool {
	refs := a.Referrers()
	if refs == nil {
		return true
	}
	var visit func(addr ssa.Value, d int) bool
	visit = func(addr ssa.Value, d int) bool {
		rs := addr.Referrers()
		if rs == nil || d > 4 {
			return true
		}
		for _, r := range *rs {
			switch y := r.(type) {
			case *ssa.Store:
				if y.Addr == addr && !m.keyOnly(y.Val, key, leaves, depth+1) {
					return false
				}
			case *ssa.FieldAddr:
				if !visit(y, d+1) {
					return false
				}
			case *ssa.IndexAddr:
				if !visit(y, d+1) {
					return false
				}
			case *ssa.Slice:
				// (a slice of a literal array: `[]T{...}` - the elements were stored through the array)
			case *ssa.MakeClosure:
				if m.why == "" {
					m.why = "the variable is captured by a closure"
				}
				return false
			}
		}
		return true
	}
	return visit(a, 0)
}

var c06globalsWritten struct {
	c   *Ctx
	set map[*ssa.Global]bool
}

// c06globalWritten: the package-level variable (or memory reached through its fields / elements) is assigned somewhere
// outside the package initialisers, or its address is handed to a function: it is state, not a constant.
func c06globalWritten(c *Ctx, gl *ssa.Global) bool {
	if c06globalsWritten.c != c {
		set := map[*ssa.Global]bool{}
		for _, f := range c.AllFns {
			if isInitFn(f) {
				continue
			}
			eachInstr(f, func(i ssa.Instruction) {
				switch x := i.(type) {
				case *ssa.Store:
					if g := c06globalRoot(x.Addr); g != nil {
						set[g] = true
					}
					if g, ok := x.Val.(*ssa.Global); ok {
						set[g] = true // its address is kept somewhere
					}
				case *ssa.MapUpdate:
					if g := c06globalRoot(x.Map); g != nil {
						set[g] = true
					}
				default:
					if cc := callCommon(i); cc != nil {
						for _, a := range cc.Args {
							if _, isPtr := a.Type().Underlying().(*types.Pointer); !isPtr {
								continue
							}
							if g := c06globalRoot(a); g != nil {
								set[g] = true // &global (or a method with pointer receiver on it): may be written there
							}
						}
					}
				}
			})
		}
		c06globalsWritten.c, c06globalsWritten.set = c, set
	}
	return c06globalsWritten.set[gl]
}

// c06globalRoot: the package-level variable an address / a loaded pointer is reached from (through fields, elements and
// pointer loads), nil if none.
func c06globalRoot(a ssa.Value) *ssa.Global {
	for n := 0; n < 12; n++ {
		switch x := a.(type) {
		case *ssa.Global:
			return x
		case *ssa.FieldAddr:
			a = x.X
		case *ssa.IndexAddr:
			a = x.X
		case *ssa.UnOp:
			if x.Op != token.MUL {
				return nil
			}
			a = x.X
		default:
			return nil
		}
	}
	return nil
}

// c06readsGlobal: g (or a repository function it statically calls, two levels) loads a package-level variable that is
// state (assigned outside the initialisers): the name of the first one, "" if none.
func c06readsGlobal(c *Ctx, g *ssa.Function, depth int) string {
	found := ""
	eachInstr(g, func(i ssa.Instruction) {
		if found != "" {
			return
		}
		if u, ok := i.(*ssa.UnOp); ok && u.Op == token.MUL {
			if gl, ok := u.X.(*ssa.Global); ok && c06globalWritten(c, gl) {
				found = gl.Pkg.Pkg.Name() + "." + gl.Name()
			}
		}
		if cc := callCommon(i); cc != nil && depth < 2 {
			if sc := cc.StaticCallee(); sc != nil {
				if h := unwrap(sc); h != g && isRepoFn(h) && len(h.Blocks) > 0 {
					if s := c06readsGlobal(c, h, depth+1); s != "" {
						found = s
					}
				}
			}
		}
	})
	return found
}

// c06memoSound: val stored under key (both values of f) is a function of key; parameters of f in between are resolved
// at the call sites of f.
func c06memoSound(c *Ctx, f *ssa.Function, key, val ssa.Value, depth int) (bool, string) {
	m := &c06memoCheck{c: c, seen: map[ssa.Value]bool{}}
	leaves := map[*ssa.Parameter]bool{}
	if !m.keyOnly(val, key, leaves, 0) {
		return false, m.why
	}
	if len(leaves) == 0 {
		return true, ""
	}
	// the value depends on parameters of f: the key must be one as well (or a constant), to pair them at the call sites
	k := c06stripBox(key)
	kp, keyIsParam := k.(*ssa.Parameter)
	_, keyIsConst := k.(*ssa.Const)
	if keyIsParam && kp.Parent() != f {
		keyIsParam = false
	}
	if !keyIsParam && !keyIsConst {
		for p := range leaves {
			return false, "it depends on the parameter " + p.Name() + " of " + fnKey(f) + " while the key (" + shortPath(k) + ") is computed separately"
		}
	}
	sites := gSites[f]
	if depth > 3 || len(sites) == 0 || !c06allCallsVisible(f) {
		for p := range leaves {
			return false, "it depends on the parameter " + p.Name() + " of " + fnKey(f) + ", whose callers cannot all be seen"
		}
	}
	for _, s := range sites {
		args := s.Common().Args
		if len(args) != len(f.Params) {
			return false, "a call of " + fnKey(f) + " could not be matched with its parameters"
		}
		var keyArg ssa.Value = k
		for n, p := range f.Params {
			if keyIsParam && p == kp {
				keyArg = args[n]
			}
		}
		for n, p := range f.Params {
			if !leaves[p] {
				continue
			}
			if ok, why := c06memoSound(c, s.Parent(), keyArg, args[n], depth+1); !ok {
				return false, "at the call in " + fnKey(s.Parent()) + " (" + c.pos(s.Pos()) + ") " + why
			}
		}
	}
	return true, ""
}

func runC06S10(c *Ctx) {
	const rule = "C06.S10"
	var roots []*ssa.Function
	for _, name := range []string{"Lookup", "LookupHost"} {
		if f := c.method("route", "Table", name); f != nil {
			roots = append(roots, f)
		}
	}
	if len(roots) == 0 {
		c.undecided(rule, "anchor|route.Table.Lookup / LookupHost", "the exported lookup entries do not resolve")
		return
	}
	sa := c06sharedFor(c)
	reach := c.reach(roots...)
	var fns []*ssa.Function
	for f := range reach {
		fns = append(fns, f)
	}
	c06sortFns(fns)
	n := 0
	for _, f := range fns {
		eachInstr(f, func(i ssa.Instruction) {
			cont, key, val, what, ok := c06keyedStore(i)
			if !ok {
				return
			}
			// a container this request has just built is private
			shared := false
			for _, rt := range sa.chain(cont).roots {
				if !sa.fresh(rt, f, 0) {
					shared = true
				}
			}
			if !shared {
				return
			}
			n++
			sound, why := c06memoSound(c, f, key, val, 0)
			c.check(rule, fnKey(f)+"|"+what+" on "+shortPath(cont)+": the value is a function of its key", i.Pos(), sound,
				"a table lookup stores a value into a keyed container that is shared between requests ("+shortPath(cont)+", key "+shortPath(c06stripBox(key))+"), and the value is not determined by the key: "+why+
					". Whichever request stores first decides what every later request with the same key reads back - although its table, TLS state or path may differ: the routing result of a request then depends on another request, not only on itself and the active table")
		})
	}
	c.atLeast(rule, "stores of the lookup path into keyed containers shared between requests (the host-pattern cache)", n, 1)
}
