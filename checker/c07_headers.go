package main

// Recognition of mutations of an http.Header map whatever their spelling (C07.H1, C07.D1).

import (
	"strings"

	"golang.org/x/tools/go/ssa"
)

// c07headerOp: instruction i mutates a header map: a call of Set / Add / Del of http.Header or textproto.MIMEHeader
// (also through a method value: `set := r.Header.Set; set(k, v)`), the builtin delete, or a bulk operation (builtin
// clear, maps.Copy into the map, maps.DeleteFunc). hdr is the map (conversions stripped), key the header name (nil for
// a bulk operation).
func c07headerOp(i ssa.Instruction) (m string, hdr, key ssa.Value, ok bool) {
	cc := callCommon(i)
	if cc == nil || cc.IsInvoke() {
		return "", nil, nil, false
	}
	strip := func(v ssa.Value) ssa.Value {
		for {
			switch x := v.(type) {
			case *ssa.ChangeType:
				v = x.X
				continue
			case *ssa.Convert:
				v = x.X
				continue
			}
			return v
		}
	}
	isHeaderMap := func(v ssa.Value) bool {
		switch typeStr(strip(v).Type()) {
		case "net/http.Header", "net/textproto.MIMEHeader":
			return true
		}
		return false
	}
	var fn *ssa.Function
	var recv ssa.Value
	switch v := cc.Value.(type) {
	case *ssa.Function:
		fn = v
	case *ssa.MakeClosure:
		fn, _ = v.Fn.(*ssa.Function)
		if fn != nil && strings.HasPrefix(fn.Synthetic, "bound method wrapper") && len(v.Bindings) == 1 {
			recv = v.Bindings[0]
		}
	case *ssa.Builtin:
		switch v.Name() {
		case "delete":
			if len(cc.Args) == 2 && isHeaderMap(cc.Args[0]) {
				return "delete", strip(cc.Args[0]), cc.Args[1], true
			}
		case "clear":
			if len(cc.Args) == 1 && isHeaderMap(cc.Args[0]) {
				return "clear", strip(cc.Args[0]), nil, true
			}
		}
		return "", nil, nil, false
	}
	if fn == nil {
		return "", nil, nil, false
	}
	name := stripTypeArgs(funcName(fn))
	switch name {
	case "maps.Copy", "maps.DeleteFunc", "maps.Insert":
		if len(cc.Args) >= 1 && isHeaderMap(cc.Args[0]) {
			return name, strip(cc.Args[0]), nil, true
		}
		return "", nil, nil, false
	}
	for _, t := range []string{"(net/http.Header).", "(net/textproto.MIMEHeader)."} {
		if !strings.HasPrefix(name, t) {
			continue
		}
		m = strings.TrimPrefix(name, t)
		if m != "Set" && m != "Add" && m != "Del" {
			return "", nil, nil, false
		}
		args := cc.Args
		if recv == nil {
			if len(args) < 2 {
				return "", nil, nil, false
			}
			recv, args = args[0], args[1:]
		}
		if len(args) < 1 {
			return "", nil, nil, false
		}
		return m, strip(recv), args[0], true
	}
	return "", nil, nil, false
}
