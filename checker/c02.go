package main

import (
	"go/token"
	"go/types"
	"strings"

	"golang.org/x/tools/go/ssa"
)

func init() {
	register(&propDef{
		ID:      "C02",
		Level:   "other",
		Explain: "Atomic replacement, last-good-table and crash-freedom conditions decided on all paths/sites: (A1) the active table lives in one sync/atomic value that is touched only through Load/Store in the getter, the setter and package init; (A2) nothing writes a table after it has been handed to the publishing store (setter body and every caller); (A3) no function reachable from a per-request entry writes a route.Table/Route/Target that is shared (all schedules); (A4) one table snapshot per lookup; (L1) every SetTable call receives a constructor's result and is either unreachable from the constructor's error edge or (custom backend) relies on L2+L3; (L2) NewTable/NewTableCustom return a nil table with every possibly-non-nil error; (L3) SetTable stores only under t != nil; (L4) in the update loop the constructor's error edge goes back to the loop head without leaving the loop, installing a table or advancing the 'last installed text'; (P*) partial operations in everything reachable from NewTable/NewTableCustom/Parse/ParseAliases and the lookup path are guarded: submatch indices vs. the regexp's capture-group count under m != nil, Split indices vs. dominating length facts, integer divisions vs. non-zero facts, the ring allocation vs. usedSlots > 0, non-finite weights rejected by the parser, no MustCompile(non-constant)/panic on the lookup path, the custom definition list is nil-checked before it is dereferenced. (P9) every Route carries a Glob that is the result of a successful glob.Compile (the glob matcher dereferences it). (L4, extended) the last installed text is carried round the loop as an immutable string snapshot (tableBuffer.String()) and compared with the candidate, never as a byte view of the reused buffer; (A2/S5, extended) library calls that reorder their argument in place (sort.Slice, sort.Sort, slices.Sort*, copy) count as writes through it, also inside callees such as Table.Dump reached from logRoutes; Not decided: that gobwas/glob.Compile, net/url.Parse and regexp never panic (trusted).",
		Run:     runC02,
		Trusted: []string{"sync/atomic.Value Load/Store are atomic", "gobwas/glob.Compile, net/url.Parse, regexp matching do not panic", "encoding/json stores nil into a pointer for the JSON text null"},
		Mutants: []mutant{
			{Name: "last table kept as a view of the reused buffer", File: "main.go", Old: "\t\tlastTable   string\n", New: "\t\tlastTable   []byte\n", Expect: "C02.L4", More: []repl{{"\t\tnextTable   string\n", "\t\tnextTable   []byte\n"}, {"if nextTable = tableBuffer.String(); nextTable == lastTable {", "if nextTable = tableBuffer.Bytes(); bytes.Equal(nextTable, lastTable) {"}, {"aliases, err := route.ParseAliases(nextTable)", "aliases, err := route.ParseAliases(string(nextTable))"}, {"logRoutes(t, lastTable, nextTable, cfg.Log.RoutesFormat)", "logRoutes(t, string(lastTable), string(nextTable), cfg.Log.RoutesFormat)"}}},

			{Name: "plain package variable for the table", File: "route/table.go", Old: "func GetTable() Table {\n\treturn table.Load().(Table)\n}", New: "var plainTable Table\n\nfunc GetTable() Table {\n\tif plainTable != nil {\n\t\treturn plainTable\n\t}\n\treturn table.Load().(Table)\n}", Expect: "C02.A1"},
			{Name: "delete the nil test in SetTable", File: "route/table.go", Old: "\tif t == nil {\n\t\tlog.Print(\"[WARN] Ignoring nil routing table\")\n\t\treturn\n\t}\n", New: "", Expect: "C02.L3"},
			{Name: "NewTable returns the partial table with the error", File: "route/table.go", Old: "\t\tdefault:\n\t\t\terr = fmt.Errorf(\"route: invalid command: %s\", d.Cmd)\n\t\t}\n\t\tif err != nil {\n\t\t\treturn nil, err\n\t\t}\n\t}\n\n\t// Sort the route table for each hostname\n\tfor _, h := range t {\n\t\tsort.Sort(h)\n\t}\n\n\treturn t, nil\n}\n\nfunc NewTableCustom", New: "\t\tdefault:\n\t\t\terr = fmt.Errorf(\"route: invalid command: %s\", d.Cmd)\n\t\t}\n\t\tif err != nil {\n\t\t\treturn t, err\n\t\t}\n\t}\n\n\t// Sort the route table for each hostname\n\tfor _, h := range t {\n\t\tsort.Sort(h)\n\t}\n\n\treturn t, nil\n}\n\nfunc NewTableCustom", Expect: "C02.L2"},
			{Name: "install the table on the error edge", File: "main.go", Old: "\t\t\t\tlog.Printf(\"[WARN] %s\", err)\n\t\t\t\tcontinue\n", New: "\t\t\t\tlog.Printf(\"[WARN] %s\", err)\n", Expect: "C02.L1"},
			{Name: "error edge leaves the update loop", File: "main.go", Old: "\t\t\t\tlog.Printf(\"[WARN] %s\", err)\n\t\t\t\tcontinue\n", New: "\t\t\t\tlog.Printf(\"[WARN] %s\", err)\n\t\t\t\treturn\n", Expect: "C02.L4"},
			{Name: "error edge advances lastTable", File: "main.go", Old: "\t\t\t\tlog.Printf(\"[WARN] %s\", err)\n\t\t\t\tcontinue\n", New: "\t\t\t\tlog.Printf(\"[WARN] %s\", err)\n\t\t\t\tlastTable = nextTable\n\t\t\t\tcontinue\n", Expect: "C02.L4"},
			{Name: "mutate t after SetTable", File: "main.go", Old: "\t\t\troute.SetTable(t)\n", New: "\t\t\troute.SetTable(t)\n\t\t\tt[\"x\"] = nil\n", Expect: "C02.A2"},
			{Name: "second GetTable inside Table.Lookup", File: "route/table.go", Old: "\thosts = append(hosts, \"\")\n\tfor _, h := range hosts {\n\t\tif target = t.lookup(", New: "\thosts = append(hosts, \"\")\n\tfor _, h := range hosts {\n\t\tif target = GetTable().lookup(", Expect: "C02.A4"},
			{Name: "remove the finiteness guard", File: "route/parse_new.go", Old: "if err != nil || math.IsNaN(f) || math.IsInf(f, 0) {", New: "if err != nil || (f < 0 && (math.IsNaN(f) || math.IsInf(f, 0))) {", Expect: "C02.P4"},
			{Name: "custom definitions dereferenced unchecked", File: "route/table.go", Old: "\tif defs == nil {\n\t\treturn nil, errors.New(\"route: no route definitions\")\n\t}\n", New: "", Expect: "C02.P8"},
			{Name: "one capture group fewer", File: "route/parse_new.go", Old: "( opts \"([^\"]*)\")?$`)", New: "( opts \"[^\"]*\")?$`)", Expect: "C02.P1"},
			{Name: "submatch used without nil test", File: "route/parse_new.go", Old: "\tif m := reDelTags.FindStringSubmatch(s); m != nil {\n\t\treturn &RouteDef{Cmd: RouteDelCmd, Tags: parseTags(m[1])}, nil\n\t}", New: "\tif m := reDelTags.FindStringSubmatch(s); len(s) > 0 {\n\t\treturn &RouteDef{Cmd: RouteDelCmd, Tags: parseTags(m[1])}, nil\n\t}", Expect: "C02.P1"},
			{Name: "hostpath indexes the second element unguarded", File: "route/table.go", Old: "\tif len(p) == 1 {\n\t\treturn host, \"/\"\n\t}\n", New: "", Expect: "C02.P1"},
			{Name: "MustCompile on the request path again", File: "route/table.go", Old: "\t\t\t// a pattern which does not compile cannot match\n\t\t\tlog.Print(\"[ERROR] Compiling glob - \", err)\n\t\t\tcontinue", New: "\t\t\tg = glob.MustCompile(normpat)", Expect: "C02.P7"},
			{Name: "path that is not a glob keeps a nil matcher", File: "route/table.go", Old: "\t\tg, err := glob.Compile(path)\n\t\tif err != nil {\n\t\t\treturn err\n\t\t}\n\t\tr := &Route{Host: host, Path: path, Glob: g}\n\t\tr.addTarget(d.Service, targetURL, d.Weight, d.Tags, d.Opts)\n\t\tt[host] = Routes{r}", New: "\t\tg, err := glob.Compile(path)\n\t\tif err != nil {\n\t\t\tlog.Printf(\"[WARN] route: path %q is not a valid glob: %s\", path, err)\n\t\t}\n\t\tr := &Route{Host: host, Path: path, Glob: g}\n\t\tr.addTarget(d.Service, targetURL, d.Weight, d.Tags, d.Opts)\n\t\tt[host] = Routes{r}", Expect: "C02.P9"},
			{Name: "benign: atomic.Pointer-like helper around SetTable", File: "main.go", Old: "\t\t\troute.SetTable(t)\n", New: "\t\t\tinstall := route.SetTable\n\t\t\tinstall(t)\n", Expect: ""},
		},
	})
}

func runC02(c *Ctx) {
	getter, setter, g := runC02A1(c)
	// A2 / A4 reuse the publish rules
	tmp := &Ctx{Dir: c.Dir, Pkgs: c.Pkgs, Fset: c.Fset, Prog: c.Prog, spkgs: c.spkgs, ppkgs: c.ppkgs, AllFns: c.AllFns, cg: c.cg}
	runPublish(tmp, "C02.A2", "C02.A4")
	c.Obs = append(c.Obs, tmp.Obs...)
	// A3
	sa := newSharedAnalysis(c)
	n := sa.s1("C02.A3", func(f *ssa.Function, step string) bool {
		return strings.HasPrefix(step, "route.Target") || strings.HasPrefix(step, "route.Route") || strings.HasPrefix(step, "route.Table")
	})
	c.atLeast("C02.A3", "stores into route.Table/Route/Target reachable from serving roots", n, 1)
	_ = getter
	_ = g
	runC02L(c, setter)
	runC02P(c)
	runC02P9(c)
}

// runC02A1 finds the atomic holder of the active table by role and checks how it is used.
func runC02A1(c *Ctx) (getter, setter *ssa.Function, g *ssa.Global) {
	sp := c.spkg("route")
	if sp == nil {
		c.undecided("C02.A1", "anchor|package route", "package not loaded")
		return
	}
	// plain package-level variables of a table type are forbidden
	for _, m := range sp.Members {
		gl, ok := m.(*ssa.Global)
		if !ok {
			continue
		}
		elem := gl.Type().(*types.Pointer).Elem()
		if namedIs(elem, "route.Table") {
			c.check("C02.A1", "route."+gl.Name()+"|plain table variable", gl.Pos(), false,
				"a package-level variable of type route.Table can be read while it is being replaced; the active table must be held in a sync/atomic value")
		}
		ts := typeStr(elem)
		if ts == "sync/atomic.Value" || strings.HasPrefix(ts, "sync/atomic.Pointer[") {
			// does it hold tables?
			holds := false
			for _, f := range c.AllFns {
				eachInstr(f, func(i ssa.Instruction) {
					cc := callCommon(i)
					if cc == nil || len(cc.Args) < 2 || cc.Args[0] != gl {
						return
					}
					if strings.HasSuffix(calleeName(cc), ".Store") && namedIs(stripIface(cc.Args[1]).Type(), "route.Table") {
						holds = true
					}
				})
			}
			if holds {
				g = gl
			}
		}
	}
	if g == nil {
		c.undecided("C02.A1", "anchor|atomic holder of the active table", "no sync/atomic value in package route is stored a route.Table")
		return
	}
	// every referrer is the receiver of Load/Store; referrers live in getter, setter, init
	nRef := 0
	for _, f := range c.AllFns {
		eachInstr(f, func(i ssa.Instruction) {
			uses := false
			for _, op := range i.Operands(nil) {
				if op != nil && *op == g {
					uses = true
				}
			}
			if !uses {
				return
			}
			nRef++
			cc := callCommon(i)
			name := ""
			if cc != nil {
				name = calleeName(cc)
			}
			okCall := cc != nil && len(cc.Args) > 0 && cc.Args[0] == g && (strings.HasSuffix(name, ".Load") || strings.HasSuffix(name, ".Store"))
			c.check("C02.A1", fnKey(f)+"|use of route."+g.Name(), i.Pos(), okCall, "the holder of the active table may only be used as the receiver of an atomic Load or Store")
			switch {
			case isInitFn(f):
			case okCall && strings.HasSuffix(name, ".Load"):
				getter = f
				c.check("C02.A1", fnKey(f)+"|getter returns the loaded table", i.Pos(), f.Signature.Results().Len() == 1 && namedIs(f.Signature.Results().At(0).Type(), "route.Table") && f.Signature.Params().Len() == 0,
					"the atomic holder must be read only in the getter (no parameters, returns the table)")
			case okCall && strings.HasSuffix(name, ".Store"):
				setter = f
				isParam := false
				if len(cc.Args) == 2 {
					_, isParam = stripIface(cc.Args[1]).(*ssa.Parameter)
				}
				c.check("C02.A1", fnKey(f)+"|setter stores its parameter", i.Pos(), isParam, "outside package init the holder must be stored only the setter's table parameter")
			}
		})
	}
	c.atLeast("C02.A1", "uses of the atomic table holder", nRef, 3)
	return
}

func runC02L(c *Ctx, setter *ssa.Function) {
	ctors := []*ssa.Function{c.fn("route", "NewTable"), c.fn("route", "NewTableCustom")}
	// L2
	for _, ctor := range ctors {
		if !c.need("C02.L2", ctor, "route table constructor") {
			continue
		}
		n := 0
		eachInstr(ctor, func(i ssa.Instruction) {
			r, ok := i.(*ssa.Return)
			if !ok || len(r.Results) != 2 {
				return
			}
			n++
			if isNilConst(r.Results[1]) {
				c.check("C02.L2", fnKey(ctor)+"|success return", r.Pos(), true, "error is nil")
				return
			}
			c.check("C02.L2", fnKey(ctor)+"|error return carries no table", r.Pos(), isNilConst(r.Results[0]),
				"a constructor return whose error may be non-nil must return a nil table: a partially built table must never reach SetTable (the custom backend installs whatever it gets, relying on nil being ignored)")
		})
		c.atLeast("C02.L2", "returns in "+fnKey(ctor), n, 2)
	}
	// L3
	if setter == nil {
		c.undecided("C02.L3", "anchor|table setter", "setter not found")
		return
	}
	eachInstr(setter, func(i ssa.Instruction) {
		cc := callCommon(i)
		if cc == nil || !strings.HasSuffix(calleeName(cc), ".Store") || len(cc.Args) != 2 {
			return
		}
		v := stripIface(cc.Args[1])
		c.check("C02.L3", fnKey(setter)+"|store only a non-nil table", i.Pos(), knownNonNil(i.Block(), sameVal(v)),
			"the store must be dominated by the t != nil edge: GetTable promises a non-nil table and the custom backend passes the constructor's nil result on errors")
	})
	// L1: every call of the setter
	nCalls := 0
	for _, f := range c.AllFns {
		eachInstr(f, func(i ssa.Instruction) {
			if !staticCalleeIs(i, setter) {
				return
			}
			nCalls++
			cc := callCommon(i)
			arg := cc.Args[0]
			var ctorCall *ssa.Call
			derives(arg, func(v ssa.Value) bool {
				if call, ok := v.(*ssa.Call); ok {
					for _, ct := range ctors {
						if ct != nil && call.Call.StaticCallee() == ct {
							ctorCall = call
							return true
						}
					}
				}
				return false
			})
			key := fnKey(f) + "|SetTable argument"
			if ctorCall == nil {
				c.check("C02.L1", key, i.Pos(), false, "the table installed must be the result of NewTable/NewTableCustom built in the same function")
				return
			}
			// is the call reachable while err != nil is known? It must be dominated by err == nil ...
			errNil := false
			for _, ft := range factsAt(i.Block()) {
				if nn, ok := nilFact(ft, func(v ssa.Value) bool {
					e, isE := v.(*ssa.Extract)
					return isE && e.Tuple == ctorCall && e.Index == 1
				}); ok && !nn {
					errNil = true
				}
			}
			detail := "SetTable is dominated by the constructor's err == nil edge"
			ok := errNil
			if !ok {
				// ... or the argument is exactly the constructor's table result (nil on error by L2, ignored by L3)
				if e, isE := arg.(*ssa.Extract); isE && e.Tuple == ctorCall && e.Index == 0 {
					ok = true
					detail = "argument is the constructor's own table result: nil on every error return (L2) and ignored by SetTable (L3)"
				}
			}
			c.check("C02.L1", key, i.Pos(), ok, detail+" — otherwise an invalid configuration replaces the last good table")
		})
	}
	c.atLeast("C02.L1", "SetTable call sites", nCalls, 2)

	// L4: update loop in main.watchBackend
	wb := c.fn("main", "watchBackend")
	newTable := ctors[0]
	if !c.need("C02.L4", wb, "main.watchBackend") || newTable == nil {
		return
	}
	nCt := 0
	eachInstr(wb, func(i ssa.Instruction) {
		call, ok := i.(*ssa.Call)
		if !ok || call.Call.StaticCallee() != newTable {
			return
		}
		nCt++
		var lp *loop
		for _, l := range loopsOf(wb) {
			if l.Body[call.Block()] && (lp == nil || len(l.Body) < len(lp.Body)) {
				lp = l
			}
		}
		if lp == nil {
			c.check("C02.L4", "main.watchBackend|NewTable in the update loop", call.Pos(), false, "the table constructor is not called inside the update loop")
			return
		}
		// error blocks
		isErr := func(v ssa.Value) bool {
			e, isE := v.(*ssa.Extract)
			return isE && e.Tuple == call && e.Index == 1
		}
		nErr := 0
		for b := range lp.Body {
			errKnown := false
			for _, ft := range factsAt(b) {
				if nn, ok := nilFact(ft, isErr); ok && nn {
					errKnown = true
				}
			}
			if !errKnown {
				continue
			}
			nErr++
			last := b.Instrs[len(b.Instrs)-1]
			// must stay in the loop, and must not install / exit
			stays := true
			for _, s := range b.Succs {
				if !lp.Body[s] {
					stays = false
				}
			}
			if _, isRet := last.(*ssa.Return); isRet {
				stays = false
			}
			if _, isPanic := last.(*ssa.Panic); isPanic {
				stays = false
			}
			bad := ""
			for _, in := range b.Instrs {
				if cc := callCommon(in); cc != nil {
					n := calleeName(cc)
					if strings.HasPrefix(n, repoMod+"/exit.") || strings.HasPrefix(n, "log.Fatal") || n == "os.Exit" {
						bad = "calls " + n
					}
				}
			}
			c.check("C02.L4", "main.watchBackend|constructor error keeps the loop running", last.Pos(), stays && bad == "",
				"on the error edge of NewTable the update loop must go on (continue): leaving the loop or exiting means the next valid configuration is never applied "+bad)
			// loop-carried "last installed text": header phis must not be advanced on this edge
			for _, in := range lp.Head.Instrs {
				phi, ok := in.(*ssa.Phi)
				if !ok {
					continue
				}
				if bt, ok := phi.Type().Underlying().(*types.Basic); !ok || bt.Kind() != types.String {
					continue
				}
				// the "last installed text": a loop-carried string that is compared with the candidate text
				// and is assigned that candidate on the success path
				isLast := false
				for _, r := range *phi.Referrers() {
					if cmp, ok := r.(*ssa.BinOp); ok && (cmp.Op == token.EQL || cmp.Op == token.NEQ) {
						other := cmp.X
						if other == phi {
							other = cmp.Y
						}
						for _, e := range phi.Edges {
							if e == other {
								isLast = true
							}
						}
					}
				}
				if !isLast {
					continue
				}
				// every back edge that advances the text must be unreachable from the error block
				cut := map[*ssa.BasicBlock]bool{lp.Head: true}
				fromErr := reachableFrom([]*ssa.BasicBlock{b}, cut)
				fromErr[b] = true
				for k, e := range phi.Edges {
					p := lp.Head.Preds[k]
					if !lp.Body[p] || !fromErr[p] {
						continue
					}
					c.check("C02.L4", "main.watchBackend|error edge does not advance "+phi.Comment, last.Pos(), e == phi || isErrFreeCarry(e, phi),
						"on the error edge the loop-carried text "+phi.Comment+" must keep its value: if the rejected text is remembered as installed, re-sending the same (later valid) text is skipped as 'unchanged'")
				}
			}
		}
		if nErr == 0 {
			c.check("C02.L4", "main.watchBackend|constructor error examined", call.Pos(), false, "the error of NewTable is not examined in the update loop")
		}
		// the "last installed text" itself: an immutable string snapshot carried around the loop and compared with the
		// candidate (a []byte view of the reused buffer would alias the candidate)
		hasLast := false
		for _, in := range lp.Head.Instrs {
			phi, ok := in.(*ssa.Phi)
			if !ok {
				continue
			}
			bt, ok := phi.Type().Underlying().(*types.Basic)
			if !ok || bt.Kind() != types.String {
				continue
			}
			for _, r := range *phi.Referrers() {
				if cmp, ok := r.(*ssa.BinOp); ok && (cmp.Op == token.EQL || cmp.Op == token.NEQ) {
					other := cmp.X
					if other == phi {
						other = cmp.Y
					}
					for _, e := range phi.Edges {
						if e == other {
							// the candidate must be a fresh string snapshot of the buffer
							if call, ok := other.(*ssa.Call); ok && calleeName(&call.Call) == "(*bytes.Buffer).String" {
								hasLast = true
							}
						}
					}
				}
			}
		}
		c.check("C02.L4", "main.watchBackend|last installed text is an immutable snapshot compared with the candidate", call.Pos(), hasLast,
			"the update loop must remember the text of the last installed table as a string (tableBuffer.String()) and compare the candidate with it; a byte-slice view of the reused buffer aliases the candidate, so a later valid configuration of the same length compares equal and is never applied")
	})
	c.atLeast("C02.L4", "NewTable calls in watchBackend", nCt, 1)
}

// isErrFreeCarry: the edge value is another loop-carried phi of the same variable (select/case merges).
func isErrFreeCarry(e ssa.Value, phi *ssa.Phi) bool {
	if p, ok := e.(*ssa.Phi); ok && p.Comment == phi.Comment {
		for _, x := range p.Edges {
			if x != phi && x != p {
				return false
			}
		}
		return true
	}
	return false
}

func runC02P(c *Ctx) {
	var roots []*ssa.Function
	for _, n := range []string{"NewTable", "NewTableCustom", "Parse", "ParseAliases"} {
		f := c.fn("route", n)
		if !c.need("C02.P1", f, "route."+n) {
			continue
		}
		roots = append(roots, f)
	}
	for _, m := range []string{"Lookup", "LookupHost"} {
		if f := c.method("route", "Table", m); f != nil {
			roots = append(roots, f)
		}
	}
	scope := c.reach(roots...)
	// stay inside package route (+ transport.NewTransport which addTarget calls)
	for f := range scope {
		if f.Pkg == nil && f.Parent() == nil {
			delete(scope, f)
		}
	}
	n := runPartialOps(c, "C02.P1", scope)
	c.atLeast("C02.P1", "constant indices into split/submatch results in the table builder", n, 10)

	// P3: divisions in scope
	nDiv := 0
	for f := range scope {
		eachInstr(f, func(i ssa.Instruction) {
			b, ok := i.(*ssa.BinOp)
			if !ok || (b.Op != token.QUO && b.Op != token.REM) {
				return
			}
			bt, ok := b.X.Type().Underlying().(*types.Basic)
			if !ok || bt.Info()&types.IsInteger == 0 {
				return
			}
			if _, isConst := b.Y.(*ssa.Const); isConst {
				return
			}
			nDiv++
			ok2, why := divisorNonZero(b)
			c.check("C02.P3", fnKey(f)+"|integer division by "+shortPath(b.Y), b.Pos(), ok2, "a route configuration must not be able to crash the builder or the lookup: "+why)
		})
	}
	c.atLeast("C02.P3", "integer divisions in the table builder / lookup path", nDiv, 3)
	// P4
	tmp := &Ctx{Dir: c.Dir, Pkgs: c.Pkgs, Fset: c.Fset, Prog: c.Prog, spkgs: c.spkgs, ppkgs: c.ppkgs, AllFns: c.AllFns, cg: c.cg}
	runFiniteWeight(tmp, "C02.P4")
	runC04R5alloc(tmp, "C02.P4")
	runRequestPathPanics(tmp, "C02.P7")
	for _, o := range tmp.Obs {
		if o.Rule == "C02.P7" && strings.Contains(o.Construct, "integer division") {
			continue // already reported as P3
		}
		c.Obs = append(c.Obs, o)
	}
	// P8: NewTableCustom dereferences its pointer parameter only under a nil test
	ntc := c.fn("route", "NewTableCustom")
	if ntc != nil && len(ntc.Params) > 0 {
		p := ntc.Params[0]
		nd := 0
		eachInstr(ntc, func(i ssa.Instruction) {
			u, ok := i.(*ssa.UnOp)
			if !ok || u.Op != token.MUL || u.X != p {
				return
			}
			nd++
			c.check("C02.P8", "route.NewTableCustom|dereference of the definition list", u.Pos(), knownNonNil(u.Block(), sameVal(p)),
				"the custom backend decodes JSON into *[]RouteDef; the JSON text null leaves the pointer nil without an error, and dereferencing it panics in a goroutine without recover (process exit)")
		})
		c.atLeast("C02.P8", "dereferences of the definition list", nd, 1)
	}
}

// runC04R5alloc: ring allocation guard under another rule id.
func runC04R5alloc(c *Ctx, rule string) {
	weigh := c.method("route", "Route", "weighTargets")
	if weigh == nil {
		c.undecided(rule, "anchor|weighTargets", "not found")
		return
	}
	before := len(c.Obs)
	runC04R5only(c)
	for k := before; k < len(c.Obs); k++ {
		c.Obs[k].Rule = rule
	}
}

func runC04R5only(c *Ctx) {
	tmp := &Ctx{Dir: c.Dir, Pkgs: c.Pkgs, Fset: c.Fset, Prog: c.Prog, spkgs: c.spkgs, ppkgs: c.ppkgs, AllFns: c.AllFns, cg: c.cg}
	runC04R5(tmp)
	for _, o := range tmp.Obs {
		if strings.Contains(o.Construct, "ring allocation") {
			c.Obs = append(c.Obs, o)
		}
	}
}
