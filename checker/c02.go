package main

import (
	"fmt"
	"go/token"
	"os"
	"strings"

	"golang.org/x/tools/go/ssa"
)

func init() {
	register(&propDef{
		ID:      "C02",
		Level:   "other",
		Explain: "Atomic replacement, last-good-table and crash-freedom conditions decided on all paths/sites; sites are found by role, no unexported function is named. (A1) the active table lives in exactly one package-level sync/atomic cell (atomic.Value, atomic.Pointer[Table], bare, behind a pointer, or wrapped in a struct with load/store methods) that is used only as the receiver of atomic operations; outside package initialisation it is stored only the parameter of the storing function, and it is loaded only by parameterless getters that return the table (transitively for unexported loaders); no plain package-level Table variable. (A2) nothing writes a table after it has been handed to the publishing store or to any function that hands its parameter on to it (shared rule for the store and its innermost wrapper, own rule for outer wrappers). (A3) no function reachable from a per-request entry writes a shared route.Table/Route/Target (all schedules). (A4) one table snapshot per lookup, also when the getter is called through a parameterless helper. (L1) every value that enters the publication chain outside package initialisation is nil or a constructor's result that is nil on every error: the constructor's own result, the result of a helper that hands it on (judged return by return), a merge or a helper parameter of such values - else the site must be dominated by the err == nil edge. (L2) NewTable/NewTableCustom and the helpers whose two results they hand on return a nil table with every possibly-non-nil error - judged per source-level return: where results travel through result variables (a deferred literal, a `return` inside the body of a range-over-func loop) at the places that assign them; a table that is nil on every merge edge on which the error may be non-nil counts as nil. (L3) the atomic store is reached only with a non-nil table (dominating t != nil in the storing function, or in every caller of an unexported storing helper). (L4) for every call of the text constructor from which a published table derives: the innermost loop around it (or around the call of the helper that contains it) is the update loop; walking forward from the constructor call along branches consistent with 'the constructor returned an error' (err != nil; one level up: the constants the helper returns on that path) every path comes back to the loop head without return/exit/panic and the last installed text arrives unchanged; the last installed text is a string (immutable snapshot) that is compared with the candidate text and receives it on the success path - as a loop-carried local, or as a captured variable / field of a watcher struct. (P1) constant indices into strings.Split-family results (also out of a small helper) need a dominating length fact, submatch indices a dominating m != nil and enough capture groups in the constant pattern (or a dominating length fact), slice bounds from strings.Index* a dominating >= 0 test. (P3) integer divisions in the builder/lookup region need a non-zero fact (for a helper parameter, or an expression over a helper's parameters such as len(r.l): at every call site, with small accessor and predicate helpers opened). (P4) a float parsed by strconv.ParseFloat in the builder leaves its parser only under tests excluding NaN and both infinities (math.IsNaN/IsInf, f != f, |f| > MaxFloat64, or a predicate helper implying them); computed allocation sizes need a non-negative fact. (P7) no MustCompile(non-constant)/panic below Table.Lookup/LookupHost. (P8) the custom definition list is dereferenced only under a nil test (a comparison, or a predicate helper all of whose ways to that verdict test it), in NewTableCustom, the helpers it hands the pointer to, or a function literal that captures it and is made under the test. (P9) every store to Route.Glob stores the result of a glob.Compile that returned no error (through compile wrappers - also ones that return through result slots because of a deferred unlock -, route constructors, and memos of compiled patterns: a map or sync.Map entry that is known to be present counts when everything ever stored into that memo is such a result), or the store fills a route made in the same function that leaves it only where the compile error is known to be nil; and Route literals set Glob. The regions of the P rules continue through function literals and the bodies of range-over-func loops. Not decided: that gobwas/glob.Compile, net/url.Parse and regexp never panic (trusted).",
		Run:     runC02,
		Trusted: []string{"sync/atomic.Value Load/Store are atomic", "gobwas/glob.Compile, net/url.Parse, regexp matching do not panic", "encoding/json stores nil into a pointer for the JSON text null"},
		Mutants: append(append([]mutant{
			{Name: "last table kept as a view of the reused buffer", File: "main.go", Old: "\t\tlastTable   string\n", New: "\t\tlastTable   []byte\n", Expect: "C02.L4", More: []repl{{"\t\tnextTable   string\n", "\t\tnextTable   []byte\n"}, {"if nextTable = tableBuffer.String(); nextTable == lastTable {", "if nextTable = tableBuffer.Bytes(); bytes.Equal(nextTable, lastTable) {"}, {"aliases, err := route.ParseAliases(nextTable)", "aliases, err := route.ParseAliases(string(nextTable))"}, {"logRoutes(t, lastTable, nextTable, cfg.Log.RoutesFormat)", "logRoutes(t, string(lastTable), string(nextTable), cfg.Log.RoutesFormat)"}}},

			{Name: "plain package variable for the table", File: "route/table.go", Old: "func GetTable() Table {\n\treturn table.Load().(Table)\n}", New: "var plainTable Table\n\nfunc GetTable() Table {\n\tif plainTable != nil {\n\t\treturn plainTable\n\t}\n\treturn table.Load().(Table)\n}", Expect: "C02.A1"},
			{Name: "delete the nil test in SetTable", File: "route/table.go", Old: "\tif t == nil {\n\t\tlog.Print(\"[WARN] Ignoring nil routing table\")\n\t\treturn\n\t}\n", New: "", Expect: "C02.L3"},
			{Name: "NewTable returns the partial table with the error", File: "route/table.go", Old: "\t\tdefault:\n\t\t\terr = fmt.Errorf(\"route: invalid command: %s\", d.Cmd)\n\t\t}\n\t\tif err != nil {\n\t\t\treturn nil, err\n\t\t}\n\t}\n\n\t// Sort the route table for each hostname\n\tfor _, h := range t {\n\t\tsort.Sort(h)\n\t}\n\n\treturn t, nil\n}\n\nfunc NewTableCustom", New: "\t\tdefault:\n\t\t\terr = fmt.Errorf(\"route: invalid command: %s\", d.Cmd)\n\t\t}\n\t\tif err != nil {\n\t\t\treturn t, err\n\t\t}\n\t}\n\n\t// Sort the route table for each hostname\n\tfor _, h := range t {\n\t\tsort.Sort(h)\n\t}\n\n\treturn t, nil\n}\n\nfunc NewTableCustom", Expect: "C02.L2"},
			{Name: "error edge falls through to the install path (the nil table is ignored, the rejected text is remembered)", File: "main.go", Old: "\t\t\t\tlog.Printf(\"[WARN] %s\", err)\n\t\t\t\tcontinue\n", New: "\t\t\t\tlog.Printf(\"[WARN] %s\", err)\n", Expect: "C02.L4"},
			{Name: "error edge leaves the update loop", File: "main.go", Old: "\t\t\t\tlog.Printf(\"[WARN] %s\", err)\n\t\t\t\tcontinue\n", New: "\t\t\t\tlog.Printf(\"[WARN] %s\", err)\n\t\t\t\treturn\n", Expect: "C02.L4"},
			{Name: "error edge advances lastTable", File: "main.go", Old: "\t\t\t\tlog.Printf(\"[WARN] %s\", err)\n\t\t\t\tcontinue\n", New: "\t\t\t\tlog.Printf(\"[WARN] %s\", err)\n\t\t\t\tlastTable = nextTable\n\t\t\t\tcontinue\n", Expect: "C02.L4"},
			{Name: "mutate t after SetTable", File: "main.go", Old: "\t\t\troute.SetTable(t)\n", New: "\t\t\troute.SetTable(t)\n\t\t\tt[\"x\"] = nil\n", Expect: "C02.A2"},
			{Name: "second GetTable inside Table.Lookup", File: "route/table.go", Old: "\thosts = append(hosts, \"\")\n\tfor _, h := range hosts {\n\t\tif target = t.lookup(", New: "\thosts = append(hosts, \"\")\n\tfor _, h := range hosts {\n\t\tif target = GetTable().lookup(", Expect: "C02.A4"},
			{Name: "remove the finiteness guard", File: "route/parse_new.go", Old: "if err != nil || math.IsNaN(f) || math.IsInf(f, 0) {", New: "if err != nil || (f < 0 && (math.IsNaN(f) || math.IsInf(f, 0))) {", Expect: "C02.P4"},
			{Name: "custom definitions dereferenced unchecked", File: "route/table.go", Old: "\tif defs == nil {\n\t\treturn nil, errors.New(\"route: no route definitions\")\n\t}\n", New: "", Expect: "C02.P8"},
			{Name: "one capture group fewer", File: "route/parse_new.go", Old: "( opts \"([^\"]*)\")?$`)", New: "( opts \"[^\"]*\")?$`)", Expect: "C02.P1"},
			{Name: "submatch used without nil test", File: "route/parse_new.go", Old: "\tif m := reDelTags.FindStringSubmatch(s); m != nil {\n\t\treturn &RouteDef{Cmd: RouteDelCmd, Tags: parseTags(m[1])}, nil\n\t}", New: "\tif m := reDelTags.FindStringSubmatch(s); len(s) > 0 {\n\t\treturn &RouteDef{Cmd: RouteDelCmd, Tags: parseTags(m[1])}, nil\n\t}", Expect: "C02.P1"},
			{Name: "hostpath indexes the second element unguarded", File: "route/table.go", Old: "\tif len(p) == 1 {\n\t\treturn host, \"/\"\n\t}\n", New: "", Expect: "C02.P1"},
			{Name: "MustCompile on the request path again", File: "route/table.go", Old: "\t\t\t// a pattern which does not compile cannot match\n\t\t\tlog.Print(\"[ERROR] Compiling glob - \", err)\n\t\t\tcontinue", New: "\t\t\tg = glob.MustCompile(normpat)", Expect: "C02.P7"},
			{Name: "path that is not a glob keeps a nil matcher", File: "route/table.go", Old: "\t\tg, err := glob.Compile(path)\n\t\tif err != nil {\n\t\t\treturn err\n\t\t}\n\t\tr := &Route{Host: host, Path: path, Glob: g}\n\t\tr.addTarget(d.Service, targetURL, d.Weight, d.Tags, d.Opts)\n\t\tt[host] = Routes{r}", New: "\t\tg, err := glob.Compile(path)\n\t\tif err != nil {\n\t\t\tlog.Printf(\"[WARN] route: path %q is not a valid glob: %s\", path, err)\n\t\t}\n\t\tr := &Route{Host: host, Path: path, Glob: g}\n\t\tr.addTarget(d.Service, targetURL, d.Weight, d.Tags, d.Opts)\n\t\tt[host] = Routes{r}", Expect: "C02.P9"},
			{Name: "benign: atomic.Pointer-like helper around SetTable", File: "main.go", Old: "\t\t\troute.SetTable(t)\n", New: "\t\t\tinstall := route.SetTable\n\t\t\tinstall(t)\n", Expect: ""},
		}, c02moreMutants...), c02round3Mutants...),
	})
}

func runC02(c *Ctx) {
	x := runC02A1(c)
	c02cur = x // the round-4 rules (c02_round4.go) run right after this function, on the same analysis
	// A2 / A4 reuse the publish rules
	tmp := &Ctx{Dir: c.Dir, Pkgs: c.Pkgs, Fset: c.Fset, Prog: c.Prog, spkgs: c.spkgs, ppkgs: c.ppkgs, AllFns: c.AllFns, cg: c.cg}
	runPublish(tmp, "C02.A2", "C02.A4")
	nA4 := 0
	if x.holder != nil {
		runC02A2wrappers(c, x)
		nA4 = runC02A4wrappers(c, x)
	}
	c02adoptPublish(c, tmp, nA4, x)
	// A3
	sa := newSharedAnalysis(c)
	n := sa.s1("C02.A3", func(f *ssa.Function, step string) bool {
		return strings.HasPrefix(step, "route.Target") || strings.HasPrefix(step, "route.Route") || strings.HasPrefix(step, "route.Table")
	})
	c.atLeast("C02.A3", "stores into route.Table/Route/Target reachable from serving roots", n, 1)
	runC02L2(c, x)
	runC02L3(c, x)
	if x.holder != nil {
		runC02L1(c, x)
	}
	runC02L4(c, x)
	runC02P(c, x)
	runC02P9(c, x)
	c02debugDump(c)
}

// c02adoptPublish takes over the observations of the shared publish rules. Two of its vacuity guards are keyed on
// today's cut of the code and are replaced here by what they stand for:
//   - "route.Table.<unexported method> not found": the obligation "nothing below a table method reloads the table" is
//     already stated for the exported lookup entries (Table.Lookup, Table.LookupHost), whose reach includes whatever
//     the unexported helpers are called now;
//   - "per-request entries that load the table >= 4": the rule is not vacuous as long as at least two entries were
//     judged (merging two lookup closures into one is not a change of behaviour).
func c02adoptPublish(c *Ctx, tmp *Ctx, nOwn int, x *c02pubs) {
	nEntries, exportedOK := nOwn, 0
	for _, o := range tmp.Obs {
		if o.Rule == "C02.A4" && strings.HasSuffix(o.Construct, "|one GetTable per request path") {
			nEntries++
		}
		if o.Rule == "C02.A4" && o.st == OK && (strings.HasPrefix(o.Construct, "(route.Table).Lookup|") || strings.HasPrefix(o.Construct, "(route.Table).LookupHost|")) {
			exportedOK++
		}
	}
	// A2 is about the routing table: of the shared rule's obligations (one per atomic publication in the repository:
	// certificate store, noroute page, ...) only those at the table's publication sites belong to this property, and
	// its vacuity guards (>= 3 atomic stores, >= 2 calls of publishing functions in the whole repository) are
	// replaced by: the table's own store and at least one call that hands a table to it were judged.
	tableKeys := map[string]bool{}
	nStore, nCall := 0, 0
	if x.holder != nil {
		for _, s := range x.sites {
			if s.direct {
				tableKeys[fnKey(s.fn)+"|no write after atomic publish"] = true
			} else {
				tableKeys[fnKey(s.fn)+"|no write after "+s.callee] = true
			}
		}
		for _, o := range append(append([]Ob{}, tmp.Obs...), c.Obs...) {
			if o.Rule != "C02.A2" || o.st == Undecided || !tableKeys[o.Construct] {
				continue
			}
			if strings.HasSuffix(o.Construct, "|no write after atomic publish") {
				nStore++
			} else {
				nCall++
			}
		}
	}
	for _, o := range tmp.Obs {
		if o.Rule == "C02.A2" && x.holder != nil {
			if o.st == Undecided && strings.HasPrefix(o.Construct, "anchor|") {
				continue // replaced below
			}
			if !tableKeys[o.Construct] {
				continue // another atomic publication of the repository
			}
		}
		if o.st == Undecided && o.Rule == "C02.A4" {
			if strings.HasPrefix(o.Construct, "anchor|route.Table.") {
				name := strings.TrimPrefix(o.Construct, "anchor|route.Table.")
				if !token.IsExported(name) && exportedOK == 2 {
					continue
				}
			}
			if o.Construct == "anchor|per-request entries that load the table" && nEntries >= 2 {
				continue
			}
		}
		c.Obs = append(c.Obs, o)
	}
	if x.holder != nil {
		c.atLeast("C02.A2", "atomic stores of the table judged", nStore, 1)
		c.atLeast("C02.A2", "calls that hand a table to a publishing function judged", nCall, 1)
	}
}

// runC02A4wrappers: the shared one-snapshot rule counts direct calls of route.GetTable in a per-request entry. An entry
// that takes the table from a parameterless helper around the getter (func activeTable() route.Table { return
// route.GetTable() }) is judged here, over the calls of the getter and of all such helpers together.
func runC02A4wrappers(c *Ctx, x *c02pubs) int {
	n := 0
	getterLike := map[*ssa.Function]bool{}
	exported := map[*ssa.Function]bool{}
	for _, g := range x.getters {
		getterLike[g] = true
		if !x.onlyStatic(g) {
			exported[g] = true
		}
	}
	for changed := true; changed; {
		changed = false
		for _, f := range c02fns(c) {
			if getterLike[f] || f.Signature.Params().Len() != 0 || f.Signature.Recv() != nil || f.Signature.Results().Len() != 1 || !c02isTableType(f.Signature.Results().At(0).Type()) {
				continue
			}
			all, n := true, 0
			eachInstr(f, func(i ssa.Instruction) {
				if r, ok := i.(*ssa.Return); ok && len(r.Results) == 1 {
					n++
					call, isCall := c02strip(r.Results[0]).(*ssa.Call)
					if !isCall || !getterLike[call.Call.StaticCallee()] {
						all = false
					}
				}
			})
			if all && n > 0 {
				getterLike[f] = true
				changed = true
			}
		}
	}
	for _, r := range c.servingRoots() {
		var calls []ssa.Instruction
		viaHelper := false
		eachInstr(r, func(i ssa.Instruction) {
			if cc := callCommon(i); cc != nil && getterLike[cc.StaticCallee()] {
				calls = append(calls, i)
				if !exported[cc.StaticCallee()] {
					viaHelper = true
				}
			}
		})
		if !viaHelper || getterLike[r] {
			continue // only direct calls of the exported getter: judged by the shared rule
		}
		multi := false
		for _, a := range calls {
			for _, b := range calls {
				if pathAvoiding(a, b, nil) {
					multi = true
				}
			}
		}
		n++
		c.check("C02.A4", fnKey(r)+"|one GetTable per request path", calls[0].Pos(), !multi,
			"a per-request entry must load the published table once (directly or through a helper around the getter); two loads on one path can straddle a table replacement, so one request is answered from a mixture of two tables")
	}
	return n
}

// c02debugDump prints every obligation when C02_DEBUG is set (development aid).
func c02debugDump(c *Ctx) {
	if os.Getenv("C02_DEBUG") == "" {
		return
	}
	for _, o := range c.Obs {
		fmt.Fprintf(os.Stderr, "OB %-11s %-5s [%s] at %s\n", o.Status, o.Rule, o.Construct, o.Pos)
	}
}
