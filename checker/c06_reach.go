package main

// A sharper view of "reachable from a serving entry" for the shared-state rules of C06 (hardening round 3).
//
// The repository call graph (callgraph.go) resolves a call of a function VALUE whose origin it does not see in the
// calling function - the result of a repository helper (`defer h.connOpened()()`), a parameter, a struct field, a
// captured variable - to every address-taken repository function of the same signature. For `func()` that is every
// clean-up closure, timer callback and start-up closure of the program: after "extract the bookkeeping into a helper
// that returns the function which undoes it", S1 reported stores of start-up closures (main.startServers$9$1,
// auth.newBasicAuth$2) as request-path writes. The value's origins are resolved here where they are all visible:
//
//	the result of a repository function          -> what its return statements return
//	a parameter of a function whose calls are all visible static calls -> the arguments at those calls
//	a captured variable / a local variable cell   -> what is bound / stored into the cell (also by sibling closures)
//	a function-typed field of a repository struct -> every value stored into that field anywhere in the repository
//	                                                 (unless the field's address escapes)
//
// When every origin resolves, the call has exactly those targets; the edges the signature fallback added for this call
// (and for no other reason) are dropped. Anything unclear keeps the fallback: the view only ever shrinks to what the
// source shows.

import (
	"go/token"
	"go/types"
	"os"
	"strings"

	"golang.org/x/tools/go/ssa"
)

type c06fieldVals struct {
	vals    []ssa.Value
	escapes bool
}

type c06callView struct {
	c      *Ctx
	fields map[string]*c06fieldVals
	scan   []*ssa.Function
}

func c06newCallView(c *Ctx) *c06callView {
	cv := &c06callView{c: c, fields: map[string]*c06fieldVals{}}
	cv.scan = append(cv.scan, c.AllFns...)
	for _, sp := range c.spkgs {
		if initFn := sp.Func("init"); initFn != nil && len(initFn.Blocks) > 0 {
			cv.scan = append(cv.scan, initFn)
		}
	}
	for _, f := range cv.scan {
		eachInstr(f, func(i ssa.Instruction) {
			fa, ok := i.(*ssa.FieldAddr)
			if !ok {
				return
			}
			key := c06funcFieldKey(fa.X.Type(), fa.Field)
			if key == "" {
				return
			}
			fv := cv.fields[key]
			if fv == nil {
				fv = &c06fieldVals{}
				cv.fields[key] = fv
			}
			for _, r := range *fa.Referrers() {
				switch y := r.(type) {
				case *ssa.Store:
					if y.Addr == ssa.Value(fa) {
						fv.vals = append(fv.vals, y.Val)
					} else {
						fv.escapes = true
					}
				case *ssa.UnOp:
					if y.Op != token.MUL {
						fv.escapes = true
					}
				case *ssa.DebugRef:
				default:
					fv.escapes = true
				}
			}
		})
	}
	return cv
}

// c06funcFieldKey: "pkg.T.field" for a function-typed field of a named repository struct type, "" otherwise.
func c06funcFieldKey(t types.Type, idx int) string {
	if p, ok := t.Underlying().(*types.Pointer); ok {
		t = p.Elem()
	}
	k := typeKey(t)
	if k == "" || !isRepoTypeKey(k) {
		return ""
	}
	st, ok := t.Underlying().(*types.Struct)
	if !ok || idx >= st.NumFields() {
		return ""
	}
	if _, isFn := st.Field(idx).Type().Underlying().(*types.Signature); !isFn {
		return ""
	}
	return k + "." + st.Field(idx).Name()
}

// c06allCallsVisible: every call of f is a static call site in the analysed source (fabio is a program: its exported
// functions are called by nothing but fabio; tests are not part of the analysed source).
func c06allCallsVisible(f *ssa.Function) bool {
	if onlyStaticallyCalled(f) {
		return true
	}
	if gAddrTaken[f] || f.Parent() != nil || f.Name() == "init" || f.Name() == "main" {
		return false
	}
	if f.Signature.Recv() != nil && gInvoked[f.Name()] {
		return false
	}
	return true
}

// targets resolves the called function value v. exact is false when an origin of the value is not visible.
func (cv *c06callView) targets(v ssa.Value) (out []*ssa.Function, exact bool) {
	exact = true
	seen := map[ssa.Value]bool{}
	seenCell := map[ssa.Value]bool{}
	add := func(f *ssa.Function) {
		f = unwrap(f)
		for _, o := range out {
			if o == f {
				return
			}
		}
		out = append(out, f)
	}
	var walk func(x ssa.Value, d int)
	var cell func(a ssa.Value, d int)
	var freeCell func(fv *ssa.FreeVar, d int)
	// cell: a is the address of a variable (an Alloc, or the FreeVar through which a closure sees it): everything
	// stored into it, by the function that owns it and by the closures that capture it
	cell = func(a ssa.Value, d int) {
		if seenCell[a] || !exact {
			return
		}
		seenCell[a] = true
		refs := a.Referrers()
		if refs == nil {
			exact = false
			return
		}
		for _, r := range *refs {
			switch y := r.(type) {
			case *ssa.Store:
				if y.Addr == a {
					walk(y.Val, d+1)
				} else {
					exact = false // the address of the variable is stored somewhere
				}
			case *ssa.UnOp:
				if y.Op != token.MUL {
					exact = false
				}
			case *ssa.MakeClosure:
				fn, ok := y.Fn.(*ssa.Function)
				if !ok {
					exact = false
					continue
				}
				for k, b := range y.Bindings {
					if b == a && k < len(fn.FreeVars) {
						cell(fn.FreeVars[k], d+1)
					}
				}
			case *ssa.DebugRef:
			default:
				exact = false
			}
		}
	}
	// freeCell: the variable a closure sees through fv: find the Alloc in the function that owns it
	freeCell = func(fv *ssa.FreeVar, d int) {
		fn := fv.Parent()
		if fn == nil || fn.Parent() == nil || d > 10 {
			exact = false
			return
		}
		idx := -1
		for k, x := range fn.FreeVars {
			if x == fv {
				idx = k
			}
		}
		made := false
		eachInstr(fn.Parent(), func(i ssa.Instruction) {
			if mc, ok := i.(*ssa.MakeClosure); ok && mc.Fn == ssa.Value(fn) && idx >= 0 && idx < len(mc.Bindings) {
				made = true
				switch b := mc.Bindings[idx].(type) {
				case *ssa.Alloc:
					cell(b, d)
				case *ssa.FreeVar:
					freeCell(b, d+1)
				default:
					exact = false
				}
			}
		})
		if !made {
			exact = false
		}
	}
	walk = func(x ssa.Value, d int) {
		if !exact || x == nil || seen[x] {
			return
		}
		if d > 10 {
			exact = false
			return
		}
		seen[x] = true
		switch y := x.(type) {
		case *ssa.Function:
			add(y)
		case *ssa.MakeClosure:
			if fn, ok := y.Fn.(*ssa.Function); ok {
				add(fn)
			} else {
				exact = false
			}
		case *ssa.Const:
			// nil function value: no target
		case *ssa.Phi:
			for _, e := range y.Edges {
				walk(e, d+1)
			}
		case *ssa.ChangeType:
			walk(y.X, d+1)
		case *ssa.Extract:
			call, ok := y.Tuple.(*ssa.Call)
			if !ok {
				exact = false
				return
			}
			cv.results(call, y.Index, func(res ssa.Value) { walk(res, d+1) }, &exact)
		case *ssa.Call:
			cv.results(y, 0, func(res ssa.Value) { walk(res, d+1) }, &exact)
		case *ssa.Parameter:
			f := y.Parent()
			sites := gSites[f]
			if f == nil || len(sites) == 0 || !c06allCallsVisible(f) {
				exact = false
				return
			}
			k := -1
			for n, p := range f.Params {
				if p == y {
					k = n
				}
			}
			for _, s := range sites {
				if k < 0 || k >= len(s.Common().Args) {
					exact = false
					return
				}
				walk(s.Common().Args[k], d+1)
			}
		case *ssa.FreeVar:
			// a variable captured by value is bound directly; a captured cell is the pointer to it
			fn := y.Parent()
			if fn == nil || fn.Parent() == nil {
				exact = false
				return
			}
			idx := -1
			for k, fv := range fn.FreeVars {
				if fv == y {
					idx = k
				}
			}
			made := false
			eachInstr(fn.Parent(), func(i ssa.Instruction) {
				if mc, ok := i.(*ssa.MakeClosure); ok && mc.Fn == ssa.Value(fn) && idx >= 0 && idx < len(mc.Bindings) {
					made = true
					walk(mc.Bindings[idx], d+1)
				}
			})
			if !made {
				exact = false
			}
		case *ssa.UnOp:
			if y.Op != token.MUL {
				exact = false
				return
			}
			switch a := y.X.(type) {
			case *ssa.Alloc:
				cell(a, d)
			case *ssa.FreeVar:
				// the captured cell: what its owner and all capturing closures store into it
				freeCell(a, d)
			case *ssa.FieldAddr:
				key := c06funcFieldKey(a.X.Type(), a.Field)
				fv := cv.fields[key]
				if key == "" || fv == nil || fv.escapes {
					exact = false
					return
				}
				for _, val := range fv.vals {
					walk(val, d+1)
				}
			default:
				exact = false
			}
		case *ssa.Field:
			key := c06funcFieldKey(y.X.Type(), y.Field)
			fv := cv.fields[key]
			if key == "" || fv == nil || fv.escapes {
				exact = false
				return
			}
			for _, val := range fv.vals {
				walk(val, d+1)
			}
		default:
			exact = false
		}
	}
	walk(v, 0)
	if !exact {
		return nil, false
	}
	return out, true
}

// results: the values result #idx of the call can be. A library function returns no repository function (functions
// passed INTO a library are handled by the call graph's callback rule at the passing site).
func (cv *c06callView) results(call *ssa.Call, idx int, visit func(ssa.Value), exact *bool) {
	sc := call.Call.StaticCallee()
	if sc == nil {
		*exact = false
		return
	}
	if !isRepoFn(sc) {
		if sc.Pkg == nil {
			*exact = false // an instantiated generic / synthetic function: may hand back its argument
		}
		return
	}
	g := sc
	if len(g.Blocks) == 0 {
		*exact = false
		return
	}
	eachInstr(g, func(i ssa.Instruction) {
		if r, ok := i.(*ssa.Return); ok {
			if idx < len(r.Results) {
				visit(r.Results[idx])
			} else {
				*exact = false
			}
		}
	})
}

// c06refineShared returns a copy of the shared-state analysis whose reach / callers use the exact targets of the
// function-value calls that resolve completely.
func c06refineShared(sa *sharedAnalysis) *sharedAnalysis {
	if strings.Contains(","+os.Getenv("VERIF_C06_DEBUG")+",", ",coarse,") {
		return sa // development: the unrefined view, to see what the refinement buys
	}
	c := sa.c
	g := c.callgraph()
	cv := c06newCallView(c)
	refined := map[ssa.Instruction]map[*ssa.Function]bool{}
	out := map[*ssa.Function][]*ssa.Function{}
	for _, f := range c.AllFns {
		keep := map[*ssa.Function]bool{}
		drop := map[*ssa.Function]bool{}
		var extra []*ssa.Function
		eachInstr(f, func(i ssa.Instruction) {
			cc := callCommon(i)
			if cc != nil {
				switch {
				case cc.IsInvoke():
					for _, t := range g.out[f] {
						if t.Name() == cc.Method.Name() && t.Signature.Recv() != nil {
							keep[t] = true
						}
					}
					if ms, ok := cc.Method.Type().(*types.Signature); ok && cc.Method.Name() == "ServeHTTP" {
						for _, t := range g.bySig[sigKey(ms)] {
							keep[t] = true
						}
					}
				case cc.StaticCallee() != nil:
					keep[unwrap(cc.StaticCallee())] = true
				default:
					coarse := g.funcValueTargets(cc.Value)
					if ex, ok := cv.targets(cc.Value); ok {
						set := map[*ssa.Function]bool{}
						for _, t := range ex {
							set[t], keep[t] = true, true
							extra = append(extra, t)
						}
						refined[i] = set
						for _, t := range coarse {
							drop[t] = true
						}
					} else {
						for _, t := range coarse {
							keep[t] = true
						}
					}
				}
			}
			for _, op := range i.Operands(nil) {
				if op == nil || *op == nil {
					continue
				}
				if cc != nil && !cc.IsInvoke() && *op == cc.Value {
					continue
				}
				switch x := (*op).(type) {
				case *ssa.Function:
					if isRepoFn(x) {
						keep[unwrap(x)] = true
					}
				case *ssa.MakeClosure:
					if fn, ok := x.Fn.(*ssa.Function); ok {
						keep[unwrap(fn)] = true
					}
				}
			}
		})
		seen := map[*ssa.Function]bool{}
		for _, t := range append(append([]*ssa.Function{}, g.out[f]...), extra...) {
			if seen[t] || (drop[t] && !keep[t]) || len(t.Blocks) == 0 {
				continue
			}
			seen[t] = true
			out[f] = append(out[f], t)
		}
	}
	reach := map[*ssa.Function]bool{}
	stack := append([]*ssa.Function{}, sa.roots...)
	for len(stack) > 0 {
		f := stack[len(stack)-1]
		stack = stack[:len(stack)-1]
		if f == nil || reach[f] {
			continue
		}
		reach[f] = true
		stack = append(stack, out[f]...)
	}
	callers := map[*ssa.Function][]callSite{}
	for t, sites := range sa.callers {
		if !reach[t] {
			continue
		}
		for _, cs := range sites {
			if !reach[cs.in] {
				continue
			}
			if set, isRefined := refined[cs.inst]; isRefined && !set[t] {
				continue
			}
			callers[t] = append(callers[t], cs)
		}
	}
	sa2 := *sa
	sa2.reach, sa2.callers = reach, callers
	if c06debug() {
		for f := range sa.reach {
			if !reach[f] {
				println("c06reach: no longer on the request path:", f.String())
			}
		}
	}
	return &sa2
}

func c06debug() bool { return strings.Contains(","+os.Getenv("VERIF_C06_DEBUG")+",", ",reach,") }
