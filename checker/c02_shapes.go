package main

// Shape-independence helpers of C02 added in hardening round 3 (after the fourth round of refactorings):
//
//   - logical returns: a function whose results travel through result variables - because it has a deferred call, or
//     because the `return` stands inside the body of a range-over-func loop, which go/ssa turns into a synthetic
//     closure that stores the results into the enclosing function's result variables, sets a jump tag and returns
//     false - has SSA Return instructions that only load those variables. The rules that judge "what does this function
//     return, and under which branch facts" (L2, L1's producer summary, P9's compile wrappers) look at the logical
//     returns instead: the groups of stores into the result variables, wherever they stand.
//   - parameter cells: a parameter captured by a function literal is spilled into a variable; a load of that variable
//     (in the function or, through the capture, in the literal) stands for the parameter as long as nothing else is
//     ever stored there (P8).
//   - symbolic expressions: a value rendered over the parameters of its function, with small accessor helpers inlined,
//     so that a guard `c.capacity() == 0 -> return` in the caller protects `% len(r.l)` in the helper that the caller
//     hands &c.ring to (P3, P4 allocation sizes).

import (
	"fmt"
	"go/token"
	"go/types"
	"strings"

	"golang.org/x/tools/go/ssa"
)

// ---- result variables / logical returns -------------------------------------------------------------------------

// c02slotRefs: every store into the variable a, in a's function and in the function literals (also the synthetic
// range-over-func bodies) that capture it; escapes is set when the variable's address is used for anything but
// loads, stores and captures.
func c02slotRefs(a ssa.Value, depth int) (stores []*ssa.Store, escapes bool) {
	refs := a.Referrers()
	if refs == nil || depth > 4 {
		return nil, true
	}
	for _, r := range *refs {
		switch y := r.(type) {
		case *ssa.DebugRef:
		case *ssa.Store:
			if y.Addr == a {
				stores = append(stores, y)
			} else {
				escapes = true
			}
		case *ssa.UnOp:
			if y.Op != token.MUL {
				escapes = true
			}
		case *ssa.MakeClosure:
			fn, ok := y.Fn.(*ssa.Function)
			if !ok {
				escapes = true
				break
			}
			for k, b := range y.Bindings {
				if b == a && k < len(fn.FreeVars) {
					s, e := c02slotRefs(fn.FreeVars[k], depth+1)
					stores = append(stores, s...)
					escapes = escapes || e
				}
			}
		default:
			escapes = true
		}
	}
	return stores, escapes
}

// c02lret is one source-level return of a function: the values returned and the block where they are established
// (whose dominating branch facts hold for them). kept[k] is set when the place assigns only some of the result
// variables and result k is left as it was (results[k] is then the load of the variable in the Return instruction);
// slots[k] is the result variable.
type c02lret struct {
	results []ssa.Value
	block   *ssa.BasicBlock
	pos     token.Pos
	kept    []bool
	slots   []ssa.Value
}

// c02logicalReturns: the source-level returns of f. For a function that returns registers these are its Return
// instructions. A function that returns through result variables (they are captured by a function literal: a deferred
// one, or the synthetic body of a range-over-func loop, where a `return x, y` becomes stores into the enclosing
// function's result variables) has Return instructions that load the variables: such a Return stands for the stores
// that precede it in its block; when some Return only loads, every other block of f that stores into a result variable
// is a logical return of its own; and the blocks of nested literals that store into them always are (they run while f
// is in a call, or after its return statement when deferred). followed is false when a result variable is used in a
// way that is not modelled.
func c02logicalReturns(f *ssa.Function) (rets []c02lret, followed bool) {
	followed = true
	var slots []ssa.Value // per result index: the result variable, nil for a register result
	var slotLoads []ssa.Value
	covered := map[*ssa.BasicBlock]bool{}
	loadsOnly := false
	eachInstr(f, func(i ssa.Instruction) {
		r, ok := i.(*ssa.Return)
		if !ok {
			return
		}
		vals := append([]ssa.Value{}, r.Results...)
		viaSlot, inBlock := 0, 0
		for k, v := range r.Results {
			u, isLoad := v.(*ssa.UnOp)
			if !isLoad || u.Op != token.MUL {
				continue
			}
			a, isAlloc := u.X.(*ssa.Alloc)
			if !isAlloc || a.Parent() != f {
				continue
			}
			viaSlot++
			if slots == nil {
				slots = make([]ssa.Value, len(r.Results))
				slotLoads = append([]ssa.Value{}, r.Results...)
			}
			if k < len(slots) {
				slots[k], slotLoads[k] = a, v
			}
			if s := c02slotValue(v, r); s != v {
				vals[k] = s
				inBlock++
			}
		}
		switch {
		case viaSlot == 0 || inBlock > 0:
			rets = append(rets, c02lret{results: vals, block: r.Block(), pos: r.Pos()})
			covered[r.Block()] = true
		case r.Block() != f.Recover:
			loadsOnly = true
		}
	})
	if slots == nil {
		return rets, true
	}
	seen := map[*ssa.BasicBlock]bool{}
	var order []*ssa.BasicBlock
	for _, a := range slots {
		if a == nil {
			continue
		}
		stores, esc := c02slotRefs(a, 0)
		if esc {
			followed = false
		}
		for _, st := range stores {
			b := st.Block()
			if covered[b] || seen[b] || (b.Parent() == f && !loadsOnly) {
				continue
			}
			seen[b] = true
			order = append(order, b)
		}
	}
	for _, b := range order {
		// the last store of the block per variable; a variable the block does not store keeps the Return's load
		vals := append([]ssa.Value{}, slotLoads...)
		kept := make([]bool, len(slots))
		for k := range kept {
			kept[k] = slots[k] != nil
		}
		var pos token.Pos
		for _, in := range b.Instrs {
			st, ok := in.(*ssa.Store)
			if !ok {
				continue
			}
			for k, a := range slots {
				if a != nil && c02sameSlot(st.Addr, a) {
					vals[k], kept[k] = st.Val, false
					if st.Pos() > pos {
						pos = st.Pos()
					}
				}
			}
		}
		for _, in := range b.Instrs {
			if pos == token.NoPos {
				pos = in.Pos()
			}
		}
		if pos == token.NoPos {
			pos = f.Pos()
		}
		rets = append(rets, c02lret{results: vals, block: b, pos: pos, kept: kept, slots: slots})
	}
	return rets, followed
}

// c02errReplaced: the logical return assigns only the error result, and does so where the error result is known to be
// non-nil already (a deferred literal that decorates the error): the table result stays what the return statement made
// it, which is judged there.
func c02errReplaced(r c02lret) bool {
	if len(r.kept) != 2 || !r.kept[0] || r.kept[1] || r.slots[1] == nil {
		return false
	}
	return knownNonNil(r.block, func(o ssa.Value) bool {
		u, ok := o.(*ssa.UnOp)
		return ok && u.Op == token.MUL && c02sameSlot(u.X, r.slots[1])
	})
}

// c02sameSlot: addr designates the variable a - a itself, or the free variable of a literal that is bound to it.
func c02sameSlot(addr, a ssa.Value) bool {
	for n := 0; n < 5 && addr != nil; n++ {
		if addr == a {
			return true
		}
		fv, ok := addr.(*ssa.FreeVar)
		if !ok {
			return false
		}
		addr = c02binding(fv)
	}
	return false
}

// c02binding: what the free variable fv of a function literal is bound to where the literal is made (nil when the
// literal is made in several places with different bindings).
func c02binding(fv *ssa.FreeVar) ssa.Value {
	fn := fv.Parent()
	if fn == nil || fn.Parent() == nil {
		return nil
	}
	idx := -1
	for k, v := range fn.FreeVars {
		if v == fv {
			idx = k
		}
	}
	var out ssa.Value
	n := 0
	eachInstr(fn.Parent(), func(i ssa.Instruction) {
		if mc, ok := i.(*ssa.MakeClosure); ok && mc.Fn == ssa.Value(fn) && idx >= 0 && idx < len(mc.Bindings) {
			if n == 0 || out == mc.Bindings[idx] {
				out = mc.Bindings[idx]
			} else {
				out = nil
			}
			n++
		}
	})
	return out
}

// c02makers: the MakeClosure instructions that make fn, in fn's parent.
func c02makers(fn *ssa.Function) []*ssa.MakeClosure {
	var out []*ssa.MakeClosure
	if fn.Parent() == nil {
		return nil
	}
	eachInstr(fn.Parent(), func(i ssa.Instruction) {
		if mc, ok := i.(*ssa.MakeClosure); ok && mc.Fn == ssa.Value(fn) {
			out = append(out, mc)
		}
	})
	return out
}

// c02passThroughVals: the two values are both results of one call of a (table, error) function.
func c02passThroughVals(v0, v1 ssa.Value) *ssa.Call {
	e0, ok0 := v0.(*ssa.Extract)
	e1, ok1 := v1.(*ssa.Extract)
	if !ok0 || !ok1 || e0.Tuple != e1.Tuple || e0.Index != 0 || e1.Index != 1 {
		return nil
	}
	call, _ := e0.Tuple.(*ssa.Call)
	return call
}

// ---- parameter cells --------------------------------------------------------------------------------------------

// c02paramOrigin: v is the parameter p of the function it stands in or of an enclosing function - p itself, or a load
// of the variable p was spilled into (because a literal captures it) to which nothing but p is ever assigned. cell is
// that variable; outer is the literal (a direct child of p's function) through which v's function sees it, nil when v
// stands in p's function.
func c02paramOrigin(v ssa.Value) (p *ssa.Parameter, cell *ssa.Alloc, outer *ssa.Function) {
	v = c02strip(v)
	if q, ok := v.(*ssa.Parameter); ok {
		return q, nil, nil
	}
	u, ok := v.(*ssa.UnOp)
	if !ok || u.Op != token.MUL {
		return nil, nil, nil
	}
	addr := u.X
	fn := u.Parent()
	for n := 0; n < 5; n++ {
		fv, isFV := addr.(*ssa.FreeVar)
		if !isFV {
			break
		}
		outer = fv.Parent()
		addr = c02binding(fv)
		if addr == nil {
			return nil, nil, nil
		}
	}
	a, isAlloc := addr.(*ssa.Alloc)
	if !isAlloc {
		return nil, nil, nil
	}
	stores, esc := c02slotRefs(a, 0)
	if esc || len(stores) != 1 {
		return nil, nil, nil
	}
	q, isParam := stores[0].Val.(*ssa.Parameter)
	if !isParam || q.Parent() != a.Parent() {
		return nil, nil, nil
	}
	if fn == a.Parent() {
		outer = nil
	}
	return q, a, outer
}

// nonNilOrigin: the value v (see c02paramOrigin) is not nil at block at: by a fact on it there, or - for a use inside
// a literal - because the literal is made where the parameter is known to be non-nil (the variable never changes).
func (x *c02pubs) nonNilOrigin(v ssa.Value, at *ssa.BasicBlock) bool {
	p, cell, outer := c02paramOrigin(v)
	if p == nil {
		return false
	}
	if cell == nil {
		return x.nonNilAt(p, at, 0)
	}
	if outer == nil {
		return x.nonNilCell(p, cell, at, 0)
	}
	// inside the literal: a test of the captured variable there
	if knownNonNil(at, func(o ssa.Value) bool {
		q, c2, _ := c02paramOrigin(o)
		return q == p && c2 == cell
	}) {
		return true
	}
	mcs := c02makers(outer)
	if len(mcs) == 0 {
		return false
	}
	for _, mc := range mcs {
		if !x.nonNilCell(p, cell, mc.Block(), 0) {
			return false
		}
	}
	return true
}

// ---- symbolic expressions -----------------------------------------------------------------------------------------

var c02symIDs = map[ssa.Value]int{}

func c02symTok(kind string, v ssa.Value) string {
	id, ok := c02symIDs[v]
	if !ok {
		id = len(c02symIDs) + 1
		c02symIDs[v] = id
	}
	return fmt.Sprintf("{%s%d}", kind, id)
}

// c02symClosed: the expression speaks only of parameters, package-level variables and constants (no local value, no
// captured variable): it can be translated to a call site.
func c02symClosed(e string) bool {
	return !strings.Contains(e, "{l") && !strings.Contains(e, "{v")
}

func c02isIntType(t types.Type) bool {
	bt, ok := t.Underlying().(*types.Basic)
	return ok && bt.Info()&types.IsInteger != 0
}

// c02onlyReturn: the single returned value of a repository function with one result and one return statement.
func c02onlyReturn(sc *ssa.Function) ssa.Value {
	if sc == nil {
		return nil
	}
	sc = unwrap(sc)
	if !isRepoFn(sc) || len(sc.Blocks) == 0 || sc.Signature.Results().Len() != 1 {
		return nil
	}
	var res ssa.Value
	n := 0
	eachInstr(sc, func(i ssa.Instruction) {
		if r, ok := i.(*ssa.Return); ok && len(r.Results) == 1 {
			n++
			res = r.Results[0]
		}
	})
	if n != 1 {
		return nil
	}
	return res
}

// c02sym renders v as an expression over the parameters of its function ({pN}), captured variables ({vN}),
// package-level variables, constants and local values ({lN}); loads are transparent (as in accessPath), integer
// conversions are dropped, len/cap are kept, and a call of a small repository accessor (one return statement whose
// value is an expression over the accessor's parameters) is replaced by that expression with the arguments put in.
func c02sym(v ssa.Value, bind map[*ssa.Parameter]string, depth int) string {
	switch y := v.(type) {
	case *ssa.Parameter:
		if s, ok := bind[y]; ok {
			return s
		}
		return c02symTok("p", y)
	case *ssa.FreeVar:
		return c02symTok("v", y)
	case *ssa.Global:
		if y.Pkg != nil {
			return y.Pkg.Pkg.Path() + "." + y.Name()
		}
	case *ssa.Const:
		if k, ok := constInt(y); ok {
			return fmt.Sprint(k)
		}
		return y.String()
	case *ssa.UnOp:
		switch y.Op {
		case token.MUL:
			if _, isAlloc := y.X.(*ssa.Alloc); isAlloc {
				return c02symTok("l", y) // the content of a local variable at this point
			}
			return c02sym(y.X, bind, depth)
		case token.NOT:
			return "!" + c02sym(y.X, bind, depth)
		case token.SUB:
			return "-" + c02sym(y.X, bind, depth)
		}
	case *ssa.FieldAddr:
		return c02sym(y.X, bind, depth) + "." + fieldName(y.X.Type(), y.Field)
	case *ssa.Field:
		return c02sym(y.X, bind, depth) + "." + fieldName(y.X.Type(), y.Field)
	case *ssa.IndexAddr:
		return c02sym(y.X, bind, depth) + "[" + c02sym(y.Index, bind, depth) + "]"
	case *ssa.Index:
		return c02sym(y.X, bind, depth) + "[" + c02sym(y.Index, bind, depth) + "]"
	case *ssa.Lookup:
		if !y.CommaOk {
			return c02sym(y.X, bind, depth) + "[" + c02sym(y.Index, bind, depth) + "]"
		}
	case *ssa.ChangeType:
		return c02sym(y.X, bind, depth)
	case *ssa.Convert:
		if c02isIntType(y.Type()) && c02isIntType(y.X.Type()) {
			return c02sym(y.X, bind, depth)
		}
	case *ssa.BinOp:
		return "(" + c02sym(y.X, bind, depth) + y.Op.String() + c02sym(y.Y, bind, depth) + ")"
	case *ssa.Call:
		if b, isB := y.Call.Value.(*ssa.Builtin); isB && (b.Name() == "len" || b.Name() == "cap") && len(y.Call.Args) == 1 {
			return b.Name() + "(" + c02sym(y.Call.Args[0], bind, depth) + ")"
		}
		if y.Call.IsInvoke() || depth > 2 {
			break
		}
		sc := y.Call.StaticCallee()
		res := c02onlyReturn(sc)
		if res == nil {
			break
		}
		sc = unwrap(sc)
		nb := map[*ssa.Parameter]string{}
		for k, p := range sc.Params {
			if k < len(y.Call.Args) {
				nb[p] = c02sym(y.Call.Args[k], bind, depth)
			}
		}
		if s := c02sym(res, nb, depth+1); !strings.Contains(s, "{l") {
			return s
		}
	}
	return c02symTok("l", v)
}

// c02symCmp: the fact as a comparison of two symbolic expressions (xs op ys holds); a fact that is the boolean result
// of a small predicate helper (`func (r *ring) empty() bool { return len(r.l) == 0 }`) is opened.
func c02symCmp(f Fact, depth int) (xs string, op token.Token, ys string, ok bool) {
	cond, truth := f.Cond, f.Truth
	var bind map[*ssa.Parameter]string
	for n := 0; n < 3; n++ {
		for {
			u, isNot := cond.(*ssa.UnOp)
			if !isNot || u.Op != token.NOT {
				break
			}
			cond, truth = u.X, !truth
		}
		call, isCall := cond.(*ssa.Call)
		if !isCall || call.Call.IsInvoke() {
			break
		}
		res := c02onlyReturn(call.Call.StaticCallee())
		if res == nil {
			break
		}
		sc := unwrap(call.Call.StaticCallee())
		nb := map[*ssa.Parameter]string{}
		for k, p := range sc.Params {
			if k < len(call.Call.Args) {
				nb[p] = c02sym(call.Call.Args[k], bind, 0)
			}
		}
		cond, bind = res, nb
	}
	cmp, isCmp := cond.(*ssa.BinOp)
	if !isCmp {
		return "", 0, "", false
	}
	op = cmp.Op
	if !truth {
		switch op {
		case token.LSS:
			op = token.GEQ
		case token.GEQ:
			op = token.LSS
		case token.GTR:
			op = token.LEQ
		case token.LEQ:
			op = token.GTR
		case token.EQL:
			op = token.NEQ
		case token.NEQ:
			op = token.EQL
		default:
			return "", 0, "", false
		}
	}
	switch op {
	case token.LSS, token.GEQ, token.GTR, token.LEQ, token.EQL, token.NEQ:
	default:
		return "", 0, "", false
	}
	return c02sym(cmp.X, bind, 0), op, c02sym(cmp.Y, bind, 0), true
}

// c02symBound: a fact at block at states `e op k` for a constant k accepted by accept.
func c02symBound(e string, at *ssa.BasicBlock, accept func(op token.Token, k int64) bool) bool {
	for _, f := range factsAt(at) {
		xs, op, ys, ok := c02symCmp(f, 0)
		if !ok {
			continue
		}
		if ys == e {
			// k op e  ==  e op' k
			xs, ys = ys, xs
			switch op {
			case token.LSS:
				op = token.GTR
			case token.GTR:
				op = token.LSS
			case token.LEQ:
				op = token.GEQ
			case token.GEQ:
				op = token.LEQ
			}
		}
		if xs != e {
			continue
		}
		var k int64
		if _, err := fmt.Sscanf(ys, "%d", &k); err != nil || fmt.Sprint(k) != ys {
			continue
		}
		if accept(op, k) {
			return true
		}
	}
	return false
}

// symHolds: accept holds for the value d at block at by a fact on the same symbolic expression there, or - when the
// expression speaks only of the parameters of an unexported helper - at every call site of the helper, with the
// arguments put in (up to three levels).
func (x *c02pubs) symHolds(d ssa.Value, at *ssa.BasicBlock, accept func(op token.Token, k int64) bool) bool {
	if at == nil || at.Parent() == nil {
		return false
	}
	return x.symHoldsExpr(c02sym(c02stripConv(d), nil, 0), at.Parent(), at, accept, 0)
}

func (x *c02pubs) symHoldsExpr(e string, fn *ssa.Function, at *ssa.BasicBlock, accept func(op token.Token, k int64) bool, depth int) bool {
	if c02symBound(e, at, accept) {
		return true
	}
	if depth >= 3 || !c02symClosed(e) || !strings.Contains(e, "{p") || !x.onlyStatic(fn) {
		return false
	}
	sites := c02sites(fn)
	if len(sites) == 0 {
		return false
	}
	for _, s := range sites {
		if s.Parent() == fn || s.Block() == nil {
			return false
		}
		cc := s.Common()
		e2 := e
		for k, p := range fn.Params {
			tok := c02symTok("p", p)
			if !strings.Contains(e2, tok) {
				continue
			}
			if k >= len(cc.Args) {
				return false
			}
			e2 = strings.ReplaceAll(e2, tok, c02sym(cc.Args[k], nil, 0))
		}
		if !x.symHoldsExpr(e2, s.Parent(), s.Block(), accept, depth+1) {
			return false
		}
	}
	return true
}

func c02acceptNonZero(op token.Token, k int64) bool {
	switch op {
	case token.GTR:
		return k >= 0
	case token.GEQ:
		return k >= 1
	case token.NEQ:
		return k == 0
	case token.EQL:
		return k != 0
	case token.LSS:
		return k <= 0
	case token.LEQ:
		return k < 0
	}
	return false
}

func c02acceptNonNeg(op token.Token, k int64) bool {
	switch op {
	case token.GTR:
		return k >= -1
	case token.GEQ, token.EQL:
		return k >= 0
	}
	return false
}

// ---- nil-ness across merges and predicate helpers -----------------------------------------------------------------

// c02nilWhenErr: whenever control is at block at, tbl is nil or err is nil - the constant, or a merge every edge of
// which carries a nil table or a provably nil error (`t, err := build(); if err != nil { t = nil }; return t, err`).
func c02nilWhenErr(tbl, err ssa.Value, at *ssa.BasicBlock, depth int) bool {
	if isNilConst(tbl) {
		return true
	}
	if at != nil && c02defNil(err, at, map[ssa.Value]bool{}) {
		return true
	}
	phi, ok := tbl.(*ssa.Phi)
	if !ok || depth > 3 {
		return false
	}
	b := phi.Block()
	for k, e := range phi.Edges {
		p := b.Preds[k]
		ek := err
		if ephi, isPhi := err.(*ssa.Phi); isPhi && ephi.Block() == b {
			ek = ephi.Edges[k]
		}
		if isNilConst(e) || c02edgeNil(p, b, ek) || c02nilWhenErr(e, ek, p, depth+1) {
			continue
		}
		return false
	}
	return true
}

// c02nonNilByPredicate: a branch fact at block at is the verdict of a small repository predicate about the value
// (`if noDefs(defs) { return ... }` with `func noDefs(d *[]RouteDef) bool { return d == nil || len(*d) == 0 }`), and
// every way the predicate has to give that verdict passes a test that shows its parameter is not nil.
func c02nonNilByPredicate(at *ssa.BasicBlock, same func(ssa.Value) bool) bool {
	if at == nil {
		return false
	}
	for _, f := range factsAt(at) {
		call, ok := f.Cond.(*ssa.Call)
		if !ok || call.Call.IsInvoke() {
			continue
		}
		sc := call.Call.StaticCallee()
		if sc == nil || !isRepoFn(sc) || sc.Signature.Results().Len() != 1 {
			continue
		}
		sc = unwrap(sc)
		if len(sc.Blocks) == 0 {
			continue
		}
		if bt, isB := sc.Signature.Results().At(0).Type().Underlying().(*types.Basic); !isB || bt.Kind() != types.Bool {
			continue
		}
		for k, a := range call.Call.Args {
			if k >= len(sc.Params) || !same(c02strip(a)) {
				continue
			}
			cases := c02retCases(sc, f.Truth, 0)
			if len(cases) == 0 {
				continue
			}
			all := true
			for _, cf := range cases {
				found := false
				for _, g := range cf {
					if nn, isNil := nilFact(g, sameVal(sc.Params[k])); isNil && nn {
						found = true
					}
				}
				if !found {
					all = false
				}
			}
			if all {
				return true
			}
		}
	}
	return false
}

// ---- regions ------------------------------------------------------------------------------------------------------

// The shared function list (Ctx.AllFns), call-site index (gSites) and call graph leave out synthetic functions; the
// body of a range-over-func loop is one ("range-over-func yield"), although it is source code of the repository. The
// rules of C02 look at these bodies as well.

var c02synth struct {
	prog  *ssa.Program
	n     int
	fns   []*ssa.Function
	extra map[*ssa.Function][]ssa.CallInstruction
}

func c02isLoopBody(f *ssa.Function) bool {
	return f != nil && f.Parent() != nil && strings.HasPrefix(f.Synthetic, "range-over-func") && len(f.Blocks) > 0
}

func c02prepare(c *Ctx) {
	if c02synth.prog == c.Prog && c02synth.n == len(c.AllFns) && c02synth.fns != nil {
		return
	}
	c02synth.prog, c02synth.n = c.Prog, len(c.AllFns)
	c02synth.fns = append([]*ssa.Function{}, c.AllFns...)
	c02synth.extra = map[*ssa.Function][]ssa.CallInstruction{}
	seen := map[*ssa.Function]bool{}
	var add func(f *ssa.Function)
	add = func(f *ssa.Function) {
		for _, a := range f.AnonFuncs {
			if seen[a] {
				continue
			}
			seen[a] = true
			if c02isLoopBody(a) {
				c02synth.fns = append(c02synth.fns, a)
				eachInstr(a, func(i ssa.Instruction) {
					if ci, ok := i.(ssa.CallInstruction); ok {
						if sc := ci.Common().StaticCallee(); sc != nil && isRepoFn(sc) {
							c02synth.extra[sc] = append(c02synth.extra[sc], ci)
						}
					}
				})
			}
			add(a)
		}
	}
	for _, f := range c.AllFns {
		if f.Parent() == nil {
			add(f)
		}
	}
}

// c02fns: the source functions of the repository, including the bodies of range-over-func loops.
func c02fns(c *Ctx) []*ssa.Function {
	c02prepare(c)
	return c02synth.fns
}

// c02sites: the static call sites of fn, including those inside the bodies of range-over-func loops.
func c02sites(fn *ssa.Function) []ssa.CallInstruction {
	if len(c02synth.extra[fn]) == 0 {
		return gSites[fn]
	}
	return append(append([]ssa.CallInstruction{}, gSites[fn]...), c02synth.extra[fn]...)
}

// c02reach: what the checker's call graph reaches from the roots, closed under "makes a function literal" (a literal
// that is handed to a function value - an iterator's yield function, a callback - runs when its maker runs, whatever
// the call graph knows about the dynamic call) and continued through the bodies of range-over-func loops, which the
// call graph does not contain.
func (c *Ctx) c02reach(roots ...*ssa.Function) map[*ssa.Function]bool {
	c02prepare(c)
	g := c.callgraph()
	seen := c.reach(roots...)
	for changed := true; changed; {
		changed = false
		var more []*ssa.Function
		for f := range seen {
			if !isRepoFn(f) {
				continue
			}
			for _, a := range f.AnonFuncs {
				if !seen[a] {
					more = append(more, a)
				}
			}
			if !c02isLoopBody(f) {
				continue
			}
			// the out-edges of a loop body, which the call graph lacks
			eachInstr(f, func(i ssa.Instruction) {
				cc := callCommon(i)
				if cc != nil {
					switch {
					case cc.IsInvoke():
						iface, _ := cc.Value.Type().Underlying().(*types.Interface)
						for _, m := range c.AllFns {
							if m.Signature.Recv() == nil || m.Name() != cc.Method.Name() || iface == nil {
								continue
							}
							recv := m.Signature.Recv().Type()
							if types.Implements(recv, iface) || types.Implements(types.NewPointer(recv), iface) {
								more = append(more, m)
							}
						}
					case cc.StaticCallee() != nil:
						more = append(more, unwrap(cc.StaticCallee()))
					default:
						for _, t := range g.funcValueTargets(cc.Value) {
							more = append(more, unwrap(t))
						}
					}
				}
				for _, op := range i.Operands(nil) {
					if op == nil || *op == nil || (cc != nil && !cc.IsInvoke() && *op == cc.Value) {
						continue
					}
					switch y := (*op).(type) {
					case *ssa.Function:
						if isRepoFn(y) {
							more = append(more, unwrap(y))
						}
					case *ssa.MakeClosure:
						if fn, ok := y.Fn.(*ssa.Function); ok {
							more = append(more, unwrap(fn))
						}
					}
				}
			})
		}
		var fresh []*ssa.Function
		for _, f := range more {
			if f != nil && !seen[f] && len(f.Blocks) > 0 {
				fresh = append(fresh, f)
			}
		}
		if len(fresh) > 0 {
			for f := range c.reach(fresh...) {
				if !seen[f] {
					seen[f] = true
					changed = true
				}
			}
		}
	}
	return seen
}
