package main

// C11, a holder that guards the set with a mutex instead of publishing it through sync/atomic: `mu sync.RWMutex; cs
// certstore` with `s.mu.Lock(); s.cs = cs; s.mu.Unlock()` as the publish and a read of s.cs (under RLock) as the load.
// The rules are the same: the index is complete before the store, every path of the entry stores, a handshake reads once.
// (Whether the lock is actually held is the business of the lock-discipline property, not of C11.)

import (
	"go/types"

	"golang.org/x/tools/go/ssa"
)

func c11isMutex(t types.Type) bool {
	if p, ok := t.Underlying().(*types.Pointer); ok {
		t = p.Elem()
	}
	return namedIs(t, "sync.Mutex") || namedIs(t, "sync.RWMutex")
}

// findGuardedCells looks, among the struct types of package cert, for a holder: a struct with a mutex field and a field
// whose type is (a pointer to) a certificate set. Sets m.setType and the index description like the atomic case does.
func (m *c11Model) findGuardedCells() {
	sp := m.c.spkg("cert")
	if sp == nil {
		return
	}
	names := sp.Pkg.Scope().Names()
	for _, name := range names {
		tn, ok := sp.Pkg.Scope().Lookup(name).(*types.TypeName)
		if !ok {
			continue
		}
		holder, ok := types.Unalias(tn.Type()).(*types.Named)
		if !ok {
			continue
		}
		st, ok := holder.Underlying().(*types.Struct)
		if !ok {
			continue
		}
		hasMu := false
		for i := 0; i < st.NumFields(); i++ {
			if c11isMutex(st.Field(i).Type()) {
				hasMu = true
			}
		}
		if !hasMu {
			continue
		}
		for i := 0; i < st.NumFields(); i++ {
			f := st.Field(i)
			n, cf, xf, xt := c11setStruct(f.Type())
			if n == nil || types.Identical(n, holder) {
				continue
			}
			if m.setType == nil || (m.idxFld == "" && xf != "" && !types.Identical(n, m.setType)) {
				m.setType, m.certsFld, m.idxFld, m.idxType = n, cf, xf, xt
				ix := c11findIndex(n)
				m.idxTypes, m.idxPath = ix.types, ix.path
			}
			if types.Identical(n, m.setType) {
				k := typeStr(holder) + "." + f.Name()
				m.cells[k], m.guarded[k] = true, true
			}
		}
	}
}

// guardedAddr: addr is a guarded cell or lies inside one (s.cs, s.cs.Certificates, &s.cs.Certificates[0]).
func (m *c11Model) guardedAddr(addr ssa.Value) bool {
	for depth := 0; addr != nil && depth < 6; depth++ {
		switch x := addr.(type) {
		case *ssa.FieldAddr:
			if m.guarded[c11fieldKey(x.X.Type(), x.Field)] {
				return true
			}
			addr = x.X
		case *ssa.IndexAddr:
			addr = x.X
		default:
			return false
		}
	}
	return false
}
