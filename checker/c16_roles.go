package main

// Role resolution for C16: the rules name what a site DOES (calls the wrapped grpc.StreamHandler, calls
// route.Table.Lookup, accesses a map of *grpc.ClientConn, ranges over it, returns a StreamDirector triple ...) and
// search regions, instead of naming the unexported function that contains the site today (lookup, cleanup,
// makeGRPCTargetKey, hasTarget, newGrpcConnectionPool, newGrpcProxy, getDestinationHostFromMetadata, the first closure of
// GetGRPCDirector ...).

import (
	"go/token"
	"go/types"
	"strings"

	"golang.org/x/tools/go/ssa"
)

const (
	c16grpc   = "google.golang.org/grpc"
	c16mdPkg  = "google.golang.org/grpc/metadata"
	c16status = "google.golang.org/grpc/status"
)

// ---- types ----------------------------------------------------------------------------------------------------------

func c16isPtrTo(t types.Type, want string) bool {
	p, ok := types.Unalias(t).(*types.Pointer)
	return ok && namedIs(p.Elem(), want)
}

func c16isTargetT(t types.Type) bool { return c16isPtrTo(t, "route.Target") }
func c16isConnT(t types.Type) bool   { return c16isPtrTo(t, c16grpc+".ClientConn") }
func c16isCtxT(t types.Type) bool    { return typeStr(types.Unalias(t)) == "context.Context" }
func c16isErrT(t types.Type) bool    { return typeStr(types.Unalias(t)) == "error" }

// c16isConnMapT: a map whose elements are *grpc.ClientConn — the role of the connection pool's table, whatever the
// struct or the field is called and whether it is reached through the field, a local or a helper's parameter.
func c16isConnMapT(t types.Type) bool {
	m, ok := t.Underlying().(*types.Map)
	if !ok {
		return false
	}
	if c16isConnT(m.Elem()) {
		return true
	}
	// a small entry struct around the connection (conn + bookkeeping), by value or by pointer
	e := types.Unalias(m.Elem())
	if p, isP := e.(*types.Pointer); isP {
		e = types.Unalias(p.Elem())
	}
	n, isN := e.(*types.Named)
	if !isN || n.Obj().Pkg() == nil || !strings.HasPrefix(n.Obj().Pkg().Path(), repoMod) {
		return false
	}
	st, isS := n.Underlying().(*types.Struct)
	if !isS {
		return false
	}
	for k := 0; k < st.NumFields(); k++ {
		if c16isConnT(st.Field(k).Type()) {
			return true
		}
	}
	return false
}

func c16isConnMap(v ssa.Value) bool { return v != nil && c16isConnMapT(v.Type()) }

// c16isMDT: grpc metadata, or its underlying map[string][]string.
func c16isMDT(t types.Type) bool {
	if namedIs(t, "metadata.MD") || namedIs(t, c16mdPkg+".MD") {
		return true
	}
	m, ok := t.Underlying().(*types.Map)
	if !ok {
		return false
	}
	s, ok := m.Elem().Underlying().(*types.Slice)
	return ok && typeStr(m.Key()) == "string" && typeStr(s.Elem()) == "string"
}

// c16isHandlerT: grpc.StreamHandler or an unnamed func type of the same shape.
func c16isHandlerT(t types.Type) bool {
	if typeStr(types.Unalias(t)) == c16grpc+".StreamHandler" {
		return true
	}
	sig, ok := t.Underlying().(*types.Signature)
	if !ok || sig.Params().Len() != 2 || sig.Results().Len() != 1 {
		return false
	}
	return typeStr(sig.Params().At(1).Type()) == c16grpc+".ServerStream" && c16isErrT(sig.Results().At(0).Type())
}

// c16handlerCall: a dynamic call of a value of type grpc.StreamHandler (the handler the interceptor wraps).
func c16handlerCall(i ssa.Instruction) *ssa.Call {
	call, ok := i.(*ssa.Call)
	if !ok || call.Call.IsInvoke() || call.Call.StaticCallee() != nil {
		return nil
	}
	if _, isB := call.Call.Value.(*ssa.Builtin); isB {
		return nil
	}
	if c16isHandlerT(call.Call.Value.Type()) {
		return call
	}
	return nil
}

// c16isInterceptorFn: f has the parameters of a grpc.StreamServerInterceptor (after an optional receiver).
func c16isInterceptorFn(f *ssa.Function) bool {
	sig := f.Signature
	if sig.Results().Len() != 1 || !c16isErrT(sig.Results().At(0).Type()) {
		return false
	}
	var ss, info, h bool
	for k := 0; k < sig.Params().Len(); k++ {
		t := sig.Params().At(k).Type()
		switch {
		case typeStr(t) == c16grpc+".ServerStream":
			ss = true
		case c16isPtrTo(t, c16grpc+".StreamServerInfo"):
			info = true
		case c16isHandlerT(t):
			h = true
		}
	}
	return ss && info && h
}

// c16isDirectorFn: f returns (context.Context, *grpc.ClientConn, error) — the shape of a grpc-proxy StreamDirector.
func c16isDirectorFn(f *ssa.Function) bool {
	r := f.Signature.Results()
	return r.Len() == 3 && c16isCtxT(r.At(0).Type()) && c16isConnT(r.At(1).Type()) && c16isErrT(r.At(2).Type())
}

// ---- regions --------------------------------------------------------------------------------------------------------

// c16syncRegion: f, the closures it runs itself, the repository functions it calls synchronously (call or defer,
// never `go`) and the function values it hands to callees that run them (c16syncCallees), depth-bounded. Unlike
// Ctx.region it does not follow goroutines or function values merely taken.
func c16syncRegion(f *ssa.Function) []*ssa.Function {
	var out []*ssa.Function
	seen := map[*ssa.Function]bool{}
	var add func(g *ssa.Function, d int)
	add = func(g *ssa.Function, d int) {
		if g == nil || seen[g] || len(g.Blocks) == 0 || !isRepoFn(g) || d > 4 {
			return
		}
		seen[g] = true
		out = append(out, g)
		eachInstr(g, func(i ssa.Instruction) {
			for _, h := range c16syncCallees(i) {
				add(h, d+1)
			}
		})
	}
	add(f, 0)
	return out
}

func c16inFns(fns []*ssa.Function, f *ssa.Function) bool {
	for _, g := range fns {
		if g == f {
			return true
		}
	}
	return false
}

// c16reaches: f is g or calls it synchronously (possibly through repository helpers, across packages).
func c16reaches(f, g *ssa.Function) bool {
	return f != nil && g != nil && c16inFns(c16syncRegion(f), g)
}

// c16mayDo: i satisfies pred, or synchronously runs a repository function (callee or callback) that may.
func c16mayDo(i ssa.Instruction, pred func(ssa.Instruction) bool) bool {
	if pred(i) {
		return true
	}
	for _, g := range c16syncCallees(i) {
		for _, h := range c16syncRegion(g) {
			if fnHas(h, pred) {
				return true
			}
		}
	}
	return false
}

// ---- the interceptor and the director ----------------------------------------------------------------------------------

type c16roles struct {
	c           *Ctx
	tableLookup *ssa.Function   // route.Table.Lookup (exported API)
	stream      *ssa.Function   // the stream interceptor: looks the route up and calls the wrapped handler
	sreg        []*ssa.Function // its region
	lookups     []*ssa.Call     // calls of route.Table.Lookup in the region
	handlers    []*ssa.Call     // calls of the wrapped handler in the region
	directors   []*ssa.Function // functions of package proxy with the StreamDirector result triple
	tgtMemo     map[ssa.Value]bool
	errMemo     map[ssa.Value]bool
}

var c16cache struct {
	c *Ctx
	r *c16roles
}

func c16resolve(c *Ctx) *c16roles {
	if c16cache.c == c && c16cache.r != nil {
		return c16cache.r
	}
	r := &c16roles{c: c, tgtMemo: map[ssa.Value]bool{}, errMemo: map[ssa.Value]bool{}}
	c16cache.c, c16cache.r = c, r
	r.tableLookup = c.method("route", "Table", "Lookup")
	callsLookup := func(i ssa.Instruction) bool {
		call, ok := i.(*ssa.Call)
		return ok && r.tableLookup != nil && call.Call.StaticCallee() == r.tableLookup
	}
	role := func(f *ssa.Function) bool {
		if !c16isInterceptorFn(f) {
			return false
		}
		lk, h := false, false
		eachInstrOf(c16region(f), func(_ *ssa.Function, i ssa.Instruction) {
			if callsLookup(i) {
				lk = true
			}
			if c16handlerCall(i) != nil {
				h = true
			}
		})
		return lk || h
	}
	// the exported method is stable enough to name; a renamed / re-homed interceptor is found by what it does
	if f := c.method("proxy", "GrpcProxyInterceptor", "Stream"); f != nil && role(f) {
		r.stream = f
	} else if f := c.fnByRole("proxy", "", role); f != nil {
		r.stream = f
	} else {
		// moved out of package proxy: any package of the repository that imports gRPC
		var cands []*ssa.Function
		for _, f := range c.AllFns {
			if isRepoFn(f) && c16grpcPkg(rootPkg(f)) && rootPkg(f).Pkg.Name() != "main" && role(f) {
				cands = append(cands, f)
			}
		}
		for _, f := range cands {
			outer := true
			for _, g := range cands {
				if g != f && !c16inFns(c16region(f), g) {
					outer = false
				}
			}
			if outer {
				r.stream = f
				break
			}
		}
	}
	if r.stream != nil {
		r.sreg = c16region(r.stream)
		eachInstrOf(r.sreg, func(_ *ssa.Function, i ssa.Instruction) {
			if callsLookup(i) {
				r.lookups = append(r.lookups, i.(*ssa.Call))
			}
			if h := c16handlerCall(i); h != nil {
				r.handlers = append(r.handlers, h)
			}
		})
	}
	r.directors = c.fnsWhere("proxy", c16isDirectorFn)
	if len(r.directors) == 0 {
		r.directors = c.fnsWhere("", func(f *ssa.Function) bool {
			return isRepoFn(f) && c16grpcPkg(rootPkg(f)) && rootPkg(f).Pkg.Name() != "main" && c16isDirectorFn(f)
		})
	}
	return r
}

// isTarget: v is a *route.Target that comes out of the route lookup of this call (possibly through the lookup helper's
// result, or into a helper through its parameter).
func (r *c16roles) isTarget(v ssa.Value) bool {
	if v == nil || !c16isTargetT(v.Type()) {
		return false
	}
	if b, ok := r.tgtMemo[v]; ok {
		return b
	}
	r.tgtMemo[v] = false
	b := c16derivesF(v, func(x ssa.Value) bool {
		call, ok := x.(*ssa.Call)
		return ok && call.Call.StaticCallee() == r.tableLookup
	})
	r.tgtMemo[v] = b
	return b
}

// lookupHelperCalls: calls in the interceptor's region of a repository function that returns (*route.Target, error) and
// performs the table lookup — today (GrpcProxyInterceptor).lookup.
func (r *c16roles) isLookupHelperCall(call *ssa.Call) bool {
	sc := call.Call.StaticCallee()
	if sc == nil || !isRepoFn(sc) || sc == r.tableLookup {
		return false
	}
	res := sc.Signature.Results()
	hasT, hasE := false, false
	for k := 0; k < res.Len(); k++ {
		hasT = hasT || c16isTargetT(res.At(k).Type())
		hasE = hasE || c16isErrT(res.At(k).Type())
	}
	if !hasT || !hasE {
		return false
	}
	return mayExec(unwrap(sc), func(i ssa.Instruction) bool {
		cl, ok := i.(*ssa.Call)
		return ok && cl.Call.StaticCallee() == r.tableLookup
	}, 0)
}

// isLookupErr: v is the error result of the lookup helper (or of any fallible step of an inlined lookup: an error
// produced by a call in the interceptor's region that is not the wrapped handler).
func (r *c16roles) isLookupErr(v ssa.Value) bool {
	if v == nil || !c16isErrT(v.Type()) {
		return false
	}
	if b, ok := r.errMemo[v]; ok {
		return b
	}
	r.errMemo[v] = false
	helper := false
	eachInstrOf(r.sreg, func(_ *ssa.Function, i ssa.Instruction) {
		if call, ok := i.(*ssa.Call); ok && r.isLookupHelperCall(call) {
			helper = true
		}
	})
	b := c16derivesF(v, func(x ssa.Value) bool {
		var call *ssa.Call
		switch y := x.(type) {
		case *ssa.Extract:
			call, _ = y.Tuple.(*ssa.Call)
			if !c16isErrT(y.Type()) {
				return false
			}
		case *ssa.Call:
			call = y
			if !c16isErrT(y.Type()) {
				return false
			}
		}
		if call == nil || c16handlerCall(call) != nil || call.Parent() == nil || !c16inFns(r.sreg, call.Parent()) {
			return false
		}
		if len(c16statusCodes(x)) > 0 {
			return false // already the status the call is failed with (a helper that maps the lookup's outcome to a status)
		}
		if helper {
			return r.isLookupHelperCall(call)
		}
		n := calleeName(&call.Call)
		return !strings.HasPrefix(n, c16status+".") // a status constructor is not a failing step
	})
	r.errMemo[v] = b
	return b
}

func (r *c16roles) hasLookupHelper() bool {
	found := false
	eachInstrOf(r.sreg, func(_ *ssa.Function, i ssa.Instruction) {
		if call, ok := i.(*ssa.Call); ok && r.isLookupHelperCall(call) {
			found = true
		}
	})
	return found
}

// ---- gRPC status values ------------------------------------------------------------------------------------------------

// c16statusCodes: the constant codes of the status errors v may be: status.Error/Errorf(code, ...),
// status.New/Newf(code, ...).Err(), directly, through locals, or through a repository helper that builds it.
func c16statusCodes(v ssa.Value) []int64 {
	var out []int64
	var visit func(x ssa.Value) bool
	visit = func(x ssa.Value) bool {
		call, ok := x.(*ssa.Call)
		if !ok {
			return false
		}
		n := calleeName(&call.Call)
		switch {
		case n == c16status+".Error" || n == c16status+".Errorf" || n == c16status+".New" || n == c16status+".Newf":
			if code, ok := constInt(call.Call.Args[0]); ok {
				out = append(out, code)
			} else {
				out = append(out, -1)
			}
		case strings.HasSuffix(n, "status.Status).Err") && len(call.Call.Args) == 1:
			derives(call.Call.Args[0], visit)
		}
		return false
	}
	inner := visit
	seenG := map[*ssa.Global]bool{}
	visit = func(x ssa.Value) bool {
		// a status kept in a package-level variable (var errNoRoute = status.Error(codes.NotFound, ...))
		if g, ok := x.(*ssa.Global); ok && !seenG[g] {
			seenG[g] = true
			for _, st := range gGlobalStores[g] {
				derives(st.Val, visit)
			}
			return false
		}
		return inner(x)
	}
	derives(v, visit)
	return out
}

// ---- contexts ---------------------------------------------------------------------------------------------------------

// c16fromCtx: v is one of the given context parameters, possibly wrapped by context.With*.
func c16fromCtx(v ssa.Value, params []*ssa.Parameter) bool {
	var pred func(x ssa.Value) bool
	pred = func(x ssa.Value) bool {
		for _, p := range params {
			if x == p {
				return true
			}
		}
		if call, ok := isCallTo(x, "context.WithValue", "context.WithCancel", "context.WithTimeout", "context.WithDeadline", "context.WithoutCancel"); ok && len(call.Call.Args) > 0 {
			return derives(call.Call.Args[0], pred)
		}
		return false
	}
	return derives(v, pred)
}

// c16ctxValueCall: x is ctx.Value(key) on a context.Context.
func c16ctxValueCall(x ssa.Value) *ssa.Call {
	call, ok := x.(*ssa.Call)
	if ok && call.Call.IsInvoke() && call.Call.Method.Name() == "Value" && c16isCtxT(call.Call.Value.Type()) && len(call.Call.Args) == 1 {
		return call
	}
	return nil
}

// ---- locks, with inheritance from the callers ----------------------------------------------------------------------------

// c16locked: a mutex is held at instruction at — in its function, or because the function is a helper that is only
// called (synchronously) from sites where one is held.
func c16locked(at ssa.Instruction, write bool, depth int) bool {
	if len(heldAt(at, write)) > 0 {
		return true
	}
	fn := at.Parent()
	if fn == nil || depth >= 3 {
		return false
	}
	if dyn, ok := c16dynSites(fn); ok && len(dyn) > 0 {
		// a closure handed to a wrapper (withLock(func(){...})): locked where the wrapper calls it
		for _, s := range dyn {
			if _, isCall := s.(*ssa.Call); !isCall || !c16locked(s, write, depth+1) {
				return false
			}
		}
		return true
	}
	if !c16onlyStatic(fn) {
		return false
	}
	sites := gSites[fn]
	if len(sites) == 0 {
		return false
	}
	for _, s := range sites {
		if _, isCall := s.(*ssa.Call); !isCall || s.Parent() == fn {
			return false
		}
		if !c16locked(s, write, depth+1) {
			return false
		}
	}
	return true
}

// ---- small value helpers ------------------------------------------------------------------------------------------------

// c16lenIsOne: the facts at block b pin len(x) to exactly 1 (len(x) == 1, !(len(x) != 1), len(x) > 0 && len(x) < 2 ...).
func c16lenIsOne(b *ssa.BasicBlock, x ssa.Value) bool {
	same := samePath(x)
	isLen := func(v ssa.Value) bool {
		call, ok := v.(*ssa.Call)
		return ok && calleeName(&call.Call) == "builtin.len" && len(call.Call.Args) == 1 && same(call.Call.Args[0])
	}
	lo, hi := int64(0), int64(1<<40)
	var excluded []int64
	for _, f := range factsAt(b) {
		cmp, ok := f.Cond.(*ssa.BinOp)
		if !ok {
			continue
		}
		op := cmp.Op
		var k int64
		if n, isK := constInt(cmp.Y); isK && isLen(cmp.X) {
			k = n
		} else if n, isK := constInt(cmp.X); isK && isLen(cmp.Y) {
			k = n
			switch op {
			case token.LSS:
				op = token.GTR
			case token.GTR:
				op = token.LSS
			case token.LEQ:
				op = token.GEQ
			case token.GEQ:
				op = token.LEQ
			}
		} else {
			continue
		}
		if !f.Truth {
			switch op {
			case token.LSS:
				op = token.GEQ
			case token.GEQ:
				op = token.LSS
			case token.GTR:
				op = token.LEQ
			case token.LEQ:
				op = token.GTR
			case token.EQL:
				op = token.NEQ
			case token.NEQ:
				op = token.EQL
			}
		}
		switch op {
		case token.EQL:
			lo, hi = max(lo, k), min(hi, k)
		case token.GEQ:
			lo = max(lo, k)
		case token.GTR:
			lo = max(lo, k+1)
		case token.LEQ:
			hi = min(hi, k)
		case token.LSS:
			hi = min(hi, k-1)
		case token.NEQ:
			excluded = append(excluded, k)
		}
	}
	for changed := true; changed; {
		changed = false
		for _, e := range excluded {
			if e == lo && lo <= hi {
				lo++
				changed = true
			}
			if e == hi && lo <= hi {
				hi--
				changed = true
			}
		}
	}
	return lo == 1 && hi == 1
}

// c16allocsOf resolves v to the local struct cells it may point to: an Alloc, a merge of Allocs, a pointer variable
// holding one, or the result of a repository helper that builds and returns one (struct literal moved into a helper).
func c16allocsOf(v ssa.Value, elem string) []*ssa.Alloc {
	var out []*ssa.Alloc
	seen := map[ssa.Value]bool{}
	var walk func(x ssa.Value, d int)
	walk = func(x ssa.Value, d int) {
		if x == nil || seen[x] || d > 6 {
			return
		}
		seen[x] = true
		switch y := x.(type) {
		case *ssa.Alloc:
			if p, ok := y.Type().(*types.Pointer); ok && namedIs(p.Elem(), elem) {
				if _, isPtr := p.Elem().(*types.Pointer); !isPtr {
					out = append(out, y)
					return
				}
			}
			// a pointer variable: what is stored into it
			for _, r := range *y.Referrers() {
				if st, ok := r.(*ssa.Store); ok && st.Addr == y {
					walk(st.Val, d+1)
				}
			}
		case *ssa.Phi:
			for _, e := range y.Edges {
				walk(e, d+1)
			}
		case *ssa.UnOp:
			if y.Op == token.MUL {
				walk(y.X, d+1)
			}
		case *ssa.ChangeType:
			walk(y.X, d+1)
		case *ssa.Extract:
			walk(y.Tuple, d+1)
		case *ssa.Call:
			// req.WithContext(ctx) / req.Clone(ctx): a copy of the request the receiver points to, field for field
			if n := calleeName(&y.Call); (n == "(*net/http.Request).WithContext" || n == "(*net/http.Request).Clone") && len(y.Call.Args) > 0 {
				walk(y.Call.Args[0], d+1)
				return
			}
			if sc := y.Call.StaticCallee(); sc != nil && isRepoFn(sc) {
				eachInstr(sc, func(i ssa.Instruction) {
					if r, ok := i.(*ssa.Return); ok {
						for _, res := range r.Results {
							if c16isPtrTo(res.Type(), elem) {
								walk(res, d+1)
							}
						}
					}
				})
			}
		case *ssa.Parameter:
			fn := y.Parent()
			for k, p := range fn.Params {
				if p != y {
					continue
				}
				for _, s := range gSites[fn] {
					if cc := s.Common(); k < len(cc.Args) {
						walk(cc.Args[k], d+1)
					}
				}
			}
		}
	}
	walk(v, 0)
	return out
}

// c16onlyStatic: every call of fn is one of its static call sites. The shared onlyStaticallyCalled treats every capturing
// closure as address-taken (the MakeClosure instruction itself has the function as an operand); this variant looks at
// what is done with the closure value: it must only ever be called (call, go, defer) where it is made.
func c16onlyStatic(fn *ssa.Function) bool {
	if fn == nil {
		return false
	}
	if fn.Parent() == nil || len(fn.FreeVars) == 0 {
		return onlyStaticallyCalled(fn) || c16wholeRepoStatic(fn)
	}
	ok, n := true, 0
	eachInstr(fn.Parent(), func(i ssa.Instruction) {
		mc, isMC := i.(*ssa.MakeClosure)
		if !isMC || mc.Fn != fn {
			return
		}
		n++
		for _, r := range *mc.Referrers() {
			ci, isCall := r.(ssa.CallInstruction)
			if !isCall || ci.Common().IsInvoke() || ci.Common().Value != mc {
				ok = false
				continue
			}
			for _, a := range ci.Common().Args {
				if a == mc {
					ok = false
				}
			}
		}
	})
	return ok && n > 0
}

// ---- branch facts, carried into closures ---------------------------------------------------------------------------------

// c16singleStore: the local cell a is written exactly once (counting writes made through closures that capture it), so
// every load of it that follows the write sees the same value.
func c16singleStore(a *ssa.Alloc) bool {
	n := 0
	for _, r := range *a.Referrers() {
		switch y := r.(type) {
		case *ssa.Store:
			if y.Addr == a {
				n++
			}
		case *ssa.MakeClosure:
			fn, _ := y.Fn.(*ssa.Function)
			for k, b := range y.Bindings {
				if b != a || fn == nil || k >= len(fn.FreeVars) {
					continue
				}
				for _, fr := range *fn.FreeVars[k].Referrers() {
					switch z := fr.(type) {
					case *ssa.Store:
						if z.Addr == fn.FreeVars[k] {
							n++
						}
					case *ssa.MakeClosure:
						n += 2 // handed further down: give up
					}
				}
			}
		}
	}
	return n == 1
}

// c16stable: the value never changes after it was computed: anything but a load, or a load of a write-once local.
func c16stable(v ssa.Value) bool {
	u, ok := v.(*ssa.UnOp)
	if !ok || u.Op != token.MUL {
		return true
	}
	a, ok := u.X.(*ssa.Alloc)
	return ok && c16singleStore(a)
}

// c16factsAt: the branch conditions known at block b — those of the shared factsAt, and in addition:
//   - a helper or a closure called at exactly one static site inherits the facts at that site also when it is a capturing
//     closure (the shared onlyStaticallyCalled counts the MakeClosure instruction itself as "address taken");
//   - a closure that is handed on as a value (wrapped by a timing / retry / recover helper, started with go, deferred)
//     exists only if control reached the block that made it, so the facts there that speak about values that cannot
//     change any more (SSA values, write-once locals) still hold whenever it runs.
func c16factsAt(b *ssa.BasicBlock, depth int) []Fact {
	out := localFactsAt(b)
	fn := b.Parent()
	if fn == nil || depth >= 4 {
		return out
	}
	stableOnly := func(fs []Fact) []Fact {
		var keep []Fact
		for _, f := range fs {
			ok := true
			if bo, isB := f.Cond.(*ssa.BinOp); isB {
				ok = c16stable(bo.X) && c16stable(bo.Y)
			} else {
				ok = c16stable(f.Cond)
			}
			if ok {
				keep = append(keep, f)
			}
		}
		return keep
	}
	sites := gSites[fn]
	if len(sites) == 1 && c16onlyStatic(fn) && sites[0].Parent() != fn && sites[0].Block() != nil {
		up := c16factsAt(sites[0].Block(), depth+1)
		if _, isCall := sites[0].(*ssa.Call); !isCall {
			up = stableOnly(up) // go / defer: runs later
		}
		return append(out, up...)
	}
	if fn.Parent() != nil {
		var made []*ssa.MakeClosure
		eachInstr(fn.Parent(), func(i ssa.Instruction) {
			if mc, ok := i.(*ssa.MakeClosure); ok && mc.Fn == fn {
				made = append(made, mc)
			}
		})
		if len(made) == 1 {
			out = append(out, stableOnly(c16factsAt(made[0].Block(), depth+1))...)
		}
	}
	return out
}

func c16knownNonNil(b *ssa.BasicBlock, same func(ssa.Value) bool) bool {
	for _, f := range c16factsAt(b, 0) {
		if nn, ok := nilFact(f, same); ok && nn {
			return true
		}
	}
	return false
}

func c16knownNil(b *ssa.BasicBlock, same func(ssa.Value) bool) bool {
	for _, f := range c16factsAt(b, 0) {
		if nn, ok := nilFact(f, same); ok && !nn {
			return true
		}
	}
	return false
}

// c16dynSites: fn is a closure whose value is only ever passed (synchronously) to repository functions that do nothing
// with that parameter but call it; the result lists those calls. ok is false when the closure escapes in any other way.
func c16dynSites(fn *ssa.Function) (sites []ssa.CallInstruction, ok bool) {
	if fn == nil || fn.Parent() == nil {
		return nil, false
	}
	ok = true
	n := 0
	eachInstr(fn.Parent(), func(i ssa.Instruction) {
		mc, isMC := i.(*ssa.MakeClosure)
		if !isMC || mc.Fn != fn {
			return
		}
		n++
		for _, r := range *mc.Referrers() {
			ci, isCall := r.(*ssa.Call)
			if !isCall || ci.Call.Value == mc {
				ok = false
				continue
			}
			g := ci.Call.StaticCallee()
			if g == nil || !isRepoFn(g) || len(g.Blocks) == 0 {
				ok = false
				continue
			}
			for k, a := range ci.Call.Args {
				if a != mc {
					continue
				}
				if k >= len(g.Params) {
					ok = false
					continue
				}
				for _, pr := range *g.Params[k].Referrers() {
					dc, isDC := pr.(ssa.CallInstruction)
					if !isDC || dc.Common().Value != g.Params[k] {
						ok = false
						continue
					}
					sites = append(sites, dc)
				}
			}
		}
	})
	return sites, ok && n > 0
}

var c16ifaceIndex struct {
	c *Ctx
	m map[string]map[string]bool // concrete type -> names of the methods of the interfaces it is converted to
}

// c16wholeRepoStatic: fabio is an application — every caller of a function is in the repository. A function or method
// whose value is never taken, and whose receiver type is never converted to an interface that has a method of this name,
// is called only at its static call sites, exported or not (the shared onlyStaticallyCalled gives up on every exported
// name and on every method whose NAME is invoked through some interface somewhere).
func c16wholeRepoStatic(fn *ssa.Function) bool {
	c := c16cache.c
	if c == nil || fn == nil || fn.Parent() != nil || gAddrTaken[fn] || len(gSites[fn]) == 0 {
		return false
	}
	if n := fn.Name(); n == "init" || n == "main" {
		return false
	}
	recv := fn.Signature.Recv()
	if recv == nil {
		return true
	}
	if c16ifaceIndex.c != c {
		c16ifaceIndex.c, c16ifaceIndex.m = c, map[string]map[string]bool{}
		for _, f := range c.AllFns {
			eachInstr(f, func(i ssa.Instruction) {
				mi, ok := i.(*ssa.MakeInterface)
				if !ok {
					return
				}
				it, ok := mi.Type().Underlying().(*types.Interface)
				if !ok {
					return
				}
				k := typeStr(deref(mi.X.Type()))
				if c16ifaceIndex.m[k] == nil {
					c16ifaceIndex.m[k] = map[string]bool{}
				}
				if it.NumMethods() == 0 {
					c16ifaceIndex.m[k]["*"] = true // boxed as any: a later type assertion may recover any interface
				}
				for j := 0; j < it.NumMethods(); j++ {
					c16ifaceIndex.m[k][it.Method(j).Name()] = true
				}
			})
		}
	}
	names := c16ifaceIndex.m[typeStr(deref(recv.Type()))]
	return !names[fn.Name()] && !names["*"]
}
