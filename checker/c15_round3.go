package main

// Rules of C15 added after the third round of independently authored breaking changes (DESIGN 11.10); wired in zzz_round3.go.

import (
	"go/token"
	"go/types"

	"golang.org/x/tools/go/ssa"
)

// ---- C15.P2: slice bounds computed from len() are covered by a length fact -----------------------------------------

func runC15P2(c *Ctx) {
	n := 0
	for _, f := range c.fnsWhere("config", func(*ssa.Function) bool { return true }) {
		eachInstr(f, func(i ssa.Instruction) {
			sl, ok := i.(*ssa.Slice)
			if !ok {
				return
			}
			bt, isStr := sl.X.Type().Underlying().(*types.Basic)
			_, isSlice := sl.X.Type().Underlying().(*types.Slice)
			if !(isStr && bt.Kind() == types.String) && !isSlice {
				return
			}
			// len(x) - k as a bound
			lenMinus := func(v ssa.Value) (int64, bool) {
				b, ok := v.(*ssa.BinOp)
				if !ok || b.Op != token.SUB {
					return 0, false
				}
				k, isK := constInt(b.Y)
				call, isCall := b.X.(*ssa.Call)
				if !isK || !isCall || calleeName(&call.Call) != "builtin.len" || !samePath(sl.X)(call.Call.Args[0]) {
					return 0, false
				}
				return k, true
			}
			need := int64(-1)
			lowK := int64(0)
			if sl.Low != nil {
				if k, isK := constInt(sl.Low); isK {
					lowK = k
				} else if k, ok := lenMinus(sl.Low); ok {
					need = k // x[len-k:] needs len >= k
					lowK = -1
				} else {
					return
				}
			}
			if sl.High != nil {
				if k, ok := lenMinus(sl.High); ok {
					if lowK >= 0 && lowK+k > need {
						need = lowK + k // x[a:len-k] needs len >= a+k
					}
				} else {
					return // other bounds: decided by P1 (index-derived bounds) or not in scope
				}
			}
			if need <= 0 {
				return
			}
			n++
			have := lenLowerBound(i.Block(), sl.X, 0)
			c.check("C15.P2", fnKey(f)+"|slice bounds from len() within the value", i.Pos(), have >= need,
				"the slice expression needs len("+shortPath(sl.X)+") >= "+itoa(int(need))+" but the facts on the way only give >= "+itoa(int(have))+": for a value shorter than that the bounds cross and config.Load panics instead of returning an error (e.g. -cfg=' : one quote character)")
		})
	}
	c.ob("C15.P2", "config|len()-relative slice bounds are guarded", token.NoPos, OK, "checked "+itoa(n)+" slice expression(s) in package config")
}
