package main

// Rules of C01 added after the fourth round of independently authored breaking changes (DESIGN 11.12); wired in
// zzz_round4.go. Helpers in c01_flow4.go, overlay mutants in c01_round4_mutants.go.
//
//   O1  order: a configuration is published by the goroutine that observed its snapshot (or by ONE long-lived
//       goroutine, or by one the loop waits for) - never by a goroutine started per snapshot and left alone.
//   S1  staleness: a published text is computed from the replies of its own round; a value remembered from an earlier
//       round is reused only under a key that covers every registry reply the value was computed from.

import (
	"fmt"
	"go/token"
	"go/types"
	"os"
	"sort"
	"strings"

	"golang.org/x/tools/go/ssa"
)

func init() {
	addRound4("C01", "(O1) every goroutine start (go statement, time.AfterFunc) in the repository whose goroutine - the functions it runs synchronously - publishes a configuration (sends a text on a chan string of registry/consul that leaves the watcher - one its maker returns or keeps -, or calls route.SetTable) is executed at most once per watcher (it is in no loop, and neither are the calls that lead to its function), or publishes only on a channel made for this very start, or its starter waits for it (WaitGroup.Wait, a receive from a channel the goroutine sends on or closes) on every path before it goes on to the next round or returns - when the start sits in a helper that runs once per call, every caller of the helper may do the waiting (the helper hands the channel back) -: configurations then reach the table updater in the order in which their snapshots were observed, so the table installed last belongs to the state observed last and an instance seen unhealthy cannot come back with an older text.", runC01O1, c01SelectMutants(c01O1Mutants)...)
	addRound4("C01", "(S1) following every text sent on a chan string in registry/consul backwards (through helpers, closures, goroutines that hand results over channels, maps and struct literals) the walk does not reach memory that outlives the round (a field of the watcher, a package variable, a local or a map made outside the publishing loop) and is written during a round - unless the same function has overwritten it before on every path, or no Consul reply went into what the rounds write there (a lazily initialised setting), or the reuse is keyed completely: the remembered value is read as a map element or under an equality test against another remembered value, and every Consul query whose reply went into the remembered value also goes into the key / the compared fresh value. A text remembered under a key that lacks the catalog reply keeps routes of a prefix an instance no longer advertises.", runC01S1, c01SelectMutants(c01S1Mutants)...)
}

// ---- C01.O1: configurations are published in the order their snapshots were observed ------------------------------

// c01IsPublish: the instruction hands a configuration on: a send of a text on a channel in registry/consul, or the
// installation of a table.
func c01IsPublish(c *Ctx, i ssa.Instruction) (kind string, ok bool) {
	inConsul := func() bool { sp := c.spkg(consulPkg); return sp != nil && rootPkg(i.Parent()) == sp }
	switch x := i.(type) {
	case *ssa.Send:
		if inConsul() && c01LeavesWatcher(c, x.Chan) {
			return "send", true
		}
	case *ssa.Select:
		for _, st := range x.States {
			if st.Dir == types.SendOnly && inConsul() && c01LeavesWatcher(c, st.Chan) {
				return "send", true
			}
		}
	case *ssa.Call:
		if calleeName(&x.Call) == repoMod+"/route.SetTable" {
			return "install", true
		}
	}
	return "", false
}

// c01JoinsGoroutine: the instruction waits for the goroutine that runs fns: WaitGroup.Wait / errgroup Wait, or a
// receive from a channel on which that goroutine sends or which it closes.
func c01JoinsGoroutine(i ssa.Instruction, spawned []*ssa.Function) bool {
	switch x := i.(type) {
	case *ssa.Call:
		n := calleeName(&x.Call)
		return strings.HasSuffix(n, ").Wait") && (strings.Contains(n, "sync.WaitGroup") || strings.Contains(n, "errgroup.Group"))
	case *ssa.UnOp:
		if x.Op != token.ARROW || c01IsTextChan(x.X.Type()) {
			return false
		}
		signals := false
		eachInstrOf(spawned, func(_ *ssa.Function, j ssa.Instruction) {
			switch y := j.(type) {
			case *ssa.Send:
				if c01SameChan(x.X, y.Chan) {
					signals = true
				}
			case *ssa.Call:
				if calleeName(&y.Call) == "builtin.close" && len(y.Call.Args) == 1 && c01SameChan(x.X, y.Call.Args[0]) {
					signals = true
				}
			case *ssa.Defer:
				if calleeName(&y.Call) == "builtin.close" && len(y.Call.Args) == 1 && c01SameChan(x.X, y.Call.Args[0]) {
					signals = true
				}
			}
		})
		return signals
	}
	return false
}

// c01LeftAlone: after start site g the starter can reach the head of the loop around g (or leave the function)
// without waiting for the goroutine.
func c01LeftAlone(g ssa.Instruction, spawned []*ssa.Function) bool {
	return c01LeftAloneFrom(g, spawned, 0)
}

// c01LeftAloneFrom: the same question after instruction g (the start site, or - depth > 0 - the call of the function
// that contains it: a helper that starts the goroutine and hands the channel to wait on back to its caller).
func c01LeftAloneFrom(g ssa.Instruction, spawned []*ssa.Function, depth int) bool {
	join := liftMust(func(i ssa.Instruction) bool { return c01JoinsGoroutine(i, spawned) }, 1)
	l := c01LoopAround(g)
	// returning to the caller is not yet going on to the next round when the function runs once per round itself:
	// then every caller must wait before it goes on
	returns := func() bool {
		if l != nil || depth >= 2 {
			return true
		}
		sites := c01SitesOf(g.Parent())
		if len(sites) == 0 {
			return true
		}
		for _, s := range sites {
			if _, isCall := s.(*ssa.Call); !isCall || s.Parent() == g.Parent() {
				return true
			}
			if c01LeftAloneFrom(s, spawned, depth+1) {
				return true
			}
		}
		return false
	}
	type item struct {
		b     *ssa.BasicBlock
		start int
	}
	seen := map[*ssa.BasicBlock]bool{}
	stack := []item{{g.Block(), instrIndex(g) + 1}}
	for len(stack) > 0 {
		it := stack[len(stack)-1]
		stack = stack[:len(stack)-1]
		blocked := false
		for k := it.start; k < len(it.b.Instrs); k++ {
			in := it.b.Instrs[k]
			if join(in) {
				blocked = true
				break
			}
			if _, isRet := in.(*ssa.Return); isRet {
				if returns() {
					return true
				}
				blocked = true
				break
			}
		}
		if blocked {
			continue
		}
		for _, s := range it.b.Succs {
			if l != nil && (s == l.Head || !l.Body[s]) {
				return true
			}
			if !seen[s] {
				seen[s] = true
				stack = append(stack, item{s, 0})
			}
		}
	}
	return false
}

func runC01O1(c *Ctx) {
	nSend, nInstall := 0, 0
	for _, f := range c.AllFns {
		eachInstr(f, func(i ssa.Instruction) {
			switch k, _ := c01IsPublish(c, i); k {
			case "send":
				nSend++
			case "install":
				nInstall++
			}
		})
	}
	c.atLeast("C01.O1", "sends of a configuration text on a chan string in registry/consul (health watcher, KV watcher)", nSend, 2)
	c.atLeast("C01.O1", "calls of route.SetTable", nInstall, 1)

	nStart := 0
	for _, f := range c.AllFns {
		eachInstr(f, func(g ssa.Instruction) {
			if !c01IsSpawn(g) {
				return
			}
			spawned := c01Spawned(g)
			if len(spawned) == 0 {
				return
			}
			reg := c01SyncRegion(spawned...)
			// what the goroutine publishes; a channel made for this very start (in the starter's function, inside
			// the loop around the start if there is one) belongs to this goroutine alone: nothing to reorder
			var pub ssa.Instruction
			what := ""
			loopG := c01LoopAround(g)
			own := func(ch ssa.Value) bool {
				roots := c01ChanRoots(ch)
				if len(roots) == 0 {
					return false
				}
				for mk := range roots {
					if mk.Parent() != g.Parent() || (loopG != nil && !loopG.Body[mk.Block()]) {
						return false
					}
				}
				return true
			}
			found := false
			eachInstrOf(reg, func(_ *ssa.Function, i ssa.Instruction) {
				k, ok := c01IsPublish(c, i)
				if !ok {
					return
				}
				found = true
				if snd, isSend := i.(*ssa.Send); isSend && own(snd.Chan) {
					return
				}
				if pub == nil {
					pub, what = i, k
				}
			})
			if !found {
				return
			}
			nStart++
			ok := pub == nil || !c01InLoopChain(g, 0) || !c01LeftAlone(g, spawned)
			if pub == nil {
				pub = g
			}
			act := "sends a configuration text to the table updater"
			if what == "install" {
				act = "installs a routing table"
			}
			c.check("C01.O1", fnKey(f)+"|a goroutine that publishes is started once, or awaited before the next round", g.Pos(), ok,
				fmt.Sprintf("this goroutine start is executed once per round (it is inside a loop, or its function is called from one) and the goroutine %s (%s) while the starter goes on to the next snapshot without waiting for it: the goroutines of two snapshots race, the configuration of the OLDER snapshot can be published last and then stays active until the registry changes again - an instance observed unhealthy is back in the table installed after that observation. Publish from the loop itself, from one long-lived goroutine fed through a channel, or wait for the goroutine before the next query", act, c.pos(pub.Pos())))
		})
	}
	c.atLeast("C01.O1", "goroutine starts whose goroutine publishes a configuration (the watchers are started with go)", nStart, 2)
}

// ---- C01.S1: nothing remembered from an earlier round is published, unless keyed by all it depends on ------------

type c01Stale struct {
	at      ssa.Instruction // the read of the remembered value
	cell    string
	keyExpr ssa.Value // the map key under which it is read, if it is a map element
}

type c01S1 struct {
	c      *Ctx
	scope  []*ssa.Function
	r      *c01Round
	writes map[string][]ssa.Instruction // cell -> the instructions of a round that write it
}

var c01SyncStoreNames = map[string]int{ // method -> index of the stored value among the arguments
	"(*sync.Map).Store": 2, "(*sync.Map).LoadOrStore": 2, "(*sync.Map).Swap": 2,
	"(*sync/atomic.Value).Store": 1, "(*sync/atomic.Value).Swap": 1,
	"(*sync/atomic.Pointer).Store": 1, "(*sync/atomic.Pointer).Swap": 1,
}

var c01SyncLoadNames = map[string]bool{
	"(*sync.Map).Load": true, "(*sync.Map).LoadOrStore": true, "(*sync/atomic.Value).Load": true, "(*sync/atomic.Pointer).Load": true,
}

// c01WriteOf: the memory cell instruction i writes and the value it puts there.
func c01WriteOf(i ssa.Instruction) (cell string, base ssa.Value, val ssa.Value, ok bool) {
	switch x := i.(type) {
	case *ssa.Store:
		return c01CellName(x.Addr), x.Addr, x.Val, true
	case *ssa.MapUpdate:
		return c01ContainerName(x.Map), x.Map, x.Value, true
	case *ssa.Call:
		n := stripTypeArgs(calleeName(&x.Call))
		if k, isStore := c01SyncStoreNames[n]; isStore && k < len(x.Call.Args) {
			return c01CellName(x.Call.Args[0]), x.Call.Args[0], x.Call.Args[k], true
		}
	}
	return "", nil, nil, false
}

func (s *c01S1) collectWrites() {
	s.writes = map[string][]ssa.Instruction{}
	s.r.instrs(func(i ssa.Instruction) {
		cell, base, _, ok := c01WriteOf(i)
		if !ok || cell == "" || !s.r.carried(base) {
			return
		}
		s.writes[cell] = append(s.writes[cell], i)
	})
}

// overwrittenBefore: the cell read at ld (address addr) has been stored to, through the same access path, on every
// path to the read - in the reading function, or (a field of a parameter) before every call of it within the round.
func (s *c01S1) overwrittenBefore(ld ssa.Instruction, addr ssa.Value, cell string, depth int) bool {
	f := ld.Parent()
	path := accessPath(addr)
	found := false
	eachInstr(f, func(i ssa.Instruction) {
		st, ok := i.(*ssa.Store)
		if ok && !found && c01CellName(st.Addr) == cell && accessPath(st.Addr) == path && dominatesInstr(st, ld) {
			found = true
		}
	})
	if found || depth > 2 {
		return found
	}
	fa, ok := addr.(*ssa.FieldAddr)
	if !ok {
		return false
	}
	par, ok := fa.X.(*ssa.Parameter)
	if !ok || par.Parent() != f || f == s.r.fn {
		return false
	}
	idx := c01ParamIndex(par)
	n := 0
	for _, site := range c01SitesOf(f) {
		cc := site.Common()
		if !s.r.has(site) || len(cc.Args) != len(f.Params) || idx < 0 {
			continue
		}
		n++
		arg := cc.Args[idx]
		okSite := false
		eachInstr(site.Parent(), func(i ssa.Instruction) {
			st, isSt := i.(*ssa.Store)
			if !isSt || okSite {
				return
			}
			fb, isF := st.Addr.(*ssa.FieldAddr)
			if isF && fb.Field == fa.Field && c01CellName(fb) == cell && accessPath(fb.X) == accessPath(arg) && dominatesInstr(st, site) {
				okSite = true
			}
		})
		if !okSite {
			return false
		}
	}
	return n > 0
}

// staleRead: value v is a read of memory that outlives the round and is written during a round.
// stop: the walk need not look behind v (it is such a read, or configuration that no round writes).
func (s *c01S1) staleRead(v ssa.Value) (hit *c01Stale, stop bool) {
	r := s.r
	switch x := v.(type) {
	case *ssa.Parameter:
		if x.Parent() == r.fn || !r.in[x.Parent()] {
			return nil, true // what the watcher was started with
		}
	case *ssa.Lookup:
		if _, isMap := x.X.Type().Underlying().(*types.Map); isMap && r.carried(x.X) {
			cell := c01ContainerName(x.X)
			if cell != "" && len(s.writes[cell]) > 0 {
				if ld, isLd := x.X.(*ssa.UnOp); isLd && s.overwrittenBefore(x, ld.X, cell, 0) {
					return nil, false
				}
				return &c01Stale{at: x, cell: cell, keyExpr: x.Index}, true
			}
		}
	case *ssa.Call:
		n := stripTypeArgs(calleeName(&x.Call))
		if c01SyncLoadNames[n] && len(x.Call.Args) > 0 && r.carried(x.Call.Args[0]) {
			cell := c01CellName(x.Call.Args[0])
			if cell != "" && len(s.writes[cell]) > 0 {
				h := &c01Stale{at: x, cell: cell}
				if strings.Contains(n, "sync.Map") && len(x.Call.Args) > 1 {
					h.keyExpr = x.Call.Args[1]
				}
				return h, true
			}
		}
	case *ssa.UnOp:
		if x.Op != token.MUL || !r.carried(x.X) {
			return nil, false
		}
		cell := c01CellName(x.X)
		if cell == "" || len(s.writes[cell]) == 0 {
			return nil, true // configuration: no round writes it
		}
		if _, isMap := x.Type().Underlying().(*types.Map); isMap {
			return nil, false // the map itself; its elements are judged where they are read
		}
		if s.overwrittenBefore(x, x.X, cell, 0) {
			return nil, false
		}
		return &c01Stale{at: x, cell: cell}, true
	case *ssa.MakeMap:
		if !r.has(x) {
			return nil, true
		}
	}
	return nil, false
}

// apiLeaves: the Consul queries whose replies value v is computed from (reads of remembered values are not followed).
func (s *c01S1) apiLeaves(vs ...ssa.Value) map[*ssa.Call]bool {
	out := map[*ssa.Call]bool{}
	w := newC01Flow(s.scope, func(v ssa.Value) bool {
		if call, ok := v.(*ssa.Call); ok && c01IsAPICall(call) {
			if c01IsAPIQuery(call) {
				out[call] = true
			}
			return true
		}
		_, stop := s.staleRead(v)
		return stop
	})
	w.ctl = true
	for _, v := range vs {
		w.walk(v)
	}
	return out
}

// remembered: v is computed from a value remembered from an earlier round.
func (s *c01S1) remembered(v ssa.Value) bool {
	found := false
	w := newC01Flow(s.scope, func(v ssa.Value) bool {
		if found {
			return true
		}
		if call, ok := v.(*ssa.Call); ok && c01IsAPICall(call) {
			return true
		}
		if u, ok := v.(*ssa.UnOp); ok && u.Op == token.MUL && s.r.carried(u.X) {
			if cell := c01CellName(u.X); cell != "" && len(s.writes[cell]) > 0 {
				found = true
			}
			return true
		}
		h, stop := s.staleRead(v)
		if h != nil {
			found = true
		}
		return stop
	})
	w.walk(v)
	return found
}

// comparisons: the groups of values a branch condition compares with each other (a == b, DeepEqual(a, b), the
// comparisons a boolean helper of the repository returns).
func c01Comparisons(cond ssa.Value, depth int) [][]ssa.Value {
	if cond == nil || depth > 4 {
		return nil
	}
	switch x := cond.(type) {
	case *ssa.BinOp:
		switch x.Op {
		case token.EQL, token.NEQ:
			return [][]ssa.Value{{x.X, x.Y}}
		case token.AND, token.OR, token.LAND, token.LOR:
			return append(c01Comparisons(x.X, depth+1), c01Comparisons(x.Y, depth+1)...)
		}
	case *ssa.UnOp:
		if x.Op == token.NOT {
			return c01Comparisons(x.X, depth+1)
		}
	case *ssa.Phi:
		var out [][]ssa.Value
		for _, e := range x.Edges {
			out = append(out, c01Comparisons(e, depth+1)...)
		}
		return out
	case *ssa.Call:
		if ts := c01Targets(&x.Call); len(ts) > 0 {
			var out [][]ssa.Value
			for _, t := range ts {
				eachInstr(t, func(i ssa.Instruction) {
					if r, ok := i.(*ssa.Return); ok && len(r.Results) > 0 {
						out = append(out, c01Comparisons(r.Results[0], depth+1)...)
					}
				})
			}
			// and the arguments themselves: equal(a, b)
			return append(out, append([]ssa.Value{}, x.Call.Args...))
		}
		return [][]ssa.Value{append([]ssa.Value{}, x.Call.Args...)}
	}
	return nil
}

// keyLeaves: the Consul queries that enter the key under which the remembered value is reused at h: the key of the
// map element, and the fresh sides of the equality tests against remembered values that guard the read.
func (s *c01S1) keyLeaves(h *c01Stale) (leaves map[*ssa.Call]bool, guarded bool) {
	leaves = map[*ssa.Call]bool{}
	if h.keyExpr != nil {
		guarded = true
		for k := range s.apiLeaves(h.keyExpr) {
			leaves[k] = true
		}
	}
	for _, ft := range factsAt(h.at.Block()) {
		for _, group := range c01Comparisons(ft.Cond, 0) {
			var fresh []ssa.Value
			anyRemembered := false
			for _, op := range group {
				if _, isK := op.(*ssa.Const); isK {
					continue
				}
				if s.remembered(op) {
					anyRemembered = true
				} else {
					fresh = append(fresh, op)
				}
			}
			if !anyRemembered || len(fresh) == 0 {
				continue
			}
			guarded = true
			for k := range s.apiLeaves(fresh...) {
				leaves[k] = true
			}
		}
	}
	return leaves, guarded
}

func c01CallLabel(c *Ctx, call *ssa.Call) string {
	n := calleeName(&call.Call)
	if m := c01APIMethod(&call.Call); m != "" {
		n = m
	}
	n = strings.ReplaceAll(n, apiPkg+".", "")
	return n + " (" + c.pos(call.Pos()) + ")"
}

func runC01S1(c *Ctx) {
	scope := c.fnsWhere(consulPkg, func(*ssa.Function) bool { return true })
	type sink struct {
		at   ssa.Instruction
		text ssa.Value
	}
	var sinks []sink
	eachInstrOf(scope, func(_ *ssa.Function, i ssa.Instruction) {
		switch x := i.(type) {
		case *ssa.Send:
			if c01LeavesWatcher(c, x.Chan) {
				sinks = append(sinks, sink{x, x.X})
			}
		case *ssa.Select:
			for _, st := range x.States {
				if st.Dir == types.SendOnly && c01LeavesWatcher(c, st.Chan) {
					sinks = append(sinks, sink{x, st.Send})
				}
			}
		}
	})
	followed := 0
	for _, sk := range sinks {
		s := &c01S1{c: c, scope: scope, r: c01RoundOf(sk.at)}
		s.collectWrites()
		var hits []*c01Stale
		seenHit := map[ssa.Instruction]bool{}
		reached := map[*ssa.Call]bool{}
		w := newC01Flow(scope, func(v ssa.Value) bool {
			if call, ok := v.(*ssa.Call); ok && c01IsAPICall(call) {
				if c01IsAPIQuery(call) {
					reached[call] = true
				}
				return true
			}
			h, stop := s.staleRead(v)
			if h != nil && !seenHit[h.at] {
				seenHit[h.at] = true
				hits = append(hits, h)
			}
			return stop
		})
		w.walk(sk.text)
		if len(reached) > 0 || len(hits) > 0 {
			followed++
		}
		if os.Getenv("C01_DEBUG") != "" {
			fmt.Fprintf(os.Stderr, "S1 sink %s round=%s loop=%v steps=%d\n", c.pos(sk.at.Pos()), fnKey(s.r.fn), s.r.l != nil, w.steps)
			for call := range reached {
				fmt.Fprintf(os.Stderr, "   leaf %s\n", c01CallLabel(c, call))
			}
			for cell, ws := range s.writes {
				fmt.Fprintf(os.Stderr, "   written in round: %s (%d)\n", cell, len(ws))
			}
			for _, h := range hits {
				fmt.Fprintf(os.Stderr, "   hit %s at %s\n", h.cell, c.pos(h.at.Pos()))
			}
		}
		var problems []string
		for _, h := range hits {
			// what the remembered value was computed from
			var vals []ssa.Value
			var where []string
			for _, wi := range s.writes[h.cell] {
				if _, _, val, ok := c01WriteOf(wi); ok {
					vals = append(vals, val)
					where = append(where, c.pos(wi.Pos()))
				}
			}
			need := s.apiLeaves(vals...)
			have, guarded := s.keyLeaves(h)
			var missing []string
			for call := range need {
				if !have[call] {
					missing = append(missing, c01CallLabel(c, call))
				}
			}
			sort.Strings(missing)
			switch {
			case len(need) == 0:
				// nothing from the registry went into the remembered value (a lazily initialised setting): it is
				// the same in every round
			case !guarded:
				problems = append(problems, fmt.Sprintf("%s (written at %s) is read at %s and published without a key: it holds what an earlier round computed", h.cell, strings.Join(where, ", "), c.pos(h.at.Pos())))
			case len(missing) > 0:
				problems = append(problems, fmt.Sprintf("%s (written at %s) is reused at %s under a key that does not cover the reply of %s, from which the remembered value was computed: the cache is keyed by too little", h.cell, strings.Join(where, ", "), c.pos(h.at.Pos()), strings.Join(missing, ", ")))
			}
		}
		detail := "the published text must be computed from the registry replies of its own round; a value remembered from an earlier round may be reused only under a key that covers every Consul reply it was computed from (the route commands come from the catalog entries: tags, address, port - not only from the set of passing instances). Otherwise an instance that is registered again with other urlprefix- tags or another port keeps its old routes in every table installed until some other instance changes"
		if len(problems) > 0 {
			detail += " [" + strings.Join(problems, "; ") + "]"
		}
		c.check("C01.S1", fnKey(s.r.fn)+"|a published text is computed from the replies of its own round", sk.at.Pos(), len(problems) == 0, detail)
	}
	c.atLeast("C01.S1", "sends of a configuration text in registry/consul that were followed back to a Consul query (health watcher, KV watcher)", followed, 2)
}
