package main

// Overlay mutants of C05 added in hardening round 3: setters for Route.Targets (the list is chosen by the caller),
// lists built by helpers, counts carried in variables, display modes passed as enumerations, formats that continue a
// command - each benign shape with a breaking twin.

const c05FilterTail = "\tr.Targets = clone\n\tr.weighTargets()\n}\n\nfunc (r *Route) setWeight("

const c05AddTail = "\tr.Targets = append(r.Targets, t)\n\tr.weighTargets()\n}\n"

const c05FilterFn = "func (r *Route) filter(skip func(t *Target) bool) {\n\tvar clone []*Target\n\tfor _, t := range r.Targets {\n\t\tif skip(t) {\n\t\t\tcontinue\n\t\t}\n\t\tclone = append(clone, t)\n\t}\n\tr.Targets = clone\n\tr.weighTargets()\n}\n"

const c05SetterFn = "func (r *Route) setTargets(ts []*Target) {\n\tr.Targets = ts\n\tr.weighTargets()\n}\n"

const c05DelBySrcOld = "\t\tr.filter(func(tg *Target) bool {\n\t\t\treturn tg.Service == d.Service\n\t\t})\n\n\tdefault:"

const c05TableHelpers = "func setTargets(r *Route, ts []*Target) {\n\tr.Targets = ts\n\tr.weighTargets()\n}\n\nfunc without(ts []*Target, skip func(*Target) bool) []*Target {\n\tvar kept []*Target\n\tfor _, t := range ts {\n\t\tif !skip(t) {\n\t\t\tkept = append(kept, t)\n\t\t}\n\t}\n\treturn kept\n}\n\n// route finds the route for host/path"

const c05WeightOld = "\tif addWeight {\n\t\ts += fmt.Sprintf(\" weight %2.4f\", t.Weight)\n\t} else if t.FixedWeight > 0 {\n\t\ts += fmt.Sprintf(\" weight %.4f\", t.FixedWeight)\n\t}\n"

const c05ModeHelper = "const (\n\tshareConfigured = iota\n\tshareEffective\n)\n\nfunc weightClause(t *Target, mode int) string {\n\tswitch mode {\n\tcase shareEffective:\n\t\treturn fmt.Sprintf(\" weight %2.4f\", t.Weight)\n\tdefault:\n\t\tif t.FixedWeight > 0 {\n\t\t\treturn fmt.Sprintf(\" weight %.4f\", t.FixedWeight)\n\t\t}\n\t\treturn \"\"\n\t}\n}\n\nfunc (r *Route) TargetConfig("

var c05HardenMutants = []mutant{
	// ---- the list stored to Route.Targets is chosen by the caller of a setter / built by a helper ------------------
	{Name: "benign: filter replaces the targets through a local closure", File: "route/route.go", Old: c05FilterTail,
		New: "\tset := func(ts []*Target) {\n\t\tr.Targets = ts\n\t\tr.weighTargets()\n\t}\n\tset(clone)\n}\n\nfunc (r *Route) setWeight(", Expect: ""},
	{Name: "benign: addTarget grows the list through a helper", File: "route/route.go", Old: c05AddTail,
		New: "\tr.Targets = withTarget(r.Targets, t)\n\tr.weighTargets()\n}\n\nfunc withTarget(ts []*Target, t *Target) []*Target {\n\treturn append(ts, t)\n}\n", Expect: ""},
	{Name: "benign: addTarget appends to a copy of the list (slices.Clone)", File: "route/route.go", Old: c05AddTail,
		New:  "\tr.Targets = append(slices.Clone(r.Targets), t)\n\tr.weighTargets()\n}\n",
		More: []repl{{"\t\"reflect\"\n", "\t\"reflect\"\n\t\"slices\"\n"}}, Expect: ""},
	{Name: "benign: addTarget appends to the capacity-clipped list", File: "route/route.go", Old: c05AddTail,
		New: "\tr.Targets = append(r.Targets[:len(r.Targets):len(r.Targets)], t)\n\tr.weighTargets()\n}\n", Expect: ""},
	{Name: "benign: setter two levels deep (replace -> setTargets) used by addTarget and filter", File: "route/route.go", Old: c05AddTail,
		New:  "\tr.replace(append(r.Targets, t))\n}\n\nfunc (r *Route) replace(ts []*Target) {\n\tr.setTargets(ts)\n}\n\n" + c05SetterFn,
		More: []repl{{"\tr.Targets = clone\n\tr.weighTargets()\n}\n", "\tr.replace(clone)\n}\n"}}, Expect: ""},
	{Name: "setter handed a list that stops at the first match", File: "route/route.go", Old: c05FilterFn,
		New:  "func (r *Route) filter(skip func(t *Target) bool) {\n\tr.setTargets(withoutFirst(r.Targets, skip))\n}\n\n" + c05SetterFn + "\nfunc withoutFirst(ts []*Target, skip func(*Target) bool) []*Target {\n\tfor i, t := range ts {\n\t\tif skip(t) {\n\t\t\treturn append(ts[:i:i], ts[i+1:]...)\n\t\t}\n\t}\n\treturn ts\n}\n",
		More: []repl{{c05AddTail, "\tr.setTargets(append(r.Targets, t))\n}\n"}}, Expect: "C05.D2"},
	{Name: "setter handed a list built by a loop that breaks after the first match", File: "route/route.go", Old: c05FilterFn,
		New:  "func (r *Route) filter(skip func(t *Target) bool) {\n\tr.setTargets(withoutFirst(r.Targets, skip))\n}\n\n" + c05SetterFn + "\nfunc withoutFirst(ts []*Target, skip func(*Target) bool) []*Target {\n\tvar kept []*Target\n\tfor i, t := range ts {\n\t\tif skip(t) {\n\t\t\tkept = append(kept, ts[i+1:]...)\n\t\t\tbreak\n\t\t}\n\t\tkept = append(kept, t)\n\t}\n\treturn kept\n}\n",
		More: []repl{{c05AddTail, "\tr.setTargets(append(r.Targets, t))\n}\n"}}, Expect: "C05.D2"},
	{Name: "benign: del by source through a package-level setter and a filtering helper", File: "route/table.go", Old: c05DelBySrcOld,
		New:  "\t\tsetTargets(r, without(r.Targets, func(tg *Target) bool {\n\t\t\treturn tg.Service == d.Service\n\t\t}))\n\n\tdefault:",
		More: []repl{{"// route finds the route for host/path", c05TableHelpers}}, Expect: ""},
	{Name: "del by source through a setter returns before the cleanup", File: "route/table.go", Old: c05DelBySrcOld,
		New:  "\t\tsetTargets(r, without(r.Targets, func(tg *Target) bool {\n\t\t\treturn tg.Service == d.Service\n\t\t}))\n\t\treturn nil\n\n\tdefault:",
		More: []repl{{"// route finds the route for host/path", c05TableHelpers}}, Expect: "C05.D1"},
	{Name: "del predicate handed to the filtering helper remembers that it matched", File: "route/table.go", Old: c05DelBySrcOld,
		New:  "\t\tdone := false\n\t\tsetTargets(r, without(r.Targets, func(tg *Target) bool {\n\t\t\tif done || tg.Service != d.Service {\n\t\t\t\treturn false\n\t\t\t}\n\t\t\tdone = true\n\t\t\treturn true\n\t\t}))\n\n\tdefault:",
		More: []repl{{"// route finds the route for host/path", c05TableHelpers}}, Expect: "C05.D2"},
	{Name: "setter used by addTarget, targets de-duplicated by host only", File: "route/route.go", Old: c05AddTail,
		New:  "\tr.setTargets(append(r.Targets, t))\n}\n\n" + c05SetterFn,
		More: []repl{{"\tr.Targets = clone\n\tr.weighTargets()\n}\n", "\tr.setTargets(clone)\n}\n"}, {"t.URL.String() == targetURL.String() && t.FixedWeight == fixedWeight", "t.URL.Host == targetURL.Host && t.FixedWeight == fixedWeight"}}, Expect: "C05.I1"},
	{Name: "benign: one-element cut in a helper, repeated by a backward loop", File: "route/route.go", Old: c05FilterFn,
		New: "func (r *Route) filter(skip func(t *Target) bool) {\n\tfor i := len(r.Targets) - 1; i >= 0; i-- {\n\t\tif skip(r.Targets[i]) {\n\t\t\tr.Targets = dropAt(r.Targets, i)\n\t\t}\n\t}\n\tr.weighTargets()\n}\n\nfunc dropAt(ts []*Target, i int) []*Target {\n\treturn append(ts[:i:i], ts[i+1:]...)\n}\n", Expect: ""},

	// ---- W1: the count carried in a variable -----------------------------------------------------------------------
	{Name: "benign: weighRoute carries 'some matched' in a boolean", File: "route/table.go", Old: c05WeighOld,
		New: "\tmatched := false\n\tif r := t.route(host, path); r != nil {\n\t\tmatched = r.setWeight(d.Service, d.Weight, d.Tags) > 0\n\t}\n\tif !matched {\n\t\treturn errNoMatch\n\t}\n\treturn nil\n}\n", Expect: ""},
	{Name: "benign: weighRoute sums the counts over the routes of the host", File: "route/table.go", Old: c05WeighOld,
		New: "\tn := 0\n\tfor _, r := range t[host] {\n\t\tif r.Path == path {\n\t\t\tn += r.setWeight(d.Service, d.Weight, d.Tags)\n\t\t}\n\t}\n\tif n == 0 {\n\t\treturn errNoMatch\n\t}\n\treturn nil\n}\n", Expect: ""},
	{Name: "carried count says 'route found', not 'target matched'", File: "route/table.go", Old: c05WeighOld,
		New: "\tn := 0\n\tif r := t.route(host, path); r != nil {\n\t\tr.setWeight(d.Service, d.Weight, d.Tags)\n\t\tn = 1\n\t}\n\tif n == 0 {\n\t\treturn errNoMatch\n\t}\n\treturn nil\n}\n", Expect: "C05.W1"},
	{Name: "carried count is never zero once the route exists", File: "route/table.go", Old: c05WeighOld,
		New: "\tn := 0\n\tif r := t.route(host, path); r != nil {\n\t\tn = r.setWeight(d.Service, d.Weight, d.Tags) + 1\n\t}\n\tif n == 0 {\n\t\treturn errNoMatch\n\t}\n\treturn nil\n}\n", Expect: "C05.W1"},

	// ---- R1: display mode as an enumeration; format that continues the command ---------------------------------------
	{Name: "benign: R1: display mode handed to the clause helper as an enumeration", File: "route/route.go", Old: c05WeightOld,
		New:  "\tif addWeight {\n\t\ts += weightClause(t, shareEffective)\n\t} else {\n\t\ts += weightClause(t, shareConfigured)\n\t}\n",
		More: []repl{{"func (r *Route) TargetConfig(", c05ModeHelper}}, Expect: ""},
	{Name: "R1: enumeration display modes handed over the wrong way round", File: "route/route.go", Old: c05WeightOld,
		New:  "\tif addWeight {\n\t\ts += weightClause(t, shareConfigured)\n\t} else {\n\t\ts += weightClause(t, shareEffective)\n\t}\n",
		More: []repl{{"func (r *Route) TargetConfig(", c05ModeHelper}}, Expect: "C05.R1"},
	{Name: "benign: R1: weight clause appended with a format that continues the command", File: "route/route.go", Old: c05WeightOld,
		New: "\tif addWeight {\n\t\ts = fmt.Sprintf(\"%s weight %2.4f\", s, t.Weight)\n\t} else if t.FixedWeight > 0 {\n\t\ts = fmt.Sprintf(\"%s weight %.4f\", s, t.FixedWeight)\n\t}\n", Expect: ""},
	{Name: "R1: format that continues the command prints the effective share", File: "route/route.go", Old: c05WeightOld,
		New: "\tif addWeight || t.FixedWeight > 0 {\n\t\ts = fmt.Sprintf(\"%s weight %.4f\", s, t.Weight)\n\t}\n", Expect: "C05.R1"},
}
