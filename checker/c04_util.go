package main

// Helpers of C04 that make its rules independent of how the ring builder, the pickers and the mutators of a route
// are cut into functions: the builder is resolved by ROLE (it stores Route.wTargets and Target.Weight), sites are
// searched in its REGION, merged values are expanded into the definitions that reach them across phis, local
// variables, helper results and helper parameters (c04leaves), and branch facts are lifted from the single call
// sites of a helper into the helper (c04bound).

import (
	"go/constant"
	"go/token"
	"go/types"

	"golang.org/x/tools/go/ssa"
)

// ---- roles ---------------------------------------------------------------------------------------------------

func c04storeTo(i ssa.Instruction, typ, field string) bool {
	st, ok := i.(*ssa.Store)
	if !ok {
		return false
	}
	_, ok = fieldOf(st.Addr, typ, field)
	return ok
}

func c04isField(v ssa.Value, typ, field string) bool {
	_, ok := fieldOf(v, typ, field)
	return ok
}

func c04isWeight(v ssa.Value) bool { return c04isField(v, "route.Target", "Weight") }
func c04isRing(v ssa.Value) bool   { return c04isField(v, "route.Route", c04ringField) }

// c04ringField is the name of the ring field of Route, resolved by role: the field of Route holding a slice of
// *Target other than the exported target list Route.Targets (today: wTargets). Set by c04resolveRingField.
var c04ringField = "wTargets"

func c04resolveRingField(c *Ctx) {
	c04ringField = "wTargets"
	sp := c.spkg("route")
	if sp == nil || sp.Type("Route") == nil {
		return
	}
	st, ok := sp.Type("Route").Type().Underlying().(*types.Struct)
	if !ok {
		return
	}
	var names []string
	for i := 0; i < st.NumFields(); i++ {
		f := st.Field(i)
		sl, ok := f.Type().Underlying().(*types.Slice)
		if !ok || f.Name() == "Targets" {
			continue
		}
		if _, isPtr := sl.Elem().(*types.Pointer); isPtr && namedIs(sl.Elem(), "route.Target") {
			names = append(names, f.Name())
		}
	}
	if len(names) == 1 {
		c04ringField = names[0]
	}
}

func c04isFloat(t types.Type) bool {
	b, ok := t.Underlying().(*types.Basic)
	return ok && b.Info()&types.IsFloat != 0
}

func c04isInt(t types.Type) bool {
	b, ok := t.Underlying().(*types.Basic)
	return ok && b.Info()&types.IsInteger != 0
}

// c04builder is the ring builder: the entry function, its region, and every function that performs a full rebuild.
type c04builder struct {
	entry *ssa.Function
	reg   []*ssa.Function
	in    map[*ssa.Function]bool
	full  map[*ssa.Function]bool
	// hands: the full-rebuild functions that do not store the ring field themselves but hand the ring to their caller
	// as a result (`r.wTargets = weighTargets(r.Targets)`): a call of one of them is a rebuild only where its result
	// is published in the ring field (c04rebuildCall).
	hands map[*ssa.Function]bool
}

// c04freshBase: the address is a field of a value allocated right here (a literal under construction).
func c04freshBase(addr ssa.Value) bool {
	if fa, ok := addr.(*ssa.FieldAddr); ok {
		_, isAlloc := fa.X.(*ssa.Alloc)
		return isAlloc
	}
	return false
}

// c04isTargetSlice: []*route.Target (or a named type of that shape).
func c04isTargetSlice(t types.Type) bool {
	sl, ok := t.Underlying().(*types.Slice)
	if !ok {
		return false
	}
	_, isPtr := sl.Elem().(*types.Pointer)
	return isPtr && namedIs(sl.Elem(), "route.Target")
}

// c04resultCall: v is (one result of) a synchronous static call of a repository function: the call and its callee.
func c04resultCall(v ssa.Value) (*ssa.Call, *ssa.Function) {
	if ex, ok := v.(*ssa.Extract); ok {
		v = ex.Tuple
	}
	call, ok := v.(*ssa.Call)
	if !ok {
		return nil, nil
	}
	sc := call.Call.StaticCallee()
	if sc == nil || !isRepoFn(sc) {
		return nil, nil
	}
	return call, unwrap(sc)
}

// c04publishedCalls: the store writes the ring field and every definition reaching the stored value (phis and local
// variables followed; a parameter of a setter that is only called statically stands for the arguments at its call
// sites) is the []*Target result of a call of a repository function: those calls. nil otherwise.
func c04publishedCalls(st *ssa.Store) []*ssa.Call {
	if !c04isRing(st.Addr) || c04freshBase(st.Addr) {
		return nil
	}
	var out []*ssa.Call
	var walk func(v ssa.Value, at *ssa.BasicBlock, depth int) bool
	walk = func(v ssa.Value, at *ssa.BasicBlock, depth int) bool {
		for _, lf := range c04leavesLocal(v, at) {
			if call, _ := c04resultCall(lf.v); call != nil && c04isTargetSlice(lf.v.Type()) {
				out = append(out, call)
				continue
			}
			p, isParam := lf.v.(*ssa.Parameter)
			if !isParam || depth > 1 {
				return false
			}
			fn, idx := p.Parent(), -1
			for k, q := range fn.Params {
				if q == p {
					idx = k
				}
			}
			sites := c04sites(fn)
			if idx < 0 || len(sites) == 0 || len(sites) > maxHelperSites || fn.Parent() != nil || !onlyStaticallyCalled(fn) || len(sites) != len(gSites[fn]) {
				return false
			}
			for _, s := range sites {
				if _, isCall := s.(*ssa.Call); !isCall || idx >= len(s.Common().Args) || !walk(s.Common().Args[idx], s.Block(), depth+1) {
					return false
				}
			}
		}
		return true
	}
	if !walk(st.Val, st.Block(), 0) {
		return nil
	}
	return out
}

// c04ringBuilder resolves the function that rebuilds the weighted ring by its role. The functions that assign the
// effective weights (stores to Target.Weight) and publish the ring (stores to Route.wTargets) are the parts of the
// builder; a function of package route whose region contains all of these parts and changes none of the builder's
// inputs (Route.Targets, Target.FixedWeight) performs a full rebuild. The entry is the innermost such function;
// wrappers around it are full rebuilds too. Mutators of a route and their callers are excluded by the inputs they
// change, helpers split off the builder by the parts they lack.
//
// The builder may also be a function of its inputs that RETURNS the ring (`r.wTargets = weighTargets(r.Targets)`):
// a store to the ring field outside the region of a candidate does not disqualify the candidate when all it stores
// is the result of a call of a candidate; the candidate then performs the full rebuild together with the store that
// publishes its result (b.hands).
func c04ringBuilder(c *Ctx) *c04builder {
	c04resolveRingField(c)
	weightParts := map[*ssa.Function]bool{}
	var ringStores []*ssa.Store
	for _, f := range c.AllFns {
		ff := f
		eachInstr(f, func(i ssa.Instruction) {
			st, ok := i.(*ssa.Store)
			if !ok || c04freshBase(st.Addr) {
				return
			}
			if c04storeTo(i, "route.Route", c04ringField) {
				ringStores = append(ringStores, st)
			}
			if c04storeTo(i, "route.Target", "Weight") {
				weightParts[c04outer(ff)] = true
			}
		})
	}
	if len(ringStores) == 0 || len(weightParts) == 0 {
		return nil
	}
	// candidates: the region assigns every effective weight and changes no input
	type cand struct {
		f   *ssa.Function
		reg []*ssa.Function
		has map[*ssa.Function]bool
	}
	var cands []*cand
	isCand := map[*ssa.Function]*cand{}
	for _, f := range c.fnsWhere("route", func(f *ssa.Function) bool { return f.Parent() == nil }) {
		reg := c.region(f)
		has := map[*ssa.Function]bool{}
		for _, g := range reg {
			has[c04outer(g)] = true
		}
		covers := true
		for p := range weightParts {
			if !has[p] {
				covers = false
			}
		}
		if !covers {
			continue
		}
		mutates := false
		eachInstrOf(reg, func(_ *ssa.Function, i ssa.Instruction) {
			if _, ok := isRingMutation(i); ok {
				mutates = true
			}
		})
		if mutates {
			continue
		}
		cd := &cand{f, reg, has}
		cands = append(cands, cd)
		isCand[f] = cd
	}
	b := &c04builder{in: map[*ssa.Function]bool{}, full: map[*ssa.Function]bool{}, hands: map[*ssa.Function]bool{}}
	for _, cd := range cands {
		inside, handed, ok := 0, false, true
		for _, st := range ringStores {
			if cd.has[c04outer(st.Parent())] {
				inside++
				continue
			}
			calls := c04publishedCalls(st)
			if len(calls) == 0 {
				ok = false
				break
			}
			for _, call := range calls {
				_, g := c04resultCall(call)
				gc := isCand[g]
				if gc == nil {
					ok = false
					break
				}
				if gc.has[cd.f] {
					handed = true // the store publishes what cd.f (or a wrapper around it) returned
				}
			}
		}
		if !ok || (inside == 0 && !handed) {
			continue
		}
		b.full[cd.f] = true
		if inside == 0 {
			b.hands[cd.f] = true
		}
		if b.entry == nil || len(cd.reg) < len(b.reg) {
			b.entry, b.reg = cd.f, cd.reg
		}
	}
	if b.entry == nil {
		return nil
	}
	for _, g := range b.reg {
		b.in[g] = true
	}
	return b
}

// c04rebuildCall: the instruction is a synchronous call (or defer) of a full-rebuild function that leaves the route
// with a rebuilt ring: the callee stores the ring itself, or it hands the ring back and on every path from the call
// to a return of the caller the result is stored in the ring field. The list it is given must be the route's target
// list (a value read from Route.Targets, or the value the caller has just stored there).
func c04rebuildCall(b *c04builder, i ssa.Instruction) bool {
	if _, isGo := i.(*ssa.Go); isGo {
		return false
	}
	cc := callCommon(i)
	if cc == nil {
		return false
	}
	sc := cc.StaticCallee()
	if sc == nil || !isRepoFn(sc) || !b.full[unwrap(sc)] {
		return false
	}
	if !b.hands[unwrap(sc)] {
		return true
	}
	call, ok := i.(*ssa.Call)
	if !ok {
		return false // a deferred or discarded result is never published
	}
	for _, a := range cc.Args {
		if c04isTargetSlice(a.Type()) && !c04isTargetList(a, call) {
			return false
		}
	}
	publishes := func(j ssa.Instruction) bool {
		switch x := j.(type) {
		case *ssa.Store:
			if x.Parent() != call.Parent() {
				return false
			}
			for _, pc := range c04publishedCalls(x) {
				if pc == call {
					return true
				}
			}
		case *ssa.Call:
			// the ring is handed to a setter that stores its parameter in the ring field on all of its paths
			g := x.Call.StaticCallee()
			if g == nil || !isRepoFn(g) {
				return false
			}
			g = unwrap(g)
			for k, a := range x.Call.Args {
				if k >= len(g.Params) {
					break
				}
				carries := false
				for _, lf := range c04leavesLocal(a, x.Block()) {
					rc, _ := c04resultCall(lf.v)
					carries = carries || rc == call
				}
				if !carries {
					continue
				}
				param := g.Params[k]
				if mustExec(g, func(i ssa.Instruction) bool {
					st, ok := i.(*ssa.Store)
					if !ok || !c04isRing(st.Addr) || c04freshBase(st.Addr) {
						return false
					}
					ls := c04leavesLocal(st.Val, st.Block())
					return len(ls) == 1 && ls[0].v == ssa.Value(param)
				}, 3) {
					return true
				}
			}
		}
		return false
	}
	_, open := c04openExit(call, publishes, nil)
	return !open
}

// c04isTargetList: the argument of a rebuild is the target list of a route: every definition reaching it (through
// locals, phis, getters and helper parameters) is a read of the field Route.Targets or the very value a store before
// the call put into Route.Targets. A part of the list (`r.Targets[:n]`) or another list is not.
func c04isTargetList(a ssa.Value, at ssa.Instruction) bool {
	if c04storedAsTargets(a, at) {
		return true
	}
	for _, lf := range c04leaves(a, at.Block()) {
		if c04storedAsTargets(lf.v, at) {
			continue
		}
		if ld, ok := lf.v.(*ssa.UnOp); ok && ld.Op == token.MUL && c04isField(ld.X, "route.Route", "Targets") {
			continue
		}
		return false
	}
	return true
}

// c04storedAsTargets: v is the value that a store dominating `at` (same function) has put into Route.Targets:
// `r.Targets = clone; r.wTargets = weighTargets(clone)`.
func c04storedAsTargets(v ssa.Value, at ssa.Instruction) bool {
	stored := false
	eachInstr(at.Parent(), func(j ssa.Instruction) {
		if st, ok := j.(*ssa.Store); ok && st.Val == v && !c04freshBase(st.Addr) && c04isField(st.Addr, "route.Route", "Targets") && dominatesInstr(st, at) {
			stored = true
		}
	})
	return stored
}

// ---- merged values ---------------------------------------------------------------------------------------------

// c04leaf is one definition reaching a merged value: v is chosen when control leaves block b (towards `to`, when the
// merge is a phi; nil otherwise).
type c04leaf struct {
	v  ssa.Value
	b  *ssa.BasicBlock
	to *ssa.BasicBlock
}

// c04leaves expands v into the definitions merged into it: phi edges, stores into a local variable cell, the results
// of a repository helper (each return), and - for a parameter of a helper that is only called statically - the
// arguments at its call sites.
func c04leaves(v ssa.Value, at *ssa.BasicBlock) []c04leaf { return c04leavesOpt(v, at, true) }

// c04leavesLocal: like c04leaves, but within the function (phi edges and local variable cells only).
func c04leavesLocal(v ssa.Value, at *ssa.BasicBlock) []c04leaf { return c04leavesOpt(v, at, false) }

func c04leavesOpt(v ssa.Value, at *ssa.BasicBlock, inter bool) []c04leaf {
	var out []c04leaf
	seen := map[ssa.Value]bool{}
	var walk func(v ssa.Value, b, to *ssa.BasicBlock, d int)
	walk = func(v ssa.Value, b, to *ssa.BasicBlock, d int) {
		if v == nil {
			return
		}
		if seen[v] || d > 8 {
			if d > 8 {
				out = append(out, c04leaf{v, b, to})
			}
			return
		}
		switch x := v.(type) {
		case *ssa.Phi:
			seen[v] = true
			for k, e := range x.Edges {
				walk(e, x.Block().Preds[k], x.Block(), d+1)
			}
			return
		case *ssa.UnOp:
			if a, ok := x.X.(*ssa.Alloc); ok && x.Op == token.MUL {
				seen[v] = true
				n := 0
				for _, r := range *a.Referrers() {
					if st, ok := r.(*ssa.Store); ok && st.Addr == a {
						n++
						walk(st.Val, st.Block(), nil, d+1)
					}
				}
				if n > 0 {
					return
				}
			}
		case *ssa.Extract:
			if call, ok := x.Tuple.(*ssa.Call); ok && inter {
				if c04walkResults(call, x.Index, func(res ssa.Value, rb *ssa.BasicBlock) { walk(res, rb, nil, d+1) }) {
					seen[v] = true
					return
				}
			}
		case *ssa.Call:
			if x.Type() != nil && inter {
				if _, isTuple := x.Type().(*types.Tuple); !isTuple {
					seen[v] = true
					if c04walkResults(x, 0, func(res ssa.Value, rb *ssa.BasicBlock) { walk(res, rb, nil, d+1) }) {
						return
					}
					seen[v] = false
				}
			}
		case *ssa.Parameter:
			fn := x.Parent()
			sites := c04sites(fn)
			if inter && fn != nil && len(sites) > 0 && len(sites) <= maxHelperSites && (fn.Parent() != nil || onlyStaticallyCalled(fn)) {
				idx := -1
				for k, p := range fn.Params {
					if p == x {
						idx = k
					}
				}
				ok := idx >= 0
				for _, s := range sites {
					if idx >= len(s.Common().Args) {
						ok = false
					}
				}
				if ok {
					seen[v] = true
					for _, s := range sites {
						walk(s.Common().Args[idx], s.Block(), nil, d+1)
					}
					return
				}
			}
		}
		out = append(out, c04leaf{v, b, to})
	}
	walk(v, at, nil, 0)
	return out
}

// c04walkResults visits result idx of every return of the repository function statically called by call.
func c04walkResults(call *ssa.Call, idx int, visit func(ssa.Value, *ssa.BasicBlock)) bool {
	sc := call.Call.StaticCallee()
	if sc == nil || !isRepoFn(sc) {
		return false
	}
	sc = unwrap(sc)
	if len(sc.Blocks) == 0 {
		return false
	}
	n := 0
	eachInstr(sc, func(i ssa.Instruction) {
		if r, ok := i.(*ssa.Return); ok && idx < len(r.Results) {
			n++
			visit(r.Results[idx], r.Block())
		}
	})
	return n > 0
}

// c04sites: the static, synchronous call sites (call and defer, not go) of fn.
func c04sites(fn *ssa.Function) []ssa.CallInstruction {
	var out []ssa.CallInstruction
	for _, s := range gSites[fn] {
		if _, isGo := s.(*ssa.Go); isGo || s.Parent() == fn {
			continue
		}
		out = append(out, s)
	}
	return out
}

// c04edgeFacts: the branch facts known when control leaves b towards `to` (to == nil: anywhere in b).
func c04edgeFacts(b, to *ssa.BasicBlock) []Fact {
	if b == nil {
		return nil
	}
	out := factsAt(b)
	if to == nil || len(b.Instrs) == 0 || len(b.Succs) != 2 || b.Succs[0] == b.Succs[1] {
		return out
	}
	iff, ok := b.Instrs[len(b.Instrs)-1].(*ssa.If)
	if !ok {
		return out
	}
	cond, truth := iff.Cond, b.Succs[0] == to
	for {
		u, isNot := cond.(*ssa.UnOp)
		if !isNot || u.Op != token.NOT {
			break
		}
		cond, truth = u.X, !truth
	}
	return append(out, Fact{cond, truth})
}

// ---- comparisons -----------------------------------------------------------------------------------------------

func c04stripConv(v ssa.Value) ssa.Value {
	for {
		switch x := v.(type) {
		case *ssa.Convert:
			v = x.X
		case *ssa.ChangeType:
			v = x.X
		default:
			return v
		}
	}
}

func c04constFloat(v ssa.Value) (float64, bool) {
	k, ok := v.(*ssa.Const)
	if !ok || k.Value == nil {
		return 0, false
	}
	switch k.Value.Kind() {
	case constant.Int, constant.Float:
		f, _ := constant.Float64Val(constant.ToFloat(k.Value))
		return f, true
	}
	return 0, false
}

func c04flip(op token.Token) token.Token {
	switch op {
	case token.LSS:
		return token.GTR
	case token.GTR:
		return token.LSS
	case token.LEQ:
		return token.GEQ
	case token.GEQ:
		return token.LEQ
	}
	return op
}

func c04negate(op token.Token) token.Token {
	switch op {
	case token.LSS:
		return token.GEQ
	case token.GEQ:
		return token.LSS
	case token.GTR:
		return token.LEQ
	case token.LEQ:
		return token.GTR
	case token.EQL:
		return token.NEQ
	case token.NEQ:
		return token.EQL
	}
	return token.ILLEGAL
}

// c04cmp normalises a fact that compares a value with a constant into "x op k holds" (operands swapped and the
// truth of the branch folded into op). For a floating-point x the negation of a false comparison is not exact
// (NaN); exact reports whether the comparison itself was observed true.
func c04cmp(f Fact) (x ssa.Value, op token.Token, k float64, exact, ok bool) {
	b, isB := f.Cond.(*ssa.BinOp)
	if !isB {
		return nil, 0, 0, false, false
	}
	op = b.Op
	switch op {
	case token.LSS, token.LEQ, token.GTR, token.GEQ, token.EQL, token.NEQ:
	default:
		return nil, 0, 0, false, false
	}
	if kv, isK := c04constFloat(b.Y); isK {
		x, k = b.X, kv
	} else if kv, isK := c04constFloat(b.X); isK {
		x, k, op = b.Y, kv, c04flip(op)
	} else {
		return nil, 0, 0, false, false
	}
	exact = f.Truth
	if !f.Truth {
		op = c04negate(op)
	}
	return x, op, k, exact, true
}

// c04isZeroFact: the fact states x == 0 for an integer x that is never negative in this role (a count), in any
// spelling: x == 0, x < 1, x <= 0, !(x > 0), !(x != 0), 0 == x ...
func c04isZeroFact(f Fact, isX func(ssa.Value) bool) bool {
	x, op, k, _, ok := c04cmp(f)
	if !ok || !isX(c04stripConv(x)) && !isX(x) {
		return false
	}
	switch {
	case op == token.EQL && k == 0, op == token.LEQ && k == 0, op == token.LSS && k == 1:
		return true
	}
	return false
}

// c04isPositiveFact: the fact states exactly x > 0 (x >= 1 for integers), in any spelling.
func c04isPositiveFact(f Fact, isX func(ssa.Value) bool) bool {
	x, op, k, _, ok := c04cmp(f)
	if !ok || !isX(x) && !isX(c04stripConv(x)) {
		return false
	}
	switch {
	case op == token.GTR && k == 0:
		return true
	case op == token.GEQ && k == 1 && c04isInt(x.Type()):
		return true
	}
	return false
}

// c04bound: what the branch facts at block b say about the integer v: non-zero and/or non-negative. The facts on a
// parameter of a helper that is only called statically are those on the arguments at all of its call sites.
func c04bound(v ssa.Value, b *ssa.BasicBlock, depth int) (nonZero, nonNeg bool) {
	v = c04stripConv(v)
	if k, ok := constInt(v); ok {
		return k != 0, k >= 0
	}
	if call, ok := v.(*ssa.Call); ok && (calleeName(&call.Call) == "builtin.len" || calleeName(&call.Call) == "builtin.cap") {
		nonNeg = true
	}
	same := samePath(v)
	isV := func(o ssa.Value) bool { return same(c04stripConv(o)) }
	for _, f := range factsAt(b) {
		x, op, k, _, ok := c04cmp(f)
		if !ok || !isV(x) {
			continue
		}
		switch op {
		case token.GTR:
			if k >= 0 {
				nonZero, nonNeg = true, true
			} else if k >= -1 {
				nonNeg = true
			}
		case token.GEQ:
			if k >= 1 {
				nonZero, nonNeg = true, true
			} else if k >= 0 {
				nonNeg = true
			}
		case token.NEQ:
			if k == 0 {
				nonZero = true
			}
		case token.LSS:
			if k <= 0 {
				nonZero = true
			}
		case token.LEQ:
			if k < 0 {
				nonZero = true
			}
		case token.EQL:
			if k != 0 {
				nonZero = true
			}
			if k >= 0 {
				nonNeg = true
			}
		}
	}
	if nonZero && nonNeg {
		return
	}
	if p, ok := v.(*ssa.Parameter); ok && depth < maxHops {
		fn := p.Parent()
		sites := c04sites(fn)
		if fn != nil && len(sites) > 0 && len(sites) <= maxHelperSites && (fn.Parent() != nil || onlyStaticallyCalled(fn)) {
			idx := -1
			for k, q := range fn.Params {
				if q == p {
					idx = k
				}
			}
			allZ, allN := idx >= 0, idx >= 0
			for _, s := range sites {
				if idx < 0 || idx >= len(s.Common().Args) {
					allZ, allN = false, false
					break
				}
				z, n := c04bound(s.Common().Args[idx], s.Block(), depth+1)
				allZ, allN = allZ && z, allN && n
			}
			nonZero, nonNeg = nonZero || allZ, nonNeg || allN
		}
	}
	return
}
