package main

// Overlay mutants of the round-3 rules (round3.go): for each rule a break it must report and, where a natural one
// exists, a benign rewrite of the same place that must stay silent.

func init() {
	add := func(id string, ms ...mutant) {
		if p := props[id]; p != nil {
			p.Mutants = append(p.Mutants, ms...)
		}
	}
	const kv = "registry/consul/kv.go"
	kvOld := "\t\tif value != lastValue || index != lastIndex {\n\t\t\tlog.Printf(\"[DEBUG] consul: Manual config changed to #%d\", index)\n\t\t\tconfig <- value\n\t\t\tlastValue, lastIndex = value, index\n\t\t}\n"
	add("C01",
		mutant{Name: "manual config published only when the index advanced", File: kv, Old: kvOld,
			New: "\t\tif index <= lastIndex {\n\t\t\tcontinue\n\t\t}\n\t\tlog.Printf(\"[DEBUG] consul: Manual config changed from %q to #%d\", lastValue, index)\n\t\tconfig <- value\n\t\tlastValue, lastIndex = value, index\n", Expect: "C01.W4"},
		mutant{Name: "benign: unchanged manual config skipped by a guard clause", File: kv, Old: kvOld,
			New: "\t\tif value == lastValue && index == lastIndex {\n\t\t\tcontinue\n\t\t}\n\t\tlog.Printf(\"[DEBUG] consul: Manual config changed to #%d\", index)\n\t\tconfig <- value\n\t\tlastValue, lastIndex = value, index\n", Expect: ""},
	)
	const picker = "route/picker.go"
	add("C06",
		mutant{Name: "random picker on a private unsynchronised generator", File: picker, Old: "\treturn rand.Intn(n)\n", New: "\treturn rnd.Intn(n)\n", Expect: "C06.S7",
			More: []repl{{"var rndOnce sync.Once\n", "var rndOnce sync.Once\nvar rnd = rand.New(rand.NewSource(time.Now().UnixNano()))\n"}}},
		mutant{Name: "benign: private generator used under its own mutex", File: picker, Old: "\treturn rand.Intn(n)\n", New: "\trndMu.Lock()\n\tdefer rndMu.Unlock()\n\treturn rnd.Intn(n)\n", Expect: "",
			More: []repl{{"var rndOnce sync.Once\n", "var rndOnce sync.Once\nvar rndMu sync.Mutex\nvar rnd = rand.New(rand.NewSource(time.Now().UnixNano()))\n"}}},
	)
	const httpProxy = "proxy/http_proxy.go"
	add("C07",
		mutant{Name: "no-route length announced from a separate load of the page", File: httpProxy, Old: "\t\tw.WriteHeader(status)\n\t\thtml := noroute.GetHTML()\n",
			New: "\t\tif n := len(noroute.GetHTML()); n > 0 {\n\t\t\tw.Header().Set(\"Content-Length\", strconv.Itoa(n))\n\t\t}\n\t\tw.WriteHeader(status)\n\t\thtml := noroute.GetHTML()\n", Expect: "C07.N2"},
		mutant{Name: "benign: no-route length announced from the page that is written", File: httpProxy, Old: "\t\tw.WriteHeader(status)\n\t\thtml := noroute.GetHTML()\n",
			New: "\t\thtml := noroute.GetHTML()\n\t\tif n := len(html); n > 0 {\n\t\t\tw.Header().Set(\"Content-Length\", strconv.Itoa(n))\n\t\t}\n\t\tw.WriteHeader(status)\n", Expect: ""},
		mutant{Name: "Flush of the logging wrapper skipped when nothing was written", File: httpProxy, Old: "func (rw *responseWriter) Flush() {\n", New: "func (rw *responseWriter) Flush() {\n\tif rw.size == 0 {\n\t\treturn\n\t}\n", Expect: "C07.W2"},
	)
	const headers = "proxy/http_headers.go"
	add("C08",
		mutant{Name: "scheme detector returns the empty text when Forwarded has no proto", File: headers, Old: "\t\tif len(p) == 1 {\n\t\t\tbreak\n\t\t}\n", New: "\t\tif len(p) == 1 {\n\t\t\treturn \"\"\n\t\t}\n", Expect: "C08.A4"},
	)
	const tcpProxy = "proxy/tcp/tcp_proxy.go"
	add("C09",
		mutant{Name: "copy buffer of a running relay returned to a pool", File: tcpProxy, Old: "\tgo cp(in, out, t.RxCounter)\n", New: "\tbuf := relayBufs.Get().(*[]byte)\n\tdefer relayBufs.Put(buf)\n\tgo func(b []byte) { _ = b; cp(in, out, t.RxCounter) }(*buf)\n", Expect: "C09.B8",
			More: []repl{{"func (p *Proxy) ServeTCP(", "var relayBufs = sync.Pool{New: func() interface{} { b := make([]byte, 32*1024); return &b }}\n\nfunc (p *Proxy) ServeTCP("}, {"import (\n", "import (\n\t\"sync\"\n"}}},
	)
	const watch = "cert/watch.go"
	add("C11",
		mutant{Name: "retry clamp skipped in load-once mode", File: watch, Old: "\tif refresh < time.Second {\n", New: "\tif !once && refresh < time.Second {\n", Expect: "C11.L5"},
		mutant{Name: "benign: retry clamp written with max", File: watch, Old: "\tif refresh < time.Second {\n\t\trefresh = time.Second\n\t}\n", New: "\tif refresh <= 999*time.Millisecond {\n\t\trefresh = time.Second\n\t}\n", Expect: ""},
		mutant{Name: "new set built in the previous set's backing array", File: "cert/store.go", Old: "\tcs := certstore{Certificates: certs}\n", New: "\tcs := certstore{Certificates: append(s.certstore().Certificates[:0], certs...)}\n", Expect: "C11.A3"},
		mutant{Name: "benign: new set built on a fresh copy", File: "cert/store.go", Old: "\tcs := certstore{Certificates: certs}\n", New: "\tcs := certstore{Certificates: append([]tls.Certificate(nil), certs...)}\n", Expect: ""},
	)
	const rules = "route/access_rules.go"
	add("C12",
		mutant{Name: "unparsable peer address skipped like an X-Forwarded-For element", File: rules, Old: "\tif ip == nil {\n\t\tlog.Printf(\"[WARN] failed to parse remote address %s\", host)\n\t}\n", New: "\tif ip == nil {\n\t\tlog.Printf(\"[WARN] failed to parse remote address %s\", host)\n\t\treturn false\n\t}\n", Expect: "C12.F4"},
		mutant{Name: "benign: unparsable peer address denied at once", File: rules, Old: "\tif ip == nil {\n\t\tlog.Printf(\"[WARN] failed to parse remote address %s\", host)\n\t}\n", New: "\tif ip == nil {\n\t\tlog.Printf(\"[WARN] failed to parse remote address %s\", host)\n\t\treturn true\n\t}\n", Expect: ""},
	)
	const routecmd = "registry/consul/routecmd.go"
	add("C14",
		mutant{Name: "weight parsed and rendered with four decimals", File: routecmd, Old: "\t\t\tif weight != \"\" {\n\t\t\t\tcfg += \" weight \" + weight\n\t\t\t}\n",
			New: "\t\t\tif w, err := strconv.ParseFloat(weight, 64); err == nil && w > 0 {\n\t\t\t\tcfg += fmt.Sprintf(\" weight %.4f\", w)\n\t\t\t}\n", Expect: "C14.W2"},
		mutant{Name: "alias registration failure skips the table update", File: "main.go", Old: "\t\t\tregistry.Default.Register(aliases)\n", New: "\t\t\tif err := registry.Default.Register(aliases); err != nil {\n\t\t\t\tlog.Printf(\"[WARN] %s\", err)\n\t\t\t\tcontinue\n\t\t\t}\n", Expect: "C14.U1"},
		mutant{Name: "benign: alias registration failure only logged", File: "main.go", Old: "\t\t\tregistry.Default.Register(aliases)\n", New: "\t\t\tif err := registry.Default.Register(aliases); err != nil {\n\t\t\t\tlog.Printf(\"[WARN] %s\", err)\n\t\t\t}\n", Expect: ""},
	)
	const load = "config/load.go"
	quoteOld := "\t\t\tcase path[0] == '\\'':\n\t\t\t\tpath = strings.Trim(path, \"'\")\n\t\t\tcase path[0] == '\"':\n\t\t\t\tpath = strings.Trim(path, \"\\\"\")\n"
	add("C15",
		mutant{Name: "-cfg unquoted by slicing one quote pair without a length test", File: load, Old: quoteOld,
			New: "\t\t\tcase path[0] == '\\'' || path[0] == '\"':\n\t\t\t\tif q := path[0]; path[len(path)-1] == q {\n\t\t\t\t\tpath = path[1 : len(path)-1]\n\t\t\t\t}\n", Expect: "C15.P2"},
		mutant{Name: "benign: -cfg unquoted by slicing one quote pair under len >= 2", File: load, Old: quoteOld,
			New: "\t\t\tcase len(path) >= 2 && (path[0] == '\\'' || path[0] == '\"'):\n\t\t\t\tif q := path[0]; path[len(path)-1] == q {\n\t\t\t\t\tpath = path[1 : len(path)-1]\n\t\t\t\t}\n", Expect: ""},
	)
	const grpc = "proxy/grpc_handler.go"
	add("C16",
		mutant{Name: "failing connections dropped from the pool without Close", File: grpc, Old: "\t\t\tif state == connectivity.Shutdown {\n", New: "\t\t\tif state == connectivity.Shutdown || state == connectivity.TransientFailure {\n", Expect: "C16.P5"},
		mutant{Name: "benign: failing connections closed and dropped", File: grpc, Old: "\t\t\tif state == connectivity.Shutdown {\n\t\t\t\tdelete(p.connections, tKey)\n\t\t\t\tcontinue\n\t\t\t}\n",
			New: "\t\t\tif state == connectivity.Shutdown {\n\t\t\t\tdelete(p.connections, tKey)\n\t\t\t\tcontinue\n\t\t\t}\n\t\t\tif state == connectivity.TransientFailure {\n\t\t\t\tcs.Close()\n\t\t\t\tdelete(p.connections, tKey)\n\t\t\t\tcontinue\n\t\t\t}\n", Expect: ""},
	)
	add("C18",
		mutant{Name: "forced stop serialised behind the graceful stop by sync.Once", File: grpc, Old: "\t\ts.server.GracefulStop()\n", New: "\t\tstopOnce.Do(s.server.GracefulStop)\n", Expect: "C18.D3",
			More: []repl{{"type gRPCServer struct {\n", "var stopOnce sync.Once\n\ntype gRPCServer struct {\n"}}},
		mutant{Name: "dynamic listener drained while the registry lock is held", File: "proxy/serve.go", Old: "\t\terr := srv.Close()\n", New: "\t\tctx, cancel := context.WithTimeout(context.Background(), time.Second)\n\t\tdefer cancel()\n\t\terr := srv.Shutdown(ctx)\n", Expect: "C18.L2"},
	)
	const gz = "proxy/gzip/gzip_handler.go"
	add("C17",
		mutant{Name: "content type sniffed when Get returns the empty text", File: gz, Old: "\t\tif _, ok := grw.Header()[headerContentType]; !ok {\n", New: "\t\tif grw.Header().Get(headerContentType) == \"\" {\n", Expect: "C17.S2"},
		mutant{Name: "Flush method that commits the headers before the decision", File: gz, Old: "func (grw *GzipResponseWriter) Hijack() (", New: "func (grw *GzipResponseWriter) Flush() {\n\tif grw.gzipWriter != nil {\n\t\tgrw.gzipWriter.Flush()\n\t}\n\tif fl, ok := grw.ResponseWriter.(http.Flusher); ok {\n\t\tfl.Flush()\n\t}\n}\n\nfunc (grw *GzipResponseWriter) Hijack() (", Expect: "C17.F2"},
		mutant{Name: "benign: Flush method that decides first", File: gz, Old: "func (grw *GzipResponseWriter) Hijack() (", New: "func (grw *GzipResponseWriter) Flush() {\n\tif grw.writer == nil {\n\t\tgrw.WriteHeader(http.StatusOK)\n\t}\n\tif grw.gzipWriter != nil {\n\t\tgrw.gzipWriter.Flush()\n\t}\n\tif fl, ok := grw.ResponseWriter.(http.Flusher); ok {\n\t\tfl.Flush()\n\t}\n}\n\nfunc (grw *GzipResponseWriter) Hijack() (", Expect: ""},
	)
}
