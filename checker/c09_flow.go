package main

// C09: object identity across the way the code is cut into functions.
//
// The rules of C09 ask "is this copy source the raw client connection or the buffered reader over it?", "is this
// Write on the upstream connection?", "is the buffer written the buffer that was filled?", "is the channel received
// from the channel the copy goroutines report on?". The shared `derives` answers "does v depend on x" and walks
// through bufio.NewReader, field loads, arithmetic and slices: it cannot tell a reader from the connection under it.
// c09walker walks only IDENTITY-preserving steps backwards (interface boxing, phi, local cells and captured
// variables, parameters to the arguments at the static call sites, results of repository helpers to what they return,
// fields of locally built structs to what was stored in them) and collects the ROOTS it ends at. Two values denote
// the same object when their root sets intersect.

import (
	"go/token"
	"go/types"
	"strings"

	"golang.org/x/tools/go/ssa"
)

// c09key names a root: a value, the k-th result of a call (idx = k+1), or a symbolic access path.
type c09key struct {
	v   ssa.Value
	idx int
	s   string
}

type c09walker struct {
	through  bool                     // pass reader wrappers (bufio.NewReader, io.MultiReader, io.TeeReader ...) to what they wrap
	stop     func(ssa.Value) bool     // the walk ends at such a value and records hit
	edgeOK   func(*ssa.Phi, int) bool // phi edges to follow (nil = all)
	hit      bool
	roots    map[c09key]ssa.Value
	seen     map[ssa.Value]bool
	seenAddr map[ssa.Value]bool
	n        int
	bind     map[*ssa.Parameter][]ssa.Value // receiver of a Read method -> the reader objects it is analysed for
	depth    int                            // nesting of sub-walkers (bases of field accesses)
	fdepth   int                            // nesting of field() through copies of whole structs
	visit    func(ssa.Value)                // called for every value the walk passes
}

// sub: a walker for the base of a field access (plain identity steps, same receiver bindings).
func (w *c09walker) sub() *c09walker {
	s := c09newWalker()
	s.bind = w.bind
	s.depth = w.depth + 1
	return s
}

const c09maxSites = 12

// reader wrappers: the result reads (from its first byte) what the arguments deliver.
var c09readerWrapper = map[string]bool{
	"bufio.NewReader": true, "bufio.NewReaderSize": true, "io.MultiReader": true, "io.TeeReader": true,
	"io.NopCloser": true, "bufio.NewReadWriter": true,
} // not io.LimitReader / io.NewSectionReader: a truncating view does not deliver the stream

func c09newWalker() *c09walker {
	return &c09walker{roots: map[c09key]ssa.Value{}, seen: map[ssa.Value]bool{}, seenAddr: map[ssa.Value]bool{}, bind: map[*ssa.Parameter][]ssa.Value{}}
}

// c09roots: the roots of v under identity steps only.
func c09roots(v ssa.Value) map[c09key]ssa.Value {
	w := c09newWalker()
	w.walk(v)
	return w.roots
}

func c09meet(a, b map[c09key]ssa.Value) bool {
	for k := range a {
		if _, ok := b[k]; ok {
			return true
		}
	}
	return false
}

func (w *c09walker) root(v ssa.Value) { w.roots[c09key{v: v}] = v }

func (w *c09walker) rootPath(v ssa.Value) {
	name := ""
	if i, ok := v.(ssa.Instruction); ok && i.Parent() != nil {
		name = i.Parent().String()
	}
	w.roots[c09key{s: name + "|" + accessPath(v)}] = v
}

func c09bodyOf(cc *ssa.CallCommon) *ssa.Function {
	sc := cc.StaticCallee()
	if sc == nil || !isRepoFn(sc) || len(sc.Blocks) == 0 {
		return nil
	}
	return sc
}

func (w *c09walker) walk(v ssa.Value) {
	if v == nil || w.seen[v] || w.n > 5000 {
		return
	}
	w.seen[v] = true
	w.n++
	if w.visit != nil {
		w.visit(v)
	}
	if w.stop != nil && w.stop(v) {
		w.hit = true
		return
	}
	if w.through {
		w.readerObj(v)
	}
	switch x := v.(type) {
	case *ssa.MakeInterface:
		w.walk(x.X)
	case *ssa.ChangeInterface:
		w.walk(x.X)
	case *ssa.ChangeType:
		w.walk(x.X)
	case *ssa.TypeAssert:
		w.walk(x.X)
	case *ssa.Phi:
		for k, e := range x.Edges {
			if w.edgeOK == nil || w.edgeOK(x, k) {
				w.walk(e)
			}
		}
	case *ssa.Parameter:
		w.param(x, w.walk)
	case *ssa.FreeVar:
		w.freeVar(x, w.walk)
	case *ssa.UnOp:
		if x.Op == token.MUL {
			w.load(x.X, x)
		} else {
			w.root(x)
		}
	case *ssa.Field:
		bases := w.structBases(x.X, 0)
		if len(bases) == 0 {
			w.rootPath(x)
		}
		for _, b := range bases {
			w.field(b, x.X.Type(), x.Field, x)
		}
	case *ssa.Extract:
		switch t := x.Tuple.(type) {
		case *ssa.Call:
			if sc := c09bodyOf(&t.Call); sc != nil {
				eachInstr(sc, func(i ssa.Instruction) {
					if r, ok := i.(*ssa.Return); ok && x.Index < len(r.Results) {
						w.walk(r.Results[x.Index])
					}
				})
			} else {
				w.roots[c09key{v: t, idx: x.Index + 1}] = x
			}
		case *ssa.TypeAssert:
			if x.Index == 0 {
				w.walk(t.X)
			} else {
				w.root(x)
			}
		default:
			w.root(x)
		}
	case *ssa.Call:
		name := calleeName(&x.Call)
		switch {
		case w.through && c09readerWrapper[name]:
			if len(x.Call.Args) > 0 {
				if name == "io.MultiReader" {
					w.elems(x.Call.Args[0], x) // variadic: the readers are the elements of the argument slice
				} else {
					w.walk(x.Call.Args[0])
				}
			}
		case c09bodyOf(&x.Call) != nil:
			eachInstr(c09bodyOf(&x.Call), func(i ssa.Instruction) {
				if r, ok := i.(*ssa.Return); ok && len(r.Results) == 1 {
					w.walk(r.Results[0])
				}
			})
		default:
			w.root(x)
		}
	case *ssa.Const:
		// nil / literals denote no object
	default:
		w.root(v)
	}
}

// param: a helper's parameter denotes what its static callers pass.
func (w *c09walker) param(p *ssa.Parameter, cont func(ssa.Value)) {
	fn := p.Parent()
	idx := -1
	if fn != nil {
		for k, q := range fn.Params {
			if q == p {
				idx = k
			}
		}
	}
	if bs := w.bind[p]; len(bs) > 0 {
		for _, b := range bs {
			cont(b)
		}
		return
	}
	sites := c09sitesOf(fn)
	if idx < 0 || len(sites) == 0 || len(sites) > c09maxSites {
		w.root(p)
		return
	}
	if gAddrTaken[fn] {
		w.root(p)
	}
	for _, s := range sites {
		if cc := s.Common(); idx < len(cc.Args) {
			cont(cc.Args[idx])
		}
	}
}

// freeVar: a captured variable denotes the binding at the place the closure is made.
func (w *c09walker) freeVar(fv *ssa.FreeVar, cont func(ssa.Value)) {
	fn := fv.Parent()
	if fn == nil || fn.Parent() == nil {
		w.root(fv)
		return
	}
	idx := -1
	for k, q := range fn.FreeVars {
		if q == fv {
			idx = k
		}
	}
	found := false
	eachInstr(fn.Parent(), func(i ssa.Instruction) {
		if mc, ok := i.(*ssa.MakeClosure); ok && mc.Fn == fn && idx >= 0 && idx < len(mc.Bindings) {
			found = true
			cont(mc.Bindings[idx])
		}
	})
	if !found {
		w.root(fv)
	}
}

// load: the values a load from addr may yield.
func (w *c09walker) load(addr ssa.Value, orig ssa.Value) {
	if addr == nil || w.seenAddr[addr] {
		return
	}
	w.seenAddr[addr] = true
	switch a := addr.(type) {
	case *ssa.Alloc:
		n := 0
		if refs := a.Referrers(); refs != nil {
			for _, r := range *refs {
				switch y := r.(type) {
				case *ssa.Store:
					if y.Addr == a {
						n++
						w.walk(y.Val)
					}
				case *ssa.MakeClosure:
					// stores made by a closure that captured the cell
					fn, _ := y.Fn.(*ssa.Function)
					for k, b := range y.Bindings {
						if b != a || fn == nil || k >= len(fn.FreeVars) {
							continue
						}
						if frefs := fn.FreeVars[k].Referrers(); frefs != nil {
							for _, fr := range *frefs {
								if st, ok := fr.(*ssa.Store); ok && st.Addr == fn.FreeVars[k] {
									n++
									w.walk(st.Val)
								}
							}
						}
					}
				}
			}
		}
		if n == 0 {
			w.root(a)
		}
	case *ssa.FreeVar:
		w.freeVar(a, func(b ssa.Value) { w.load(b, orig) })
	case *ssa.Parameter:
		w.param(a, func(b ssa.Value) { w.load(b, orig) })
	case *ssa.Phi:
		for _, e := range a.Edges {
			w.load(e, orig)
		}
	case *ssa.FieldAddr:
		w.field(a.X, a.X.Type(), a.Field, orig)
	case *ssa.IndexAddr:
		w.elems(a.X, orig)
	case *ssa.Global:
		w.root(a)
	default:
		w.rootPath(orig)
	}
}

// field: the values stored in field fld of the struct(s) base points to: by the function that built the struct (stores
// through the allocation itself) and by any other function of the repository that stores that field through a pointer
// to the same object (a method `c.hello = data` called on it, a constructor that fills the struct in steps).
func (w *c09walker) field(base ssa.Value, baseType types.Type, fld int, orig ssa.Value) {
	if w.through && namedIs(baseType, "bufio.ReadWriter") && fieldName(baseType, fld) == "Reader" {
		w.walk(base) // the buffered reader of a hijacked connection
		return
	}
	sub := w.sub()
	sub.walk(base)
	if _, isAlloc := base.(*ssa.Alloc); isAlloc {
		sub.root(base)
	}
	found := false
	done := map[*ssa.Store]bool{}
	for _, rv := range sub.roots {
		al, ok := rv.(*ssa.Alloc)
		if !ok || al.Referrers() == nil {
			continue
		}
		for _, r := range *al.Referrers() {
			// the cell holds a copy of a whole struct (a value receiver spilled to a local): the field of the original
			if st, ok := r.(*ssa.Store); ok && st.Addr == ssa.Value(al) && w.fdepth < 3 {
				if _, isStruct := st.Val.Type().Underlying().(*types.Struct); isStruct {
					for _, nb := range w.structBases(st.Val, 0) {
						if nb != base {
							found = true
							w.fdepth++
							w.field(nb, baseType, fld, orig)
							w.fdepth--
						}
					}
				}
			}
			fa, ok := r.(*ssa.FieldAddr)
			if !ok || fa.X != al || fa.Field != fld || fa.Referrers() == nil {
				continue
			}
			for _, r2 := range *fa.Referrers() {
				if st, ok := r2.(*ssa.Store); ok && st.Addr == fa && !done[st] {
					done[st] = true
					found = true
					w.walk(st.Val)
				}
			}
		}
	}
	if fv := c09fieldVar(baseType, fld); fv != nil && w.depth < 4 {
		for _, st := range c09storesOf(fv) {
			if done[st] {
				continue
			}
			fa := st.Addr.(*ssa.FieldAddr)
			if fa.X != base {
				o := w.sub()
				o.walk(fa.X)
				if _, isAlloc := fa.X.(*ssa.Alloc); isAlloc {
					o.root(fa.X)
				}
				if !c09meet(o.roots, sub.roots) {
					continue
				}
			}
			done[st] = true
			found = true
			w.walk(st.Val)
		}
	}
	if !found {
		w.rootPath(orig)
	}
}

// c09fieldVar: the object of field idx of the struct type t (through a pointer).
func c09fieldVar(t types.Type, idx int) *types.Var {
	if t == nil {
		return nil
	}
	if p, ok := t.Underlying().(*types.Pointer); ok {
		t = p.Elem()
	}
	if s, ok := t.Underlying().(*types.Struct); ok && idx < s.NumFields() {
		return s.Field(idx)
	}
	return nil
}

// every store to a struct field in the repository, by field object (built on first use after c09init)
var (
	c09fns      []*ssa.Function
	c09fieldIdx map[*types.Var][]*ssa.Store
	c09dynSites map[*ssa.Function][]ssa.CallInstruction
)

func c09init(c *Ctx) {
	c09fns = c.AllFns
	c09fieldIdx = nil
	c09dynSites = nil
}

// c09sitesOf: the call sites of fn: the static ones, and the calls through a function value that visibly denotes fn
// (a closure kept in a local variable that is captured by another closure and called there).
func c09sitesOf(fn *ssa.Function) []ssa.CallInstruction {
	if c09dynSites == nil {
		c09dynSites = map[*ssa.Function][]ssa.CallInstruction{}
		for _, f := range c09fns {
			eachInstr(f, func(i ssa.Instruction) {
				ci, ok := i.(ssa.CallInstruction)
				if !ok || ci.Common().IsInvoke() || ci.Common().StaticCallee() != nil {
					return
				}
				if _, isBuiltin := ci.Common().Value.(*ssa.Builtin); isBuiltin {
					return
				}
				for _, g := range funcsOf(ci.Common().Value) {
					if len(g.Params) == len(ci.Common().Args) { // not a bound method value (its receiver is not an argument)
						c09dynSites[g] = append(c09dynSites[g], ci)
					}
				}
			})
		}
	}
	if d := c09dynSites[fn]; len(d) > 0 {
		return append(append([]ssa.CallInstruction{}, gSites[fn]...), d...)
	}
	return gSites[fn]
}

func c09storesOf(fv *types.Var) []*ssa.Store {
	if c09fieldIdx == nil {
		c09fieldIdx = map[*types.Var][]*ssa.Store{}
		for _, f := range c09fns {
			eachInstr(f, func(i ssa.Instruction) {
				st, ok := i.(*ssa.Store)
				if !ok {
					return
				}
				if fa, ok := st.Addr.(*ssa.FieldAddr); ok {
					if v := c09fieldVar(fa.X.Type(), fa.Field); v != nil {
						c09fieldIdx[v] = append(c09fieldIdx[v], st)
					}
				}
			})
		}
	}
	return c09fieldIdx[fv]
}

// structBases: the addresses of the struct(s) a struct VALUE was loaded from: `*p`, a value receiver (bound to the
// reader object under analysis, or what the static callers pass), a merge of those.
func (w *c09walker) structBases(v ssa.Value, depth int) []ssa.Value {
	if depth > 4 {
		return nil
	}
	var out []ssa.Value
	from := func(b ssa.Value) {
		if _, isPtr := b.Type().Underlying().(*types.Pointer); isPtr {
			out = append(out, b) // a value-receiver method reached through a pointer to the object
		} else {
			out = append(out, w.structBases(b, depth+1)...)
		}
	}
	switch x := v.(type) {
	case *ssa.UnOp:
		if x.Op == token.MUL {
			out = append(out, x.X)
		}
	case *ssa.Parameter:
		if bs := w.bind[x]; len(bs) > 0 {
			for _, b := range bs {
				from(b)
			}
			break
		}
		fn := x.Parent()
		sites := c09sitesOf(fn)
		if fn == nil || len(sites) == 0 || len(sites) > c09maxSites {
			break
		}
		for k, q := range fn.Params {
			if q != x {
				continue
			}
			for _, s := range sites {
				if cc := s.Common(); k < len(cc.Args) {
					from(cc.Args[k])
				}
			}
		}
	case *ssa.Phi:
		for _, e := range x.Edges {
			out = append(out, w.structBases(e, depth+1)...)
		}
	case *ssa.MakeInterface: // a value receiver bound to the interface value the method was invoked on
		from(x.X)
	case *ssa.ChangeInterface:
		from(x.X)
	}
	return out
}

// ---- reader objects: structs that ARE readers -------------------------------------------------------------------

// c09innerSources: what a Read method reads from: the receivers of the Read calls in its body (and closures), the
// sources of io.Copy / io.ReadFull there.
func c09innerSources(m *ssa.Function) []ssa.Value {
	var out []ssa.Value
	for _, f := range withAnon(m) {
		eachInstr(f, func(i ssa.Instruction) {
			call, ok := i.(*ssa.Call)
			if !ok {
				return
			}
			n := calleeName(&call.Call)
			switch {
			case c09copyFns[n] && len(call.Call.Args) >= 2:
				out = append(out, call.Call.Args[1])
			case (n == "io.ReadFull" || n == "io.ReadAtLeast") && len(call.Call.Args) >= 1:
				out = append(out, call.Call.Args[0])
			default:
				if recv, _, ok := c09ioCall(&call.Call, "Read"); ok {
					out = append(out, recv)
				} else if recv, _, ok := c09ioCall(&call.Call, "WriteTo"); ok {
					out = append(out, recv)
				}
			}
		})
	}
	return out
}

// readerObj: v is (a pointer to) a struct of the repository that is itself an io.Reader - the "buffered connection"
// idiom `type T struct{ net.Conn; r *bufio.Reader }` with `func (c *T) Read(b []byte) (int, error) { return c.r.Read(b) }`,
// or a struct that embeds its reader. Copying from v copies from what its Read method reads: an explicitly declared
// Read is looked into (its receiver bound to v), a promoted Read leads to the embedded field it is promoted from.
// The walk continues with those values; v itself stays a root as before.
func (w *c09walker) readerObj(v ssa.Value) {
	if w.depth > 4 || v.Type() == nil {
		return
	}
	t := v.Type()
	var base ssa.Value
	st := t
	if p, ok := t.Underlying().(*types.Pointer); ok {
		base, st = v, p.Elem()
	} else if u, ok := v.(*ssa.UnOp); ok && u.Op == token.MUL {
		base = u.X
	}
	if _, isStruct := st.Underlying().(*types.Struct); !isStruct {
		return
	}
	if n, ok := types.Unalias(st).(*types.Named); ok && (n.Obj().Pkg() == nil || !strings.HasPrefix(n.Obj().Pkg().Path(), repoMod)) {
		return // a reader of the standard library (bufio.Reader ...) is a reader, not a wrapper to look into
	}
	fn := v.Parent()
	if fn == nil || fn.Prog == nil {
		return
	}
	sel := fn.Prog.MethodSets.MethodSet(t).Lookup(nil, "Read")
	if sel == nil {
		return
	}
	idx := sel.Index()
	switch {
	case len(idx) == 1:
		obj, _ := sel.Obj().(*types.Func)
		if obj == nil {
			return
		}
		m := fn.Prog.FuncValue(obj)
		if m == nil || len(m.Blocks) == 0 || len(m.Params) == 0 || !isRepoFn(m) {
			return
		}
		recv := m.Params[0]
		for _, b := range w.bind[recv] {
			if b == v {
				return
			}
		}
		w.bind[recv] = append(w.bind[recv], v)
		for _, src := range c09innerSources(m) {
			// walked again for every object the method is analysed for
			delete(w.seen, src)
			if u, ok := src.(*ssa.UnOp); ok && u.Op == token.MUL {
				delete(w.seenAddr, u.X)
			}
			w.walk(src)
		}
	case len(idx) == 2 && base != nil:
		w.field(base, st, idx[0], v)
	}
}

// elems: the values stored in the elements of a locally built array / slice (variadic arguments).
func (w *c09walker) elems(base ssa.Value, orig ssa.Value) {
	switch b := base.(type) {
	case *ssa.Slice:
		w.elems(b.X, orig)
	case *ssa.Alloc:
		found := false
		if refs := b.Referrers(); refs != nil {
			for _, r := range *refs {
				ia, ok := r.(*ssa.IndexAddr)
				if !ok || ia.Referrers() == nil {
					continue
				}
				for _, r2 := range *ia.Referrers() {
					if st, ok := r2.(*ssa.Store); ok && st.Addr == ia {
						found = true
						w.walk(st.Val)
					}
				}
			}
		}
		if !found {
			w.root(b)
		}
	default:
		w.rootPath(orig)
	}
}

// c09connLike: the type has the method set of a network connection.
func c09connLike(t types.Type) bool {
	if t == nil {
		return false
	}
	has := func(ms *types.MethodSet) bool {
		for _, m := range []string{"Read", "Write", "Close", "SetDeadline"} {
			if ms.Lookup(nil, m) == nil {
				return false
			}
		}
		return true
	}
	if has(types.NewMethodSet(t)) {
		return true
	}
	if _, isPtr := t.(*types.Pointer); !isPtr {
		if _, isIface := t.Underlying().(*types.Interface); !isIface {
			return has(types.NewMethodSet(types.NewPointer(t)))
		}
	}
	return false
}

// c09ioCall: is cc a call of method `name` (through an interface or statically on a concrete type)? Returns the
// receiver and the remaining arguments.
func c09ioCall(cc *ssa.CallCommon, name string) (recv ssa.Value, args []ssa.Value, ok bool) {
	if cc == nil {
		return nil, nil, false
	}
	if cc.IsInvoke() {
		if cc.Method.Name() == name {
			return cc.Value, cc.Args, true
		}
		return nil, nil, false
	}
	sc := cc.StaticCallee()
	if sc == nil || sc.Signature.Recv() == nil || sc.Name() != name || len(cc.Args) == 0 {
		return nil, nil, false
	}
	return cc.Args[0], cc.Args[1:], true
}

// c09intRange: the integer values v can take when that is visible: a constant, a merge of constants, a parameter
// that receives constants at all its static call sites.
func c09intRange(v ssa.Value) (lo, hi int64, ok bool) {
	seen := map[ssa.Value]bool{}
	first := true
	good := true
	var walk func(v ssa.Value)
	add := func(k int64) {
		if first || k < lo {
			lo = k
		}
		if first || k > hi {
			hi = k
		}
		first = false
	}
	walk = func(v ssa.Value) {
		if v == nil || seen[v] || !good {
			return
		}
		seen[v] = true
		switch x := v.(type) {
		case *ssa.Const:
			if k, isK := constInt(x); isK {
				add(k)
			} else {
				good = false
			}
		case *ssa.Convert:
			walk(x.X)
		case *ssa.ChangeType:
			walk(x.X)
		case *ssa.Phi:
			for _, e := range x.Edges {
				walk(e)
			}
		case *ssa.Parameter:
			fn := x.Parent()
			sites := gSites[fn]
			idx := -1
			for k, q := range fn.Params {
				if q == x {
					idx = k
				}
			}
			if idx < 0 || len(sites) == 0 || len(sites) > c09maxSites || !onlyStaticallyCalled(fn) {
				good = false
				return
			}
			for _, s := range sites {
				if cc := s.Common(); idx < len(cc.Args) {
					walk(cc.Args[idx])
				} else {
					good = false
				}
			}
		default:
			good = false
		}
	}
	walk(v)
	return lo, hi, good && !first
}
