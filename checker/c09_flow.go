package main

// C09: object identity across the way the code is cut into functions.
//
// The rules of C09 ask "is this copy source the raw client connection or the buffered reader over it?", "is this
// Write on the upstream connection?", "is the buffer written the buffer that was filled?", "is the channel received
// from the channel the copy goroutines report on?". The shared `derives` answers "does v depend on x" and walks
// through bufio.NewReader, field loads, arithmetic and slices: it cannot tell a reader from the connection under it.
// c09walker walks only IDENTITY-preserving steps backwards (interface boxing, phi, local cells and captured
// variables, parameters to the arguments at the static call sites, results of repository helpers to what they return,
// fields of locally built structs to what was stored in them) and collects the ROOTS it ends at. Two values denote
// the same object when their root sets intersect.

import (
	"go/token"
	"go/types"

	"golang.org/x/tools/go/ssa"
)

// c09key names a root: a value, the k-th result of a call (idx = k+1), or a symbolic access path.
type c09key struct {
	v   ssa.Value
	idx int
	s   string
}

type c09walker struct {
	through  bool                     // pass reader wrappers (bufio.NewReader, io.MultiReader, io.TeeReader ...) to what they wrap
	stop     func(ssa.Value) bool     // the walk ends at such a value and records hit
	edgeOK   func(*ssa.Phi, int) bool // phi edges to follow (nil = all)
	hit      bool
	roots    map[c09key]ssa.Value
	seen     map[ssa.Value]bool
	seenAddr map[ssa.Value]bool
	n        int
}

const c09maxSites = 12

// reader wrappers: the result reads (from its first byte) what the arguments deliver.
var c09readerWrapper = map[string]bool{
	"bufio.NewReader": true, "bufio.NewReaderSize": true, "io.MultiReader": true, "io.TeeReader": true,
	"io.LimitReader": true, "io.NopCloser": true, "bufio.NewReadWriter": true,
}

func c09newWalker() *c09walker {
	return &c09walker{roots: map[c09key]ssa.Value{}, seen: map[ssa.Value]bool{}, seenAddr: map[ssa.Value]bool{}}
}

// c09roots: the roots of v under identity steps only.
func c09roots(v ssa.Value) map[c09key]ssa.Value {
	w := c09newWalker()
	w.walk(v)
	return w.roots
}

func c09meet(a, b map[c09key]ssa.Value) bool {
	for k := range a {
		if _, ok := b[k]; ok {
			return true
		}
	}
	return false
}

func (w *c09walker) root(v ssa.Value) { w.roots[c09key{v: v}] = v }

func (w *c09walker) rootPath(v ssa.Value) {
	name := ""
	if i, ok := v.(ssa.Instruction); ok && i.Parent() != nil {
		name = i.Parent().String()
	}
	w.roots[c09key{s: name + "|" + accessPath(v)}] = v
}

func c09bodyOf(cc *ssa.CallCommon) *ssa.Function {
	sc := cc.StaticCallee()
	if sc == nil || !isRepoFn(sc) || len(sc.Blocks) == 0 {
		return nil
	}
	return sc
}

func (w *c09walker) walk(v ssa.Value) {
	if v == nil || w.seen[v] || w.n > 5000 {
		return
	}
	w.seen[v] = true
	w.n++
	if w.stop != nil && w.stop(v) {
		w.hit = true
		return
	}
	switch x := v.(type) {
	case *ssa.MakeInterface:
		w.walk(x.X)
	case *ssa.ChangeInterface:
		w.walk(x.X)
	case *ssa.ChangeType:
		w.walk(x.X)
	case *ssa.TypeAssert:
		w.walk(x.X)
	case *ssa.Phi:
		for k, e := range x.Edges {
			if w.edgeOK == nil || w.edgeOK(x, k) {
				w.walk(e)
			}
		}
	case *ssa.Parameter:
		w.param(x, w.walk)
	case *ssa.FreeVar:
		w.freeVar(x, w.walk)
	case *ssa.UnOp:
		if x.Op == token.MUL {
			w.load(x.X, x)
		} else {
			w.root(x)
		}
	case *ssa.Field:
		if u, ok := x.X.(*ssa.UnOp); ok && u.Op == token.MUL {
			w.field(u.X, x.X.Type(), x.Field, x)
		} else {
			w.rootPath(x)
		}
	case *ssa.Extract:
		switch t := x.Tuple.(type) {
		case *ssa.Call:
			if sc := c09bodyOf(&t.Call); sc != nil {
				eachInstr(sc, func(i ssa.Instruction) {
					if r, ok := i.(*ssa.Return); ok && x.Index < len(r.Results) {
						w.walk(r.Results[x.Index])
					}
				})
			} else {
				w.roots[c09key{v: t, idx: x.Index + 1}] = x
			}
		case *ssa.TypeAssert:
			if x.Index == 0 {
				w.walk(t.X)
			} else {
				w.root(x)
			}
		default:
			w.root(x)
		}
	case *ssa.Call:
		name := calleeName(&x.Call)
		switch {
		case w.through && c09readerWrapper[name]:
			if len(x.Call.Args) > 0 {
				if name == "io.MultiReader" {
					w.elems(x.Call.Args[0], x) // variadic: the readers are the elements of the argument slice
				} else {
					w.walk(x.Call.Args[0])
				}
			}
		case c09bodyOf(&x.Call) != nil:
			eachInstr(c09bodyOf(&x.Call), func(i ssa.Instruction) {
				if r, ok := i.(*ssa.Return); ok && len(r.Results) == 1 {
					w.walk(r.Results[0])
				}
			})
		default:
			w.root(x)
		}
	case *ssa.Const:
		// nil / literals denote no object
	default:
		w.root(v)
	}
}

// param: a helper's parameter denotes what its static callers pass.
func (w *c09walker) param(p *ssa.Parameter, cont func(ssa.Value)) {
	fn := p.Parent()
	idx := -1
	if fn != nil {
		for k, q := range fn.Params {
			if q == p {
				idx = k
			}
		}
	}
	sites := gSites[fn]
	if idx < 0 || len(sites) == 0 || len(sites) > c09maxSites {
		w.root(p)
		return
	}
	if gAddrTaken[fn] {
		w.root(p)
	}
	for _, s := range sites {
		if cc := s.Common(); idx < len(cc.Args) {
			cont(cc.Args[idx])
		}
	}
}

// freeVar: a captured variable denotes the binding at the place the closure is made.
func (w *c09walker) freeVar(fv *ssa.FreeVar, cont func(ssa.Value)) {
	fn := fv.Parent()
	if fn == nil || fn.Parent() == nil {
		w.root(fv)
		return
	}
	idx := -1
	for k, q := range fn.FreeVars {
		if q == fv {
			idx = k
		}
	}
	found := false
	eachInstr(fn.Parent(), func(i ssa.Instruction) {
		if mc, ok := i.(*ssa.MakeClosure); ok && mc.Fn == fn && idx >= 0 && idx < len(mc.Bindings) {
			found = true
			cont(mc.Bindings[idx])
		}
	})
	if !found {
		w.root(fv)
	}
}

// load: the values a load from addr may yield.
func (w *c09walker) load(addr ssa.Value, orig ssa.Value) {
	if addr == nil || w.seenAddr[addr] {
		return
	}
	w.seenAddr[addr] = true
	switch a := addr.(type) {
	case *ssa.Alloc:
		n := 0
		if refs := a.Referrers(); refs != nil {
			for _, r := range *refs {
				switch y := r.(type) {
				case *ssa.Store:
					if y.Addr == a {
						n++
						w.walk(y.Val)
					}
				case *ssa.MakeClosure:
					// stores made by a closure that captured the cell
					fn, _ := y.Fn.(*ssa.Function)
					for k, b := range y.Bindings {
						if b != a || fn == nil || k >= len(fn.FreeVars) {
							continue
						}
						if frefs := fn.FreeVars[k].Referrers(); frefs != nil {
							for _, fr := range *frefs {
								if st, ok := fr.(*ssa.Store); ok && st.Addr == fn.FreeVars[k] {
									n++
									w.walk(st.Val)
								}
							}
						}
					}
				}
			}
		}
		if n == 0 && w.through {
			// a small wrapper struct built in place around a reader (struct{ *bufio.Reader }): its embedded fields
			if p, ok := a.Type().Underlying().(*types.Pointer); ok {
				if st, ok := p.Elem().Underlying().(*types.Struct); ok && a.Referrers() != nil {
					for _, r := range *a.Referrers() {
						fa, ok := r.(*ssa.FieldAddr)
						if !ok || fa.Field >= st.NumFields() || !st.Field(fa.Field).Embedded() || fa.Referrers() == nil {
							continue
						}
						for _, r2 := range *fa.Referrers() {
							if sto, ok := r2.(*ssa.Store); ok && sto.Addr == fa {
								n++
								w.walk(sto.Val)
							}
						}
					}
				}
			}
		}
		if n == 0 {
			w.root(a)
		}
	case *ssa.FreeVar:
		w.freeVar(a, func(b ssa.Value) { w.load(b, orig) })
	case *ssa.Parameter:
		w.param(a, func(b ssa.Value) { w.load(b, orig) })
	case *ssa.Phi:
		for _, e := range a.Edges {
			w.load(e, orig)
		}
	case *ssa.FieldAddr:
		w.field(a.X, a.X.Type(), a.Field, orig)
	case *ssa.IndexAddr:
		w.elems(a.X, orig)
	case *ssa.Global:
		w.root(a)
	default:
		w.rootPath(orig)
	}
}

// field: the values stored in field fld of the struct(s) base points to, when those are built locally.
func (w *c09walker) field(base ssa.Value, baseType types.Type, fld int, orig ssa.Value) {
	if w.through && namedIs(baseType, "bufio.ReadWriter") && fieldName(baseType, fld) == "Reader" {
		w.walk(base) // the buffered reader of a hijacked connection
		return
	}
	sub := c09newWalker()
	sub.walk(base)
	if _, isAlloc := base.(*ssa.Alloc); isAlloc {
		sub.root(base)
	}
	found := false
	for _, rv := range sub.roots {
		al, ok := rv.(*ssa.Alloc)
		if !ok || al.Referrers() == nil {
			continue
		}
		for _, r := range *al.Referrers() {
			fa, ok := r.(*ssa.FieldAddr)
			if !ok || fa.X != al || fa.Field != fld || fa.Referrers() == nil {
				continue
			}
			for _, r2 := range *fa.Referrers() {
				if st, ok := r2.(*ssa.Store); ok && st.Addr == fa {
					found = true
					w.walk(st.Val)
				}
			}
		}
	}
	if !found {
		w.rootPath(orig)
	}
}

// elems: the values stored in the elements of a locally built array / slice (variadic arguments).
func (w *c09walker) elems(base ssa.Value, orig ssa.Value) {
	switch b := base.(type) {
	case *ssa.Slice:
		w.elems(b.X, orig)
	case *ssa.Alloc:
		found := false
		if refs := b.Referrers(); refs != nil {
			for _, r := range *refs {
				ia, ok := r.(*ssa.IndexAddr)
				if !ok || ia.Referrers() == nil {
					continue
				}
				for _, r2 := range *ia.Referrers() {
					if st, ok := r2.(*ssa.Store); ok && st.Addr == ia {
						found = true
						w.walk(st.Val)
					}
				}
			}
		}
		if !found {
			w.root(b)
		}
	default:
		w.rootPath(orig)
	}
}

// c09connLike: the type has the method set of a network connection.
func c09connLike(t types.Type) bool {
	if t == nil {
		return false
	}
	has := func(ms *types.MethodSet) bool {
		for _, m := range []string{"Read", "Write", "Close", "SetDeadline"} {
			if ms.Lookup(nil, m) == nil {
				return false
			}
		}
		return true
	}
	if has(types.NewMethodSet(t)) {
		return true
	}
	if _, isPtr := t.(*types.Pointer); !isPtr {
		if _, isIface := t.Underlying().(*types.Interface); !isIface {
			return has(types.NewMethodSet(types.NewPointer(t)))
		}
	}
	return false
}

// c09ioCall: is cc a call of method `name` (through an interface or statically on a concrete type)? Returns the
// receiver and the remaining arguments.
func c09ioCall(cc *ssa.CallCommon, name string) (recv ssa.Value, args []ssa.Value, ok bool) {
	if cc == nil {
		return nil, nil, false
	}
	if cc.IsInvoke() {
		if cc.Method.Name() == name {
			return cc.Value, cc.Args, true
		}
		return nil, nil, false
	}
	sc := cc.StaticCallee()
	if sc == nil || sc.Signature.Recv() == nil || sc.Name() != name || len(cc.Args) == 0 {
		return nil, nil, false
	}
	return cc.Args[0], cc.Args[1:], true
}

// c09intRange: the integer values v can take when that is visible: a constant, a merge of constants, a parameter
// that receives constants at all its static call sites.
func c09intRange(v ssa.Value) (lo, hi int64, ok bool) {
	seen := map[ssa.Value]bool{}
	first := true
	good := true
	var walk func(v ssa.Value)
	add := func(k int64) {
		if first || k < lo {
			lo = k
		}
		if first || k > hi {
			hi = k
		}
		first = false
	}
	walk = func(v ssa.Value) {
		if v == nil || seen[v] || !good {
			return
		}
		seen[v] = true
		switch x := v.(type) {
		case *ssa.Const:
			if k, isK := constInt(x); isK {
				add(k)
			} else {
				good = false
			}
		case *ssa.Convert:
			walk(x.X)
		case *ssa.ChangeType:
			walk(x.X)
		case *ssa.Phi:
			for _, e := range x.Edges {
				walk(e)
			}
		case *ssa.Parameter:
			fn := x.Parent()
			sites := gSites[fn]
			idx := -1
			for k, q := range fn.Params {
				if q == x {
					idx = k
				}
			}
			if idx < 0 || len(sites) == 0 || len(sites) > c09maxSites || !onlyStaticallyCalled(fn) {
				good = false
				return
			}
			for _, s := range sites {
				if cc := s.Common(); idx < len(cc.Args) {
					walk(cc.Args[idx])
				} else {
					good = false
				}
			}
		default:
			good = false
		}
	}
	walk(v)
	return lo, hi, good && !first
}
