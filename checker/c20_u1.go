package main

// C20.U1: the calendar fields printed with a fixed UTC suffix are taken from times normalised with UTC().

import (
	"go/token"
	"go/types"
	"strings"

	"golang.org/x/tools/go/ssa"
)

var calendarAccessors = map[string]bool{
	"(time.Time).Year": true, "(time.Time).Month": true, "(time.Time).Day": true, "(time.Time).Hour": true,
	"(time.Time).Minute": true, "(time.Time).Second": true, "(time.Time).Nanosecond": true, "(time.Time).YearDay": true, "(time.Time).Weekday": true,
	"(time.Time).Date": true, "(time.Time).Clock": true, "(time.Time).Format": true, "(time.Time).AppendFormat": true,
}

// c20Origins: where a pointer-like value (an *Event, a context struct around it) comes from: the leaves reached going
// back through merges, conversions, parameters of statically called functions (to the arguments at ALL their call
// sites), results of repository helpers (ALL their returns), local cells and captured variables (ALL stored values),
// and fields of local structs (ALL stores to that field). Leaves are allocations, parameters of functions without a
// static call site, and anything else (unknown). Unlike derives this is a MUST view: a rule can ask that every leaf is
// good.
func (ix *c20Index) origins(v ssa.Value) []ssa.Value {
	var out []ssa.Value
	seen := map[ssa.Value]bool{}
	var walk func(x ssa.Value, d int)
	leaf := func(x ssa.Value) { out = append(out, x) }
	walk = func(x ssa.Value, d int) {
		if x == nil {
			return
		}
		if seen[x] {
			return
		}
		seen[x] = true
		if d > 10 {
			leaf(x)
			return
		}
		switch y := x.(type) {
		case *ssa.Phi:
			for _, e := range y.Edges {
				walk(e, d+1)
			}
		case *ssa.ChangeType:
			walk(y.X, d+1)
		case *ssa.MakeInterface:
			walk(y.X, d+1)
		case *ssa.ChangeInterface:
			walk(y.X, d+1)
		case *ssa.TypeAssert:
			if call, isCall := y.X.(*ssa.Call); isCall {
				if sc := call.Call.StaticCallee(); sc == nil || !isRepoFn(sc) || len(sc.Blocks) == 0 {
					leaf(y) // pool.Get().(*Event): the object is known by this pointer only
					return
				}
			}
			walk(y.X, d+1)
		case *ssa.Parameter:
			fn := y.Parent()
			sites := ix.sites[fn]
			if fn == nil || len(sites) == 0 {
				leaf(y)
				return
			}
			k := -1
			for j, q := range fn.Params {
				if q == y {
					k = j
				}
			}
			for _, s := range sites {
				if args := s.Common().Args; k >= 0 && k < len(args) {
					walk(args[k], d+1)
				} else {
					leaf(y)
				}
			}
			if ix.entersDynamically(fn) {
				leaf(y) // also entered dynamically
			}
		case *ssa.FreeVar:
			fn := y.Parent()
			k := -1
			if fn != nil {
				for j, fv := range fn.FreeVars {
					if fv == y {
						k = j
					}
				}
			}
			n := 0
			if fn != nil && fn.Parent() != nil {
				eachInstr(fn.Parent(), func(i ssa.Instruction) {
					if mc, ok := i.(*ssa.MakeClosure); ok && mc.Fn == fn && k >= 0 && k < len(mc.Bindings) {
						n++
						walk(mc.Bindings[k], d+1)
					}
				})
			}
			if n == 0 {
				leaf(y)
			}
		case *ssa.Alloc:
			leaf(y)
		case *ssa.UnOp:
			if y.Op != token.MUL {
				leaf(y)
				return
			}
			switch a := y.X.(type) {
			case *ssa.Alloc:
				if _, isStruct := a.Type().(*types.Pointer).Elem().Underlying().(*types.Struct); isStruct {
					leaf(a) // a struct value loaded from its variable: the variable
					return
				}
				// a local cell holding the pointer: whatever is stored into it
				n := 0
				for _, r := range *a.Referrers() {
					if st, ok := r.(*ssa.Store); ok && st.Addr == a {
						n++
						walk(st.Val, d+1)
					}
				}
				if n == 0 {
					leaf(y)
				}
			case *ssa.FreeVar:
				// a captured cell: the cell the makers bind, then its stores
				sub := ix.origins(a)
				for _, o := range sub {
					if al, ok := o.(*ssa.Alloc); ok {
						n := 0
						for _, r := range *al.Referrers() {
							if st, ok := r.(*ssa.Store); ok && st.Addr == al {
								n++
								walk(st.Val, d+1)
							}
						}
						if n == 0 {
							leaf(y)
						}
					} else {
						leaf(y)
					}
				}
				if len(sub) == 0 {
					leaf(y)
				}
			case *ssa.FieldAddr:
				// c.e: the stores to that field of the structs c may be; a struct we only know as a dynamically entered
				// parameter stands for itself (the rule's induction covers it)
				for _, o := range ix.origins(a.X) {
					switch b := o.(type) {
					case *ssa.Alloc:
						n := 0
						for _, r := range *b.Referrers() {
							if fa, ok := r.(*ssa.FieldAddr); ok && fa.X == b && fa.Field == a.Field {
								for _, r2 := range *fa.Referrers() {
									if st, ok := r2.(*ssa.Store); ok && st.Addr == fa {
										n++
										walk(st.Val, d+1)
									}
								}
							}
						}
						if n == 0 {
							leaf(y)
						}
					case *ssa.Parameter:
						leaf(b)
					default:
						leaf(y)
					}
				}
			default:
				leaf(y)
			}
		case *ssa.Call:
			sc := y.Call.StaticCallee()
			if sc == nil || !isRepoFn(sc) || len(sc.Blocks) == 0 || sc.Signature.Results().Len() != 1 {
				leaf(y)
				return
			}
			n := 0
			eachInstr(sc, func(i ssa.Instruction) {
				if r, ok := i.(*ssa.Return); ok && len(r.Results) == 1 {
					n++
					walk(r.Results[0], d+1)
				}
			})
			if n == 0 {
				leaf(y)
			}
		default:
			leaf(y)
		}
	}
	walk(v, 0)
	return out
}

func runC20U1(c *Ctx) {
	sp := c.spkg("logger")
	_, logs := c20LoggerScope(c)
	if sp == nil || len(logs) == 0 {
		c.undecided("C20.U1", "anchor|implementations of logger.Logger", "no method of package logger implements the Logger interface")
		return
	}
	ix := c20Idx(c)
	isUTC := func(v ssa.Value) bool {
		if _, ok := isCallTo(v, "(time.Time).UTC"); ok {
			return true
		}
		// t.In(time.UTC) is the same conversion
		if call, ok := isCallTo(v, "(time.Time).In"); ok && len(call.Call.Args) == 2 {
			if ld, isLd := call.Call.Args[1].(*ssa.UnOp); isLd && ld.Op == token.MUL {
				if g, isG := ld.X.(*ssa.Global); isG && g.Pkg != nil && g.Pkg.Pkg.Path() == "time" && g.Name() == "UTC" {
					return true
				}
			}
		}
		return false
	}
	carriesEvent := func(t types.Type) bool { return c20Carries(t, "logger.Event", 0) }
	isTime := func(t types.Type) bool { return namedIs(t, "time.Time") }
	isLogFn := func(g *ssa.Function) bool {
		for _, l := range logs {
			if g == l {
				return true
			}
		}
		return false
	}
	// the parameter of a function of package logger (not Logger.Log itself) that is entered through dynamic calls: a
	// closure or named function used as a value, a method an interface call may select
	relayed := func(v ssa.Value, want func(types.Type) bool) bool {
		p, ok := v.(*ssa.Parameter)
		if !ok || !want(p.Type()) {
			return false
		}
		g := p.Parent()
		if g == nil || rootPkg(g) != sp || isLogFn(g) {
			return false
		}
		return ix.entersDynamically(g)
	}

	// Are the events handed to the renderers normalised? Every DYNAMIC call in package logger (a call of a function
	// value or of an interface method: that is how the field renderers, their decorators and selectors are dispatched)
	// that passes an event (an *Event, or a small struct around one) must pass one that on EVERY way it can come from is
	//   (a) a copy whose Start/End are assigned from time.Time.UTC() (literal, field assignment, a helper that is given
	//       the copy's address), or a plain copy of an event that is good - wherever that copy is made; or
	//   (b) the Logger implementation's own parameter, when every caller of Logger.Log builds the event that way; or
	//   (c) the calling function's own parameter when that function is itself entered through dynamic calls (a decorator
	//       handing the event on to the function it wraps: by induction over the depth of the dispatch it holds what
	//       the dispatching call passed) - provided a call of kind (a)/(b) exists to start from.
	var callerEvents []ssa.Value
	for _, f := range c.AllFns {
		eachInstr(f, func(i ssa.Instruction) {
			if cc := callCommon(i); c20IsLogCall(cc) && len(cc.Args) == 1 {
				callerEvents = append(callerEvents, cc.Args[0])
			}
		})
	}
	type verdict struct{ good, base bool }
	var judge func(v ssa.Value, fld string, atCaller bool, depth int) verdict
	// judgeVal: an Event VALUE (not a pointer): a load `*p` is as good as p; the result of a repository helper
	// (`ev := e.utc()`) as good as every value it returns
	var judgeVal func(v ssa.Value, fld string, atCaller bool, depth int) verdict
	judgeVal = func(v ssa.Value, fld string, atCaller bool, depth int) verdict {
		if depth > 6 {
			return verdict{}
		}
		switch x := v.(type) {
		case *ssa.UnOp:
			if x.Op == token.MUL {
				return judge(x.X, fld, atCaller, depth+1)
			}
		case *ssa.Phi:
			res := verdict{true, false}
			for _, e := range x.Edges {
				sub := judgeVal(e, fld, atCaller, depth+1)
				if !sub.good {
					return verdict{}
				}
				res.base = res.base || sub.base
			}
			return res
		case *ssa.Call:
			sc := x.Call.StaticCallee()
			if sc == nil || !isRepoFn(sc) || len(sc.Blocks) == 0 || sc.Signature.Results().Len() != 1 {
				return verdict{}
			}
			n, res := 0, verdict{true, false}
			bad := false
			eachInstr(sc, func(i ssa.Instruction) {
				if r, ok := i.(*ssa.Return); ok && len(r.Results) == 1 {
					n++
					sub := judgeVal(r.Results[0], fld, atCaller, depth+1)
					if !sub.good {
						bad = true
					}
					res.base = res.base || sub.base
				}
			})
			if bad || n == 0 {
				return verdict{}
			}
			return res
		}
		return verdict{}
	}
	built := map[string]*bool{}
	builtUTC := func(fld string) bool {
		if b := built[fld]; b != nil {
			return *b
		}
		ok := false
		built[fld] = &ok // a Log implementation that logs again does not justify itself
		all := len(callerEvents) > 0
		for _, a := range callerEvents {
			if r := judge(a, fld, true, 0); !r.good || !r.base {
				all = false
			}
		}
		ok = all
		return ok
	}
	// judgeCell: the event (or struct around one) that pointer al designates: a local variable / fresh allocation, or an
	// object taken from somewhere else (a pool) that is then filled through this pointer
	judgeCell := func(al ssa.Value, fld string, atCaller bool, depth int) verdict {
		pt, isPtr := al.Type().Underlying().(*types.Pointer)
		if !isPtr || al.Referrers() == nil {
			return verdict{}
		}
		elem := pt.Elem()
		if namedIs(elem, "logger.Event") {
			if sts := c20FieldStores(al, fld, 0); len(sts) > 0 {
				for _, st := range sts {
					if !c20Derives(st.Val, isUTC) {
						return verdict{}
					}
				}
				return verdict{true, true}
			}
			// no assignment to the field: a plain copy `ev := *e` is as good as what it copies
			n, res := 0, verdict{true, false}
			for _, r := range *al.Referrers() {
				st, ok := r.(*ssa.Store)
				if !ok || st.Addr != al {
					continue
				}
				n++
				sub := judgeVal(st.Val, fld, atCaller, depth+1)
				if !sub.good {
					return verdict{}
				}
				res.base = res.base || sub.base
			}
			if n == 0 {
				return verdict{}
			}
			return res
		}
		// a struct around the event: every store to a field that carries an event
		st, ok := elem.Underlying().(*types.Struct)
		if !ok {
			return verdict{}
		}
		n, res := 0, verdict{true, false}
		for _, r := range *al.Referrers() {
			fa, ok := r.(*ssa.FieldAddr)
			if !ok || fa.X != al || fa.Field >= st.NumFields() || !carriesEvent(st.Field(fa.Field).Type()) {
				continue
			}
			for _, r2 := range *fa.Referrers() {
				if s2, ok := r2.(*ssa.Store); ok && s2.Addr == fa {
					n++
					sub := judge(s2.Val, fld, atCaller, depth+1)
					if !sub.good {
						return verdict{}
					}
					res.base = res.base || sub.base
				}
			}
		}
		if n == 0 {
			return verdict{}
		}
		return res
	}
	judge = func(v ssa.Value, fld string, atCaller bool, depth int) verdict {
		if depth > 4 {
			return verdict{}
		}
		leaves := ix.origins(v)
		if len(leaves) == 0 {
			return verdict{}
		}
		res := verdict{true, false}
		for _, o := range leaves {
			var sub verdict
			switch x := o.(type) {
			case *ssa.Alloc:
				sub = judgeCell(x, fld, atCaller, depth)
			case *ssa.TypeAssert, *ssa.Call, *ssa.Extract:
				// not allocated here (pool.Get().(*Event)): judged by what is written through this pointer
				if carriesEvent(x.Type()) {
					sub = judgeCell(x, fld, atCaller, depth)
				}
			case *ssa.Parameter:
				switch {
				case !atCaller && isLogFn(x.Parent()):
					sub = verdict{builtUTC(fld), true}
				case !atCaller && relayed(x, carriesEvent):
					sub = verdict{true, false}
				}
			}
			if !sub.good {
				return verdict{}
			}
			res.base = res.base || sub.base
		}
		return res
	}
	// the dynamic calls of package logger (an interface call of Logger.Log itself is a caller, not a dispatch)
	var dispatch []*ssa.CallCommon
	for _, f := range c20AllFns(c) {
		if rootPkg(f) != sp {
			continue
		}
		eachInstr(f, func(i ssa.Instruction) {
			cc := callCommon(i)
			if !c20IsDynamic(cc) {
				return
			}
			if cc.IsInvoke() && namedIs(cc.Value.Type(), "logger.Logger") {
				return
			}
			dispatch = append(dispatch, cc)
		})
	}
	eventUTC := map[string]bool{"Start": true, "End": true}
	nBase := map[string]int{}
	for _, cc := range dispatch {
		for _, a := range cc.Args {
			if !carriesEvent(a.Type()) {
				continue
			}
			for _, fld := range []string{"Start", "End"} {
				r := judge(a, fld, false, 0)
				if !r.good {
					eventUTC[fld] = false
				}
				if r.base {
					nBase[fld]++
				}
			}
		}
	}
	for _, fld := range []string{"Start", "End"} {
		if nBase[fld] == 0 {
			eventUTC[fld] = false
		}
	}
	// a time taken from a normalised event or from UTC() itself
	baseTime := func(v ssa.Value) bool {
		if isUTC(v) {
			return true
		}
		for _, fld := range []string{"Start", "End"} {
			if _, isF := fieldOf(v, "logger.Event", fld); isF && eventUTC[fld] {
				return true
			}
		}
		return false
	}
	// ... or a time.Time parameter of a function entered through dynamic calls (timeField(func(b, t time.Time) {...})),
	// when every dynamic call of the package that passes a time passes such a time (the same induction)
	timeRelay, timeRelayKnown := false, false
	timeRelayOK := func() bool {
		if timeRelayKnown {
			return timeRelay
		}
		timeRelayKnown = true
		all, nB := true, 0
		for _, cc := range dispatch {
			for _, a := range cc.Args {
				if !isTime(a.Type()) {
					continue
				}
				switch {
				case c20Derives(a, baseTime):
					nB++
				case relayed(a, isTime):
				default:
					all = false
				}
			}
		}
		timeRelay = all && nB > 0
		return timeRelay
	}
	n := 0
	for _, f := range c20AllFns(c) {
		if rootPkg(f) != sp {
			continue
		}
		eachInstr(f, func(i ssa.Instruction) {
			call, ok := i.(*ssa.Call)
			if !ok || !calendarAccessors[calleeName(&call.Call)] {
				return
			}
			n++
			recv := call.Call.Args[0]
			ok2 := c20Derives(recv, func(v ssa.Value) bool {
				return baseTime(v) || (relayed(v, isTime) && timeRelayOK())
			})
			c.check("C20.U1", fnKey(f)+"|"+strings.TrimPrefix(calleeName(&call.Call), "(time.Time).")+" of a UTC time", call.Pos(), ok2,
				"this calendar field is printed with a fixed UTC suffix ('Z' / '+0000') but is taken from a time that is not normalised with UTC(): whenever the process runs with TZ != UTC the log shows local wall-clock time labelled as UTC")
		})
	}
	c.atLeast("C20.U1", "calendar accessors in the field renderers", n, 1)
}
