package main

// Rules of C13 written after the fourth round of independently written breaking changes (DESIGN 11.12).
//
// C13.R1 - the request is read-only while it is being routed.
//
// The property speaks of "this request's path" and "its host" in three places that all read the SAME http.Request
// during one Table.Lookup: the route match of every candidate host (t.lookup(h, req.URL.Path, ..)), the $path / $host
// substitution of the location builder, and the self-redirect test (location == request's own scheme, host and path),
// after which the lookups for the following hosts go on with the request. They agree only as long as nobody writes
// the request's URL in between: a builder that strips the route's prefix from requestURL.Path in place computes the
// same Location, but the self-redirect test then compares the location with the STRIPPED path (a redirect from
// /old/page to /page on the same host is taken for a self-redirect and skipped) and the following hosts are matched
// with the stripped path - the client gets no 3xx and an upstream is contacted. Family: a value read after it has
// been rewritten / a helper that modifies its caller's request. Structural necessary condition: in the region of
// Table.Lookup and of the builder family (found by role, c13findBuilders) there is no store into Path, RawPath,
// RawQuery or Host of the request's url.URL (the URL behind http.Request.URL, the builder family's request parameter,
// any pointer that is one of those through helper parameters, helper results, phis and closures - pointer identity,
// never a value copy), no store that overwrites that url.URL as a whole, and no store into the URL / Host fields of
// the http.Request - except the one normalisation the lookup performs today: URL.Host := the same request's Host.
//
// C13.C2 - every documented redirect code survives option parsing.
//
// C13.C1 proves RedirectCode ⊆ {0} ∪ [300,399]; the property also needs the converse: "receives the CONFIGURED 3xx
// status" for every code the documentation allows (300-399). A range check that is narrower (http.StatusPermanentRedirect
// = 308 as upper bound, `<= 300`, a list of the well-known codes) resets the code to 0, the route silently stays an
// ordinary proxy route whose upstream is the redirect target, and the request is forwarded instead of answered.
// Family: a validation that rejects part of the documented domain. Decided with the interval engine of C1 run in the
// other direction: for every function that stores a parsed value into Target.RedirectCode, the set of values the
// field can hold where the function returns / the target joins Route.Targets - computed as an OVER-approximation,
// starting from 'nothing' (0 for a fresh target) instead of the inductive hypothesis - must cover [300,399]. Because
// the set is an over-approximation, a gap is definite: no input can make the field take a value in the gap.
// (C2, second half) at request time no comparison of Target.RedirectCode with a constant in the regions of
// Table.Lookup and ServeHTTP separates some codes of [300,399] from the others: all configured 3xx codes take the
// same branch (build the location, answer the redirect).

import (
	"fmt"
	"go/token"
	"go/types"
	"math"
	"strings"

	"golang.org/x/tools/go/ssa"
)

// ---- C13.R1 -------------------------------------------------------------------------------------------------------

// c13reqURLPtr: v is a pointer to the url.URL of the request being routed (pointer identity only).
func c13reqURLPtr(bi *c13builders, v ssa.Value, depth int, seen map[ssa.Value]bool) bool {
	if v == nil || depth > 4 || seen[v] {
		return false
	}
	seen[v] = true
	if _, isPtr := v.Type().Underlying().(*types.Pointer); !isPtr || !namedIs(v.Type(), "url.URL") {
		return false
	}
	switch x := v.(type) {
	case *ssa.UnOp:
		if x.Op != token.MUL {
			return false
		}
		if _, ok := fieldOf(x, "http.Request", "URL"); ok {
			return true
		}
		// a local cell holding the pointer
		if a, ok := x.X.(*ssa.Alloc); ok {
			for _, r := range *a.Referrers() {
				if st, ok := r.(*ssa.Store); ok && st.Addr == a && c13reqURLPtr(bi, st.Val, depth+1, seen) {
					return true
				}
			}
		}
	case *ssa.Parameter:
		if bi.isParam(x) {
			return true
		}
		fn := x.Parent()
		if fn == nil {
			return false
		}
		idx := -1
		for k, p := range fn.Params {
			if p == x {
				idx = k
			}
		}
		for _, s := range gSites[fn] {
			if cc := s.Common(); idx >= 0 && idx < len(cc.Args) && c13reqURLPtr(bi, cc.Args[idx], depth+1, seen) {
				return true
			}
		}
	case *ssa.FreeVar:
		fn := x.Parent()
		if fn == nil || fn.Parent() == nil {
			return false
		}
		idx := -1
		for k, fv := range fn.FreeVars {
			if fv == x {
				idx = k
			}
		}
		found := false
		eachInstr(fn.Parent(), func(i ssa.Instruction) {
			if mc, ok := i.(*ssa.MakeClosure); ok && mc.Fn == fn && idx >= 0 && idx < len(mc.Bindings) && !found {
				found = c13reqURLPtr(bi, mc.Bindings[idx], depth+1, seen)
			}
		})
		return found
	case *ssa.Phi:
		for _, e := range x.Edges {
			if c13reqURLPtr(bi, e, depth+1, seen) {
				return true
			}
		}
	case *ssa.ChangeType:
		return c13reqURLPtr(bi, x.X, depth+1, seen)
	case *ssa.Call:
		// a repository helper that hands the request's URL back (func urlOf(r *http.Request) *url.URL { return r.URL })
		sc := x.Call.StaticCallee()
		if sc == nil || !isRepoFn(sc) || len(sc.Blocks) == 0 {
			return false
		}
		found := false
		eachInstr(sc, func(i ssa.Instruction) {
			if r, ok := i.(*ssa.Return); ok && !found && r.Parent() == sc {
				for _, res := range r.Results {
					if isNilConst(res) || knownNil(r.Block(), sameVal(res)) {
						continue // `if u == nil { return u }` of a cloning helper hands back nil, not the request's URL
					}
					if c13reqURLPtr(bi, res, depth+1, seen) {
						found = true
					}
				}
			}
		})
		if found {
			return true
		}
		// ... or its own argument (func norm(u *url.URL) *url.URL { ...; return u }) - covered by the Parameter case
		// of the returned value, which resolves to the arguments of all callers.
	}
	return false
}

func runC13R1(c *Ctx) {
	const rule = "C13.R1"
	lk := c.method("route", "Table", "Lookup")
	if !c.need(rule, lk, "route.Table.Lookup") {
		return
	}
	bi := c13findBuilders(c)
	if len(bi.fns) == 0 {
		c.undecided(rule, "anchor|location builder", "no function of package route has a request parameter (*url.URL or *http.Request) from which the \"$path\" substitution derives: the builder of the redirect location does not resolve")
		return
	}
	reg := c.region(append([]*ssa.Function{lk}, bi.fns...)...)
	isReqURL := func(v ssa.Value) bool { return c13reqURLPtr(bi, v, 0, map[ssa.Value]bool{}) }
	isReqHost := func(v ssa.Value) bool {
		return c13allArgs(v, func(a ssa.Value) bool { _, ok := fieldOf(a, "http.Request", "Host"); return ok })
	}
	const detail = "the request is rewritten while it is being routed: Table.Lookup matches every candidate host with req.URL.Path, the builder substitutes $path / $host from the same URL, and the self-redirect test compares the location with req.URL.Path and req.Host afterwards - after this store they no longer see this request's own path / host / query (e.g. a strip applied to requestURL.Path in place makes a redirect from /old/page to /page on the same host look like a self-redirect: it is skipped, the following hosts are matched with the stripped path, the client gets no 3xx and an upstream is contacted); work on a copy of the URL or on local strings instead"
	watched := map[string]bool{"Path": true, "RawPath": true, "RawQuery": true, "Host": true}
	nReads := 0
	eachInstrOf(reg, func(f *ssa.Function, i ssa.Instruction) {
		switch x := i.(type) {
		case *ssa.UnOp:
			// vacuity: the region does read the request's path
			if x.Op == token.MUL {
				if fa, ok := x.X.(*ssa.FieldAddr); ok && namedIs(fa.X.Type(), "url.URL") && fieldName(fa.X.Type(), fa.Field) == "Path" && isReqURL(fa.X) {
					nReads++
				}
			}
		case *ssa.Store:
			if fa, ok := x.Addr.(*ssa.FieldAddr); ok {
				name := fieldName(fa.X.Type(), fa.Field)
				switch {
				case namedIs(fa.X.Type(), "url.URL") && watched[name] && isReqURL(fa.X):
					ok := name == "Host" && isReqHost(x.Val) // URL.Host := the same request's Host (what $host and the self-redirect test are defined on)
					c.check(rule, fnKey(f)+"|request URL."+name+" is not rewritten during the lookup", x.Pos(), ok, "store into "+name+" of the request's URL: "+detail)
				case namedIs(fa.X.Type(), "http.Request") && (name == "URL" || name == "Host"):
					if _, isPtr := fa.X.Type().Underlying().(*types.Pointer); isPtr {
						if _, fresh := fa.X.(*ssa.Alloc); !fresh { // a request the region made itself is not the client's
							c.check(rule, fnKey(f)+"|request "+name+" is not replaced during the lookup", x.Pos(), false, "store into http.Request."+name+": "+detail)
						}
					}
				}
				return
			}
			if isReqURL(x.Addr) {
				c.check(rule, fnKey(f)+"|request URL is not overwritten during the lookup", x.Pos(), false, "the request's URL is overwritten as a whole: "+detail)
			}
		}
	})
	c.atLeast(rule, "reads of the request URL's Path in the region of Table.Lookup and the location builder", nReads, 1)
}

// ---- C13.C2 -------------------------------------------------------------------------------------------------------

var c13documented = iset{{300, 399}}

// c13minus: the values of a that are not in b.
func c13minus(a, b iset) iset {
	out := a.norm()
	for _, y := range b.norm() {
		var next iset
		for _, x := range out {
			if y.hi < x.lo || y.lo > x.hi {
				next = append(next, x)
				continue
			}
			if y.lo > x.lo {
				next = append(next, ival{x.lo, y.lo - 1})
			}
			if y.hi < x.hi {
				next = append(next, ival{y.hi + 1, x.hi})
			}
		}
		out = next
	}
	return out
}

func runC13C2(c *Ctx) {
	const rule = "C13.C2"
	// (i) parse time: writers of Target.RedirectCode that store a parsed value
	type wkey struct {
		fn   *ssa.Function
		base ssa.Value
	}
	var order []wkey
	stores := map[wkey][]*ssa.Store{}
	writerFns := map[*ssa.Function]bool{}
	for _, f := range c.AllFns {
		ff := f
		eachInstr(f, func(i ssa.Instruction) {
			st, ok := i.(*ssa.Store)
			if !ok {
				return
			}
			fa, ok := st.Addr.(*ssa.FieldAddr)
			if !ok || !namedIs(fa.X.Type(), "route.Target") || fieldName(fa.X.Type(), fa.Field) != "RedirectCode" {
				return
			}
			k := wkey{ff, fa.X}
			if stores[k] == nil {
				order = append(order, k)
			}
			stores[k] = append(stores[k], st)
			writerFns[ff] = true
		})
	}
	isParse := func(v ssa.Value) bool {
		call, ok := v.(*ssa.Call)
		if !ok {
			return false
		}
		n := calleeName(&call.Call)
		return strings.HasPrefix(n, "strconv.")
	}
	iv := &c13ivals{}
	isWriter := func(f *ssa.Function) bool { return writerFns[f] }
	nParse := 0
	for _, k := range order {
		var first *ssa.Store
		for _, st := range stores[k] {
			if derives(st.Val, isParse) && first == nil {
				first = st
			}
		}
		if first == nil {
			continue // copies a code that is already in a target
		}
		nParse++
		var init iset // nothing: only what this function stores counts
		if _, fresh := k.base.(*ssa.Alloc); fresh {
			init = iset{{0, 0}}
		}
		fi := c13fieldFlow(k.fn, k.base, init, iv, isWriter)
		var can iset
		nExit := 0
		eachInstr(k.fn, func(i ssa.Instruction) {
			switch x := i.(type) {
			case *ssa.Store:
				if _, isT := fieldOf(x.Addr, "route.Route", "Targets"); !isT {
					return
				}
			case *ssa.Return:
			default:
				return
			}
			if v, reached := fi.at[i]; reached {
				nExit++
				can = can.union(v)
			}
		})
		if nExit == 0 {
			c.undecided(rule, fnKey(k.fn)+"|every code of 300-399 is accepted", "no exit of the function that parses the redirect code is reached by the interval analysis")
			continue
		}
		missing := c13minus(c13documented, can)
		c.check(rule, fnKey(k.fn)+"|every code of 300-399 is accepted", first.Pos(), len(missing) == 0,
			fmt.Sprintf("the redirect option accepts fewer codes than documented: where the target joins the route Target.RedirectCode can only be %s, never %s - for redirect=<such a code> the code is reset to 0, the route silently stays an ordinary proxy route whose upstream is the redirect target, Table.Lookup builds no location and ServeHTTP forwards the request instead of answering it (clauses: 'receives the configured 3xx status', 'no upstream is contacted'; every code between 300 and 399 is documented as valid)", can.String(), missing.String()))
	}
	c.atLeast(rule, "functions that store a parsed value into Target.RedirectCode", nParse, 1)

	// (ii) request time: no comparison of RedirectCode with a constant separates documented codes from each other
	var roots []*ssa.Function
	if lk := c.method("route", "Table", "Lookup"); lk != nil {
		roots = append(roots, lk)
	}
	if sv := c.method("proxy", "HTTPProxy", "ServeHTTP"); sv != nil {
		roots = append(roots, sv)
	}
	nCmp := 0
	eachInstrOf(c.region(roots...), func(f *ssa.Function, i ssa.Instruction) {
		bo, ok := i.(*ssa.BinOp)
		if !ok {
			return
		}
		var code ssa.Value
		switch {
		case c13targetFieldVal(bo.X, "RedirectCode"): // the field, or the parameter of a predicate helper that is handed it
			code = bo.X
			if _, isK := constInt(bo.Y); !isK {
				return
			}
		case c13targetFieldVal(bo.Y, "RedirectCode"):
			code = bo.Y
			if _, isK := constInt(bo.X); !isK {
				return
			}
		default:
			return
		}
		switch bo.Op {
		case token.EQL, token.NEQ, token.LSS, token.LEQ, token.GTR, token.GEQ:
		default:
			return
		}
		nCmp++
		alias := map[ssa.Value]bool{code: true}
		full := iset{{math.MinInt32, math.MaxInt32}}
		for _, truth := range []bool{true, false} {
			got := c13isect(refine(full, bo, truth, alias), c13documented)
			split := len(got) != 0 && !c13documented.subsetOf(got)
			c.check(rule, fnKey(f)+"|all 3xx codes are treated alike at request time", bo.Pos(), !split,
				fmt.Sprintf("this comparison of Target.RedirectCode separates the configured codes %s from the rest of 300-399: a request matching a redirect route with one of the other codes does not get its location built / its redirect answered and is forwarded to an upstream instead (clause: 'receives the configured 3xx status ...; no upstream is contacted')", got.String()))
			if split {
				break
			}
		}
	})
	c.atLeast(rule, "comparisons of Target.RedirectCode with a constant on the request path (Table.Lookup, ServeHTTP)", nCmp, 1)
}

func init() {
	const tgt = "route/target.go"
	const tbl = "route/table.go"
	const rt = "route/route.go"
	const build = "\t\t\t\tredirect.BuildRedirectURL(req.URL)\n"
	const origPaths = "\t\t// set replacement paths\n\t\treplacePath := requestURL.Path\n\t\tvar replaceRawPath string\n\t\tif requestURL.RawPath == \"\" {\n\t\t\treplaceRawPath = requestURL.Path\n\t\t} else {\n\t\t\treplaceRawPath = requestURL.RawPath\n\t\t}\n\t\t// strip path before replacement\n\t\tif t.StripPath != \"\" {\n\t\t\tif strings.HasPrefix(replacePath, t.StripPath) {\n\t\t\t\treplacePath = replacePath[len(t.StripPath):]\n\t\t\t}\n\t\t\tif strings.HasPrefix(replaceRawPath, t.StripPath) {\n\t\t\t\treplaceRawPath = replaceRawPath[len(t.StripPath):]\n\t\t\t}\n\t\t}\n\t\t// add prepend path\n\t\tif t.PrependPath != \"\" {\n\t\t\treplacePath = t.PrependPath + replacePath\n\t\t\treplaceRawPath = t.PrependPath + replaceRawPath\n\t\t}\n"
	addRound4("C13", "(R1) in the region of Table.Lookup and of the location builder family nothing is stored into Path, RawPath, RawQuery or Host of the request's url.URL (found by pointer identity: http.Request.URL, the builders' request parameter, helper parameters / results that are one of those), the URL is not overwritten as a whole and http.Request.URL / Host are not replaced - except URL.Host := the same request's Host - so that the route match of every host, the $path / $host substitution and the self-redirect test all see this request's own path and host.", runC13R1,
		mutant{Name: "strip applied to the request URL in place by the builder (seed 7 shape)", File: tgt, Old: origPaths,
			New: "\t\tif t.StripPath != \"\" {\n\t\t\trequestURL.Path = strings.TrimPrefix(requestURL.Path, t.StripPath)\n\t\t\trequestURL.RawPath = strings.TrimPrefix(requestURL.RawPath, t.StripPath)\n\t\t}\n\t\treplacePath := t.PrependPath + requestURL.Path\n\t\treplaceRawPath := t.PrependPath + requestURL.EscapedPath()\n", Expect: "C13.R1"},
		mutant{Name: "Lookup strips the request path before it builds the location", File: tbl, Old: build,
			New: "\t\t\t\treq.URL.Path = strings.TrimPrefix(req.URL.Path, target.StripPath)\n" + build, Expect: "C13.R1"},
		mutant{Name: "a strip helper writes the stripped path back through its URL parameter", File: tgt,
			Old:  "func (t *Target) BuildRedirectURL(requestURL *url.URL) {\n",
			New:  "func trimmedPath(u *url.URL, strip string) string {\n\tu.Path = strings.TrimPrefix(u.Path, strip)\n\treturn u.Path\n}\n\nfunc (t *Target) BuildRedirectURL(requestURL *url.URL) {\n",
			More: []repl{{"\t\treplacePath := requestURL.Path\n", "\t\treplacePath := trimmedPath(requestURL, t.StripPath)\n"}}, Expect: "C13.R1"},
		mutant{Name: "the builder overwrites the request URL as a whole with the stripped one", File: tgt,
			Old: "\t\t// do path replacement\n", New: "\t\t*requestURL = url.URL{Scheme: requestURL.Scheme, Host: requestURL.Host, Path: replacePath, RawPath: replaceRawPath, RawQuery: requestURL.RawQuery}\n\t\t// do path replacement\n", Expect: "C13.R1"},
		mutant{Name: "Lookup replaces req.URL by a stripped copy", File: tbl, Old: build,
			New: "\t\t\t\tstripped := *req.URL\n\t\t\t\tstripped.Path = strings.TrimPrefix(stripped.Path, target.StripPath)\n\t\t\t\tstripped.RawPath = strings.TrimPrefix(stripped.RawPath, target.StripPath)\n\t\t\t\treq.URL = &stripped\n" + build, Expect: "C13.R1"},
		mutant{Name: "$host source overwritten with the matched host pattern", File: tbl, Old: "\t\t\t\treq.URL.Host = req.Host\n", New: "\t\t\t\treq.URL.Host = h\n", Expect: "C13.R1"},
		mutant{Name: "the request's query is dropped in place when the target has its own", File: tgt,
			Old: "\t\tif t.RedirectURL.RawQuery == \"\" && requestURL.RawQuery != \"\" {\n", New: "\t\tif t.RedirectURL.RawQuery != \"\" {\n\t\t\trequestURL.RawQuery = \"\"\n\t\t}\n\t\tif t.RedirectURL.RawQuery == \"\" && requestURL.RawQuery != \"\" {\n", Expect: "C13.R1"},
		mutant{Name: "benign: seed 7's simplification done on a copy of the request URL", File: tgt, Old: origPaths,
			New: "\t\tu := *requestURL\n\t\tif t.StripPath != \"\" {\n\t\t\tu.Path = strings.TrimPrefix(u.Path, t.StripPath)\n\t\t\tu.RawPath = strings.TrimPrefix(u.RawPath, t.StripPath)\n\t\t}\n\t\treplacePath := t.PrependPath + u.Path\n\t\treplaceRawPath := t.PrependPath + u.EscapedPath()\n", Expect: ""},
		mutant{Name: "benign: the builder is given a copy of the request URL carrying the request's host", File: tbl,
			Old: "\t\t\t\treq.URL.Host = req.Host\n", New: "\t\t\t\tru := *req.URL\n\t\t\t\tru.Host = req.Host\n",
			More: []repl{{build, "\t\t\t\tredirect.BuildRedirectURL(&ru)\n"}}, Expect: ""},
		mutant{Name: "benign: URL.Host normalisation moved into a helper of the lookup", File: tbl,
			Old: "\t\t\t\treq.URL.Host = req.Host\n", New: "\t\t\t\tsetURLHost(req)\n",
			More: []repl{{"func (t Table) LookupHost(", "func setURLHost(r *http.Request) {\n\tr.URL.Host = r.Host\n}\n\nfunc (t Table) LookupHost("}}, Expect: ""},
	)

	const rangeCheck = "t.RedirectCode < 300 || t.RedirectCode > 399"
	const parseBlock = "\t\t\tt.RedirectCode, err = strconv.Atoi(opts[\"redirect\"])\n\t\t\tif err != nil {\n\t\t\t\tt.RedirectCode = 0\n\t\t\t\tlog.Printf(\"[ERROR] redirect status code should be numeric in 3xx range. Got: %s\", opts[\"redirect\"])\n\t\t\t} else if t.RedirectCode < 300 || t.RedirectCode > 399 {\n\t\t\t\tt.RedirectCode = 0\n\t\t\t\tlog.Printf(\"[ERROR] redirect status code should be in 3xx range. Got: %s\", opts[\"redirect\"])\n\t\t\t}\n"
	const imp = "\t\"log\"\n"
	const impHTTP = "\t\"log\"\n\t\"net/http\"\n"
	addRound4("C13", "(C2) the converse of C1: for every function that stores a parsed value into Target.RedirectCode, the over-approximated set of values the field can hold where the function returns / the target joins Route.Targets (interval analysis started from 'nothing', 0 for a fresh target) covers the documented range [300,399] - a narrower range check turns redirect routes with the other codes silently into proxy routes; and on the request path (regions of Table.Lookup and ServeHTTP) no comparison of Target.RedirectCode with a constant separates some codes of [300,399] from the others.", runC13C2,
		mutant{Name: "range check with the named net/http constants (seed 8 shape: upper bound 308)", File: rt, Old: rangeCheck,
			New: "t.RedirectCode < http.StatusMultipleChoices || t.RedirectCode > http.StatusPermanentRedirect", More: []repl{{imp, impHTTP}}, Expect: "C13.C2"},
		mutant{Name: "lower bound off by one: 300 rejected", File: rt, Old: rangeCheck, New: "t.RedirectCode <= 300 || t.RedirectCode > 399", Expect: "C13.C2"},
		mutant{Name: "upper bound exclusive: 399 rejected", File: rt, Old: rangeCheck, New: "t.RedirectCode < 300 || t.RedirectCode >= 399", Expect: "C13.C2"},
		mutant{Name: "only the well-known redirect codes are accepted", File: rt, Old: "} else if " + rangeCheck + " {",
			New: "} else if c := t.RedirectCode; c != 301 && c != 302 && c != 303 && c != 307 && c != 308 {", Expect: "C13.C2"},
		mutant{Name: "parse helper with a narrower range, code stored only when valid", File: rt, Old: parseBlock,
			New:  "\t\t\tif code, ok := redirectCode(opts[\"redirect\"]); ok {\n\t\t\t\tt.RedirectCode = code\n\t\t\t}\n",
			More: []repl{{"func (r *Route) filter(", "func redirectCode(s string) (int, bool) {\n\tcode, err := strconv.Atoi(s)\n\tif err != nil || code < 300 || code > 308 {\n\t\tlog.Printf(\"[ERROR] redirect status code should be in 3xx range. Got: %s\", s)\n\t\treturn 0, false\n\t}\n\treturn code, true\n}\n\nfunc (r *Route) filter("}}, Expect: "C13.C2"},
		mutant{Name: "Lookup builds the location only for the codes net/http names", File: tbl, Old: "\t\t\tif target.RedirectCode != 0 {\n",
			New: "\t\t\tif target.RedirectCode >= http.StatusMultipleChoices && target.RedirectCode <= http.StatusPermanentRedirect {\n", Expect: "C13.C2"},
		mutant{Name: "benign: the named constants used correctly (300 <= code < http.StatusBadRequest), code stored only when valid", File: rt, Old: parseBlock,
			New:  "\t\t\tcode, err := strconv.Atoi(opts[\"redirect\"])\n\t\t\tif err == nil && code >= http.StatusMultipleChoices && code < http.StatusBadRequest {\n\t\t\t\tt.RedirectCode = code\n\t\t\t} else {\n\t\t\t\tlog.Printf(\"[ERROR] redirect status code should be numeric in 3xx range. Got: %s\", opts[\"redirect\"])\n\t\t\t}\n",
			More: []repl{{imp, impHTTP}}, Expect: ""},
		mutant{Name: "benign: range check in place with the named constants and the full range", File: rt, Old: rangeCheck,
			New: "t.RedirectCode < http.StatusMultipleChoices || t.RedirectCode >= http.StatusBadRequest", More: []repl{{imp, impHTTP}}, Expect: ""},
		mutant{Name: "benign: parse helper with the full range", File: rt, Old: parseBlock,
			New:  "\t\t\tt.RedirectCode = redirectCode(opts[\"redirect\"])\n",
			More: []repl{{"func (r *Route) filter(", "func redirectCode(s string) int {\n\tcode, err := strconv.Atoi(s)\n\tswitch {\n\tcase err != nil:\n\t\tlog.Printf(\"[ERROR] redirect status code should be numeric in 3xx range. Got: %s\", s)\n\t\treturn 0\n\tcase code <= 299, code >= 400:\n\t\tlog.Printf(\"[ERROR] redirect status code should be in 3xx range. Got: %s\", s)\n\t\treturn 0\n\t}\n\treturn code\n}\n\nfunc (r *Route) filter("}}, Expect: ""},
		mutant{Name: "ServeHTTP answers the redirect only for codes above 300", File: "proxy/http_proxy.go", Old: "if t.RedirectCode != 0 && t.RedirectURL != nil {", New: "if t.RedirectCode > 300 && t.RedirectURL != nil {", Expect: "C13.C2"},
		mutant{Name: "benign: the code is loaded once into a local and compared in two places", File: rt, Old: "} else if " + rangeCheck + " {",
			New: "} else if c := t.RedirectCode; c < 300 || c > 399 {", Expect: ""},
		mutant{Name: "benign: Lookup tests the code with > 0", File: tbl, Old: "\t\t\tif target.RedirectCode != 0 {\n", New: "\t\t\tif target.RedirectCode > 0 {\n", Expect: ""},
	)
}
