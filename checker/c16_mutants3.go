package main

// Overlay mutants of C16 added in the third hardening round (after the fourth round of breaking changes): shapes that
// the rules of round 4 (P6, D1) and the pool-key / pool-getter analyses did not survive - values carried in small
// structs, collaborators kept as function values (method value in a local, function field, package-level dialer), a
// helper that reports a close with a bool, the configuration section held by value - each with a breaking twin.

const c16origDirectorFn = `	connectionPool := newGrpcConnectionPool(tlscfg, cfg)

	return func(ctx context.Context, fullMethodName string) (context.Context, *grpc.ClientConn, error) {
		md, ok := metadata.FromIncomingContext(ctx)

		if !ok {
			return ctx, nil, fmt.Errorf("error extracting metadata from request")
		}

		outCtx := metadata.NewOutgoingContext(ctx, md.Copy())

		target, _ := ctx.Value(targetKey{}).(*route.Target)

		if target == nil {
			log.Println("[WARN] grpc: no route for ", fullMethodName)
			return outCtx, nil, fmt.Errorf("no route found")
		}

		conn, err := connectionPool.Get(outCtx, target)

		return outCtx, conn, err
	}

}
`

// the director is a method of a small type that keeps the pool's getter in a function field
const c16directorType = `	d := &grpcDirector{conn: newGrpcConnectionPool(tlscfg, cfg).Get}
	return d.direct
}

type grpcDirector struct {
	conn func(ctx context.Context, target *route.Target) (*grpc.ClientConn, error)
}

func (d *grpcDirector) direct(ctx context.Context, fullMethodName string) (context.Context, *grpc.ClientConn, error) {
	md, ok := metadata.FromIncomingContext(ctx)
	if !ok {
		return ctx, nil, fmt.Errorf("error extracting metadata from request")
	}
	outCtx := metadata.NewOutgoingContext(ctx, md.Copy())
	target, _ := ctx.Value(targetKey{}).(*route.Target)
	if target == nil {
		log.Println("[WARN] grpc: no route for ", fullMethodName)
		return outCtx, nil, fmt.Errorf("no route found")
	}
	conn, err := d.conn(outCtx, target)
	return outCtx, conn, err
}
`

const c16origGetNewSet = `func (p *grpcConnectionPool) Get(ctx context.Context, target *route.Target) (*grpc.ClientConn, error) {
	p.lock.RLock()
	conn := p.connections[makeGRPCTargetKey(target)]
	p.lock.RUnlock()

	if conn != nil && conn.GetState() != connectivity.Shutdown {
		return conn, nil
	}

	return p.newConnection(ctx, target)
}

func (p *grpcConnectionPool) newConnection(ctx context.Context, target *route.Target) (*grpc.ClientConn, error) {
`

// a request value built once by Get and handed on by pointer: it carries the key next to the target
const c16reqShape = `type grpcConnReq struct {
	key    string
	target *route.Target
}

func (p *grpcConnectionPool) Get(ctx context.Context, target *route.Target) (*grpc.ClientConn, error) {
	req := &grpcConnReq{target: target}
	req.key = makeGRPCTargetKey(target)

	p.lock.RLock()
	conn := p.connections[req.key]
	p.lock.RUnlock()

	if conn != nil && conn.GetState() != connectivity.Shutdown {
		return conn, nil
	}

	return p.newConnection(ctx, req)
}

func (p *grpcConnectionPool) newConnection(ctx context.Context, req *grpcConnReq) (*grpc.ClientConn, error) {
	target := req.target
`

var c16reqMore = []repl{
	{"\t\tconn = p.Set(target, conn)\n", "\t\tconn = p.Set(req, conn)\n"},
	{"func (p *grpcConnectionPool) Set(target *route.Target, conn *grpc.ClientConn) *grpc.ClientConn {", "func (p *grpcConnectionPool) Set(req *grpcConnReq, conn *grpc.ClientConn) *grpc.ClientConn {"},
	{"\tkey := makeGRPCTargetKey(target)\n\tif cur := p.connections[key];", "\tkey := req.key\n\tif cur := p.connections[key];"},
}

const c16origDialTail = "\tif err == nil {\n\t\tconn = p.Set(target, conn)\n\t}\n\n\treturn conn, err\n"

const c16admitBool = `
func (p *grpcConnectionPool) admit(target *route.Target, conn *grpc.ClientConn) bool {
	if target.URL.Host == "" {
		conn.Close()
		return false
	}
	return true
}

func (p *grpcConnectionPool) cleanup() {`

const c16origSetIf = "\tif cur := p.connections[key]; cur != nil && cur != conn && cur.GetState() != connectivity.Shutdown {\n\t\tconn.Close()\n\t\treturn cur\n\t}\n"

const c16origHandlerTail = "\terr = handler(srv, proxyStream)\n\n\tend := time.Now()\n\tdur := end.Sub(start)\n\n\ttarget.Timer.Observe(dur.Seconds())\n\n\treturn err\n"

const c16origDialOpt = "grpc.WithDefaultCallOptions(grpc.CallCustomCodec(grpc_proxy.Codec()), grpc.MaxCallRecvMsgSize(p.cfg.Proxy.GRPCMaxRxMsgSize)),"

func c16withReq(extra ...repl) []repl {
	return append(append([]repl{}, c16reqMore...), extra...)
}

var c16round3Mutants = []mutant{
	// ---- benign ------------------------------------------------------------------------------------------------------
	{Name: "benign: director calls the pool through a method value kept in a local", File: c16gh,
		Old: "\tconnectionPool := newGrpcConnectionPool(tlscfg, cfg)\n", New: "\tgetConn := newGrpcConnectionPool(tlscfg, cfg).Get\n",
		More: []repl{{"conn, err := connectionPool.Get(outCtx, target)", "conn, err := getConn(outCtx, target)"}}, Expect: ""},
	{Name: "benign: director as a method of a small type that keeps the pool's getter in a function field", File: c16gh,
		Old: c16origDirectorFn, New: c16directorType, Expect: ""},
	{Name: "benign: request value with key and target built by Get and handed on by pointer", File: c16gh,
		Old: c16origGetNewSet, New: c16reqShape, More: c16reqMore, Expect: ""},
	{Name: "benign: P6: a helper that closes the connection and reports it with a bool, the caller gives up then", File: c16gh,
		Old:  c16origDialTail,
		New:  "\tif err != nil {\n\t\treturn nil, err\n\t}\n\n\tif !p.admit(target, conn) {\n\t\treturn nil, fmt.Errorf(\"grpc: target without address\")\n\t}\n\n\treturn p.Set(target, conn), nil\n",
		More: []repl{{"\nfunc (p *grpcConnectionPool) cleanup() {", c16admitBool}}, Expect: ""},
	{Name: "benign: P6: the helper's bool verdict kept in a local and tested positively", File: c16gh,
		Old:  c16origDialTail,
		New:  "\tif err != nil {\n\t\treturn nil, err\n\t}\n\n\tok := p.admit(target, conn)\n\tif ok {\n\t\treturn p.Set(target, conn), nil\n\t}\n\n\treturn nil, fmt.Errorf(\"grpc: target without address\")\n",
		More: []repl{{"\nfunc (p *grpcConnectionPool) cleanup() {", c16admitBool}}, Expect: ""},
	{Name: "benign: P6: Set decides with a switch on the pooled connection's state and closes it only when shut down", File: c16gh,
		Old:    c16origSetIf,
		New:    "\tif cur := p.connections[key]; cur != nil && cur != conn {\n\t\tswitch st := cur.GetState(); st {\n\t\tcase connectivity.Shutdown:\n\t\t\tcur.Close()\n\t\tdefault:\n\t\t\tconn.Close()\n\t\t\treturn cur\n\t\t}\n\t}\n",
		Expect: ""},
	{Name: "benign: D1: the proxy section of the configuration copied into a local", File: c16gh,
		Old:    "\topts := []grpc.DialOption{\n\t\t" + c16origDialOpt,
		New:    "\tpc := p.cfg.Proxy\n\topts := []grpc.DialOption{\n\t\tgrpc.WithDefaultCallOptions(grpc.CallCustomCodec(grpc_proxy.Codec()), grpc.MaxCallRecvMsgSize(pc.GRPCMaxRxMsgSize), grpc.MaxCallSendMsgSize(pc.GRPCMaxRxMsgSize)),",
		Expect: ""},
	{Name: "benign: D1: limits read by a helper that is given the proxy section by value", File: c16gh,
		Old:    c16origDialOpt,
		New:    "grpc.WithDefaultCallOptions(grpc.CallCustomCodec(grpc_proxy.Codec()), grpc.MaxCallRecvMsgSize(backendMsgLimit(p.cfg.Proxy))),",
		More:   []repl{{"\nfunc (p *grpcConnectionPool) cleanup() {", "\nfunc backendMsgLimit(pc config.Proxy) int {\n\treturn pc.GRPCMaxRxMsgSize\n}\n\nfunc (p *grpcConnectionPool) cleanup() {"}},
		Expect: ""},
	{Name: "benign: D1: backend connections dialled through a package-level dialer variable", File: c16gh,
		Old:    "\tconn, err := grpc.DialContext(ctx, target.URL.Host, opts...)\n",
		New:    "\tconn, err := grpcDial(ctx, target.URL.Host, opts...)\n",
		More:   []repl{{"\nfunc (p *grpcConnectionPool) cleanup() {", "\nvar grpcDial = grpc.DialContext\n\nfunc (p *grpcConnectionPool) cleanup() {"}},
		Expect: ""},
	{Name: "benign: D1: dialer handed to the pool's constructor as an argument", File: c16gh,
		Old: "\tconn, err := grpc.DialContext(ctx, target.URL.Host, opts...)\n",
		New: "\tconn, err := p.dial(ctx, target.URL.Host, opts...)\n",
		More: []repl{
			{"\tcfg             *config.Config\n}", "\tcfg             *config.Config\n\tdial            func(context.Context, string, ...grpc.DialOption) (*grpc.ClientConn, error)\n}"},
			{"func newGrpcConnectionPool(tlscfg *tls.Config, cfg *config.Config) *grpcConnectionPool {", "func newGrpcConnectionPool(tlscfg *tls.Config, cfg *config.Config) *grpcConnectionPool {\n\treturn newGrpcConnectionPoolWith(tlscfg, cfg, grpc.DialContext)\n}\n\nfunc newGrpcConnectionPoolWith(tlscfg *tls.Config, cfg *config.Config, dial func(context.Context, string, ...grpc.DialOption) (*grpc.ClientConn, error)) *grpcConnectionPool {"},
			{"\t\tcfg:             cfg,\n\t}", "\t\tcfg:             cfg,\n\t\tdial:            dial,\n\t}"},
		}, Expect: ""},
	{Name: "benign: director reads the target before it builds the outgoing context", File: c16gh,
		Old:    "\t\toutCtx := metadata.NewOutgoingContext(ctx, md.Copy())\n\n\t\ttarget, _ := ctx.Value(targetKey{}).(*route.Target)\n",
		New:    "\t\ttarget, _ := ctx.Value(targetKey{}).(*route.Target)\n\n\t\toutCtx := metadata.NewOutgoingContext(ctx, md.Copy())\n",
		Expect: ""},
	{Name: "benign: interceptor returns the handler's error through an early return", File: c16gh,
		Old:    c16origHandlerTail,
		New:    "\tif err := handler(srv, proxyStream); err != nil {\n\t\ttarget.Timer.Observe(time.Since(start).Seconds())\n\t\treturn err\n\t}\n\n\ttarget.Timer.Observe(time.Since(start).Seconds())\n\n\treturn nil\n",
		Expect: ""},

	{Name: "benign: synthetic lookup request carries the call's context (WithContext)", File: c16gh,
		Old:    "\treq := &http.Request{\n\t\tHost:   dstHostSpecifiedByGRPCClient,\n\t\tURL:    reqUrl,\n\t\tHeader: headers,\n\t}\n",
		New:    "\treq := (&http.Request{\n\t\tHost:   dstHostSpecifiedByGRPCClient,\n\t\tURL:    reqUrl,\n\t\tHeader: headers,\n\t}).WithContext(ctx)\n",
		Expect: ""},
	{Name: "benign: context key kept in a package-level variable", File: c16gh,
		Old: "type targetKey struct{}\n", New: "type targetKey struct{}\n\nvar grpcTargetKey = targetKey{}\n",
		More:   []repl{{"ctx = context.WithValue(ctx, targetKey{}, target)", "ctx = context.WithValue(ctx, grpcTargetKey, target)"}, {"ctx.Value(targetKey{}).(*route.Target)", "ctx.Value(grpcTargetKey).(*route.Target)"}},
		Expect: ""},
	{Name: "benign: wrapper stream built by a constructor and used by pointer", File: c16gh,
		Old: "\tproxyStream := proxyStream{\n\t\tServerStream: stream,\n\t\tctx:          ctx,\n\t}\n", New: "\tproxyStream := newProxyStream(stream, ctx)\n",
		More: []repl{
			{"func (p proxyStream) Context() context.Context {", "func newProxyStream(s grpc.ServerStream, ctx context.Context) *proxyStream {\n\tps := new(proxyStream)\n\tps.ServerStream = s\n\tps.ctx = ctx\n\treturn ps\n}\n\nfunc (p *proxyStream) Context() context.Context {"},
		}, Expect: ""},
	{Name: "benign: P5: the janitor asks a predicate over the state whether the connection is shut down", File: c16gh,
		Old: "\t\t\tif state == connectivity.Shutdown {\n", New: "\t\t\tif connGone(state) {\n",
		More:   []repl{{"\nfunc (p *grpcConnectionPool) cleanup() {", "\nfunc connGone(s connectivity.State) bool {\n\treturn s == connectivity.Shutdown\n}\n\nfunc (p *grpcConnectionPool) cleanup() {"}},
		Expect: ""},
	{Name: "benign: P5: negated predicate over the connection (alive) with guard clauses", File: c16gh,
		Old: "\t\t\tif state == connectivity.Shutdown {\n", New: "\t\t\tif !connAlive(cs) {\n",
		More:   []repl{{"\nfunc (p *grpcConnectionPool) cleanup() {", "\nfunc connAlive(c *grpc.ClientConn) bool {\n\tif c.GetState() == connectivity.Shutdown {\n\t\treturn false\n\t}\n\treturn true\n}\n\nfunc (p *grpcConnectionPool) cleanup() {"}},
		Expect: ""},

	// ---- breaking, in the same shapes ---------------------------------------------------------------------------------------
	{Name: "function field of the director type filled with a function that dials on every call", File: c16gh,
		Old: c16origDirectorFn, New: c16directorType,
		More:   []repl{{"\td := &grpcDirector{conn: newGrpcConnectionPool(tlscfg, cfg).Get}\n", "\t_ = newGrpcConnectionPool(tlscfg, cfg)\n\td := &grpcDirector{conn: func(ctx context.Context, t *route.Target) (*grpc.ClientConn, error) {\n\t\treturn grpc.DialContext(ctx, t.URL.Host, grpc.WithInsecure())\n\t}}\n"}},
		Expect: "C16.M1"},
	{Name: "method value in a local: the director hands out the connection with the incoming context", File: c16gh,
		Old: "\tconnectionPool := newGrpcConnectionPool(tlscfg, cfg)\n", New: "\tgetConn := newGrpcConnectionPool(tlscfg, cfg).Get\n",
		More: []repl{{"conn, err := connectionPool.Get(outCtx, target)", "conn, err := getConn(outCtx, target)"}, {"\t\treturn outCtx, conn, err\n", "\t\treturn ctx, conn, err\n"}}, Expect: "C16.M1"},
	{Name: "function field of the director type: Set closes the pooled connection it replaces", File: c16gh,
		Old: c16origDirectorFn, New: c16directorType,
		More:   []repl{{c16origSetIf, "\tif cur := p.connections[key]; cur != nil && cur != conn {\n\t\tcur.Close()\n\t}\n"}},
		Expect: "C16.P6"},
	{Name: "request value: key field filled with the target's host", File: c16gh,
		Old: c16origGetNewSet, New: c16reqShape,
		More: c16withReq(repl{"\treq.key = makeGRPCTargetKey(target)\n", "\treq.key = target.URL.Host\n"}), Expect: "C16.P1"},
	{Name: "request value: key field overwritten with the address before the insert", File: c16gh,
		Old: c16origGetNewSet, New: c16reqShape,
		More: c16withReq(repl{"\t\tconn = p.Set(req, conn)\n", "\t\treq.key = target.URL.Host\n\t\tconn = p.Set(req, conn)\n"}), Expect: "C16.P1"},
	{Name: "P6: bool-reporting helper closes the connection and the caller hands it out all the same", File: c16gh,
		Old:  c16origDialTail,
		New:  "\tif err != nil {\n\t\treturn nil, err\n\t}\n\n\tif !p.admit(target, conn) {\n\t\tlog.Println(\"[WARN] grpc: target without address\")\n\t\treturn conn, nil\n\t}\n\n\treturn p.Set(target, conn), nil\n",
		More: []repl{{"\nfunc (p *grpcConnectionPool) cleanup() {", c16admitBool}}, Expect: "C16.P6"},
	{Name: "P6: bool-reporting helper: the caller tests the verdict the wrong way round", File: c16gh,
		Old:  c16origDialTail,
		New:  "\tif err != nil {\n\t\treturn nil, err\n\t}\n\n\tif p.admit(target, conn) {\n\t\tp.Set(target, conn)\n\t\treturn nil, fmt.Errorf(\"grpc: target without address\")\n\t}\n\n\treturn conn, nil\n",
		More: []repl{{"\nfunc (p *grpcConnectionPool) cleanup() {", c16admitBool}}, Expect: "C16.P6"},
	{Name: "P6: switch on the pooled connection's state closes it when it is idle", File: c16gh,
		Old:    c16origSetIf,
		New:    "\tif cur := p.connections[key]; cur != nil && cur != conn {\n\t\tswitch st := cur.GetState(); st {\n\t\tcase connectivity.Shutdown, connectivity.Idle:\n\t\t\tcur.Close()\n\t\tdefault:\n\t\t\tconn.Close()\n\t\t\treturn cur\n\t\t}\n\t}\n",
		Expect: "C16.P6"},
	{Name: "early-return interceptor answers Internal whenever the backend failed", File: c16gh,
		Old:    c16origHandlerTail,
		New:    "\tif err := handler(srv, proxyStream); err == nil {\n\t\ttarget.Timer.Observe(time.Since(start).Seconds())\n\t\treturn nil\n\t}\n\n\ttarget.Timer.Observe(time.Since(start).Seconds())\n\n\treturn status.Error(codes.Internal, \"internal error\")\n",
		Expect: "C16.G2"},
	{Name: "early-return interceptor reports success when the backend failed", File: c16gh,
		Old:    c16origHandlerTail,
		New:    "\tif err := handler(srv, proxyStream); err != nil {\n\t\ttarget.Timer.Observe(time.Since(start).Seconds())\n\t\treturn nil\n\t}\n\n\ttarget.Timer.Observe(time.Since(start).Seconds())\n\n\treturn nil\n",
		Expect: "C16.G2"},
	{Name: "WithContext-shaped lookup request without the destination host", File: c16gh,
		Old:    "\treq := &http.Request{\n\t\tHost:   dstHostSpecifiedByGRPCClient,\n\t\tURL:    reqUrl,\n\t\tHeader: headers,\n\t}\n",
		New:    "\t_ = dstHostSpecifiedByGRPCClient\n\treq := (&http.Request{\n\t\tURL:    reqUrl,\n\t\tHeader: headers,\n\t}).WithContext(ctx)\n",
		Expect: "C16.L1"},
	{Name: "package-level context key: the director reads a second key variable", File: c16gh,
		Old: "type targetKey struct{}\n", New: "type targetKey struct{}\ntype dirKey struct{}\n\nvar grpcTargetKey = targetKey{}\nvar grpcDirKey = dirKey{}\n",
		More:   []repl{{"ctx = context.WithValue(ctx, targetKey{}, target)", "ctx = context.WithValue(ctx, grpcTargetKey, target)"}, {"ctx.Value(targetKey{}).(*route.Target)", "ctx.Value(grpcDirKey).(*route.Target)"}},
		Expect: "C16.K1"},
	{Name: "constructor of the wrapper stream forgets the context that carries the target", File: c16gh,
		Old: "\tproxyStream := proxyStream{\n\t\tServerStream: stream,\n\t\tctx:          ctx,\n\t}\n", New: "\tproxyStream := newProxyStream(stream, ctx)\n",
		More: []repl{
			{"func (p proxyStream) Context() context.Context {", "func newProxyStream(s grpc.ServerStream, ctx context.Context) *proxyStream {\n\tps := new(proxyStream)\n\tps.ServerStream = s\n\tps.ctx = s.Context()\n\treturn ps\n}\n\nfunc (p *proxyStream) Context() context.Context {"},
		}, Expect: "C16.G1"},
	{Name: "P5: state predicate also says gone for failing connections, which are dropped without Close", File: c16gh,
		Old: "\t\t\tif state == connectivity.Shutdown {\n", New: "\t\t\tif connGone(state) {\n",
		More:   []repl{{"\nfunc (p *grpcConnectionPool) cleanup() {", "\nfunc connGone(s connectivity.State) bool {\n\treturn s == connectivity.Shutdown || s == connectivity.TransientFailure\n}\n\nfunc (p *grpcConnectionPool) cleanup() {"}},
		Expect: "C16.P5"},
	{Name: "P5: alive predicate read with the wrong polarity", File: c16gh,
		Old: "\t\t\tif state == connectivity.Shutdown {\n", New: "\t\t\tif connAlive(cs) {\n",
		More:   []repl{{"\nfunc (p *grpcConnectionPool) cleanup() {", "\nfunc connAlive(c *grpc.ClientConn) bool {\n\tif c.GetState() == connectivity.Shutdown {\n\t\treturn false\n\t}\n\treturn true\n}\n\nfunc (p *grpcConnectionPool) cleanup() {"}},
		Expect: "C16.P5"},
	{Name: "D1: proxy section in a local, send limit from its tx field", File: c16gh,
		Old:    "\topts := []grpc.DialOption{\n\t\t" + c16origDialOpt,
		New:    "\tpc := p.cfg.Proxy\n\topts := []grpc.DialOption{\n\t\tgrpc.WithDefaultCallOptions(grpc.CallCustomCodec(grpc_proxy.Codec()), grpc.MaxCallRecvMsgSize(pc.GRPCMaxRxMsgSize), grpc.MaxCallSendMsgSize(pc.GRPCMaxTxMsgSize)),",
		Expect: "C16.D1"},
	{Name: "D1: helper given the proxy section by value returns the shutdown-independent constant 4 MB as receive limit", File: c16gh,
		Old:    c16origDialOpt,
		New:    "grpc.WithDefaultCallOptions(grpc.CallCustomCodec(grpc_proxy.Codec()), grpc.MaxCallRecvMsgSize(backendMsgLimit(p.cfg.Proxy))),",
		More:   []repl{{"\nfunc (p *grpcConnectionPool) cleanup() {", "\nfunc backendMsgLimit(pc config.Proxy) int {\n\t_ = pc\n\treturn 4 * 1024 * 1024\n}\n\nfunc (p *grpcConnectionPool) cleanup() {"}},
		Expect: "C16.D1"},
	{Name: "D1: package-level dialer variable, receive limit of backend connections dropped", File: c16gh,
		Old: "\tconn, err := grpc.DialContext(ctx, target.URL.Host, opts...)\n",
		New: "\tconn, err := grpcDial(ctx, target.URL.Host, opts...)\n",
		More: []repl{
			{"\nfunc (p *grpcConnectionPool) cleanup() {", "\nvar grpcDial = grpc.DialContext\n\nfunc (p *grpcConnectionPool) cleanup() {"},
			{c16origDialOpt, "grpc.WithDefaultCallOptions(grpc.CallCustomCodec(grpc_proxy.Codec())),"},
		}, Expect: "C16.D1"},
}
