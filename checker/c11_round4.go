package main

// Rules of C11 added after the fourth round of independently authored breaking changes (DESIGN 11.12); wired in
// zzz_round4.go.
//
// Family: A MEMORY BETWEEN THE SOURCE AND THE RELOAD LOOP. The clause "a newly published set takes effect for new
// handshakes without restart" rests on the reload loop looking at the source in every cycle: what it compares with the
// last published material must have been read in that cycle. A loader that remembers its previous result and hands it
// out again when a cheap validity test says "unchanged" (the directory's modification time, a time-to-live, a flag),
// or a loop that skips the loader on such a test, makes the loop compare the old material with itself: a certificate
// renewed in place, or a broken PEM repaired in place, never takes effect. Both are decided structurally:
//
//	(L6) no PEM loader called from a reload loop returns REMEMBERED material on a path that has not EXAMINED the source;
//	(L7) every cycle of a reload loop EXAMINES the source (or receives material from a channel).
//
// REMEMBERED: the returned value is (a load of, an element of, a copy of) a captured variable of a closure whose
// enclosing function is not part of this call, a package variable, a field of something that was handed in (receiver,
// parameter) - memory that outlives the call. EXAMINED: the path executes a call that reads the content of the source
// or enumerates it entry by entry (a directory walk or listing, a file read, an HTTP request, a Consul KV query, a Vault
// read) - not a stat of the root name, whose modification time says nothing about the content of the files below it.

import (
	"fmt"
	"go/token"
	"go/types"
	"os"
	"strings"

	"golang.org/x/tools/go/ssa"
)

func init() {
	const (
		pathSrc   = "cert/path_source.go"
		goWatch   = "\tgo watch(ch, s.Refresh, path, loadPath)\n"
		fpImport  = "\t\"path/filepath\"\n"
		makePath  = "func makePath("
		watchFile = "cert/watch.go"
		loadCall  = "\t\tnext, err := loadFn(path)\n"
		lastDecl  = "\tvar last map[string][]byte\n"
		logImport = "\t\"log\"\n"
		watchDoc  = "// watch monitors"
		storeFile = "cert/store.go"
		shortcut  = "if !strictMatch && (len(cs.Certificates) == 1 || cs.NameToCertificate == nil) {"
	)
	// a walk over the whole tree that collects name, size and modification time of every file: the corrected form of
	// "do not read the files when nothing changed"
	const signature = `func pathSignature(root string) (string, error) {
	var b strings.Builder
	err := filepath.Walk(root, func(path string, info os.FileInfo, err error) error {
		if err != nil {
			return err
		}
		fmt.Fprintf(&b, "%s %d %d\n", path, info.Size(), info.ModTime().UnixNano())
		return nil
	})
	return b.String(), err
}

`
	addRound4("C11", "(L6) no loader of certificate material that a reload loop of package cert calls (followed through function values, closures, methods and the package's own interfaces) returns material REMEMBERED from an earlier call - a captured variable of a closure whose enclosing function is not part of the call, a package variable, a field of something handed in - on a path that has not EXAMINED the source in this call (directory walk or listing, file read, HTTP request, Consul KV query, Vault read, a call of another loader, a call of a helper without a material result that does one of these on all its paths; a stat of the root name is not an examination: a directory's modification time does not move when a file in it is rewritten; a field of the receiver that every way to the return has stored into in this call is as old as what was stored): otherwise the loop compares the old material with itself and a certificate renewed in place never takes effect.", runC11L6,
		mutant{Name: "path loader memoised on the directory's mtime, cache in a struct with a load method", File: pathSrc, Old: goWatch, New: "\tgo watch(ch, s.Refresh, path, (&pathCache{}).load)\n", Expect: "C11.L6", More: []repl{{fpImport, "\t\"os\"\n" + fpImport}, {makePath, `type pathCache struct {
	modTime time.Time
	blocks  map[string][]byte
}

func (c *pathCache) load(root string) (map[string][]byte, error) {
	fi, err := os.Stat(root)
	if err == nil && c.blocks != nil && fi.ModTime().Equal(c.modTime) {
		return c.blocks, nil
	}
	blocks, err := loadPath(root)
	if err != nil {
		return nil, err
	}
	c.blocks = blocks
	if fi != nil {
		c.modTime = fi.ModTime()
	}
	return blocks, nil
}

` + makePath}}},
		mutant{Name: "path loader memoised in a package-level table, validity decided by a helper that stats the root", File: pathSrc, Old: goWatch, New: "\tgo watch(ch, s.Refresh, path, loadPathCached)\n", Expect: "C11.L6", More: []repl{{fpImport, "\t\"os\"\n" + fpImport}, {makePath, `type pemEntry struct {
	mod    time.Time
	blocks map[string][]byte
}

var pemCache = map[string]*pemEntry{}

func cachedPEM(root string) (map[string][]byte, bool) {
	e := pemCache[root]
	if e == nil {
		return nil, false
	}
	fi, err := os.Stat(root)
	if err != nil || !fi.ModTime().Equal(e.mod) {
		return nil, false
	}
	return e.blocks, true
}

func loadPathCached(root string) (map[string][]byte, error) {
	if b, ok := cachedPEM(root); ok {
		return b, nil
	}
	e := &pemEntry{}
	if fi, err := os.Stat(root); err == nil {
		e.mod = fi.ModTime()
	}
	b, err := loadPath(root)
	if err != nil {
		return nil, err
	}
	e.blocks = b
	pemCache[root] = e
	return b, nil
}

` + makePath}}},
		mutant{Name: "URL loader hands out a copy of the remembered blocks while the ETag of the list file is unchanged", File: "cert/http_source.go", Old: "\tgo watch(ch, s.Refresh, s.CertURL, loadURL)\n", New: "\tgo watch(ch, s.Refresh, s.CertURL, loadURLIfChanged())\n", Expect: "C11.L6", More: []repl{{"\t\"crypto/x509\"\n", "\t\"crypto/x509\"\n\t\"maps\"\n\t\"net/http\"\n"}, {"func (s HTTPSource) Certificates()", `func loadURLIfChanged() func(string) (map[string][]byte, error) {
	var (
		etag   string
		blocks map[string][]byte
	)
	return func(listURL string) (map[string][]byte, error) {
		tag := ""
		if resp, err := http.Head(listURL); err == nil {
			resp.Body.Close()
			tag = resp.Header.Get("ETag")
		}
		if tag != "" && tag == etag && blocks != nil {
			return maps.Clone(blocks), nil
		}
		next, err := loadURL(listURL)
		if err != nil {
			return nil, err
		}
		etag, blocks = tag, next
		return next, nil
	}
}

func (s HTTPSource) Certificates()`}}},
		mutant{Name: "benign: path loader memoised on a signature (name, size, mtime) of every file collected by a walk", File: pathSrc, Old: goWatch, New: "\tgo watch(ch, s.Refresh, path, loadPathIfModified())\n", Expect: "", More: []repl{{fpImport, "\t\"fmt\"\n\t\"os\"\n" + fpImport + "\t\"strings\"\n"}, {makePath, signature + `func loadPathIfModified() func(root string) (map[string][]byte, error) {
	var (
		lastSig   string
		pemBlocks map[string][]byte
	)
	return func(root string) (map[string][]byte, error) {
		sig, sigErr := pathSignature(root)
		if sigErr == nil && pemBlocks != nil && sig == lastSig {
			return pemBlocks, nil
		}
		next, err := loadPath(root)
		if err != nil {
			return nil, err
		}
		pemBlocks, lastSig = next, sig
		return pemBlocks, nil
	}
}

` + makePath}}},
		mutant{Name: "benign: path loader reads every time and hands out the remembered blocks when their digest is unchanged", File: pathSrc, Old: goWatch, New: "\tgo watch(ch, s.Refresh, path, loadPathDeduplicated())\n", Expect: "", More: []repl{{fpImport, "\t\"crypto/sha256\"\n" + fpImport + "\t\"sort\"\n"}, {makePath, `func pemDigest(blocks map[string][]byte) [sha256.Size]byte {
	names := make([]string, 0, len(blocks))
	for n := range blocks {
		names = append(names, n)
	}
	sort.Strings(names)
	h := sha256.New()
	for _, n := range names {
		h.Write([]byte(n))
		h.Write([]byte{0})
		h.Write(blocks[n])
		h.Write([]byte{0})
	}
	var sum [sha256.Size]byte
	copy(sum[:], h.Sum(nil))
	return sum
}

func loadPathDeduplicated() func(root string) (map[string][]byte, error) {
	var (
		last      [sha256.Size]byte
		pemBlocks map[string][]byte
	)
	return func(root string) (map[string][]byte, error) {
		next, err := loadPath(root)
		if err != nil {
			return nil, err
		}
		if sum := pemDigest(next); pemBlocks == nil || sum != last {
			pemBlocks, last = next, sum
		}
		return pemBlocks, nil
	}
}

` + makePath}}},
		mutant{Name: "benign: path loader wrapped in a closure that remembers only how often it ran and its last error", File: pathSrc, Old: goWatch, New: "\tgo watch(ch, s.Refresh, path, loadPathCounted())\n", Expect: "", More: []repl{{makePath, `func loadPathCounted() func(root string) (map[string][]byte, error) {
	var (
		runs    int
		lastErr error
	)
	return func(root string) (map[string][]byte, error) {
		runs++
		blocks, err := loadPath(root)
		if err != nil && lastErr == nil {
			err = fmt.Errorf("load #%d: %w", runs, err)
		}
		lastErr = err
		return blocks, err
	}
}

` + makePath}, {fpImport, "\t\"fmt\"\n" + fpImport}}},
		mutant{Name: "Vault loader keeps its result in a field of the source and hands it out again for an hour", File: "cert/vault_source.go", Old: "type VaultSource struct {\n", New: "type VaultSource struct {\n\tcached   map[string][]byte\n\tcachedAt time.Time\n", Expect: "C11.L6", More: []repl{{"\tpemBlocks = map[string][]byte{}\n", "\tif s.cached != nil && time.Since(s.cachedAt) < time.Hour {\n\t\treturn s.cached, nil\n\t}\n\tdefer func() {\n\t\tif err == nil {\n\t\t\ts.cached, s.cachedAt = pemBlocks, time.Now()\n\t\t}\n\t}()\n\tpemBlocks = map[string][]byte{}\n"}}},
		mutant{Name: "benign: change test moved into a helper that returns the new blocks it was given", File: watchFile, Old: "\t\tif reflect.DeepEqual(next, last) {\n", New: "\t\tif _, changed := changedBlocks(next, last); !changed {\n", Expect: "", More: []repl{{watchDoc, "func changedBlocks(next, last map[string][]byte) (map[string][]byte, bool) {\n\tif reflect.DeepEqual(next, last) {\n\t\treturn last, false\n\t}\n\treturn next, true\n}\n\n" + watchDoc}}},
	)
	addRound4("C11", "(L7) every cycle of a reload loop (a loop of package cert that examines a source or receives material and sends certificates or material) examines the source or receives material: no cycle skips the load on a cheap 'unchanged' test. A call of a step, poll or fetch helper without a material result counts when the helper examines on all its paths, or on all its paths to the verdict under which the loop goes on; a condition-less polling loop of a function that returns material (the watcher's wait-for-change moved out) is a reload loop too.", runC11L7,
		mutant{Name: "watch skips the load while the modification time of the path is unchanged", File: watchFile, Old: loadCall, New: "\t\tif fi, err := os.Stat(path); err == nil {\n\t\t\tif last != nil && fi.ModTime().Equal(lastMod) {\n\t\t\t\ttime.Sleep(refresh)\n\t\t\t\tcontinue\n\t\t\t}\n\t\t\tlastMod = fi.ModTime()\n\t\t}\n" + loadCall, Expect: "C11.L7", More: []repl{{lastDecl, lastDecl + "\tvar lastMod time.Time\n"}, {logImport, logImport + "\t\"os\"\n"}}},
		mutant{Name: "watch asks a stamp helper whether the path changed and skips the load otherwise", File: watchFile, Old: loadCall, New: "\t\tif last != nil && !stamp.changed(path) {\n\t\t\ttime.Sleep(refresh)\n\t\t\tcontinue\n\t\t}\n" + loadCall, Expect: "C11.L7", More: []repl{{lastDecl, lastDecl + "\tstamp := &dirStamp{}\n"}, {logImport, logImport + "\t\"os\"\n"}, {watchDoc, `type dirStamp struct {
	mod time.Time
}

func (d *dirStamp) changed(path string) bool {
	fi, err := os.Stat(path)
	if err != nil {
		return true
	}
	if fi.ModTime().Equal(d.mod) {
		return false
	}
	d.mod = fi.ModTime()
	return true
}

` + watchDoc}}},
		mutant{Name: "benign: watch skips the load while the signature of every file below the path is unchanged", File: watchFile, Old: loadCall, New: "\t\tif sig, err := pathSignature(path); err == nil {\n\t\t\tif last != nil && sig == lastSig {\n\t\t\t\ttime.Sleep(refresh)\n\t\t\t\tcontinue\n\t\t\t}\n\t\t\tlastSig = sig\n\t\t}\n" + loadCall, Expect: "", More: []repl{{lastDecl, lastDecl + "\tvar lastSig string\n"}, {logImport, "\t\"fmt\"\n" + logImport + "\t\"os\"\n\t\"path/filepath\"\n"}, {"\t\"reflect\"\n", "\t\"reflect\"\n\t\"strings\"\n"}, {watchDoc, signature + watchDoc}}},
		mutant{Name: "benign: watch sleeps at the top of every cycle but the first", File: watchFile, Old: loadCall, New: "\t\tif !first {\n\t\t\ttime.Sleep(refresh)\n\t\t}\n\t\tfirst = false\n" + loadCall, Expect: "", More: []repl{{lastDecl, lastDecl + "\tfirst := true\n"}}},

		// the family of seeded/C11-7 (reported by M1): a short cut to the first certificate that strict listeners take too
		mutant{Name: "clients without a server name get the first certificate, strict listeners too", File: storeFile, Old: "\t" + shortcut, New: "\tif clientHello.ServerName == \"\" {\n\t\treturn &cs.Certificates[0], nil\n\t}\n\t" + shortcut, Expect: "C11.M1"},
		mutant{Name: "single-certificate shortcut: 'not strict' bound to the first alternative only", File: storeFile, Old: shortcut, New: "if !strictMatch && len(cs.Certificates) == 1 || cs.NameToCertificate == nil {", Expect: "C11.M1"},
		mutant{Name: "default decided by a helper that lets strict listeners fall back for an absent server name", File: storeFile, Old: "\tif strictMatch {\n\t\treturn nil, nil\n\t}\n\treturn &cs.Certificates[0], nil\n", New: "\treturn defaultFor(cs, name, strictMatch), nil\n", Expect: "C11.M1", More: []repl{{"type certstore struct {", "func defaultFor(cs certstore, name string, strict bool) *tls.Certificate {\n\tif strict && name != \"\" {\n\t\treturn nil\n\t}\n\treturn &cs.Certificates[0]\n}\n\ntype certstore struct {"}}},
		mutant{Name: "benign: no-server-name shortcut inside the 'not strict' test", File: storeFile, Old: shortcut, New: "if !strictMatch && (len(cs.Certificates) == 1 || cs.NameToCertificate == nil || clientHello.ServerName == \"\") {", Expect: ""},
		mutant{Name: "benign: default decided by a helper that returns no certificate to strict listeners", File: storeFile, Old: "\tif strictMatch {\n\t\treturn nil, nil\n\t}\n\treturn &cs.Certificates[0], nil\n", New: "\treturn defaultFor(cs, strictMatch), nil\n", Expect: "", More: []repl{{"type certstore struct {", "func defaultFor(cs certstore, strict bool) *tls.Certificate {\n\tif strict {\n\t\treturn nil\n\t}\n\treturn &cs.Certificates[0]\n}\n\ntype certstore struct {"}}},
	)
}

const c11vaultPkg = "github.com/hashicorp/vault/api"

// c11sourceReads: library calls that look at the content of a certificate source (file tree, HTTP server, KV store).
// Deliberately absent: os.Stat, os.Lstat, (*os.File).Stat, os.Open, net/http.Head - they deliver metadata of one name.
var c11sourceReads = map[string]bool{
	"os.ReadFile": true, "os.ReadDir": true, "io/ioutil.ReadFile": true, "io/ioutil.ReadDir": true, "io/ioutil.ReadAll": true,
	"io.ReadAll": true, "io.ReadFull": true, "io.ReadAtLeast": true, "io.Copy": true, "io.CopyN": true, "io.CopyBuffer": true,
	"(*bytes.Buffer).ReadFrom": true, "(*bufio.Reader).WriteTo": true, "(*bufio.Reader).ReadSlice": true, "(*bufio.Reader).ReadByte": true, "(*bufio.Reader).ReadRune": true, "(*bufio.Reader).Peek": true,
	"(*encoding/json.Decoder).Decode": true, "(*os.Root).ReadFile": true, "io/fs.ReadFile": true, "io/fs.ReadDir": true, "io/fs.WalkDir": true, "io/fs.Glob": true,
	"path/filepath.Walk": true, "path/filepath.WalkDir": true, "path/filepath.Glob": true,
	"(*os.File).Read": true, "(*os.File).ReadAt": true, "(*os.File).ReadDir": true, "(*os.File).Readdir": true, "(*os.File).Readdirnames": true, "(*os.File).ReadFrom": true, "(*os.File).WriteTo": true,
	"(*bufio.Reader).Read": true, "(*bufio.Reader).ReadString": true, "(*bufio.Reader).ReadBytes": true, "(*bufio.Reader).ReadLine": true, "(*bufio.Scanner).Scan": true,
	"net/http.Get": true, "net/http.Post": true, "net/http.PostForm": true,
	"(*net/http.Client).Do": true, "(*net/http.Client).Get": true, "(*net/http.Client).Post": true, "(*net/http.Client).PostForm": true,
	"(net/http.RoundTripper).RoundTrip": true, "(*net/http.Transport).RoundTrip": true,
}

var c11sourceReadPrefixes = []string{
	"(*" + apiPkg + ".KV).", "(*" + c11vaultPkg + ".Logical).", "(*" + c11vaultPkg + ".KVv1).", "(*" + c11vaultPkg + ".KVv2).",
	"(*" + c11vaultPkg + ".Client).RawRequest",
}

// c11isReaderInvoke: a read through one of the standard reader interfaces (io.Reader, io.ReaderAt, io.ReaderFrom,
// io.WriterTo, fs.File, fs.ReadDirFile, fs.ReadFileFS, fs.ReadDirFS, also embedded in an interface of the repository's
// own: `f.Read(buf)` with f an fs.File, `src.ReadFile(name)` with src an fs.ReadFileFS) looks at content like the
// concrete (*os.File).Read does.
func c11isReaderInvoke(cc *ssa.CallCommon) bool {
	if cc == nil || !cc.IsInvoke() || cc.Method == nil || cc.Method.Pkg() == nil {
		return false
	}
	switch cc.Method.Pkg().Path() {
	case "io", "io/fs":
		n := cc.Method.Name()
		return strings.HasPrefix(n, "Read") || n == "WriteTo"
	}
	return false
}

func c11isSourceRead(name string) bool {
	if c11sourceReads[name] {
		return true
	}
	for _, p := range c11sourceReadPrefixes {
		if strings.HasPrefix(name, p) {
			return true
		}
	}
	return false
}

// c11isMaterial: raw certificate material - []byte, a map / slice / array / pointer of material, or a struct declared in
// the repository that holds material (a PEM set with a name). Parsed certificates (tls.Certificate, x509 pools) and
// library types are not material.
func c11isMaterial(t types.Type, depth int) bool {
	if t == nil || depth > 3 {
		return false
	}
	if n, ok := types.Unalias(t).(*types.Named); ok {
		if n.Obj().Pkg() == nil || !isRepoTypeKey(typeKey(n)) {
			return false
		}
	}
	switch u := types.Unalias(t).Underlying().(type) {
	case *types.Slice:
		if b, ok := u.Elem().Underlying().(*types.Basic); ok {
			return b.Kind() == types.Byte
		}
		return c11isMaterial(u.Elem(), depth+1)
	case *types.Array:
		return c11isMaterial(u.Elem(), depth+1)
	case *types.Map:
		return c11isMaterial(u.Elem(), depth+1)
	case *types.Pointer:
		return c11isMaterial(u.Elem(), depth+1)
	case *types.Struct:
		for k := 0; k < u.NumFields(); k++ {
			if c11isMaterial(u.Field(k).Type(), depth+1) {
				return true
			}
		}
	}
	return false
}

// c11materialResults: the indices of fn's results that are certificate material.
func c11materialResults(fn *ssa.Function) []int {
	var out []int
	res := fn.Signature.Results()
	for k := 0; k < res.Len(); k++ {
		if c11isMaterial(res.At(k).Type(), 0) {
			out = append(out, k)
		}
	}
	return out
}

// c11examiner decides "this instruction may examine the source" with calls resolved the C11 way (static callees, the
// package's own interfaces, function values in locals, parameters, fields and package variables).
type c11examiner struct {
	memo map[*ssa.Function]int // 0 unknown, 1 in progress / no, 2 yes
	must map[*ssa.Function]int // mustExamine: 0 unknown, 1 in progress / no, 2 yes
}

// receives: the instruction takes a value of certificate material (or certificates) from a channel.
func c11receivesMaterial(i ssa.Instruction) bool {
	chanOf := func(v ssa.Value) bool {
		ch, ok := v.Type().Underlying().(*types.Chan)
		return ok && (c11isMaterial(ch.Elem(), 0) || c11isCertSlice(ch.Elem()))
	}
	switch x := i.(type) {
	case *ssa.UnOp:
		return x.Op == token.ARROW && chanOf(x.X)
	case *ssa.Select:
		for _, st := range x.States {
			if st.Dir == types.RecvOnly && chanOf(st.Chan) {
				return true
			}
		}
	}
	return false
}

// examines: i is a call (not go / defer) that may read the source. lenient: a call of a function value nobody can
// resolve counts as well (benefit of the doubt).
func (e *c11examiner) examines(i ssa.Instruction, lenient bool) bool {
	call, ok := i.(*ssa.Call)
	if !ok {
		return false
	}
	cc := &call.Call
	names := c11calleeNames(cc)
	for _, n := range names {
		if c11isSourceRead(n) {
			return true
		}
	}
	if c11isReaderInvoke(cc) {
		return true
	}
	fns := c11callees(cc)
	if cc.IsInvoke() && len(fns) == 0 {
		fns = c11implementationsOf(cc, true)
	}
	for _, g := range fns {
		if e.mayExamine(g) {
			return true
		}
	}
	if lenient && !cc.IsInvoke() && cc.StaticCallee() == nil && len(names) == 0 {
		if _, isBuiltin := cc.Value.(*ssa.Builtin); !isBuiltin {
			return true
		}
	}
	return false
}

// surely: i examines the source whenever it is executed - a library read, a call of a loader (a repository function with
// a material result that may examine a source: it is judged on its own by L6), or a call of a helper WITHOUT a material
// result (a step, poll or fetch method, a signature helper) that does so on every path from its entry to a return. A
// helper that examines on some of its paths only (`if !stamp.changed(path) { return }` in front of the load) is no
// examination: the cycle, or the loader's path, that goes through it may have looked at nothing. A function value nobody
// can resolve gets the benefit of the doubt.
func (e *c11examiner) surely(i ssa.Instruction) bool { return e.surelyAt(i, 0) }

func (e *c11examiner) surelyAt(i ssa.Instruction, depth int) bool {
	call, ok := i.(*ssa.Call)
	if !ok {
		return false
	}
	cc := &call.Call
	names := c11calleeNames(cc)
	for _, n := range names {
		if c11isSourceRead(n) {
			return true
		}
	}
	if c11isReaderInvoke(cc) {
		return true
	}
	fns := c11callees(cc)
	if cc.IsInvoke() && len(fns) == 0 {
		fns = c11implementationsOf(cc, true)
	}
	if len(fns) == 0 {
		if !cc.IsInvoke() && cc.StaticCallee() == nil && len(names) == 0 {
			_, isBuiltin := cc.Value.(*ssa.Builtin)
			return !isBuiltin
		}
		return false
	}
	for _, g := range fns {
		if len(c11materialResults(g)) > 0 {
			if !e.mayExamine(g) && !e.callsUnknown(g) {
				return false
			}
			continue
		}
		if !e.mustExamine(g, depth+1) {
			return false
		}
	}
	return true
}

// callsUnknown: fn calls a function value nobody can resolve (an adapter type `func (f loaderFunc) loadPEM(p) { return
// f(p) }` reached through an interface only): benefit of the doubt.
func (e *c11examiner) callsUnknown(fn *ssa.Function) bool {
	hit := false
	eachInstr(fn, func(i ssa.Instruction) {
		if !hit && e.examines(i, true) {
			hit = true
		}
	})
	return hit
}

// mustExamine: every path from fn's entry to a return passes an instruction that surely examines the source.
func (e *c11examiner) mustExamine(fn *ssa.Function, depth int) bool {
	if fn == nil || len(fn.Blocks) == 0 || depth > 4 {
		return false
	}
	if e.must == nil {
		e.must = map[*ssa.Function]int{}
	}
	if s := e.must[fn]; s != 0 {
		return s == 2
	}
	if !e.mayExamine(fn) {
		e.must[fn] = 1
		return false
	}
	e.must[fn] = 1 // in progress: a recursive call is no examination
	res := 2
	seen := map[*ssa.BasicBlock]bool{fn.Blocks[0]: true}
	stack := []*ssa.BasicBlock{fn.Blocks[0]}
	for len(stack) > 0 && res == 2 {
		b := stack[len(stack)-1]
		stack = stack[:len(stack)-1]
		blocked := false
		for _, in := range b.Instrs {
			if e.surelyAt(in, depth) {
				blocked = true
				break
			}
			if _, isRet := in.(*ssa.Return); isRet {
				res = 1
				break
			}
		}
		if blocked || res != 2 {
			continue
		}
		for _, sc := range b.Succs {
			if !seen[sc] {
				seen[sc] = true
				stack = append(stack, sc)
			}
		}
	}
	if depth <= 1 {
		e.must[fn] = res // deeper verdicts may be cut short by the depth limit: not remembered
	} else {
		delete(e.must, fn)
	}
	return res == 2
}

func (e *c11examiner) mayExamine(fn *ssa.Function) bool {
	if fn == nil || len(fn.Blocks) == 0 {
		return false
	}
	if e.memo == nil {
		e.memo = map[*ssa.Function]int{}
	}
	if s := e.memo[fn]; s != 0 {
		return s == 2
	}
	e.memo[fn] = 1
	hit := false
	eachInstr(fn, func(i ssa.Instruction) {
		if !hit && e.examines(i, false) {
			hit = true
		}
	})
	if hit {
		e.memo[fn] = 2
	}
	return hit
}

// c11reachedUnexamined: is there a path from the entry of target's function to target on which nothing passes?
func c11reachedUnexamined(target ssa.Instruction, pass func(ssa.Instruction) bool) bool {
	fn := target.Parent()
	if fn == nil || len(fn.Blocks) == 0 {
		return false
	}
	seen := map[*ssa.BasicBlock]bool{fn.Blocks[0]: true}
	stack := []*ssa.BasicBlock{fn.Blocks[0]}
	for len(stack) > 0 {
		b := stack[len(stack)-1]
		stack = stack[:len(stack)-1]
		blocked := false
		for _, in := range b.Instrs {
			if in == target {
				return true
			}
			if pass(in) {
				blocked = true
				break
			}
		}
		if blocked {
			continue
		}
		for _, s := range b.Succs {
			if !seen[s] {
				seen[s] = true
				stack = append(stack, s)
			}
		}
	}
	return false
}

// ---- reload loops and their loaders ----------------------------------------------------------------------------------

// c11reloadLoop: a loop of package cert that may send certificates or material on a channel (or is a condition-less loop
// of a function that returns material) and examines a source (or receives material) somewhere in its body.
type c11reloadLoop struct {
	fn *ssa.Function
	l  *loop
}

func c11reloadLoops(c *Ctx, e *c11examiner) []c11reloadLoop {
	sends := func(i ssa.Instruction) bool {
		snd, ok := i.(*ssa.Send)
		return ok && (c11isCertSlice(snd.X.Type()) || c11isMaterial(snd.X.Type(), 0))
	}
	maySend := c11liftMay(sends)
	var out []c11reloadLoop
	for _, f := range c.fnsWhere("cert", func(*ssa.Function) bool { return true }) {
		for _, l := range loopsOf(f) {
			snd, looks := false, false
			for b := range l.Body {
				for _, in := range b.Instrs {
					if maySend(in) {
						snd = true
					}
					if e.examines(in, false) || c11receivesMaterial(in) {
						looks = true
					}
				}
			}
			// a polling loop moved out of the watcher into a function of its own that hands the material back
			// (`next := waitForChange(loadFn, path, last, refresh)`) is the same loop: it sends by returning
			polls := !snd && looks && l.Head.Comment == "for.body" && len(c11materialResults(f)) > 0
			if looks && (snd || polls) {
				out = append(out, c11reloadLoop{f, l})
			}
		}
	}
	return out
}

// c11loopLoaders: the repository functions with a material result that the body of the loop calls, directly or through
// helpers of package cert that have no material result themselves (a poll or step method), and that may examine a
// source (a function that only filters or compares the material it is given is no loader).
func c11loopLoaders(rl c11reloadLoop, e *c11examiner) []*ssa.Function {
	var out []*ssa.Function
	seen := map[*ssa.Function]bool{}
	var visit func(i ssa.Instruction, depth int)
	visit = func(i ssa.Instruction, depth int) {
		call, ok := i.(*ssa.Call)
		if !ok {
			return
		}
		fns := c11callees(&call.Call)
		if call.Call.IsInvoke() && len(fns) == 0 {
			fns = c11implementationsOf(&call.Call, true)
		}
		for _, g := range fns {
			if g == nil || seen[g] || len(g.Blocks) == 0 {
				continue
			}
			seen[g] = true
			if len(c11materialResults(g)) > 0 {
				if e.mayExamine(g) {
					out = append(out, g)
				}
				continue
			}
			if depth < 2 && rootPkg(g) == rootPkg(rl.fn) {
				eachInstr(g, func(j ssa.Instruction) { visit(j, depth+1) })
			}
		}
	}
	for _, b := range rl.fn.Blocks { // in block order: deterministic
		if !rl.l.Body[b] {
			continue
		}
		for _, in := range b.Instrs {
			visit(in, 0)
		}
	}
	return out
}

// ---- L6: what a loader returns was read in this call ----------------------------------------------------------------

// c11stale is one way remembered material reaches a return of a loader without the source having been examined.
type c11stale struct {
	at   ssa.Instruction // the innermost return / store / edge the value passes
	what string          // the memory it comes from
}

type c11freshWalk struct {
	e      *c11examiner
	seen   map[ssa.Value]bool
	frames []*ssa.Function   // the loader and the helpers entered below it
	calls  []*ssa.Call       // calls[k] entered frames[k+1]
	marks  []ssa.Instruction // the instructions the value passes on its way to the loader's return
	stale  []c11stale
}

func (w *c11freshWalk) inFrames(fn *ssa.Function) int {
	for k := len(w.frames) - 1; k >= 0; k-- {
		if w.frames[k] == fn {
			return k
		}
	}
	return -1
}

// remembered: the value comes from memory that outlives the call. It is stale when every instruction it passed on its
// way out can be reached from the entry of its function without the source having been examined.
func (w *c11freshWalk) remembered(what string) {
	pass := w.e.surely
	for _, m := range w.marks {
		if !c11reachedUnexamined(m, pass) {
			return
		}
	}
	w.stale = append(w.stale, c11stale{w.marks[len(w.marks)-1], what})
}

func (w *c11freshWalk) with(m ssa.Instruction, f func()) {
	w.marks = append(w.marks, m)
	f()
	w.marks = w.marks[:len(w.marks)-1]
}

func c11lastInstr(b *ssa.BasicBlock) ssa.Instruction {
	if b == nil || len(b.Instrs) == 0 {
		return nil
	}
	return b.Instrs[len(b.Instrs)-1]
}

// origins follows the IDENTITY of v backwards (the value itself, what it is an element or a field of, what it was copied
// from) - not what its content was computed from.
func (w *c11freshWalk) origins(v ssa.Value, deref bool, depth int) {
	if v == nil || depth > 14 || w.seen[v] {
		return
	}
	w.seen[v] = true
	defer delete(w.seen, v)
	switch x := v.(type) {
	case *ssa.Phi:
		for k, edge := range x.Edges {
			if t := c11lastInstr(x.Block().Preds[k]); t != nil {
				edge := edge
				w.with(t, func() { w.origins(edge, deref, depth+1) })
			}
		}
	case *ssa.Extract:
		if call, ok := x.Tuple.(*ssa.Call); ok {
			w.call(call, x.Index, deref, depth)
			return
		}
		w.origins(x.Tuple, deref, depth+1)
	case *ssa.Call:
		w.call(x, 0, deref, depth)
	case *ssa.Lookup:
		w.origins(x.X, true, depth+1)
	case *ssa.Index:
		w.origins(x.X, true, depth+1)
	case *ssa.IndexAddr:
		w.origins(x.X, true, depth+1)
	case *ssa.Field:
		w.origins(x.X, true, depth+1)
	case *ssa.FieldAddr:
		w.origins(x.X, true, depth+1)
	case *ssa.Slice:
		w.origins(x.X, deref, depth+1)
	case *ssa.ChangeType:
		w.origins(x.X, deref, depth+1)
	case *ssa.Convert:
		w.origins(x.X, deref, depth+1)
	case *ssa.MakeInterface:
		w.origins(x.X, deref, depth+1)
	case *ssa.TypeAssert:
		w.origins(x.X, deref, depth+1)
	case *ssa.UnOp:
		if x.Op == token.MUL {
			if fa, isField := x.X.(*ssa.FieldAddr); isField && w.writtenInThisCall(x, fa, deref, depth) {
				return
			}
			w.origins(x.X, deref, depth+1) // a load of a cell is the value kept there, not a part of something
		}
	case *ssa.Alloc:
		// a local cell or struct: whatever this call stored into it (or into its fields and elements)
		if refs := x.Referrers(); refs != nil {
			for _, r := range *refs {
				switch y := r.(type) {
				case *ssa.Store:
					if y.Addr == ssa.Value(x) {
						w.with(y, func() { w.origins(y.Val, deref, depth+1) })
					}
				case *ssa.FieldAddr, *ssa.IndexAddr:
					for _, r2 := range *y.(ssa.Value).Referrers() {
						if st, ok := r2.(*ssa.Store); ok && st.Addr == y.(ssa.Value) {
							w.with(st, func() { w.origins(st.Val, deref, depth+1) })
						}
					}
				}
			}
		}
	case *ssa.Global:
		w.remembered("package variable " + x.Name())
	case *ssa.FreeVar:
		fn := x.Parent()
		if fn == nil || fn.Parent() == nil {
			return
		}
		if w.inFrames(fn.Parent()) < 0 {
			w.remembered("variable " + x.Name() + " captured from " + fnKey(fn.Parent()) + ", which is not part of this call")
			return
		}
		// the cell belongs to a function of this call: what that function (and this closure) stored into it
		for k, fv := range fn.FreeVars {
			if fv != x {
				continue
			}
			eachInstr(fn.Parent(), func(i ssa.Instruction) {
				if mc, ok := i.(*ssa.MakeClosure); ok && mc.Fn == ssa.Value(fn) && k < len(mc.Bindings) {
					w.origins(mc.Bindings[k], deref, depth+1)
				}
			})
		}
		for _, r := range *x.Referrers() {
			if st, ok := r.(*ssa.Store); ok && st.Addr == ssa.Value(x) {
				w.with(st, func() { w.origins(st.Val, deref, depth+1) })
			}
		}
	case *ssa.Parameter:
		fn := x.Parent()
		k := w.inFrames(fn)
		if k <= 0 {
			if k == 0 && deref {
				w.remembered("a field or element of parameter " + x.Name() + " of " + fnKey(fn) + ", which outlives the call")
			}
			return
		}
		// a helper's parameter: the argument at the call this walk came in through
		call := w.calls[k-1]
		if call == nil {
			// a frame entered for a store it makes (writtenInThisCall): its parameters are as opaque as the loader's
			if deref {
				w.remembered("a field or element of parameter " + x.Name() + " of " + fnKey(fn) + ", which outlives the call")
			}
			return
		}
		args := call.Call.Args
		off := 0
		if call.Call.IsInvoke() {
			off = 1
		}
		for p, q := range fn.Params {
			if q != x {
				continue
			}
			if call.Call.IsInvoke() && p == 0 {
				w.origins(call.Call.Value, deref, depth+1)
			} else if p-off >= 0 && p-off < len(args) && len(fn.Params)-off == len(args) {
				w.origins(args[p-off], deref, depth+1)
			}
		}
	}
}

// writtenInThisCall: ld loads field fa of something handed in, but every way to it - in its own function, or in one of
// the frames above it up to the call that entered it - passes a store into that field (of the same struct type; directly
// or in a helper that stores on all its paths): a loader type that keeps its result in a field (`l.blocks = map...;
// filepath.Walk(root, l.visit); return l.blocks`, `w.fetch(); return w.next`). What the field holds was put there in
// this call, so the value is as old as what was stored: the origins of every value stored into that field by the
// functions of this call, and - judged on their own - by the other functions of the repository.
func (w *c11freshWalk) writtenInThisCall(ld *ssa.UnOp, fa *ssa.FieldAddr, deref bool, depth int) bool {
	k := w.inFrames(ld.Parent())
	if k < 0 {
		return false
	}
	key := c11fieldKey(fa.X.Type(), fa.Field)
	stores := c11storeIdx().fields[key]
	if len(stores) == 0 {
		return false
	}
	isStore := func(i ssa.Instruction) bool {
		st, ok := i.(*ssa.Store)
		if !ok {
			return false
		}
		a, ok := st.Addr.(*ssa.FieldAddr)
		return ok && c11fieldKey(a.X.Type(), a.Field) == key
	}
	defines := liftMust(isStore, 1)
	covered := false
	var target ssa.Instruction = ld
	for ; k >= 0; k-- {
		if !c11reachedUnexamined(target, defines) {
			covered = true
			break
		}
		if k == 0 || w.calls[k-1] == nil {
			break
		}
		target = w.calls[k-1]
	}
	if !covered {
		return false
	}
	for _, st := range stores {
		st := st
		if st.Val == ssa.Value(ld) {
			continue // x.f = x.f
		}
		if w.inFrames(st.Parent()) >= 0 {
			w.with(st, func() { w.origins(st.Val, deref, depth+1) })
			continue
		}
		if len(w.frames) > 5 {
			continue
		}
		// a store made by another function (a helper of this call, or unrelated code): judged in a frame of its own
		w.frames = append(w.frames, st.Parent())
		w.calls = append(w.calls, nil)
		w.with(st, func() { w.origins(st.Val, deref, depth+1) })
		w.calls = w.calls[:len(w.calls)-1]
		w.frames = w.frames[:len(w.frames)-1]
	}
	return true
}

// call: the value is result idx of call. A copy made by a library function is as old as what it copies.
func (w *c11freshWalk) call(call *ssa.Call, idx int, deref bool, depth int) {
	n := calleeName(&call.Call)
	if strings.HasPrefix(n, "builtin.") || strings.HasPrefix(n, "maps.") || strings.HasPrefix(n, "slices.") || strings.HasPrefix(n, "bytes.") {
		for _, a := range call.Call.Args {
			if c11isMaterial(a.Type(), 0) {
				w.origins(a, false, depth+1)
			}
		}
		return
	}
	fns := c11callees(&call.Call)
	if call.Call.IsInvoke() && len(fns) == 0 {
		fns = c11implementationsOf(&call.Call, true)
	}
	for _, g := range fns {
		if g == nil || len(g.Blocks) == 0 || w.inFrames(g) >= 0 || len(w.frames) > 5 {
			continue
		}
		w.frames = append(w.frames, g)
		w.calls = append(w.calls, call)
		w.marks = append(w.marks, call)
		eachInstr(g, func(i ssa.Instruction) {
			if r, ok := i.(*ssa.Return); ok && idx < len(r.Results) {
				w.with(r, func() { w.origins(r.Results[idx], deref, depth+1) })
			}
		})
		w.marks = w.marks[:len(w.marks)-1]
		w.calls = w.calls[:len(w.calls)-1]
		w.frames = w.frames[:len(w.frames)-1]
	}
}

const c11L6msg = "a loader called from a reload loop must read the source in every call: material remembered from an earlier call " +
	"(a captured variable, a package variable, a field) may be returned only on a path that has examined the source's content " +
	"in this call (walked or listed the directory, read the files, queried the server). A validity test on less - the " +
	"directory's modification time does not change when a file in it is rewritten in place or a sub-directory changes - " +
	"makes the loop compare the old material with itself: a renewed certificate, or a repaired PEM file, is never published " +
	"and the listener serves the old certificate until restart"

func runC11L6(c *Ctx) {
	c11useCtx(c)
	e := &c11examiner{}
	n := 0
	done := map[*ssa.Function]bool{}
	for _, rl := range c11reloadLoops(c, e) {
		for _, ld := range c11loopLoaders(rl, e) {
			if done[ld] {
				continue
			}
			done[ld] = true
			n++
			w := &c11freshWalk{e: e, seen: map[ssa.Value]bool{}, frames: []*ssa.Function{ld}}
			for _, idx := range c11materialResults(ld) {
				eachInstr(ld, func(i ssa.Instruction) {
					if r, ok := i.(*ssa.Return); ok && idx < len(r.Results) {
						w.with(r, func() { w.origins(r.Results[idx], false, 0) })
					}
				})
			}
			pos, detail := ld.Pos(), c11L6msg
			if len(w.stale) > 0 {
				pos = w.stale[0].at.Pos()
				if !pos.IsValid() {
					pos = ld.Pos()
				}
				detail = "returns " + w.stale[0].what + " without having examined the source in this call; " + c11L6msg
			}
			c.check("C11.L6", fnKey(ld)+"|material handed to the reload loop is read from the source in this call", pos, len(w.stale) == 0, detail)
		}
	}
	c.atLeast("C11.L6", "loaders of certificate material called from reload loops of package cert", n, 1)
}

// ---- L7: every cycle of a reload loop looks at the source ------------------------------------------------------------

// c11edgeExamined: block b of loop l ends in a branch on the verdict of a helper called in this cycle (`for !w.step() {}`,
// `if w.step() { return }`), and every path of that helper to a return carrying the verdict of edge k has examined the
// source: a helper that returns at once with the verdict that ends the loop (watcher stopped, context cancelled) does
// not make the other cycles blind.
func c11edgeExamined(e *c11examiner, l *loop, b *ssa.BasicBlock, k int) bool {
	if len(b.Instrs) == 0 || len(b.Succs) != 2 || b.Succs[0] == b.Succs[1] {
		return false
	}
	iff, isIf := b.Instrs[len(b.Instrs)-1].(*ssa.If)
	if !isIf {
		return false
	}
	for _, f := range appendCondFacts(nil, iff.Cond, k == 0, 0) {
		v, idx := f.Cond, 0
		if x, isX := v.(*ssa.Extract); isX {
			v, idx = x.Tuple, x.Index
		}
		call, isCall := v.(*ssa.Call)
		if !isCall || !l.Body[call.Block()] {
			continue
		}
		h := c11callee(&call.Call)
		if h == nil || len(c11materialResults(h)) > 0 {
			continue
		}
		if c11allWaysToVerdict(h, idx, f.Truth, e.surely) {
			return true
		}
	}
	return false
}

func runC11L7(c *Ctx) {
	c11useCtx(c)
	e := &c11examiner{}
	loops := c11reloadLoops(c, e)
	for _, rl := range loops {
		looks := func(i ssa.Instruction) bool { return e.surely(i) || c11receivesMaterial(i) }
		// a cycle head -> head on which nothing looks at the source
		var witness ssa.Instruction
		seen := map[*ssa.BasicBlock]bool{}
		stack := []*ssa.BasicBlock{rl.l.Head}
		for len(stack) > 0 && witness == nil {
			b := stack[len(stack)-1]
			stack = stack[:len(stack)-1]
			blocked := false
			for _, in := range b.Instrs {
				if looks(in) {
					blocked = true
					break
				}
			}
			if blocked {
				continue
			}
			for k, s := range b.Succs {
				switch {
				case c11edgeExamined(e, rl.l, b, k):
					// the verdict of a step helper on this edge says it has examined the source
				case s == rl.l.Head:
					witness = c11lastInstr(b)
				case rl.l.Body[s] && !seen[s]:
					seen[s] = true
					stack = append(stack, s)
				}
			}
		}
		pos := rl.l.Head.Instrs[0].Pos()
		if witness != nil {
			for _, in := range witness.Block().Instrs {
				if in.Pos().IsValid() {
					pos = in.Pos()
				}
			}
		}
		if !pos.IsValid() {
			pos = rl.fn.Pos()
		}
		c.check("C11.L7", fnKey(rl.fn)+"|every cycle of the reload loop examines the source", pos, witness == nil,
			"a loop that publishes certificate sets must look at its source in every cycle (call the loader, query the server, receive from the material channel): "+
				"a cycle that goes round without it - the load skipped because a cheap test such as the directory's modification time says 'unchanged' - "+
				"never sees a certificate renewed in place or a PEM file repaired in place, so the new set does not take effect until restart")
	}
	c11debugObs(c, "C11.L6", "C11.L7")
	c.atLeast("C11.L7", "reload loops of package cert (loops that examine a source and send certificates or material)", len(loops), 1)
}

// c11debugObs: development aid (C11_DEBUG=1) - the obligations of the given rules of this run.
func c11debugObs(c *Ctx, rules ...string) {
	if os.Getenv("C11_DEBUG") == "" {
		return
	}
	for _, o := range c.Obs {
		for _, r := range rules {
			if o.Rule == r {
				fmt.Fprintf(os.Stderr, "C11_DEBUG %s %s [%s] at %s\n", o.Status, o.Rule, o.Construct, o.Pos)
			}
		}
	}
}
