package main

// C05.D1: wherever targets are REMOVED from a route, every path to return continues with (RB) a full pass over the
// table that replaces each host's route list by one without target-less routes, and then (DR) a full pass that
// deletes the hosts without routes (or one merged pass doing both).
//
// Nothing is anchored on a function name:
//   * a removal is a store to Route.Targets that is not an append to the same field (Route.filter today, but equally
//     slices.DeleteFunc, an inlined loop ...), in whatever function it sits;
//   * the obligation travels up the static call sites (filter -> delRoute -> ...) until a frame is found in which
//     every path from the removing call to return runs RB and then DR; each of the two may be a loop in that frame,
//     a helper that does it on all of its paths (summaries are composed: helper with both loops, one helper per
//     loop, deferred call), or - for DR - maps.DeleteFunc;
//   * RB and DR are recognised by what they do, not by their shape: see c05Cleanup.rangeEvents.

import (
	"go/token"
	"go/types"

	"golang.org/x/tools/go/ssa"
)

// ---- emptiness tests -------------------------------------------------------------------------------------------

// c05CmpZero: cond compares a value with the constant 0 / 1 (or a slice with nil) such that one outcome means
// "subject is zero". Returns the subject and whether cond==true means zero.
func c05CmpZero(cond ssa.Value) (subject ssa.Value, zeroWhenTrue bool, ok bool) {
	b, isB := cond.(*ssa.BinOp)
	if !isB {
		return nil, false, false
	}
	x, y, op := b.X, b.Y, b.Op
	if _, isK := x.(*ssa.Const); isK {
		// mirror: 0 < n  ==  n > 0
		x, y = y, x
		switch op {
		case token.LSS:
			op = token.GTR
		case token.GTR:
			op = token.LSS
		case token.LEQ:
			op = token.GEQ
		case token.GEQ:
			op = token.LEQ
		}
	}
	if isNilConst(y) {
		if _, isSlice := x.Type().Underlying().(*types.Slice); !isSlice {
			return nil, false, false
		}
		switch op {
		case token.EQL:
			return x, true, true
		case token.NEQ:
			return x, false, true
		}
		return nil, false, false
	}
	k, isK := constInt(y)
	if !isK {
		return nil, false, false
	}
	switch {
	case op == token.EQL && k == 0, op == token.LEQ && k == 0, op == token.LSS && k == 1:
		return x, true, true
	case op == token.NEQ && k == 0, op == token.GTR && k == 0, op == token.GEQ && k == 1:
		return x, false, true
	}
	return nil, false, false
}

// emptyDesc describes the subject of an emptiness test: len(root) when field == "", len(root.<field>) otherwise.
type emptyDesc struct {
	root  ssa.Value
	field string
}

// c05EmptyTest: cond tests whether a list is empty, directly (len(x) == 0, len(r.Targets) > 0, x == nil) or through a
// one-line repository predicate (r.empty(), r.hasTargets()). emptyWhenTrue: cond==true means the list is empty.
func c05EmptyTest(cond ssa.Value, depth int) (d emptyDesc, emptyWhenTrue bool, ok bool) {
	if u, isU := cond.(*ssa.UnOp); isU && u.Op == token.NOT {
		d, e, ok := c05EmptyTest(u.X, depth)
		return d, !e, ok
	}
	if subj, zero, isCmp := c05CmpZero(cond); isCmp {
		list := subj
		if call, isCall := subj.(*ssa.Call); isCall {
			if calleeName(&call.Call) != "builtin.len" || len(call.Call.Args) != 1 {
				return emptyDesc{}, false, false
			}
			list = call.Call.Args[0]
		} else if _, isSlice := subj.Type().Underlying().(*types.Slice); !isSlice {
			return emptyDesc{}, false, false
		}
		return c05ListDesc(list), zero, true
	}
	// predicate helper
	call, isCall := cond.(*ssa.Call)
	if !isCall || depth > 1 {
		return emptyDesc{}, false, false
	}
	sc := call.Call.StaticCallee()
	if sc == nil || !isRepoFn(sc) || len(sc.Blocks) == 0 || sc.Signature.Results().Len() != 1 {
		return emptyDesc{}, false, false
	}
	var res emptyDesc
	var pol, found, bad bool
	eachInstr(sc, func(i ssa.Instruction) {
		r, isR := i.(*ssa.Return)
		if !isR {
			return
		}
		d, e, ok := c05EmptyTest(r.Results[0], depth+1)
		p, isP := d.root.(*ssa.Parameter)
		if !ok || !isP || (found && (e != pol || d != res)) {
			bad = true
			return
		}
		_ = p
		res, pol, found = d, e, true
	})
	if bad || !found {
		return emptyDesc{}, false, false
	}
	for j, p := range sc.Params {
		if ssa.Value(p) == res.root && j < len(call.Call.Args) {
			return emptyDesc{call.Call.Args[j], res.field}, pol, true
		}
	}
	return emptyDesc{}, false, false
}

func c05ListDesc(list ssa.Value) emptyDesc {
	if u, ok := list.(*ssa.UnOp); ok && u.Op == token.MUL {
		if fa, ok := u.X.(*ssa.FieldAddr); ok {
			return emptyDesc{fa.X, fieldName(fa.X.Type(), fa.Field)}
		}
	}
	if f, ok := list.(*ssa.Field); ok {
		return emptyDesc{f.X, fieldName(f.X.Type(), f.Field)}
	}
	return emptyDesc{list, ""}
}

func c05SameVal(a, b ssa.Value) bool {
	if a == b {
		return true
	}
	if a == nil || b == nil {
		return false
	}
	_, ca := a.(*ssa.Call)
	_, cb := b.(*ssa.Call)
	if ca || cb {
		return false // two calls are two values
	}
	return accessPath(a) == accessPath(b)
}

// c05Fact is a branch condition together with the block that branches.
type c05Fact struct {
	Cond  ssa.Value
	Truth bool
	At    *ssa.BasicBlock
}

func c05LocalFacts(b *ssa.BasicBlock) []c05Fact {
	var out []c05Fact
	for cur := b; cur != nil; cur = cur.Idom() {
		if len(cur.Preds) != 1 {
			continue
		}
		p := cur.Preds[0]
		if len(p.Instrs) == 0 {
			continue
		}
		iff, ok := p.Instrs[len(p.Instrs)-1].(*ssa.If)
		if !ok || p.Succs[0] == p.Succs[1] {
			continue
		}
		out = append(out, c05Fact{iff.Cond, p.Succs[0] == cur, p})
	}
	return out
}

// ---- the cleanup passes -----------------------------------------------------------------------------------------

type c05Cleanup struct {
	c        *Ctx
	listMemo map[ssa.Value]int
	ctx      map[*ssa.Parameter][]*ssa.Function // predicate parameters of the helper being looked into -> the functions passed
	evMemo   map[ssa.Instruction][2]bool
	sumMemo  map[c05SumKey]*[3]bool
}

type c05SumKey struct {
	fn *ssa.Function
	s  int
}

// nonEmptyList: v is a route list from which the routes without targets were left out - built by appending only
// elements known to have targets to an empty list, or by slices.DeleteFunc with an is-empty predicate, or returned by
// a repository helper for which the same holds.
func (d *c05Cleanup) nonEmptyList(v ssa.Value, depth int) bool {
	if depth > 12 || v == nil {
		return false
	}
	if st, seen := d.listMemo[v]; seen {
		return st != 2
	}
	d.listMemo[v] = 1
	res := d.nonEmptyList1(v, depth)
	if res {
		d.listMemo[v] = 3
	} else {
		d.listMemo[v] = 2
	}
	return res
}

func c05IsRoutes(t types.Type) bool {
	s, ok := t.Underlying().(*types.Slice)
	return ok && namedIs(s.Elem(), "route.Route")
}

func (d *c05Cleanup) nonEmptyList1(v ssa.Value, depth int) bool {
	if !c05IsRoutes(v.Type()) {
		return false
	}
	switch x := v.(type) {
	case *ssa.Const:
		return x.Value == nil // nil list
	case *ssa.Phi:
		for _, e := range x.Edges {
			if !d.nonEmptyList(e, depth+1) {
				return false
			}
		}
		return true
	case *ssa.ChangeType:
		return d.nonEmptyList(x.X, depth+1)
	case *ssa.Convert:
		return d.nonEmptyList(x.X, depth+1)
	case *ssa.MakeSlice:
		n, ok := constInt(x.Len)
		return ok && n == 0
	case *ssa.Slice:
		// routes[:0] - the in-place filter idiom
		if x.High != nil {
			if n, ok := constInt(x.High); ok && n == 0 {
				return true
			}
		}
		if arr, ok := x.X.(*ssa.Alloc); ok && x.High == nil && x.Low == nil {
			// literal Routes{a, b}: every element must be known to have targets
			return d.elemsHaveTargets(arr, x.Block())
		}
		return false
	case *ssa.UnOp:
		if x.Op == token.MUL {
			switch a := x.X.(type) {
			case *ssa.Alloc, *ssa.FreeVar:
				vals, ok := c05CellStores(a)
				if !ok || len(vals) == 0 {
					return false
				}
				for _, sv := range vals {
					if !d.nonEmptyList(sv, depth+1) {
						return false
					}
				}
				return true
			}
		}
		return false
	case *ssa.Call:
		n := c05Name(&x.Call)
		switch {
		case n == "builtin.append":
			if !d.nonEmptyList(x.Call.Args[0], depth+1) {
				return false
			}
			if len(x.Call.Args) < 2 {
				return true
			}
			sl, ok := x.Call.Args[1].(*ssa.Slice)
			if !ok {
				return d.nonEmptyList(x.Call.Args[1], depth+1) // append(a, b...) of two filtered lists
			}
			arr, ok := sl.X.(*ssa.Alloc)
			if !ok {
				return false // append(rt[:i], rt[i+1:]...): in-place deletion, not a filter
			}
			return d.elemsHaveTargets(arr, x.Block())
		case n == "slices.DeleteFunc" && len(x.Call.Args) == 2:
			fns := funcsOf(x.Call.Args[1])
			if len(fns) == 0 {
				return false
			}
			for _, p := range fns {
				if !c05PredIsEmpty(p, 0, "Targets") {
					return false
				}
			}
			return true
		case n == "slices.Clone" || n == "slices.Clip" || n == "slices.Compact":
			return len(x.Call.Args) > 0 && d.nonEmptyList(x.Call.Args[0], depth+1)
		}
		if sc := x.Call.StaticCallee(); sc != nil && isRepoFn(sc) && len(sc.Blocks) > 0 && sc.Signature.Results().Len() == 1 {
			// predicates handed to a keep/filter helper are judged in the helper's body
			ctx := map[*ssa.Parameter][]*ssa.Function{}
			for j, a := range x.Call.Args {
				if _, isFn := a.Type().Underlying().(*types.Signature); isFn && j < len(sc.Params) {
					if fns := funcsOf(a); len(fns) > 0 {
						ctx[sc.Params[j]] = fns
					}
				}
			}
			if len(ctx) > 0 {
				savedCtx, savedMemo := d.ctx, d.listMemo
				d.ctx, d.listMemo = ctx, map[ssa.Value]int{}
				defer func() { d.ctx, d.listMemo = savedCtx, savedMemo }()
			}
			ok, m := true, 0
			eachInstr(sc, func(i ssa.Instruction) {
				if r, isR := i.(*ssa.Return); isR {
					m++
					if !d.nonEmptyList(r.Results[0], depth+1) {
						ok = false
					}
				}
			})
			return ok && m > 0
		}
	}
	return false
}

// elemsHaveTargets: every route stored into the (variadic) array is known, at block at, to have targets.
func (d *c05Cleanup) elemsHaveTargets(arr *ssa.Alloc, at *ssa.BasicBlock) bool {
	n := 0
	ok := true
	for _, r := range *arr.Referrers() {
		ia, isIA := r.(*ssa.IndexAddr)
		if !isIA {
			continue
		}
		for _, r2 := range *ia.Referrers() {
			st, isSt := r2.(*ssa.Store)
			if !isSt {
				continue
			}
			n++
			if !d.knownNonEmpty(st.Block(), st.Val, "Targets") && !d.knownNonEmpty(at, st.Val, "Targets") {
				ok = false
			}
		}
	}
	return ok && n > 0
}

// knownNonEmpty: a branch condition on the way to b says that len(root.<field>) != 0 - an emptiness test, or the
// verdict of a predicate parameter of a generic keep/filter helper, judged by the predicates passed where the helper is
// called (d.ctx).
func (d *c05Cleanup) knownNonEmpty(b *ssa.BasicBlock, root ssa.Value, field string) bool {
	for _, ft := range c05LocalFacts(b) {
		ds, emptyWhenTrue, ok := c05EmptyTest(ft.Cond, 0)
		if ok && ds.field == field && c05SameVal(ds.root, root) && emptyWhenTrue != ft.Truth {
			return true
		}
		call, isCall := ft.Cond.(*ssa.Call)
		if !isCall || call.Call.IsInvoke() || len(call.Call.Args) != 1 || !c05SameVal(call.Call.Args[0], root) {
			continue
		}
		var preds []*ssa.Function
		if p, isP := call.Call.Value.(*ssa.Parameter); isP {
			preds = d.ctx[p]
		} else {
			preds = funcsOf(call.Call.Value)
		}
		all := len(preds) > 0
		for _, pf := range preds {
			e, ok := c05PredPolarity(pf, 0, field)
			if !ok || e == ft.Truth {
				all = false
			}
		}
		if all {
			return true
		}
	}
	return false
}

// c05PredIsEmpty: fn (a predicate handed to slices.DeleteFunc / maps.DeleteFunc) returns true exactly when
// len(param[idx].<field>) == 0 (field "" : len(param[idx]) == 0).
func c05PredIsEmpty(fn *ssa.Function, idx int, field string) bool {
	emptyWhenTrue, ok := c05PredPolarity(fn, idx, field)
	return ok && emptyWhenTrue
}

// c05PredPolarity: fn's boolean result is an emptiness test of len(param[idx].<field>); emptyWhenTrue tells which
// outcome means empty.
func c05PredPolarity(fn *ssa.Function, idx int, field string) (emptyWhenTrue, ok bool) {
	if fn == nil || len(fn.Blocks) == 0 || idx >= len(fn.Params) {
		return false, false
	}
	p := fn.Params[idx]
	ok = true
	n := 0
	set := false
	note := func(e bool) {
		if set && e != emptyWhenTrue {
			ok = false
		}
		emptyWhenTrue, set = e, true
	}
	eachInstr(fn, func(i ssa.Instruction) {
		r, isR := i.(*ssa.Return)
		if !isR || len(r.Results) != 1 {
			return
		}
		n++
		if bv, isK := constBool(r.Results[0]); isK {
			// return true / return false under a branch on the test
			good := false
			for _, ft := range c05LocalFacts(r.Block()) {
				ds, e, isT := c05EmptyTest(ft.Cond, 0)
				if isT && ds.field == field && ds.root == ssa.Value(p) {
					// the list is empty iff e == ft.Truth here, and bv is returned
					note((e == ft.Truth) == bv)
					good = true
					break
				}
			}
			if !good {
				ok = false
			}
			return
		}
		ds, e, isT := c05EmptyTest(r.Results[0], 0)
		if !isT || ds.field != field || ds.root != ssa.Value(p) {
			ok = false
			return
		}
		note(e)
	})
	return emptyWhenTrue, ok && n > 0 && set
}

// loopOfRange: the natural loop driven by the range instruction rg (its header holds the matching next).
func c05LoopOfRange(rg *ssa.Range) (*loop, *ssa.Next) {
	for _, l := range loopsOf(rg.Parent()) {
		for _, in := range l.Head.Instrs {
			if nx, ok := in.(*ssa.Next); ok && nx.Iter == ssa.Value(rg) {
				return l, nx
			}
		}
	}
	return nil, nil
}

func c05LoopKeyVal(nx *ssa.Next) (key, val ssa.Value) {
	for _, r := range *nx.Referrers() {
		if e, ok := r.(*ssa.Extract); ok {
			switch e.Index {
			case 1:
				key = e
			case 2:
				val = e
			}
		}
	}
	return
}

// validDrop: i is delete(T, k) on a route.Table executed only when the host's list is empty - and under no other
// condition inside the loop / helper. merged: the tested list is the freshly filtered list (nonEmptyList), so the
// delete is the "nothing left" arm of a rebuild; otherwise it is the table's current list (range value, t[k]).
func (d *c05Cleanup) validDrop(i ssa.Instruction, l *loop) (valid, merged bool) {
	cc := callCommon(i)
	if cc == nil || calleeName(cc) != "builtin.delete" || len(cc.Args) != 2 || !c05IsTable(cc.Args[0]) {
		return false, false
	}
	if _, isCall := i.(*ssa.Call); !isCall {
		return false, false
	}
	tbl, key := cc.Args[0], cc.Args[1]
	found := false
	heads := map[*ssa.BasicBlock]bool{}
	for _, lp := range loopsOf(i.Parent()) {
		heads[lp.Head] = true
	}
	for _, ft := range c05LocalFacts(i.Block()) {
		if heads[ft.At] || (l != nil && !l.Body[ft.At]) {
			continue // conditions outside the loop and continuation tests of loops (this one, inner ones that ran before) do not select hosts
		}
		ds, emptyWhenTrue, ok := c05EmptyTest(ft.Cond, 0)
		if !ok || ds.field != "" || emptyWhenTrue != ft.Truth {
			return false, false // some other condition decides about the delete
		}
		switch {
		case d.nonEmptyList(ds.root, 0):
			found, merged = true, true
		case c05IsCurrentList(ds.root, tbl, key):
			found = true
		default:
			return false, false
		}
	}
	return found, merged
}

// c05IsCurrentList: list is the table's entry for key: the value of the range that yields key, or t[key].
func c05IsCurrentList(list, tbl, key ssa.Value) bool {
	switch x := list.(type) {
	case *ssa.Extract:
		if nx, ok := x.Tuple.(*ssa.Next); ok && x.Index == 2 {
			if rg, ok := nx.Iter.(*ssa.Range); ok && c05IsTable(rg.X) {
				k, _ := c05LoopKeyVal(nx)
				return k != nil && k == key
			}
		}
	case *ssa.Lookup:
		return c05IsTable(x.X) && c05SameVal(x.X, tbl) && c05SameVal(x.Index, key)
	case *ssa.Phi:
		for _, e := range x.Edges {
			if !c05IsCurrentList(e, tbl, key) {
				return false
			}
		}
		return len(x.Edges) > 0
	}
	return false
}

// events classifies an instruction as the start of a rebuild pass (rb) and / or of a drop pass (dr).
func (d *c05Cleanup) events(i ssa.Instruction) (rb, dr bool) {
	if ev, ok := d.evMemo[i]; ok {
		return ev[0], ev[1]
	}
	switch x := i.(type) {
	case *ssa.Range:
		rb, dr = d.rangeEvents(x)
	case *ssa.Call:
		// maps.DeleteFunc(t, func(_ string, routes Routes) bool { return len(routes) == 0 })
		if c05Name(&x.Call) == "maps.DeleteFunc" && len(x.Call.Args) == 2 && c05IsTable(x.Call.Args[0]) {
			fns := funcsOf(x.Call.Args[1])
			dr = len(fns) > 0
			for _, p := range fns {
				if !c05PredIsEmpty(p, 1, "") {
					dr = false
				}
			}
		}
	}
	d.evMemo[i] = [2]bool{rb, dr}
	return rb, dr
}

// rangeEvents: what a `for host, routes := range t` over a route.Table achieves.
//
//	rb: the loop visits every host (no exit but exhaustion) and every iteration either stores a list without
//	    target-less routes under a key of the table or deletes the host because that list came out empty;
//	dr: the loop visits every host and deletes the host exactly when its list is empty.
func (d *c05Cleanup) rangeEvents(rg *ssa.Range) (rb, dr bool) {
	if !c05IsTable(rg.X) {
		return false, false
	}
	l, nx := c05LoopOfRange(rg)
	if l == nil {
		return false, false
	}
	for b := range l.Body {
		if b == l.Head {
			continue
		}
		for _, sx := range b.Succs {
			if !l.Body[sx] {
				return false, false // break / return: some hosts are not visited
			}
		}
	}
	key, _ := c05LoopKeyVal(nx)
	fn := rg.Parent()
	perHost := func(i ssa.Instruction) bool {
		var lp *loop
		if i.Parent() == fn {
			lp = l
		}
		if mu, ok := i.(*ssa.MapUpdate); ok && c05IsTable(mu.Map) {
			if lp != nil && (key == nil || !c05SameVal(mu.Key, key) || !c05SameVal(mu.Map, rg.X)) {
				return false
			}
			return d.nonEmptyList(mu.Value, 0)
		}
		if valid, merged := d.validDrop(i, lp); valid && merged {
			if lp != nil && (key == nil || !c05SameVal(callCommon(i).Args[1], key)) {
				return false
			}
			return true
		}
		return false
	}
	rb = true
	nBody := 0
	for _, entry := range l.Head.Succs {
		if !l.Body[entry] || entry == l.Head {
			continue
		}
		nBody++
		if pathAvoidingFromBlockTo(entry, l.Head, perHost) {
			rb = false
		}
	}
	if nBody == 0 {
		rb = false
	}
	// drop: a valid delete somewhere in the body (directly or in a helper called from the body)
	isDrop := func(i ssa.Instruction) bool {
		var lp *loop
		if i.Parent() == fn {
			lp = l
		}
		valid, merged := d.validDrop(i, lp)
		if !valid {
			return false
		}
		if merged && !rb {
			return false // "nothing left" arm of a rebuild that is not one
		}
		return true
	}
	lifted := liftMay(isDrop)
	for b := range l.Body {
		for _, in := range b.Instrs {
			if lifted(in) {
				dr = true
			}
		}
	}
	return rb, dr
}

// ---- composing the passes along paths -----------------------------------------------------------------------------

// states: 0 nothing done yet, 1 rebuild pass done, 2 rebuild then drop done.
func c05Step(s int, rb, dr bool) int {
	switch {
	case s == 2 || (rb && dr):
		return 2
	case rb:
		return 1
	case dr && s == 1:
		return 2
	}
	return s
}

// summary: the states in which fn can return when entered in state s.
func (d *c05Cleanup) summary(fn *ssa.Function, s int, depth int) [3]bool {
	var id [3]bool
	id[s] = true
	if fn == nil || len(fn.Blocks) == 0 || depth > 4 {
		return id
	}
	key := c05SumKey{fn, s}
	if m, ok := d.sumMemo[key]; ok {
		if m == nil {
			return id // recursion: no effect assumed
		}
		return *m
	}
	d.sumMemo[key] = nil
	out := d.walk(fn.Blocks[0], 0, s, depth, nil)
	d.sumMemo[key] = &out
	return out
}

// walk explores the paths from instruction index start of block b in state s up to the returns of the function and
// reports the states in which a return is reached.
func (d *c05Cleanup) walk(b0 *ssa.BasicBlock, start int, s0 int, depth int, nilVals map[ssa.Value]bool) (outs [3]bool) {
	type item struct {
		b   *ssa.BasicBlock
		idx int
		s   int
	}
	type bs struct {
		b *ssa.BasicBlock
		s int
	}
	seen := map[bs]bool{}
	stack := []item{{b0, start, s0}}
	fn := b0.Parent()
	for len(stack) > 0 {
		it := stack[len(stack)-1]
		stack = stack[:len(stack)-1]
		s := it.s
		done := false
		for k := it.idx; k < len(it.b.Instrs) && !done; k++ {
			in := it.b.Instrs[k]
			if s == 2 {
				outs[2] = true
				done = true
				break
			}
			switch x := in.(type) {
			case *ssa.Return:
				// deferred calls made on the way run now
				states := [3]bool{}
				states[s] = true
				for _, df := range c05DefersBefore(fn, x) {
					var next [3]bool
					for st := 0; st < 3; st++ {
						if !states[st] {
							continue
						}
						r := d.summary(unwrapCallee(df.Common()), st, depth+1)
						for q := 0; q < 3; q++ {
							next[q] = next[q] || r[q]
						}
					}
					states = next
				}
				for q := 0; q < 3; q++ {
					outs[q] = outs[q] || states[q]
				}
				done = true
			case *ssa.Call:
				rb, dr := d.events(in)
				if rb || dr {
					s = c05Step(s, rb, dr)
					continue
				}
				sc := unwrapCallee(&x.Call)
				if sc == nil || !isRepoFn(sc) || len(sc.Blocks) == 0 {
					continue
				}
				r := d.summary(sc, s, depth+1)
				first := -1
				for q := 0; q < 3; q++ {
					if !r[q] {
						continue
					}
					if first < 0 {
						first = q
					} else {
						stack = append(stack, item{it.b, k + 1, q}) // fork
					}
				}
				if first < 0 {
					done = true // the helper never returns
				} else {
					s = first
				}
			default:
				rb, dr := d.events(in)
				s = c05Step(s, rb, dr)
			}
		}
		if done {
			continue
		}
		if s == 2 {
			outs[2] = true
			continue
		}
		for _, sx := range c05FeasibleSuccs(it.b, nilVals) {
			if !seen[bs{sx, s}] {
				seen[bs{sx, s}] = true
				stack = append(stack, item{sx, 0, s})
			}
		}
	}
	return outs
}

// c05FeasibleSuccs: the successors of b, minus the branch that a value known to be nil rules out (`if err != nil`
// after a helper that returns nil on every path on which it removed targets).
func c05FeasibleSuccs(b *ssa.BasicBlock, nilVals map[ssa.Value]bool) []*ssa.BasicBlock {
	if len(nilVals) == 0 || len(b.Instrs) == 0 || len(b.Succs) != 2 {
		return b.Succs
	}
	iff, ok := b.Instrs[len(b.Instrs)-1].(*ssa.If)
	if !ok {
		return b.Succs
	}
	cond, neg := iff.Cond, false
	for {
		u, isNot := cond.(*ssa.UnOp)
		if !isNot || u.Op != token.NOT {
			break
		}
		cond, neg = u.X, !neg
	}
	bo, ok := cond.(*ssa.BinOp)
	if !ok || (bo.Op != token.EQL && bo.Op != token.NEQ) {
		return b.Succs
	}
	var other ssa.Value
	switch {
	case isNilConst(bo.Y):
		other = bo.X
	case isNilConst(bo.X):
		other = bo.Y
	default:
		return b.Succs
	}
	if !nilVals[other] {
		return b.Succs
	}
	truth := bo.Op == token.EQL // other == nil holds
	if neg {
		truth = !truth
	}
	if truth {
		return b.Succs[:1]
	}
	return b.Succs[1:]
}

// c05NilResultsAfter: the result positions of e's function that are the constant nil at every return reachable from e.
func c05NilResultsAfter(e ssa.Instruction, nilVals map[ssa.Value]bool) map[int]bool {
	fn := e.Parent()
	nres := fn.Signature.Results().Len()
	out := map[int]bool{}
	if nres == 0 {
		return out
	}
	for k := 0; k < nres; k++ {
		out[k] = true
	}
	seen := map[*ssa.BasicBlock]bool{}
	type item struct {
		b   *ssa.BasicBlock
		idx int
	}
	stack := []item{{e.Block(), instrIndex(e) + 1}}
	nret := 0
	for len(stack) > 0 {
		it := stack[len(stack)-1]
		stack = stack[:len(stack)-1]
		for k := it.idx; k < len(it.b.Instrs); k++ {
			if r, ok := it.b.Instrs[k].(*ssa.Return); ok {
				nret++
				for q, res := range r.Results {
					if !isNilConst(res) && !nilVals[res] {
						delete(out, q)
					}
				}
			}
		}
		for _, sx := range c05FeasibleSuccs(it.b, nilVals) {
			if !seen[sx] {
				seen[sx] = true
				stack = append(stack, item{sx, 0})
			}
		}
	}
	if nret == 0 {
		return map[int]bool{}
	}
	return out
}

// c05NilValsAt: the values at call site s that stand for results of the callee known to be nil.
func c05NilValsAt(s ssa.Instruction, nilIdx map[int]bool) map[ssa.Value]bool {
	out := map[ssa.Value]bool{}
	call, ok := s.(*ssa.Call)
	if !ok || len(nilIdx) == 0 {
		return out
	}
	if call.Call.Signature().Results().Len() == 1 {
		if nilIdx[0] {
			out[call] = true
		}
		return out
	}
	for _, r := range *call.Referrers() {
		if ex, ok := r.(*ssa.Extract); ok && nilIdx[ex.Index] {
			out[ex] = true
		}
	}
	return out
}

func unwrapCallee(cc *ssa.CallCommon) *ssa.Function {
	if cc == nil {
		return nil
	}
	sc := cc.StaticCallee()
	if sc == nil {
		return nil
	}
	return unwrap(sc)
}

// c05DefersBefore: the defer instructions of fn that have certainly executed when ret is reached, last first.
func c05DefersBefore(fn *ssa.Function, ret *ssa.Return) []*ssa.Defer {
	var out []*ssa.Defer
	for _, b := range fn.Blocks {
		for _, in := range b.Instrs {
			if df, ok := in.(*ssa.Defer); ok && (b == ret.Block() || b.Dominates(ret.Block())) {
				out = append(out, df)
			}
		}
	}
	for i, j := 0, len(out)-1; i < j; i, j = i+1, j-1 {
		out[i], out[j] = out[j], out[i]
	}
	return out
}

// ---- removals and their frames ------------------------------------------------------------------------------------

// c05TargetsStore classifies a store to Route.Targets of an existing route: growth (append to the same field,
// slices.Insert) or removal (anything else: a filtered clone, slices.DeleteFunc, a re-slice ...).
func c05TargetsStore(i ssa.Instruction) (isStore, removal bool) {
	st, ok := i.(*ssa.Store)
	if !ok {
		return false, false
	}
	base, ok := fieldOf(st.Addr, "route.Route", "Targets")
	if !ok {
		return false, false
	}
	if _, fresh := base.(*ssa.Alloc); fresh {
		return false, false // a route under construction
	}
	if call, ok := st.Val.(*ssa.Call); ok {
		n := c05Name(&call.Call)
		if (n == "builtin.append" || n == "slices.Insert") && len(call.Call.Args) > 0 {
			if _, ok := fieldOf(call.Call.Args[0], "route.Route", "Targets"); ok {
				if _, isLoad := call.Call.Args[0].(*ssa.UnOp); isLoad {
					return true, false
				}
			}
		}
	}
	return true, true
}

// c05Sites: where fn is invoked: its static call sites; for a closure that is only handed out as a value, the
// instruction that makes it (it is invoked by whoever receives it, at about that point).
func c05Sites(fn *ssa.Function) []ssa.Instruction {
	var out []ssa.Instruction
	for _, s := range gSites[fn] {
		if _, isGo := s.(*ssa.Go); isGo {
			continue
		}
		out = append(out, s)
	}
	if len(out) == 0 && fn.Parent() != nil {
		eachInstr(fn.Parent(), func(i ssa.Instruction) {
			if mc, ok := i.(*ssa.MakeClosure); ok && mc.Fn == fn {
				out = append(out, i)
			}
		})
	}
	return out
}

func (d *c05Cleanup) resolvedAfter(e ssa.Instruction, nilVals map[ssa.Value]bool) bool {
	outs := d.walk(e.Block(), instrIndex(e)+1, 0, 0, nilVals)
	return !outs[0] && !outs[1]
}

// resolvedUp: the removal at e is followed by the cleanup in e's function, or in every function that calls it.
// nilVals: values in e's function known to be nil on the paths that come from the removal.
func (d *c05Cleanup) resolvedUp(e ssa.Instruction, nilVals map[ssa.Value]bool, depth int, visiting map[ssa.Instruction]bool) bool {
	if d.resolvedAfter(e, nilVals) {
		return true
	}
	fn := e.Parent()
	if depth >= 4 || visiting[e] {
		return false
	}
	sites := c05Sites(fn)
	if len(sites) == 0 {
		return false // an entry point (or a function only used as a value): nobody left to clean up
	}
	visiting[e] = true
	defer delete(visiting, e)
	nilIdx := c05NilResultsAfter(e, nilVals)
	for _, s := range sites {
		if !d.resolvedUp(s, c05NilValsAt(s, nilIdx), depth+1, visiting) {
			return false
		}
	}
	return true
}

func runC05D1(c *Ctx) {
	const rule = "C05.D1"
	const detail = "after targets were removed from a route, every path to return must run the pass that rebuilds each host's route list without target-less routes and then the pass that deletes hosts without routes; otherwise 'route del' leaves empty routes/hosts behind (they shadow less specific routes and answer 'no route')"
	d := &c05Cleanup{c: c, listMemo: map[ssa.Value]int{}, evMemo: map[ssa.Instruction][2]bool{}, sumMemo: map[c05SumKey]*[3]bool{}}
	nRemovals, nChecked := 0, 0
	// a removal is judged where its list is chosen: at the store, or - for a setter that stores the list it is handed -
	// at the calls of the setter that hand it a list which is not an append to the old one (c05TargetsWrites)
	done := map[ssa.Instruction]bool{}
	for _, w := range c05IndexWrites(c).all {
		if !w.removal || done[w.at] {
			continue
		}
		done[w.at] = true
		st, f := w.at, w.at.Parent()
		nRemovals++
		if d.resolvedAfter(st, nil) {
			nChecked++
			c.check(rule, fnKey(f)+"|removal of targets followed by removal of empty routes and hosts", st.Pos(), true, detail)
			continue
		}
		sites := c05Sites(f)
		if len(sites) == 0 {
			nChecked++
			c.check(rule, fnKey(f)+"|removal of targets followed by removal of empty routes and hosts", st.Pos(), false, detail)
			continue
		}
		// report at the calls that remove targets (r.filter(...) in delRoute), wherever the cleanup is found
		for _, s := range sites {
			nChecked++
			ok := d.resolvedUp(s, c05NilValsAt(s, c05NilResultsAfter(st, nil)), 1, map[ssa.Instruction]bool{})
			c.check(rule, fnKey(s.Parent())+"|removal of targets followed by removal of empty routes and hosts", s.Pos(), ok, detail)
		}
	}
	c.atLeast(rule, "stores that remove targets from Route.Targets", nRemovals, 1)
	c.atLeast(rule, "removals of targets whose continuation was examined", nChecked, 1)
}
