package main

// Rules of C07 added after the fourth round of independently written breaking changes (DESIGN 11.12); wired by
// zzz_round4.go.
//
//   U3  the strip option is decided for Path and for RawPath by the same kind of prefix test
//   R1  fabio changes the response's header map, outside the headers it manages, only where it answers itself

import (
	"fmt"
	"go/token"
	"go/types"
	"os"
	"sort"
	"strings"

	"golang.org/x/tools/go/ssa"
)

func init() {
	const stripOld = "\tif t.StripPath != \"\" && strings.HasPrefix(r.URL.Path, t.StripPath) {\n\t\ttargetURL.Path = targetURL.Path[len(t.StripPath):]\n\t\tif strings.HasPrefix(targetURL.RawPath, t.StripPath) {\n\t\t\ttargetURL.RawPath = targetURL.RawPath[len(t.StripPath):]\n\t\t} else {\n\t\t\ttargetURL.RawPath = \"\"\n\t\t}\n"
	const keyFn = "func key(code int) string {"
	const foldFn = "func hasPrefixFold(s, prefix string) bool {\n\treturn len(s) >= len(prefix) && strings.EqualFold(s[:len(prefix)], prefix)\n}\n\n"
	addRound4("C07", "(U3) every removal of the strip option from the Path of the URL sent upstream and the corresponding removal from its RawPath are decided by the same kind of prefix test of (field, option) - both exact, or both case-folded, or both by the same helper: RawPath is the only carrier of the client's percent-encoding, and where its test is narrower than Path's (Path cut case-insensitively or on a length check, RawPath only on an exact match) a request whose Path is cut falls into the `RawPath = \"\"` fallback and reaches the upstream with %2F, %3A ... decoded.", runC07U3,
		mutant{Name: "Path stripped on a case-folded test (helper), RawPath on an exact one", File: "proxy/http_proxy.go", Old: "strings.HasPrefix(r.URL.Path, t.StripPath) {", New: "hasPrefixFold(r.URL.Path, t.StripPath) {", Expect: "C07.U3", More: []repl{{keyFn, foldFn + keyFn}}},
		mutant{Name: "Path stripped on an inline ToLower test, RawPath on an exact one", File: "proxy/http_proxy.go", Old: "strings.HasPrefix(r.URL.Path, t.StripPath) {", New: "strings.HasPrefix(strings.ToLower(r.URL.Path), strings.ToLower(t.StripPath)) {", Expect: "C07.U3"},
		mutant{Name: "Path stripped on a length check only, RawPath on an exact test", File: "proxy/http_proxy.go", Old: "strings.HasPrefix(r.URL.Path, t.StripPath) {", New: "len(r.URL.Path) >= len(t.StripPath) {", Expect: "C07.U3"},
		mutant{Name: "strip in locals: Path by a folding cut helper, RawPath by CutPrefix", File: "proxy/http_proxy.go", Old: stripOld,
			New:    "\tif rest, ok := cutPrefixFold(r.URL.Path, t.StripPath); ok && t.StripPath != \"\" {\n\t\ttargetURL.Path = rest\n\t\tif rawRest, rawOK := strings.CutPrefix(targetURL.RawPath, t.StripPath); rawOK {\n\t\t\ttargetURL.RawPath = rawRest\n\t\t} else {\n\t\t\ttargetURL.RawPath = \"\"\n\t\t}\n",
			Expect: "C07.U3", More: []repl{{keyFn, "func cutPrefixFold(s, prefix string) (string, bool) {\n\tif len(s) >= len(prefix) && strings.EqualFold(s[:len(prefix)], prefix) {\n\t\treturn s[len(prefix):], true\n\t}\n\treturn s, false\n}\n\n" + keyFn}}},
		mutant{Name: "benign: case-insensitive strip applied to Path and RawPath alike", File: "proxy/http_proxy.go", Old: "strings.HasPrefix(r.URL.Path, t.StripPath) {", New: "hasPrefixFold(r.URL.Path, t.StripPath) {", Expect: "",
			More: []repl{{"\t\tif strings.HasPrefix(targetURL.RawPath, t.StripPath) {", "\t\tif hasPrefixFold(targetURL.RawPath, t.StripPath) {"}, {keyFn, foldFn + keyFn}}},
		mutant{Name: "benign: exact strip spelled with CutPrefix for Path and HasPrefix for RawPath", File: "proxy/http_proxy.go", Old: "\tif t.StripPath != \"\" && strings.HasPrefix(r.URL.Path, t.StripPath) {\n\t\ttargetURL.Path = targetURL.Path[len(t.StripPath):]\n",
			New: "\tif rest, ok := strings.CutPrefix(r.URL.Path, t.StripPath); ok && t.StripPath != \"\" {\n\t\ttargetURL.Path = rest\n", Expect: ""},
		mutant{Name: "benign: one strip helper used for Path and RawPath", File: "proxy/http_proxy.go", Old: stripOld,
			New:    "\tif rest, ok := stripOff(r.URL.Path, t.StripPath); ok && t.StripPath != \"\" {\n\t\ttargetURL.Path = rest\n\t\tif rawRest, rawOK := stripOff(targetURL.RawPath, t.StripPath); rawOK {\n\t\t\ttargetURL.RawPath = rawRest\n\t\t} else {\n\t\t\ttargetURL.RawPath = \"\"\n\t\t}\n",
			Expect: "", More: []repl{{keyFn, "func stripOff(s, prefix string) (string, bool) {\n\tif len(s) >= len(prefix) && s[:len(prefix)] == prefix {\n\t\treturn s[len(prefix):], true\n\t}\n\treturn s, false\n}\n\n" + keyFn}}},
	)

	const authOld = "\tuser, password, ok := request.BasicAuth()\n\n\tif !ok {\n\t\tresponse.Header().Set(\"WWW-Authenticate\", \"Basic realm=\\\"\"+b.realm+\"\\\"\")\n\t\treturn false\n\t}\n\n\treturn b.secrets.Match(user, password)\n"
	addRound4("C07", "(R1) between the entry of ServeHTTP and the hand-over to the handler that talks to the upstream, every change fabio makes to the header map of the client's response writer (Set/Add/Del/index store on w.Header(), in ServeHTTP, in the repository functions the writer is passed to, and in the implementations of the interfaces it is passed through, e.g. the auth schemes) either uses a header fabio manages by configuration (Strict-Transport-Security) or lies on a path on which fabio answers the request itself: no hand-over is reachable from it, every return reachable from it yields - on the paths that come from there - one and the same constant verdict (or a nil target / a non-nil error, also a package-level sentinel that is only ever set to one / constant status codes), and every caller up to ServeHTTP, on that verdict (tested directly, after a merge into a variable, or by a comparison of the status code that comes out the same for every answered status), stops and answers itself - httputil.ReverseProxy ADDS the upstream's headers to what is already in the map, so anything left there on a forwarding path reaches the client as a header the upstream never sent (or in front of the upstream's own values).", runC07R1,
		mutant{Name: "auth scheme sets the challenge before looking at the credentials", File: "auth/basic.go", Old: authOld,
			New: "\tresponse.Header().Set(\"WWW-Authenticate\", \"Basic realm=\\\"\"+b.realm+\"\\\"\")\n\tuser, password, ok := request.BasicAuth()\n\tif !ok {\n\t\treturn false\n\t}\n\n\treturn b.secrets.Match(user, password)\n", Expect: "C07.R1"},
		mutant{Name: "auth scheme sets the challenge through a helper on the way in", File: "auth/basic.go", Old: authOld,
			New:    "\tb.challenge(response.Header())\n\tuser, password, ok := request.BasicAuth()\n\tif !ok {\n\t\treturn false\n\t}\n\n\treturn b.secrets.Match(user, password)\n}\n\nfunc (b *basic) challenge(h http.Header) {\n\th.Set(\"WWW-Authenticate\", \"Basic realm=\\\"\"+b.realm+\"\\\"\")\n",
			Expect: "C07.R1"},
		mutant{Name: "Target.Authorized announces the scheme on the response", File: "route/auth.go", Old: "\treturn scheme.Authorized(r, w)\n", New: "\tw.Header().Set(\"X-Auth-Scheme\", t.AuthScheme)\n\treturn scheme.Authorized(r, w)\n", Expect: "C07.R1"},
		mutant{Name: "ServeHTTP adds a service header to every proxied response", File: "proxy/http_proxy.go", Old: "\t//Add OpenTrace Headers to response\n", New: "\tw.Header().Set(\"X-Fabio-Service\", t.Service)\n\t//Add OpenTrace Headers to response\n", Expect: "C07.R1"},
		mutant{Name: "addResponseHeaders adds a Server header", File: "proxy/http_headers.go", Old: "\tif r.TLS != nil && cfg.STSHeader.MaxAge > 0 {\n", New: "\tw.Header()[\"Server\"] = []string{\"fabio\"}\n\tif r.TLS != nil && cfg.STSHeader.MaxAge > 0 {\n", Expect: "C07.R1"},
		mutant{Name: "the verdict of the scheme is ignored after it wrote the challenge", File: "route/auth.go", Old: "\treturn scheme.Authorized(r, w)\n", New: "\tscheme.Authorized(r, w)\n\treturn true\n", Expect: "C07.R1"},
		mutant{Name: "benign: challenge on both rejecting paths (missing and wrong credentials)", File: "auth/basic.go", Old: authOld,
			New: "\tuser, password, ok := request.BasicAuth()\n\n\tif !ok {\n\t\tresponse.Header().Set(\"WWW-Authenticate\", \"Basic realm=\\\"\"+b.realm+\"\\\"\")\n\t\treturn false\n\t}\n\n\tif !b.secrets.Match(user, password) {\n\t\tresponse.Header().Set(\"WWW-Authenticate\", \"Basic realm=\\\"\"+b.realm+\"\\\"\")\n\t\treturn false\n\t}\n\treturn true\n", Expect: ""},
		mutant{Name: "benign: challenge written by a helper called on the rejecting paths only", File: "auth/basic.go", Old: authOld,
			New:    "\tuser, password, ok := request.BasicAuth()\n\tif !ok || !b.secrets.Match(user, password) {\n\t\tb.challenge(response)\n\t\treturn false\n\t}\n\treturn true\n}\n\nfunc (b *basic) challenge(w http.ResponseWriter) {\n\tw.Header().Set(\"WWW-Authenticate\", \"Basic realm=\\\"\"+b.realm+\"\\\"\")\n",
			Expect: ""},
		mutant{Name: "benign: ServeHTTP writes the challenge itself where it answers 401", File: "proxy/http_proxy.go", Old: "\t\thttp.Error(w, \"authorization failed\", http.StatusUnauthorized)\n", New: "\t\tw.Header().Set(\"X-Auth-Failed\", \"1\")\n\t\thttp.Error(w, \"authorization failed\", http.StatusUnauthorized)\n", Expect: ""},
	)
}

func init() {
	const keyFn = "func key(code int) string {"
	addRound4("C07", "(R2) wherever fabio writes a status or body bytes to the client's response writer itself before the hand-over (WriteHeader / Write on it, http.Error, http.Redirect, io.WriteString, fmt.Fprint ... - in ServeHTTP, in the functions the writer is passed to or carried into, behind interfaces) the request ends there: no hand-over is reachable from the site, every return reachable from it yields one constant verdict on the paths that come from there (or nil target / non-nil error / constant status codes), and every caller up to ServeHTTP stops on that verdict - otherwise the client receives fabio's status with the upstream's body appended instead of the upstream's response, and a request that was refused reaches an upstream.", runC07R2,
		mutant{Name: "access denied is answered but the request goes on", File: "proxy/http_proxy.go", Old: "\t\thttp.Error(w, \"access denied\", http.StatusForbidden)\n\t\treturn\n", New: "\t\thttp.Error(w, \"access denied\", http.StatusForbidden)\n", Expect: "C07.R2"},
		mutant{Name: "bad remote address is answered with 500 but the request goes on", File: "proxy/http_proxy.go", Old: "\t\thttp.Error(w, \"cannot parse \"+r.RemoteAddr, http.StatusInternalServerError)\n\t\treturn\n", New: "\t\thttp.Error(w, \"cannot parse \"+r.RemoteAddr, http.StatusInternalServerError)\n", Expect: "C07.R2"},
		mutant{Name: "auth scheme writes the 401 status itself before looking at the credentials", File: "auth/basic.go", Old: "\tuser, password, ok := request.BasicAuth()\n\n\tif !ok {\n", New: "\tuser, password, ok := request.BasicAuth()\n\tresponse.WriteHeader(http.StatusUnauthorized)\n\tif !ok {\n", Expect: "C07.R2"},
		mutant{Name: "refusing helper answers, caller does not look at its verdict", File: "proxy/http_proxy.go", Old: "\tif t.AccessDeniedHTTP(r) {\n\t\thttp.Error(w, \"access denied\", http.StatusForbidden)\n\t\treturn\n\t}\n", New: "\tp.denied(w, r, t)\n",
			Expect: "C07.R2", More: []repl{{keyFn, "func (p *HTTPProxy) denied(w http.ResponseWriter, r *http.Request, t *route.Target) bool {\n\tif t.AccessDeniedHTTP(r) {\n\t\thttp.Error(w, \"access denied\", http.StatusForbidden)\n\t\treturn true\n\t}\n\treturn false\n}\n\n" + keyFn}}},
		mutant{Name: "refusing helper answers, caller stops on the wrong verdict", File: "proxy/http_proxy.go", Old: "\tif t.AccessDeniedHTTP(r) {\n\t\thttp.Error(w, \"access denied\", http.StatusForbidden)\n\t\treturn\n\t}\n", New: "\tif !p.denied(w, r, t) {\n\t\treturn\n\t}\n",
			Expect: "C07.R2", More: []repl{{keyFn, "func (p *HTTPProxy) denied(w http.ResponseWriter, r *http.Request, t *route.Target) bool {\n\tif t.AccessDeniedHTTP(r) {\n\t\thttp.Error(w, \"access denied\", http.StatusForbidden)\n\t\treturn true\n\t}\n\treturn false\n}\n\n" + keyFn}}},
		mutant{Name: "benign: refusing helper with verdict true = answered, caller returns on it", File: "proxy/http_proxy.go", Old: "\tif t.AccessDeniedHTTP(r) {\n\t\thttp.Error(w, \"access denied\", http.StatusForbidden)\n\t\treturn\n\t}\n", New: "\tif p.denied(w, r, t) {\n\t\treturn\n\t}\n",
			Expect: "", More: []repl{{keyFn, "func (p *HTTPProxy) denied(w http.ResponseWriter, r *http.Request, t *route.Target) bool {\n\tif t.AccessDeniedHTTP(r) {\n\t\thttp.Error(w, \"access denied\", http.StatusForbidden)\n\t\treturn true\n\t}\n\treturn false\n}\n\n" + keyFn}}},
		mutant{Name: "benign: refusals collected in a helper that returns an error, caller answers and returns", File: "proxy/http_proxy.go", Old: "\tif t.AccessDeniedHTTP(r) {\n\t\thttp.Error(w, \"access denied\", http.StatusForbidden)\n\t\treturn\n\t}\n", New: "\tif err := p.refuse(r, t); err != nil {\n\t\thttp.Error(w, err.Error(), http.StatusForbidden)\n\t\treturn\n\t}\n",
			Expect: "", More: []repl{{keyFn, "func (p *HTTPProxy) refuse(r *http.Request, t *route.Target) error {\n\tif t.AccessDeniedHTTP(r) {\n\t\treturn errors.New(\"access denied\")\n\t}\n\treturn nil\n}\n\n" + keyFn}}},
	)
}

// ---- C07.U3 ---------------------------------------------------------------------------------------------------------

// c07stripSite: one operation that removes a prefix from a path value (a slice from an offset, strings.TrimPrefix /
// CutPrefix) on the way into a store to the Path / RawPath of the upstream URL; via are the blocks of the calls of
// repository helpers the value was followed through (the conditions under which the helper was called hold as well).
type c07stripSite struct {
	op  ssa.Instruction
	via []*ssa.BasicBlock
}

func c07stripSites(v ssa.Value) []c07stripSite {
	var out []c07stripSite
	seen := map[ssa.Value]bool{}
	var walk func(v ssa.Value, d int, via []*ssa.BasicBlock)
	walk = func(v ssa.Value, d int, via []*ssa.BasicBlock) {
		if v == nil || seen[v] || d > 12 {
			return
		}
		seen[v] = true
		switch x := v.(type) {
		case *ssa.Slice:
			if x.Low != nil && isStringType(x.Type()) {
				out = append(out, c07stripSite{x, via})
			}
			walk(x.X, d+1, via)
		case *ssa.BinOp:
			if x.Op == token.ADD && isStringType(x.Type()) {
				walk(x.X, d+1, via)
				walk(x.Y, d+1, via)
			}
		case *ssa.Phi:
			for _, e := range x.Edges {
				walk(e, d+1, via)
			}
		case *ssa.ChangeType:
			walk(x.X, d+1, via)
		case *ssa.Extract:
			walk(x.Tuple, d+1, via)
		case *ssa.UnOp:
			if x.Op == token.MUL {
				if a, ok := x.X.(*ssa.Alloc); ok && a.Referrers() != nil {
					for _, r := range *a.Referrers() {
						if st, ok := r.(*ssa.Store); ok && st.Addr == a {
							walk(st.Val, d+1, via)
						}
					}
				}
			}
		case *ssa.Call:
			switch calleeName(&x.Call) {
			case "strings.TrimPrefix", "strings.CutPrefix":
				out = append(out, c07stripSite{x, via})
			}
			for _, a := range x.Call.Args {
				if isStringType(a.Type()) {
					walk(a, d+1, via)
				}
			}
			if sc := x.Call.StaticCallee(); sc != nil && isRepoFn(sc) && len(sc.Blocks) > 0 {
				in := append(append([]*ssa.BasicBlock{}, via...), x.Block())
				eachInstr(sc, func(i ssa.Instruction) {
					if r, ok := i.(*ssa.Return); ok {
						for _, res := range r.Results {
							if isStringType(res.Type()) {
								walk(res, d+1, in)
							}
						}
					}
				})
			}
		}
	}
	walk(v, 0, nil)
	return out
}

// c07cmpClass: what kind of comparison a library function performs on its string arguments.
func c07cmpClass(name string) string {
	name = stripTypeArgs(name)
	switch name {
	case "strings.HasPrefix", "strings.CutPrefix", "strings.TrimPrefix", "strings.Index", "strings.Compare", "strings.Cut",
		"strings.HasSuffix", "strings.Contains", "bytes.HasPrefix", "bytes.Equal", "bytes.CutPrefix", "bytes.TrimPrefix":
		return "exact"
	case "strings.EqualFold", "bytes.EqualFold", "strings.ToLower", "strings.ToUpper", "strings.ToTitle", "bytes.ToLower", "bytes.ToUpper",
		"unicode.ToLower", "unicode.ToUpper", "unicode.SimpleFold", "unicode.ToTitle":
		return "case-folded"
	}
	switch {
	case strings.HasPrefix(name, "regexp."), strings.HasPrefix(name, "(*regexp.Regexp)."), name == "path.Match", name == "path/filepath.Match",
		strings.Contains(name, "glob."):
		return "pattern"
	case strings.HasPrefix(name, "golang.org/x/text/cases."), strings.HasPrefix(name, "(golang.org/x/text/cases.Caser)."):
		return "case-folded"
	}
	return ""
}

// c07cmpPrims: the kinds of string comparison that occur in the expression tree of v: library comparisons by class,
// `==` on strings as "exact"; the bodies of repository helpers called on the way are looked into (two levels).
func c07cmpPrims(v ssa.Value, out map[string]bool) {
	seen := map[ssa.Value]bool{}
	seenFn := map[*ssa.Function]bool{}
	var body func(fn *ssa.Function, d int)
	var walk func(v ssa.Value, d int)
	instr := func(i ssa.Instruction, d int) {
		if b, ok := i.(*ssa.BinOp); ok && (b.Op == token.EQL || b.Op == token.NEQ) && isStringType(b.X.Type()) {
			_, kx := b.X.(*ssa.Const)
			_, ky := b.Y.(*ssa.Const)
			if !kx && !ky {
				out["exact"] = true
			}
		}
		if cc := callCommon(i); cc != nil {
			if cl := c07cmpClass(calleeName(cc)); cl != "" {
				out[cl] = true
			}
			if sc := cc.StaticCallee(); sc != nil && isRepoFn(sc) && len(sc.Blocks) > 0 {
				body(unwrap(sc), d+1)
			}
		}
	}
	body = func(fn *ssa.Function, d int) {
		if seenFn[fn] || d > 2 {
			return
		}
		seenFn[fn] = true
		eachInstr(fn, func(i ssa.Instruction) { instr(i, d) })
	}
	walk = func(v ssa.Value, d int) {
		if v == nil || seen[v] || d > 10 {
			return
		}
		seen[v] = true
		if i, ok := v.(ssa.Instruction); ok {
			instr(i, 0)
		}
		switch x := v.(type) {
		case *ssa.UnOp:
			if x.Op == token.NOT {
				walk(x.X, d+1)
			}
		case *ssa.BinOp:
			walk(x.X, d+1)
			walk(x.Y, d+1)
		case *ssa.Extract:
			walk(x.Tuple, d+1)
		case *ssa.Slice:
			walk(x.X, d+1)
		case *ssa.Convert:
			walk(x.X, d+1)
		case *ssa.ChangeType:
			walk(x.X, d+1)
		case *ssa.Call:
			for _, a := range x.Call.Args {
				walk(a, d+1)
			}
		}
	}
	walk(v, 0)
}

// c07urlFieldLoad: v reads field `field` of a url.URL (any URL: the client's, the upstream's, a helper's parameter).
func c07urlFieldLoad(field string) func(ssa.Value) bool {
	return func(v ssa.Value) bool {
		if _, isLoad := v.(*ssa.UnOp); !isLoad {
			if _, isField := v.(*ssa.Field); !isField {
				return false
			}
		}
		_, ok := fieldOf(v, "net/url.URL", field)
		return ok
	}
}

// c07prefixTest: cond compares a value of the family of `field` (something derived from a url.URL's Path resp.
// RawPath, or a whole URL) with another, non-constant string: a test of the field against the option. Emptiness
// tests, length comparisons and tests against a constant (HasPrefix(x, "/")) are not.
func c07prefixTest(cond ssa.Value, field string, d int) bool {
	if cond == nil || d > 6 {
		return false
	}
	isFam := func(a ssa.Value) bool {
		if namedIs(a.Type(), "net/url.URL") {
			return true
		}
		return (isStringType(a.Type()) || typeStr(a.Type()) == "[]byte") && derives(a, c07urlFieldLoad(field))
	}
	switch x := cond.(type) {
	case *ssa.UnOp:
		if x.Op == token.NOT {
			return c07prefixTest(x.X, field, d+1)
		}
	case *ssa.Extract:
		return c07prefixTest(x.Tuple, field, d+1)
	case *ssa.Phi:
		for _, e := range x.Edges {
			if c07prefixTest(e, field, d+1) {
				return true
			}
		}
	case *ssa.BinOp:
		if x.Op != token.EQL && x.Op != token.NEQ {
			return false
		}
		// strings.Index(path, opt) == 0, strings.Compare(..) == 0
		for _, o := range []ssa.Value{x.X, x.Y} {
			if call, ok := o.(*ssa.Call); ok && !isStringType(call.Type()) && c07prefixTest(call, field, d+1) {
				return true
			}
		}
		if !isStringType(x.X.Type()) {
			return false
		}
		if _, k := x.X.(*ssa.Const); k {
			return false
		}
		if _, k := x.Y.(*ssa.Const); k {
			return false
		}
		return isFam(x.X) || isFam(x.Y)
	case *ssa.Call:
		if x.Call.IsInvoke() {
			return false
		}
		if n := calleeName(&x.Call); strings.HasPrefix(n, "builtin.") {
			return false
		}
		fam, other := false, false
		for _, a := range x.Call.Args {
			if _, k := a.(*ssa.Const); k {
				if isStringType(a.Type()) {
					return false // compared with a constant: the absolute-path test, not a test against the option
				}
				continue
			}
			if isFam(a) {
				fam = true
			} else if isStringType(a.Type()) {
				other = true
			}
		}
		if mc, isClosure := x.Call.Value.(*ssa.MakeClosure); isClosure && len(mc.Bindings) > 0 {
			other = true // a local closure: the option it tests against is captured (`hasStrip := func(s string) bool {..t.StripPath..}`)
		}
		return fam && (other || len(x.Call.Args) >= 2)
	}
	return false
}

func c07classList(m map[string]bool) string {
	if len(m) == 0 {
		return "no test"
	}
	var s []string
	for k := range m {
		s = append(s, k)
	}
	sort.Strings(s)
	return strings.Join(s, "+")
}

// c07debugFrom prints the observations added since index n when C07_DEBUG is set.
func c07debugFrom(c *Ctx, n int) {
	if os.Getenv("C07_DEBUG") == "" {
		return
	}
	for _, o := range c.Obs[n:] {
		fmt.Fprintf(os.Stderr, "C07DBG %-10s %-8s %-28s %s\n", o.Status, o.Rule, o.Pos, o.Construct)
	}
}

func runC07U3(c *Ctx) {
	defer c07debugFrom(c, len(c.Obs))
	u := c07lastURL
	if u == nil {
		return // U1 has already said that the upstream URL was not found
	}
	type group struct {
		sem   map[string]bool
		n     int
		first token.Pos
	}
	groups := map[*ssa.Function]map[string]*group{}
	total := map[string]*group{"Path": {sem: map[string]bool{}}, "RawPath": {sem: map[string]bool{}}}
	for _, field := range []string{"Path", "RawPath"} {
		for _, st := range c07fieldStores(u.fns, u.S, field) {
			for _, site := range c07stripSites(st.Val) {
				sem := map[string]bool{}
				// the operation itself (TrimPrefix / CutPrefix test what they remove)
				if call, ok := site.op.(*ssa.Call); ok {
					c07cmpPrims(call, sem)
				}
				blocks := append([]*ssa.BasicBlock{site.op.Block(), st.Block()}, site.via...)
				seenCond := map[ssa.Value]bool{}
				for _, b := range blocks {
					for _, f := range factsAt(b) {
						if seenCond[f.Cond] {
							continue
						}
						seenCond[f.Cond] = true
						// the condition itself, or - for a verdict kept in a variable, a struct field or returned by a
						// helper - the expressions it was computed from
						cands := []ssa.Value{f.Cond}
						if _, isCall := f.Cond.(*ssa.Call); !isCall {
							cands = append(cands, c07leaves(f.Cond)...)
						}
						for _, cand := range cands {
							if c07prefixTest(cand, field, 0) {
								c07cmpPrims(cand, sem)
							}
						}
					}
				}
				fn := st.Parent()
				if groups[fn] == nil {
					groups[fn] = map[string]*group{}
				}
				g := groups[fn][field]
				if g == nil {
					g = &group{sem: map[string]bool{}, first: site.op.Pos()}
					groups[fn][field] = g
				}
				for _, gg := range []*group{g, total[field]} {
					gg.n++
					for k := range sem {
						gg.sem[k] = true
					}
					if !gg.first.IsValid() {
						gg.first = site.op.Pos()
					}
				}
			}
		}
	}
	roles := 0
	for _, f := range []string{"Path", "RawPath"} {
		if total[f].n > 0 {
			roles++
		}
	}
	c.atLeast("C07.U3", "removals of the strip option from Path and from RawPath of the URL sent upstream", roles, 2)
	if roles < 2 {
		return
	}
	var fns []*ssa.Function
	for fn := range groups {
		if groups[fn]["Path"] != nil {
			fns = append(fns, fn)
		}
	}
	sort.Slice(fns, func(i, j int) bool { return fns[i].String() < fns[j].String() })
	for _, fn := range fns {
		p := groups[fn]["Path"]
		r := groups[fn]["RawPath"]
		if r == nil {
			r = total["RawPath"] // the RawPath is rewritten elsewhere
		}
		construct := fnKey(fn) + "|strip decided alike for Path and RawPath"
		if len(p.sem) == 0 && len(r.sem) == 0 {
			c.undecided("C07.U3", construct, "no test of Path / RawPath against the strip option was found at the operations that remove the option from them: the rule cannot compare what decides the two removals")
			continue
		}
		same := len(p.sem) == len(r.sem)
		for k := range p.sem {
			if !r.sem[k] {
				same = false
			}
		}
		c.check("C07.U3", construct, p.first, same,
			"the strip option is taken off Path where a prefix test of kind ["+c07classList(p.sem)+"] passes, but off RawPath where one of kind ["+c07classList(r.sem)+"] passes: for a request that passes one test and not the other (e.g. /FOO/a%2Fb with strip=/foo) Path is cut while RawPath falls into the `RawPath = \"\"` fallback (or keeps a prefix Path no longer has), net/url then re-encodes Path and the upstream sees the client's %2F, %3A ... decoded - a different resource. Path and RawPath must be tested and cut alike (RawPath is the only carrier of the client's percent-encoding)")
	}
}

// ---- C07.R1 ---------------------------------------------------------------------------------------------------------

// c07managedResponseHeaders: the response headers fabio adds by configuration (proxy.header.sts.*).
var c07managedResponseHeaders = map[string]bool{"Strict-Transport-Security": true}

type c07r1 struct {
	c        *Ctx
	serve    *ssa.Function
	rwIface  *types.Interface
	ci       *contactInfo
	callers  map[*ssa.Function][]ssa.CallInstruction // the calls through which the writer (or its header map) reaches a function
	fns      []*ssa.Function                         // ServeHTTP and the functions the writer is handed to before the hand-over
	fwdMemo  map[ssa.Instruction]bool
	globMemo map[*ssa.Global]bool
}

// c07isHandlerServe: the call hands request and response writer over to an http.Handler: h.ServeHTTP(w, r) on an
// interface value, or a static call of the ServeHTTP method of some handler type.
func c07isHandlerServe(cc *ssa.CallCommon) bool {
	if cc == nil {
		return false
	}
	if cc.IsInvoke() {
		return cc.Method.Name() == "ServeHTTP"
	}
	if sc := cc.StaticCallee(); sc != nil && unwrap(sc).Name() == "ServeHTTP" && unwrap(sc).Signature.Recv() != nil {
		return true
	}
	return false
}

// isForward: the instruction is a point from which the upstream is involved: an upstream-contact site (as in G1) or
// the hand-over to a handler.
func (r *c07r1) isForward(i ssa.Instruction) bool {
	if v, ok := r.fwdMemo[i]; ok {
		return v
	}
	res := false
	if _, ok := r.c.isContactInstr(r.ci, i); ok {
		res = true
	} else if c07isHandlerServe(callCommon(i)) {
		res = true
	}
	r.fwdMemo[i] = res
	return res
}

func (r *c07r1) isWriter(t types.Type) bool {
	if typeStr(t) == "net/http.ResponseWriter" {
		return true
	}
	if _, isIface := t.Underlying().(*types.Interface); isIface {
		return false
	}
	return r.rwIface != nil && types.Implements(t, r.rwIface)
}

// c07responseHeader: v is the header map of a response writer: the result of Header() called on an
// http.ResponseWriter (through locals, helper parameters and helper results).
func (r *c07r1) responseHeader(v ssa.Value) bool {
	switch typeStr(v.Type()) {
	case "net/http.Header", "net/textproto.MIMEHeader":
	default:
		return false
	}
	ls := c07leaves(v)
	hit := false
	for _, l := range ls {
		if ct, ok := l.(*ssa.ChangeType); ok {
			l = ct.X
		}
		if cv, ok := l.(*ssa.Convert); ok {
			l = cv.X
		}
		call, ok := l.(*ssa.Call)
		if !ok {
			continue
		}
		if call.Call.IsInvoke() && call.Call.Method.Name() == "Header" && len(call.Call.Args) == 0 && r.isWriter(call.Call.Value.Type()) {
			hit = true
		}
		if sc := call.Call.StaticCallee(); sc != nil && sc.Name() == "Header" && sc.Signature.Recv() != nil && r.isWriter(sc.Signature.Recv().Type()) {
			hit = true
		}
	}
	return hit
}

// carriesWriter: t is a struct of the repository (or a pointer to one) that keeps a response writer in a field
// (`answer{w: w, status: ..}.send()`).
func (r *c07r1) carriesWriter(t types.Type) bool {
	if p, ok := t.Underlying().(*types.Pointer); ok {
		t = p.Elem()
	}
	n, ok := t.(*types.Named)
	if !ok || n.Obj().Pkg() == nil || !strings.HasPrefix(n.Obj().Pkg().Path(), repoMod) {
		return false
	}
	st, ok := n.Underlying().(*types.Struct)
	if !ok {
		return false
	}
	for k := 0; k < st.NumFields(); k++ {
		if r.isWriter(st.Field(k).Type()) {
			return true
		}
	}
	return false
}

// implementations: the repository methods an interface call can reach.
func (r *c07r1) implementations(cc *ssa.CallCommon) []*ssa.Function {
	iface, ok := cc.Value.Type().Underlying().(*types.Interface)
	if !ok {
		return nil
	}
	var out []*ssa.Function
	for _, fn := range r.c.AllFns {
		recv := fn.Signature.Recv()
		if recv == nil || fn.Name() != cc.Method.Name() || fn.Parent() != nil {
			continue
		}
		if types.Implements(recv.Type(), iface) {
			out = append(out, fn)
		}
	}
	return out
}

// collect: ServeHTTP and, transitively, the repository functions (also behind interfaces, also closures that capture
// it) that receive the response writer or its header map - not following the hand-over to a handler.
func (r *c07r1) collect() {
	seen := map[*ssa.Function]bool{}
	var visit func(f *ssa.Function, d int)
	visit = func(f *ssa.Function, d int) {
		if f == nil || seen[f] || len(f.Blocks) == 0 || d > 5 {
			return
		}
		seen[f] = true
		r.fns = append(r.fns, f)
		eachInstr(f, func(i ssa.Instruction) {
			if mc, ok := i.(*ssa.MakeClosure); ok {
				// a closure that captures the writer belongs to the function that makes it
				fn, _ := mc.Fn.(*ssa.Function)
				captures := false
				for _, b := range mc.Bindings {
					t := b.Type()
					if p, ok := t.Underlying().(*types.Pointer); ok {
						t = p.Elem()
					}
					if r.isWriter(t) || typeStr(t) == "net/http.Header" {
						captures = true
					}
				}
				if fn != nil && captures && !c07isHandlerFn(fn) {
					for _, s := range gSites[fn] {
						r.callers[fn] = append(r.callers[fn], s)
					}
					visit(fn, d+1)
				}
				return
			}
			ci, ok := i.(ssa.CallInstruction)
			if !ok {
				return
			}
			cc := ci.Common()
			if c07isHandlerServe(cc) {
				return
			}
			passes := false
			for _, a := range cc.Args {
				if r.isWriter(a.Type()) || r.responseHeader(a) || r.carriesWriter(a.Type()) {
					passes = true
				}
			}
			if !passes {
				return
			}
			var targets []*ssa.Function
			if cc.IsInvoke() {
				targets = r.implementations(cc)
			} else if sc := cc.StaticCallee(); sc != nil && isRepoFn(sc) {
				targets = []*ssa.Function{unwrap(sc)}
			}
			for _, g := range targets {
				if c07isHandlerFn(g) {
					continue
				}
				r.callers[g] = append(r.callers[g], ci)
				visit(g, d+1)
			}
		})
	}
	visit(r.serve, 0)
}

// c07isHandlerFn: fn is an http handler of its own - a ServeHTTP method, or a function literal of the shape
// func(http.ResponseWriter, *http.Request): what runs in it runs after the hand-over (a named helper of that shape is a
// part of ServeHTTP that was moved out).
func c07isHandlerFn(fn *ssa.Function) bool {
	ps := fn.Signature.Params()
	shape := fn.Signature.Results().Len() == 0 && ps.Len() == 2 && typeStr(ps.At(0).Type()) == "net/http.ResponseWriter" && typeStr(ps.At(1).Type()) == "*net/http.Request"
	if !shape {
		return false
	}
	return fn.Parent() != nil || (fn.Name() == "ServeHTTP" && fn.Signature.Recv() != nil)
}

// c07verdict: the result by which a function tells its caller whether the request goes on: a bool (false rejects),
// else an error (non-nil rejects), else a pointer-like result (nil rejects: `t := p.admit(w, r); if t == nil { return }`),
// else an integer (`if code := p.refuse(w, r, t); code != 0 { return }`).
type c07verdict struct {
	idx  int
	kind int     // 0 bool, 1 error, 2 nil-able, 3 integer (a status code; which values reject is taken from the code)
	ks   []int64 // kind 3: the constants the function returns after it has answered
}

func c07verdictOf(fn *ssa.Function) (c07verdict, bool) {
	res := fn.Signature.Results()
	for k := 0; k < res.Len(); k++ {
		if b, ok := res.At(k).Type().Underlying().(*types.Basic); ok && b.Kind() == types.Bool {
			return c07verdict{idx: k, kind: 0}, true
		}
	}
	for k := 0; k < res.Len(); k++ {
		if typeStr(res.At(k).Type()) == "error" {
			return c07verdict{idx: k, kind: 1}, true
		}
	}
	for k := 0; k < res.Len(); k++ {
		switch res.At(k).Type().Underlying().(type) {
		case *types.Pointer, *types.Interface, *types.Map, *types.Slice, *types.Signature:
			return c07verdict{idx: k, kind: 2}, true
		}
	}
	for k := 0; k < res.Len(); k++ {
		if b, ok := res.At(k).Type().Underlying().(*types.Basic); ok && b.Info()&types.IsInteger != 0 {
			return c07verdict{idx: k, kind: 3}, true
		}
	}
	return c07verdict{idx: -1}, false
}

// c07from: a position in a function and the blocks that can execute after it. A verdict that is a phi in one of those
// blocks is judged on the edges that can be taken after the position only: in the single-exit style (`stop := false;
// if denied { answer; stop = true }; return stop`) the one return yields phi(false, true), but on the paths that come
// from the answer it yields true.
type c07from struct {
	b     *ssa.BasicBlock
	after map[*ssa.BasicBlock]bool // blocks reachable from b by at least one edge
}

func c07fromPos(b *ssa.BasicBlock) *c07from {
	f := &c07from{b: b, after: map[*ssa.BasicBlock]bool{}}
	stack := append([]*ssa.BasicBlock{}, b.Succs...)
	for len(stack) > 0 {
		x := stack[len(stack)-1]
		stack = stack[:len(stack)-1]
		if f.after[x] {
			continue
		}
		f.after[x] = true
		stack = append(stack, x.Succs...)
	}
	return f
}

// edges: the values the phi can take on the paths that pass the position. A phi of a block that does not execute
// after the position was evaluated before it: all of its edges count.
func (f *c07from) edges(phi *ssa.Phi) []ssa.Value {
	if f == nil || !f.after[phi.Block()] {
		return phi.Edges
	}
	var out []ssa.Value
	for k, e := range phi.Edges {
		if k < len(phi.Block().Preds) {
			if p := phi.Block().Preds[k]; p == f.b || f.after[p] {
				out = append(out, e)
			}
		}
	}
	return out
}

// c07rejecting: the returned verdict says "do not go on": the constant false (a merge of them); for an error a value
// that is not nil (a fresh error, a concrete value boxed into the interface, a package-level sentinel that is only
// ever set to such a value, a value known to be non-nil at the return); for a nil-able result the constant nil.
func (r *c07r1) rejecting(v ssa.Value, kind int, at *ssa.BasicBlock, from *c07from, d int) bool {
	if d > 4 {
		return false
	}
	if phi, ok := v.(*ssa.Phi); ok {
		es := from.edges(phi)
		for _, e := range es {
			if !r.rejecting(e, kind, nil, from, d+1) {
				return false
			}
		}
		return len(es) > 0
	}
	switch kind {
	case 0:
		b, ok := constBool(v)
		return ok && !b
	case 2:
		return isNilConst(v)
	}
	if isNilConst(v) {
		return false
	}
	switch x := v.(type) {
	case *ssa.MakeInterface:
		return true
	case *ssa.Call:
		switch calleeName(&x.Call) {
		case "errors.New", "fmt.Errorf":
			return true
		}
	case *ssa.UnOp:
		if g, ok := x.X.(*ssa.Global); ok && x.Op == token.MUL && r.nonNilGlobal(g) {
			return true
		}
	}
	return at != nil && knownNonNil(at, sameVal(v))
}

// nonNilGlobal: the package-level variable g (a sentinel: `var errRefused = errors.New("refused")`) is never nil: it
// is stored to at least once, every store in the program stores a non-nil error, and its address is used for nothing
// but loads and stores.
func (r *c07r1) nonNilGlobal(g *ssa.Global) bool {
	if v, ok := r.globMemo[g]; ok {
		return v
	}
	r.globMemo[g] = false
	fns := append([]*ssa.Function{}, r.c.AllFns...)
	if g.Pkg != nil {
		if initFn := g.Pkg.Func("init"); initFn != nil {
			fns = append(fns, initFn)
		}
	}
	stores, ok := 0, true
	for _, fn := range fns {
		eachInstr(fn, func(i ssa.Instruction) {
			for _, op := range i.Operands(nil) {
				if op == nil || *op != ssa.Value(g) {
					continue
				}
				switch x := i.(type) {
				case *ssa.UnOp:
					if x.Op != token.MUL {
						ok = false
					}
				case *ssa.Store:
					if x.Addr != ssa.Value(g) {
						ok = false // the address itself is stored somewhere
						continue
					}
					stores++
					if !r.rejecting(x.Val, 1, nil, nil, 1) {
						ok = false
					}
				case *ssa.DebugRef:
				default:
					ok = false
				}
			}
		})
	}
	r.globMemo[g] = ok && stores > 0
	return r.globMemo[g]
}

// c07instrsFrom: the instructions that can execute after position (b, idx), b.Instrs[idx] included.
func c07instrsFrom(b *ssa.BasicBlock, idx int, visit func(ssa.Instruction)) {
	for k := idx; k < len(b.Instrs); k++ {
		visit(b.Instrs[k])
	}
	seen := map[*ssa.BasicBlock]bool{}
	stack := append([]*ssa.BasicBlock{}, b.Succs...)
	for len(stack) > 0 {
		x := stack[len(stack)-1]
		stack = stack[:len(stack)-1]
		if seen[x] {
			continue
		}
		seen[x] = true
		for _, i := range x.Instrs {
			visit(i)
		}
		stack = append(stack, x.Succs...)
	}
}

// rejectFrom: from position (b, idx) of f on, fabio answers the request itself: no hand-over is reachable in f, and f
// either is ServeHTTP, or tells its callers so by its verdict (and they honour it), or - having no verdict - is called
// only at such positions. The polarity of a bool verdict is taken from the code: every return reachable from the
// position yields the same constant, and it is that constant the callers must treat as "the request ends here"
// (`return false` of an Authorized, `return true` of a denied / handled).
func (r *c07r1) rejectFrom(f *ssa.Function, b *ssa.BasicBlock, idx int, depth int) (bool, string) {
	if depth > 8 {
		return false, "the call chain is too deep to follow"
	}
	fwd := false
	var rets []*ssa.Return
	c07instrsFrom(b, idx, func(i ssa.Instruction) {
		if r.isForward(i) {
			fwd = true
		}
		if ret, ok := i.(*ssa.Return); ok {
			rets = append(rets, ret)
		}
	})
	if fwd {
		return false, "the hand-over to the upstream handler is reachable from there in " + fnKey(f)
	}
	if f == r.serve {
		return true, ""
	}
	vd, has := c07verdictOf(f)
	if !has {
		sites := r.callers[f]
		if len(sites) == 0 {
			return false, fnKey(f) + " has no verdict and no known call site"
		}
		for _, s := range sites {
			if _, isCall := s.(*ssa.Call); !isCall {
				return false, fnKey(f) + " is started with go / defer"
			}
			if ok, why := r.rejectFrom(s.Parent(), s.Block(), instrIndex(s)+1, depth+1); !ok {
				return false, why
			}
		}
		return true, ""
	}
	rejTrue, known := false, false
	from := c07fromPos(b)
	for _, ret := range rets {
		if vd.idx >= len(ret.Results) {
			return false, fnKey(f) + " returns without a verdict"
		}
		v := ret.Results[vd.idx]
		ok := false
		switch vd.kind {
		case 0:
			if bv, isK := c07constVerdict(v, from, 0); isK && (!known || bv == rejTrue) {
				rejTrue, known, ok = bv, true, true
			}
		case 3:
			// a status code: the constants returned after the answer; what they mean is decided where the callers
			// compare them (honoured)
			if ks, isK := c07constInts(v, from, 0); isK {
				vd.ks, ok = append(vd.ks, ks...), true
			}
		default:
			ok = r.rejecting(v, vd.kind, ret.Block(), from, 0)
		}
		if !ok {
			return false, fnKey(f) + " can return from there with a verdict that lets the request go on (" + r.c.pos(ret.Pos()) + ": not the same constant verdict on every return after it)"
		}
	}
	if len(rets) == 0 {
		return true, "" // no return is reachable (panic / os.Exit)
	}
	return r.honoured(f, vd, rejTrue, depth+1)
}

// c07constVerdict: the bool v is one constant (also as a merge of equal constants) on the paths that pass `from`.
func c07constVerdict(v ssa.Value, from *c07from, d int) (bool, bool) {
	if b, ok := constBool(v); ok {
		return b, true
	}
	phi, ok := v.(*ssa.Phi)
	if !ok || d > 3 {
		return false, false
	}
	es := from.edges(phi)
	if len(es) == 0 {
		return false, false
	}
	first, okFirst := c07constVerdict(es[0], from, d+1)
	if !okFirst {
		return false, false
	}
	for _, e := range es[1:] {
		if b, ok := c07constVerdict(e, from, d+1); !ok || b != first {
			return false, false
		}
	}
	return first, true
}

// c07constInts: the integer v is a constant, or a merge of constants, on the paths that pass `from`.
func c07constInts(v ssa.Value, from *c07from, d int) ([]int64, bool) {
	if cv, ok := v.(*ssa.Convert); ok {
		v = cv.X
	}
	if k, ok := constInt(v); ok {
		return []int64{k}, true
	}
	phi, ok := v.(*ssa.Phi)
	if !ok || d > 3 {
		return nil, false
	}
	var out []int64
	for _, e := range from.edges(phi) {
		ks, ok := c07constInts(e, from, d+1)
		if !ok {
			return nil, false
		}
		out = append(out, ks...)
	}
	return out, len(out) > 0
}

// honoured: every caller of f (through which the writer came) turns f's rejecting verdict (for a bool: the value
// rejTrue) into a rejection of its own: it returns the verdict as its own verdict (and its callers honour that), or
// it branches on it and the rejecting edge is a position from which rejectFrom holds.
func (r *c07r1) honoured(f *ssa.Function, vd c07verdict, rejTrue bool, depth int) (bool, string) {
	if depth > 8 {
		return false, "the call chain is too deep to follow"
	}
	sites := r.callers[f]
	if len(sites) == 0 {
		return false, "no call site of " + fnKey(f) + " is known"
	}
	for _, s := range sites {
		call, ok := s.(*ssa.Call)
		if !ok {
			return false, fnKey(f) + " is started with go / defer: its verdict is lost"
		}
		var vals []ssa.Value
		if f.Signature.Results().Len() == 1 {
			vals = []ssa.Value{call}
		} else if refs := call.Referrers(); refs != nil {
			for _, ref := range *refs {
				if ex, ok := ref.(*ssa.Extract); ok && ex.Index == vd.idx {
					vals = append(vals, ex)
				}
			}
		}
		used := 0
		for _, v := range vals {
			ok, why, n := r.verdictUses(v, vd, rejTrue, depth)
			if !ok {
				return false, why
			}
			used += n
		}
		if used == 0 {
			return false, "the verdict of " + fnKey(f) + " is not looked at where it is called (" + r.c.pos(call.Pos()) + "): the request goes on after the function has written to the response"
		}
	}
	return true, ""
}

// verdictUses: the uses of the verdict value v honour it; n counts the uses that decide something. For an error, a
// nil-able or an integer verdict only the comparisons (with nil / with a constant), the merges and the returns are
// looked at (the value itself is used for other things: the message of the error, the fields of the target, a log line).
func (r *c07r1) verdictUses(v ssa.Value, vd c07verdict, rejTrue bool, depth int) (bool, string, int) {
	kind := vd.kind
	if kind == 0 {
		return r.boolUses(v, rejTrue, depth)
	}
	if depth > 10 {
		return false, "the verdict travels too far to follow", 0
	}
	refs := v.Referrers()
	if refs == nil {
		return true, "", 0
	}
	g := v.(ssa.Instruction).Parent()
	n := 0
	for _, ref := range *refs {
		switch x := ref.(type) {
		case *ssa.Return:
			k := -1
			for j, res := range x.Results {
				if res == v {
					k = j
				}
			}
			gv, has := c07verdictOf(g)
			if k < 0 || !has || gv.idx != k || gv.kind != kind {
				return false, fnKey(g) + " hands the verdict on in a result that is not its own verdict", n
			}
			gv.ks = vd.ks
			if ok, why := r.honoured(g, gv, false, depth+1); !ok {
				return false, why, n
			}
			n++
		case *ssa.Phi:
			// merged with other values (`code := 0; if x { code = p.refuse(..) }`): when the call rejected, the merge
			// has the call's value
			ok, why, m := r.verdictUses(x, vd, rejTrue, depth+1)
			if !ok {
				return false, why, n
			}
			n += m
		case *ssa.Convert:
			if kind != 3 {
				continue
			}
			ok, why, m := r.verdictUses(x, vd, rejTrue, depth+1)
			if !ok {
				return false, why, n
			}
			n += m
		case *ssa.BinOp:
			if kind == 3 {
				// code != 0, code >= 400, code == http.StatusForbidden: the outcome for the constants the function
				// returns after it has answered
				truth, decided := c07cmpOutcome(x, v, vd.ks)
				if !decided {
					if _, isCmp := c07cmpConst(x, v); isCmp {
						return false, "the status verdict is compared (" + r.c.pos(x.Pos()) + ") with a constant that does not tell the answered statuses from the others: the rule cannot follow it", n
					}
					continue
				}
				ok, why, m := r.boolUses(x, truth, depth)
				if !ok {
					return false, why, n
				}
				n += m
				continue
			}
			if (x.Op != token.NEQ && x.Op != token.EQL) || !(isNilConst(x.X) || isNilConst(x.Y)) {
				continue
			}
			// err != nil is true when the call rejected; t == nil is true when the call rejected
			rejOnTrue := (kind == 1) == (x.Op == token.NEQ)
			ok, why, m := r.boolUses(x, rejOnTrue, depth)
			if !ok {
				return false, why, n
			}
			n += m
		}
	}
	return true, "", n
}

// c07cmpConst: b compares v with an integer constant; the constant as the right operand (the operator mirrored when
// the constant is written on the left).
func c07cmpConst(b *ssa.BinOp, v ssa.Value) (struct {
	op token.Token
	k  int64
}, bool) {
	type res = struct {
		op token.Token
		k  int64
	}
	switch b.Op {
	case token.EQL, token.NEQ, token.LSS, token.LEQ, token.GTR, token.GEQ:
	default:
		return res{}, false
	}
	if k, ok := constInt(b.Y); ok && b.X == v {
		return res{b.Op, k}, true
	}
	if k, ok := constInt(b.X); ok && b.Y == v {
		mirror := map[token.Token]token.Token{token.EQL: token.EQL, token.NEQ: token.NEQ, token.LSS: token.GTR, token.LEQ: token.GEQ, token.GTR: token.LSS, token.GEQ: token.LEQ}
		return res{mirror[b.Op], k}, true
	}
	return res{}, false
}

// c07cmpOutcome: the comparison b of the verdict v with a constant has the same outcome for every value of ks (the
// statuses the function returns after it has answered): that outcome.
func c07cmpOutcome(b *ssa.BinOp, v ssa.Value, ks []int64) (truth, decided bool) {
	c, ok := c07cmpConst(b, v)
	if !ok || len(ks) == 0 {
		return false, false
	}
	eval := func(x int64) bool {
		switch c.op {
		case token.EQL:
			return x == c.k
		case token.NEQ:
			return x != c.k
		case token.LSS:
			return x < c.k
		case token.LEQ:
			return x <= c.k
		case token.GTR:
			return x > c.k
		}
		return x >= c.k
	}
	truth = eval(ks[0])
	for _, x := range ks[1:] {
		if eval(x) != truth {
			return false, false
		}
	}
	return truth, true
}

// boolUses: every use of the boolean x honours it; rejOnTrue says which of its values means "the request ends here".
func (r *c07r1) boolUses(x ssa.Value, rejOnTrue bool, depth int) (bool, string, int) {
	refs := x.Referrers()
	if refs == nil {
		return true, "", 0
	}
	n := 0
	for _, ref := range *refs {
		ok, why, m := r.boolUse(x, ref, rejOnTrue, depth)
		if !ok {
			return false, why, n
		}
		n += m
	}
	return true, "", n
}

func (r *c07r1) boolUse(x ssa.Value, ref ssa.Instruction, rejOnTrue bool, depth int) (bool, string, int) {
	g := ref.Parent()
	if depth > 10 {
		return false, "the verdict travels too far to follow", 0
	}
	switch y := ref.(type) {
	case *ssa.DebugRef:
		return true, "", 0
	case *ssa.Phi:
		// merged into a variable (`authorized := !denied && t.Authorized(..)`, `ok := true; if x { ok = f() }`): when
		// the verdict is the rejecting value the merge has that value too
		return r.boolUses(y, rejOnTrue, depth+1)
	case *ssa.BinOp:
		// ok == false, ok != true
		if k, isK := constBool(y.Y); isK && y.X == x && (y.Op == token.EQL || y.Op == token.NEQ) {
			return r.boolUses(y, rejOnTrue == ((y.Op == token.EQL) == k), depth+1)
		}
	case *ssa.UnOp:
		if y.Op == token.NOT {
			return r.boolUses(y, !rejOnTrue, depth)
		}
	case *ssa.If:
		rej := y.Block().Succs[1]
		if rejOnTrue {
			rej = y.Block().Succs[0]
		}
		if ok, why := r.rejectFrom(g, rej, 0, depth+1); !ok {
			return false, "where " + fnKey(g) + " branches on the verdict the rejecting edge does not end the request: " + why, 0
		}
		return true, "", 1
	case *ssa.Return:
		gv, has := c07verdictOf(g)
		k := -1
		for j, res := range y.Results {
			if res == x {
				k = j
			}
		}
		if has && gv.kind == 0 && gv.idx == k {
			if ok, why := r.honoured(g, gv, rejOnTrue, depth+1); !ok {
				return false, why, 0
			}
			return true, "", 1
		}
		return false, fnKey(g) + " hands the verdict on in a form the rule cannot follow (" + r.c.pos(y.Pos()) + ")", 0
	}
	return false, "the verdict is stored or combined (" + r.c.pos(ref.Pos()) + "): the rule cannot follow it", 0
}

// c07ownAnswer: the call writes a status or body bytes to a response writer: WriteHeader / Write / WriteString on it,
// or a library function that answers on it (http.Error, http.Redirect, io.WriteString, fmt.Fprint ...).
func (r *c07r1) ownAnswer(i ssa.Instruction) (string, bool) {
	call, ok := i.(*ssa.Call)
	if !ok {
		return "", false
	}
	cc := &call.Call
	if cc.IsInvoke() {
		switch cc.Method.Name() {
		case "Write", "WriteHeader", "WriteString":
			if r.isWriter(cc.Value.Type()) {
				return cc.Method.Name(), true
			}
		}
		return "", false
	}
	n := calleeName(cc)
	switch n {
	case "net/http.Error", "net/http.Redirect", "net/http.NotFound", "net/http.ServeContent", "net/http.ServeFile",
		"io.WriteString", "io.Copy", "io.CopyN", "io.CopyBuffer", "fmt.Fprint", "fmt.Fprintf", "fmt.Fprintln":
		for _, a := range cc.Args {
			t := a.Type()
			if mi, isMI := a.(*ssa.MakeInterface); isMI {
				t = mi.X.Type()
			} else if ci, isCI := a.(*ssa.ChangeInterface); isCI {
				t = ci.X.Type()
			}
			if r.isWriter(t) {
				return n, true
			}
		}
	}
	return "", false
}

// c07newR1: the engine shared by R1 and R2: ServeHTTP, its hand-over points and the functions its response writer is
// passed to before the hand-over. nil (with the reason recorded under `rule`) when the anchors do not resolve.
func c07newR1(c *Ctx, rule string) *c07r1 {
	serve := c.method("proxy", "HTTPProxy", "ServeHTTP")
	if serve == nil {
		return nil // G1 has reported the missing anchor
	}
	r := &c07r1{c: c, serve: serve, ci: &contactInfo{}, callers: map[*ssa.Function][]ssa.CallInstruction{}, fwdMemo: map[ssa.Instruction]bool{}, globMemo: map[*ssa.Global]bool{}}
	for _, p := range serve.Params {
		if typeStr(p.Type()) == "net/http.ResponseWriter" {
			r.rwIface, _ = p.Type().Underlying().(*types.Interface)
		}
	}
	nFwd := 0
	eachInstr(serve, func(i ssa.Instruction) {
		if r.isForward(i) {
			nFwd++
		}
	})
	c.atLeast(rule, "hand-over points (upstream contact / handler.ServeHTTP) in HTTPProxy.ServeHTTP", nFwd, 1)
	if r.rwIface == nil || nFwd == 0 {
		if r.rwIface == nil {
			c.undecided(rule, "anchor|response writer of ServeHTTP", "ServeHTTP has no http.ResponseWriter parameter")
		}
		return nil
	}
	r.collect()
	return r
}

func runC07R1(c *Ctx) {
	defer c07debugFrom(c, len(c.Obs))
	r := c07newR1(c, "C07.R1")
	if r == nil {
		return
	}
	n := 0
	for _, f := range r.fns {
		ff := f
		eachInstr(f, func(i ssa.Instruction) {
			var hdr, key ssa.Value
			m := ""
			if op, h, k, isOp := c07headerOp(i); isOp {
				m, hdr, key = op, h, k
			} else if mu, ok := i.(*ssa.MapUpdate); ok {
				m, hdr, key = "[]=", mu.Map, mu.Key
			} else {
				return
			}
			if !r.responseHeader(hdr) {
				return
			}
			n++
			what := "(bulk)"
			managed := false
			if key != nil {
				ls, complete := c07leavesAll(key)
				managed = complete && len(ls) > 0
				for _, l := range ls {
					if call, isCanon := isCallTo(l, "net/http.CanonicalHeaderKey", "net/textproto.CanonicalMIMEHeaderKey"); isCanon && len(call.Call.Args) == 1 {
						l = call.Call.Args[0]
					}
					k, isK := constString(l)
					if isK {
						what = k
					} else {
						what = shortPath(l)
					}
					if !isK || !c07managedResponseHeaders[c07canonical(k)] {
						managed = false
					}
				}
			}
			construct := fnKey(ff) + "|response Header." + m + "(" + what + ")"
			if managed {
				c.check("C07.R1", construct, i.Pos(), true, "a response header fabio manages by configuration")
				return
			}
			ok, why := r.rejectFrom(ff, i.Block(), instrIndex(i)+1, 0)
			c.check("C07.R1", construct, i.Pos(), ok,
				"fabio changes the client's response header ("+what+") on a path that goes on to the upstream: "+why+". httputil.ReverseProxy adds the upstream's headers to what is already in the writer's header map, so the client receives a header the upstream never sent (or fabio's value in front of the upstream's own, e.g. two WWW-Authenticate challenges) - the response must reach the client with the upstream's end-to-end headers unchanged. Only the configured Strict-Transport-Security header may be added to a proxied response; anything else must be confined to the paths on which fabio answers itself (every return after it rejects, every caller honours the rejection)")
		})
	}
	c.atLeast("C07.R1", "changes of the response header map before the hand-over (configured STS header, auth challenge)", n, 1)
}

// runC07R2: where fabio writes a status or a body itself, the request ends.
func runC07R2(c *Ctx) {
	defer c07debugFrom(c, len(c.Obs))
	r := c07newR1(c, "C07.R2")
	if r == nil {
		return
	}
	nOwn := 0
	for _, f := range r.fns {
		ff := f
		eachInstr(f, func(i ssa.Instruction) {
			how, isOwn := r.ownAnswer(i)
			if !isOwn {
				return
			}
			nOwn++
			ok, why := r.rejectFrom(ff, i.Block(), instrIndex(i)+1, 0)
			c.check("C07.R2", fnKey(ff)+"|own answer ("+how+") ends the request", i.Pos(), ok,
				"fabio writes a status / body of its own ("+how+") on a path that goes on to the upstream: "+why+". The upstream's status is then dropped (superfluous WriteHeader) and its body is appended to fabio's - the client must receive the upstream's status and body bytes unchanged, and a request fabio answers itself (no route, access denied, authorization failed, redirect, bad remote address) must not reach an upstream. After its own answer every path must return, and every caller up to ServeHTTP must stop as well")
		})
	}
	// one site is what the property needs (the no-route answer); today there are seven, but they may all be routed
	// through one answering helper
	c.atLeast("C07.R2", "answers written by fabio itself (no-route page, access denied, authorization failed, redirect)", nOwn, 1)
}
