package main

// C06.S3 (guarded-by consistency), robust against the ways a critical section is ordinarily re-cut: the lock taken by
// a small wrapper method, the constructor split into an initialising helper, the guarded field or its mutex renamed.
// The shared implementation (shared.go: heldAt / lockedAtAll / s3) is left untouched for the other properties; the
// variants here are prefixed c06.

import (
	"go/token"
	"go/types"
	"strings"

	"golang.org/x/tools/go/ssa"
)

// c06directLock classifies a direct call of a sync mutex method.
func c06directLock(i ssa.Instruction) (path, kind string) {
	return lockCallKind(i)
}

// c06acquirer: fn takes a (write, or read when !write) lock on all of its paths and never releases one: a wrapper like
// `func (s *Server) lock() { s.mu.Lock() }`. Its call sites are lock acquisitions.
func c06acquirer(fn *ssa.Function, write bool) bool {
	if fn == nil || len(fn.Blocks) == 0 || !isRepoFn(fn) {
		return false
	}
	key := c06lockMemoKey{fn, write, 'a'}
	if v, ok := c06lockMemo[key]; ok {
		return v
	}
	v := c06acquirer0(fn, write)
	c06lockMemo[key] = v
	return v
}

type c06lockMemoKey struct {
	fn    *ssa.Function
	write bool
	what  byte
}

// c06lockMemo caches the wrapper classification per function (functions are unique per loaded program).
var c06lockMemo = map[c06lockMemoKey]bool{}

func c06acquirer0(fn *ssa.Function, write bool) bool {
	isLock := func(i ssa.Instruction) bool {
		_, k := c06directLock(i)
		return k == "lock" || (k == "rlock" && !write)
	}
	isUnlock := func(i ssa.Instruction) bool {
		_, k := c06directLock(i)
		return strings.HasSuffix(k, "unlock")
	}
	return mustExec(fn, isLock, 0) && !mayExec(fn, isUnlock, 0)
}

// c06releaser: fn may release a lock and never takes one (`func (s *Server) unlock() { s.mu.Unlock() }`).
func c06releaser(fn *ssa.Function) bool {
	if fn == nil || len(fn.Blocks) == 0 || !isRepoFn(fn) {
		return false
	}
	key := c06lockMemoKey{fn, false, 'r'}
	if v, ok := c06lockMemo[key]; ok {
		return v
	}
	v := c06releaser0(fn)
	c06lockMemo[key] = v
	return v
}

func c06releaser0(fn *ssa.Function) bool {
	isLock := func(i ssa.Instruction) bool {
		_, k := c06directLock(i)
		return k == "lock" || k == "rlock"
	}
	isUnlock := func(i ssa.Instruction) bool {
		_, k := c06directLock(i)
		return k == "unlock" || k == "runlock"
	}
	return mayExec(fn, isUnlock, 0) && !mayExec(fn, isLock, 0)
}

// c06heldAt: the locks held at `at` (must-hold, intraprocedural): those heldAt finds, and those taken by calling an
// acquiring wrapper that dominates `at` and is not followed by a release (direct or through a releasing wrapper) on a
// path to `at`.
func c06heldAt(at ssa.Instruction, write bool) []string {
	held := heldAtDirect(at, write)
	f := at.Parent()
	if f == nil {
		return held
	}
	// a releasing wrapper between a direct acquisition and `at` releases it
	var wrapRel []ssa.Instruction
	eachInstr(f, func(u ssa.Instruction) {
		call, ok := u.(*ssa.Call)
		if !ok {
			return
		}
		if sc := call.Call.StaticCallee(); sc != nil && c06releaser(unwrap(sc)) {
			wrapRel = append(wrapRel, u)
		}
	})
	if len(held) > 0 && len(wrapRel) > 0 {
		var kept []string
		eachInstr(f, func(l ssa.Instruction) {
			p, k := c06directLock(l)
			if (k != "lock" && !(k == "rlock" && !write)) || !dominatesInstr(l, at) {
				return
			}
			for _, h := range held {
				if h != p {
					continue
				}
				released := false
				for _, u := range wrapRel {
					if canReach(l, u) && reachAvoidingInstr(u, at, l) {
						released = true
					}
				}
				if !released {
					kept = append(kept, h)
				}
			}
		})
		held = kept
	}
	eachInstr(f, func(l ssa.Instruction) {
		call, ok := l.(*ssa.Call)
		if !ok || !dominatesInstr(l, at) {
			return
		}
		sc := call.Call.StaticCallee()
		if sc == nil || !c06acquirer(unwrap(sc), write) {
			return
		}
		released := false
		eachInstr(f, func(u ssa.Instruction) {
			if released || u == l {
				return
			}
			_, ku := c06directLock(u)
			isRel := ku == "unlock" || ku == "runlock"
			if !isRel {
				for _, w := range wrapRel {
					if w == u {
						isRel = true
					}
				}
			}
			if isRel && canReach(l, u) && reachAvoidingInstr(u, at, l) {
				released = true
			}
		})
		if !released {
			held = append(held, "lock taken by "+fnKey(unwrap(sc)))
		}
	})
	return held
}

// c06lockedAtAll: `at` executes under a lock, directly or because every static caller in the repository holds one.
func c06lockedAtAll(c *Ctx, at ssa.Instruction, write bool, depth int) bool {
	if len(c06heldAt(at, write)) > 0 {
		return true
	}
	if depth > 3 {
		return false
	}
	f := at.Parent()
	sites := gSites[f]
	if len(sites) == 0 {
		return false
	}
	for _, s := range sites {
		if _, isGo := s.(*ssa.Go); isGo {
			return false // runs concurrently with its caller: the caller's lock does not cover it
		}
		if !c06lockedAtAll(c, s, write, depth+1) {
			return false
		}
	}
	return true
}

// c06onlyOnFresh: value v (the base object of a field access in f) is a parameter that every static call site binds
// to an object that was allocated in the caller and is therefore not shared yet (a constructor that delegates the
// initialisation to a helper: `c := &GlobCache{}; c.init(size)`); f must have no other way of being called.
func c06onlyOnFresh(v ssa.Value, depth int) bool {
	p, ok := v.(*ssa.Parameter)
	if !ok || depth > 2 {
		return false
	}
	f := p.Parent()
	if f == nil || !onlyStaticallyCalled(f) {
		return false
	}
	sites := gSites[f]
	if len(sites) == 0 {
		return false
	}
	idx := -1
	for k, q := range f.Params {
		if q == p {
			idx = k
		}
	}
	for _, s := range sites {
		cc := s.Common()
		if idx < 0 || idx >= len(cc.Args) {
			return false
		}
		if _, isAlloc := cc.Args[idx].(*ssa.Alloc); isAlloc {
			continue // allocated by the caller (new(T), &T{...}): under construction
		}
		if !c06onlyOnFresh(cc.Args[idx], depth+1) {
			return false
		}
	}
	return true
}

// c06guardedField is one field (or package variable) that must be accessed under its lock.
type c06guardedField struct {
	typ, field string
	reason     string
}

// c06guarded: the reviewed lock table (shared.go lockTable), and — when a field named there no longer exists in its
// type (it was renamed) — the fields of that type that are written while one of the type's own mutexes is held,
// outside constructors: the renamed field is among them.
func c06guarded(c *Ctx) []c06guardedField {
	var out []c06guardedField
	inferFor := map[string]bool{}
	for _, lt := range lockTable {
		if lt.typ == "" {
			out = append(out, c06guardedField{"", lt.field, lt.reason})
			continue
		}
		st := c06structOf(c, lt.typ)
		if st == nil {
			continue // the type itself is gone or renamed: nothing to anchor on (residual, see report)
		}
		found := false
		for i := 0; i < st.NumFields(); i++ {
			if st.Field(i).Name() == lt.field {
				found = true
			}
		}
		if found {
			out = append(out, c06guardedField{lt.typ, lt.field, lt.reason})
		} else {
			inferFor[lt.typ] = true
		}
	}
	if len(inferFor) == 0 {
		return out
	}
	known := map[string]bool{}
	for _, g := range out {
		known[g.typ+"."+g.field] = true
	}
	for _, f := range c.AllFns {
		if isInitFn(f) {
			continue
		}
		eachInstr(f, func(i ssa.Instruction) {
			var target ssa.Value
			switch x := i.(type) {
			case *ssa.Store:
				target = x.Addr
				if ia, ok := target.(*ssa.IndexAddr); ok {
					target = ia.X
				}
			case *ssa.MapUpdate:
				target = x.Map
			default:
				if cc := callCommon(i); cc != nil && calleeName(cc) == "builtin.delete" && len(cc.Args) > 0 {
					target = cc.Args[0]
				} else {
					return
				}
			}
			if u, ok := target.(*ssa.UnOp); ok && u.Op == token.MUL {
				target = u.X
			}
			fa, ok := target.(*ssa.FieldAddr)
			if !ok {
				return
			}
			if _, isAlloc := fa.X.(*ssa.Alloc); isAlloc {
				return
			}
			for typ := range inferFor {
				if !namedIs(fa.X.Type(), typ) {
					continue
				}
				name := fieldName(fa.X.Type(), fa.Field)
				if known[typ+"."+name] || c06isMutexType(fa.Type()) {
					continue
				}
				if len(c06heldAt(i, true)) > 0 {
					known[typ+"."+name] = true
					out = append(out, c06guardedField{typ, name, "written under the mutex of " + typ + " (guard inferred: the field named in the reviewed lock table was renamed)"})
				}
			}
		})
	}
	return out
}

func c06isMutexType(t types.Type) bool {
	if p, ok := t.(*types.Pointer); ok {
		t = p.Elem()
	}
	s := typeStr(t)
	return s == "sync.Mutex" || s == "sync.RWMutex"
}

// c06structOf resolves "pkg.Type" (short package name) to its struct type.
func c06structOf(c *Ctx, typ string) *types.Struct {
	dot := strings.LastIndex(typ, ".")
	if dot < 0 {
		return nil
	}
	pkg, name := typ[:dot], typ[dot+1:]
	for path, sp := range c.spkgs {
		if sp.Pkg.Name() != pkg || !strings.HasPrefix(path, repoMod) {
			continue
		}
		if t := sp.Type(name); t != nil {
			if st, ok := t.Type().Underlying().(*types.Struct); ok {
				return st
			}
		}
	}
	return nil
}

// c06s3: every load or store of a guarded field (outside package initialisation, outside the construction of an object
// that is not shared yet) holds a lock: at the access, or in every caller.
func c06s3(sa *sharedAnalysis, rule string) int {
	c := sa.c
	guarded := c06guarded(c)
	n := 0
	for _, f := range c.AllFns {
		if isInitFn(f) {
			continue
		}
		eachInstr(f, func(i ssa.Instruction) {
			var addr ssa.Value
			write := false
			switch x := i.(type) {
			case *ssa.UnOp:
				if x.Op != token.MUL {
					return
				}
				addr = x.X
			case *ssa.Store:
				addr, write = x.Addr, true
			default:
				return
			}
			var g *c06guardedField
			switch a := addr.(type) {
			case *ssa.FieldAddr:
				for k := range guarded {
					lt := &guarded[k]
					if lt.typ != "" && namedIs(a.X.Type(), lt.typ) && fieldName(a.X.Type(), a.Field) == lt.field {
						g = lt
					}
				}
				if g != nil {
					if _, isAlloc := a.X.(*ssa.Alloc); isAlloc {
						return // constructor: object not shared yet
					}
					if c06onlyOnFresh(a.X, 0) {
						return // initialising helper of a constructor: only ever called on an object just allocated
					}
				}
			case *ssa.Global:
				for k := range guarded {
					lt := &guarded[k]
					if lt.typ == "" && a.Pkg.Pkg.Name()+"."+a.Name() == lt.field {
						g = lt
					}
				}
			}
			if g == nil {
				return
			}
			// len()/cap() of a slice header that is assigned only while the object is constructed is not an access to the guarded contents
			if u, isLoad := i.(*ssa.UnOp); isLoad && g.typ != "" {
				if _, isSlice := u.Type().Underlying().(*types.Slice); isSlice && onlyLenCap(u) && !c06fieldStoredAfterCtor(c, g.typ, g.field) {
					return
				}
			}
			n++
			held := c06lockedAtAll(c, i, write, 0)
			what := "read"
			if write {
				what = "write"
			}
			name := g.field
			if g.typ != "" {
				name = g.typ + "." + g.field
			}
			c.check(rule, fnKey(f)+"|"+what+" of "+name+" under its lock", i.Pos(), held,
				name+" ("+g.reason+") is guarded by a mutex everywhere else; this "+what+" does not hold it and races with the guarded accesses")
		})
	}
	return n
}

// c06fieldStoredAfterCtor: the field is assigned somewhere other than on an object under construction.
func c06fieldStoredAfterCtor(c *Ctx, typ, field string) bool {
	found := false
	for _, f := range c.AllFns {
		eachInstr(f, func(i ssa.Instruction) {
			st, ok := i.(*ssa.Store)
			if !ok {
				return
			}
			fa, ok := st.Addr.(*ssa.FieldAddr)
			if !ok || !namedIs(fa.X.Type(), typ) || fieldName(fa.X.Type(), fa.Field) != field {
				return
			}
			if _, isAlloc := fa.X.(*ssa.Alloc); isAlloc {
				return
			}
			if c06onlyOnFresh(fa.X, 0) {
				return
			}
			found = true
		})
	}
	return found
}

// c06lockedAt: `at` executes under a lock, directly or because every call site that reaches it from a serving entry
// holds one (sa.callers: static, interface and function-value call sites inside the serving-reachable code).
func c06lockedAt(sa *sharedAnalysis, at ssa.Instruction, write bool, depth int) (bool, string) {
	if h := c06heldAt(at, write); len(h) > 0 {
		return true, h[0]
	}
	if c06onceOnly(sa, at.Parent()) {
		// the function only ever runs as the argument of sync.Once.Do on a Once that is shared between the requests:
		// at most one execution, and every Do returns after it (happens-before)
		return true, "sync.Once.Do (the function runs only inside it)"
	}
	if depth > 3 {
		return false, ""
	}
	sites := sa.callers[at.Parent()]
	if len(sites) == 0 {
		return false, ""
	}
	name := ""
	for _, cs := range sites {
		if _, isGo := cs.inst.(*ssa.Go); isGo {
			return false, ""
		}
		ok, n := c06lockedAt(sa, cs.inst, write, depth+1)
		if !ok {
			return false, ""
		}
		name = n
	}
	return true, name + " (held by every caller)"
}

// c06s1 is the shared-state scan S1 (shared.go (*sharedAnalysis).s1, which C02.A3 and C13.S1 keep using) with the
// lock discipline of this file: a lock taken through a wrapper method counts, a caller's lock does not cover a
// goroutine it starts. Shared types, address chains and freshness are the shared analysis'.
func c06s1(sa *sharedAnalysis, rule string) int {
	c := sa.c
	n := 0
	c06syncWrites = nil
	var fns []*ssa.Function
	for f := range sa.reach {
		fns = append(fns, f)
	}
	c06sortFns(fns)
	for _, f := range fns {
		eachInstr(f, func(i ssa.Instruction) {
			var addr ssa.Value
			switch x := i.(type) {
			case *ssa.Store:
				addr = x.Addr
			case *ssa.MapUpdate:
				addr = x.Map
			case *ssa.Call:
				// library calls that reorder / overwrite their first argument in place
				if mutatingExternal[calleeName(&x.Call)] && len(x.Call.Args) > 0 {
					addr = mutatedArg(&x.Call)
					if _, isBasic := addr.Type().Underlying().(*types.Basic); isBasic {
						return
					}
				} else if calleeName(&x.Call) == "builtin.delete" && len(x.Call.Args) > 0 {
					addr = x.Call.Args[0]
				} else {
					return
				}
			default:
				return
			}
			ci := sa.chain(addr)
			_, isMU := i.(*ssa.MapUpdate)
			if call, isCall := i.(*ssa.Call); isCall && calleeName(&call.Call) == "builtin.delete" {
				isMU = true
			}
			if isMU && ci.sharedStep == "" {
				if k := typeKey(addr.Type()); k != "" && sa.sharedTy[k] {
					ci.sharedStep = strings.TrimPrefix(k, repoMod+"/") + "[k]"
				}
			}
			if ci.sharedStep == "" {
				return
			}
			allFresh := true
			why := ""
			for _, rt := range ci.roots {
				if !sa.fresh(rt, f, 0) {
					allFresh = false
					why = describeRoot(rt)
				}
			}
			n++
			key := fnKey(f) + "|store " + ci.sharedStep
			if allFresh {
				c.ob(rule, key, i.Pos(), OK, "object is freshly built on this request path (not yet shared)")
				return
			}
			if ok, l := c06lockedAt(sa, i, true, 0); ok {
				c06syncWrites = append(c06syncWrites, c06syncWrite{i, ci.sharedStep, l})
				c.ob(rule, key, i.Pos(), OK, "performed while holding "+l)
				return
			}
			root := sa.rootPath(f)
			c.ob(rule, key, i.Pos(), Viol, "unsynchronised write to "+ci.sharedStep+" of an object shared between requests ("+why+"); reachable from a serving entry: "+root+". Two concurrent requests race on it and can observe each other's value")
		})
	}
	return n
}

func c06sortFns(fns []*ssa.Function) {
	for i := 1; i < len(fns); i++ {
		for j := i; j > 0 && fns[j].String() < fns[j-1].String(); j-- {
			fns[j], fns[j-1] = fns[j-1], fns[j]
		}
	}
}

// c06syncWrite is one store of the request path into an object shared between requests that S1 accepted because it is
// synchronised (a lock is held, or it runs inside sync.Once.Do). C06.S9 (c06_round4.go) derives from them the fields
// whose readers need to synchronise as well. Refilled by every run of c06s1 (one program at a time).
type c06syncWrite struct {
	instr ssa.Instruction
	step  string // "route.Target.accessRules"
	how   string
}

var c06syncWrites []c06syncWrite

// c06onceDo: the call runs its function argument under a sync.Once that is not a local of the calling function (a
// field of a shared object, a package variable, an entry of a shared map): (*sync.Once).Do(f). Returns the argument.
func c06onceDo(cc *ssa.CallCommon) (ssa.Value, bool) {
	if cc == nil || cc.IsInvoke() || calleeName(cc) != "(*sync.Once).Do" || len(cc.Args) != 2 {
		return nil, false
	}
	base, _ := c06addrBase(cc.Args[0])
	if _, isLocal := base.(*ssa.Alloc); isLocal {
		return nil, false // a Once made for this call orders nothing between requests
	}
	return cc.Args[1], true
}

var c06onceCache struct {
	sa  *sharedAnalysis
	fns map[*ssa.Function]bool
}

// c06onceOnly: f runs only as the function handed to sync.Once.Do: it is such an argument somewhere, nothing calls it
// directly, and (a closure) its value is used for nothing else.
func c06onceOnly(sa *sharedAnalysis, f *ssa.Function) bool {
	if f == nil {
		return false
	}
	if c06onceCache.sa != sa {
		fns := map[*ssa.Function]bool{}
		for _, g := range sa.c.AllFns {
			eachInstr(g, func(i ssa.Instruction) {
				if arg, ok := c06onceDo(callCommon(i)); ok {
					for _, h := range funcsOf(arg) {
						fns[h] = true
					}
				}
			})
		}
		c06onceCache.sa, c06onceCache.fns = sa, fns
	}
	if !c06onceCache.fns[f] || len(gSites[f]) > 0 {
		return false
	}
	if f.Parent() == nil {
		// a named function / method handed to Do as a value: nothing may call it by name or through an interface
		// (call sites of function VALUES of the same signature are not attributed to it)
		for _, cs := range sa.callers[f] {
			if cc := callCommon(cs.inst); cc != nil && (cc.IsInvoke() || cc.StaticCallee() != nil) {
				return false
			}
		}
		return true
	}
	// a closure: its value must flow into Once.Do and nowhere else
	ok := true
	eachInstr(f.Parent(), func(i ssa.Instruction) {
		mc, isMC := i.(*ssa.MakeClosure)
		if !isMC || mc.Fn != f {
			return
		}
		for _, r := range *mc.Referrers() {
			if _, isDbg := r.(*ssa.DebugRef); isDbg {
				continue
			}
			if arg, isOnce := c06onceDo(callCommon(r)); !isOnce || arg != ssa.Value(mc) {
				ok = false
			}
		}
	})
	return ok
}
