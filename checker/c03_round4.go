package main

// Rules of C03 added after the fourth round of independently written breaking changes (DESIGN 11.12); they register
// themselves with addRound4 (zzz_round4.go) and run right after runC03 on the same program (c03CurRoles).
//
//	G1  every key of the table is offered to the glob matcher in the glob-mode host matcher (no pre-filter, no
//	    "plain name" fast path that decides by a weaker predicate than the compiled pattern)
//	M1  a memo that supplies the host candidates (or the target) of Table.Lookup is keyed by everything the memoised
//	    value depends on: the routing table, the request host and whether the connection is TLS

import (
	"go/token"
	"go/types"
	"sort"
	"strings"

	"golang.org/x/tools/go/ssa"
)

func init() {
	addRound4("C03", "(G1) in the host matcher used when host globbing is enabled (a loop over the route.Table's keys that glob-matches them against the request host) every iteration offers the key to the compiled glob: the only ways round the Match call are a pattern that did not compile and a pattern proved free of every glob meta character (* ? [ {) - a 'plain host name' fast path or pre-filter that decides by a weaker test drops routes whose host uses ?, [..] or {a,b}.", runC03G1, c03MutantsG1...)
	addRound4("C03", "(M1) the host keys tried by Table.Lookup (and the target it returns) are computed from the receiver table, the request host and the TLS state of THIS call; where they are taken from a memo (sync.Map / map / cache Get, a remembered last result) the memo's key carries all three (plus the path for a remembered target): the table's identity, the request host, and the TLS state as a component of its own - a cache keyed by the normalised host alone outlives the table it was computed from and is shared by TLS and plain requests.", runC03M1, c03MutantsM1...)
}

// ---- G1: every key is offered to the glob matcher ----------------------------------------------------------------

// c03IsGlobMatch: i asks a compiled pattern whether a string matches (glob.Glob.Match, or any Match(string) bool
// invoked on an interface).
func c03IsGlobMatch(i ssa.Instruction) bool {
	call, ok := i.(*ssa.Call)
	if !ok || !call.Call.IsInvoke() || call.Call.Method.Name() != "Match" {
		return false
	}
	return len(call.Call.Args) == 1 && c03IsString(call.Call.Args[0].Type())
}

// c03YieldsGlob: v is (the tuple of) a call one of whose results is a compiled glob.
func c03YieldsGlob(v ssa.Value) bool {
	call, ok := v.(*ssa.Call)
	if !ok {
		return false
	}
	sig := call.Call.Signature()
	if sig == nil {
		return false
	}
	for k := 0; k < sig.Results().Len(); k++ {
		if namedIs(sig.Results().At(k).Type(), "glob.Glob") {
			return true
		}
	}
	return false
}

// c03globMetas: the characters that make a gobwas/glob pattern something else than a literal text (the lexer's text
// breakers). A pattern without any of them matches exactly itself ('\\' only escapes and cannot occur in a host).
const c03globMetas = "*?[{"

// c03NoCharFact: the fact says that string x contains none of chars (strings.Contains / ContainsAny / ContainsRune
// returned false, strings.Index* returned a negative number).
func c03NoCharFact(ft Fact) (x ssa.Value, chars string, ok bool) {
	ofCall := func(v ssa.Value) (ssa.Value, string, bool) {
		call, isCall := v.(*ssa.Call)
		if !isCall || len(call.Call.Args) != 2 || !c03IsString(call.Call.Args[0].Type()) {
			return nil, "", false
		}
		arg := call.Call.Args[1]
		switch c03Name(&call.Call) {
		case "strings.Contains", "strings.Index":
			if s, isS := constString(arg); isS && len(s) == 1 {
				return call.Call.Args[0], s, true
			}
		case "strings.ContainsAny", "strings.IndexAny":
			if s, isS := constString(arg); isS {
				return call.Call.Args[0], s, true
			}
		case "strings.ContainsRune", "strings.IndexRune", "strings.IndexByte":
			if n, isN := constInt(arg); isN && n > 0 && n < 128 {
				return call.Call.Args[0], string(rune(n)), true
			}
		}
		return nil, "", false
	}
	switch c := ft.Cond.(type) {
	case *ssa.Call:
		if !strings.HasPrefix(c03Name(&c.Call), "strings.Contains") || ft.Truth {
			return nil, "", false
		}
		return ofCall(c)
	case *ssa.BinOp:
		call, isCall := c.X.(*ssa.Call)
		k, isK := constInt(c.Y)
		if !isCall || !isK || !strings.HasPrefix(c03Name(&call.Call), "strings.Index") {
			return nil, "", false
		}
		neg := false // the fact says: index < 0
		switch {
		case c.Op == token.LSS && k == 0, c.Op == token.EQL && k == -1, c.Op == token.LEQ && k == -1:
			neg = ft.Truth
		case c.Op == token.GEQ && k == 0, c.Op == token.NEQ && k == -1, c.Op == token.GTR && k == -1:
			neg = !ft.Truth
		}
		if !neg {
			return nil, "", false
		}
		return ofCall(call)
	}
	return nil, "", false
}

// c03g1Excused: whenever control reaches b the key in hand cannot (or need not) be glob-matched: its pattern did not
// compile (non-nil error / nil glob / false ok of the call that yields the glob), or it is known to contain no glob
// meta character, so that comparing it literally is the same as matching it.
func c03g1Excused(b *ssa.BasicBlock) bool { return c03g1ExcusedBy(localFactsAt(b)) }

// c03g1EdgeExcused: the same for the branch edge from b to s (`if pattern == "" { continue }` jumps straight back to
// the loop head: the fact holds on the edge, there is no block of its own).
func c03g1EdgeExcused(b, s *ssa.BasicBlock) bool {
	if len(b.Instrs) == 0 || len(b.Succs) != 2 || b.Succs[0] == b.Succs[1] {
		return false
	}
	iff, ok := b.Instrs[len(b.Instrs)-1].(*ssa.If)
	if !ok {
		return false
	}
	return c03g1ExcusedBy(appendCondFacts(nil, iff.Cond, b.Succs[0] == s, 0))
}

func c03g1ExcusedBy(facts []Fact) bool {
	isGlobErr := func(v ssa.Value) bool {
		e, ok := v.(*ssa.Extract)
		return ok && c03YieldsGlob(e.Tuple) && !namedIs(e.Type(), "glob.Glob")
	}
	isGlob := func(v ssa.Value) bool {
		return namedIs(c03StripIface(v).Type(), "glob.Glob") || namedIs(v.Type(), "glob.Glob")
	}
	// a verdict computed by a small repository predicate (`if isPlainHost(pattern)`): what its single return value says
	// about its argument holds as well
	for _, ft := range facts[:len(facts):len(facts)] {
		call, ok := ft.Cond.(*ssa.Call)
		if !ok {
			continue
		}
		sc := call.Call.StaticCallee()
		if sc == nil || !isRepoFn(sc) || len(sc.Blocks) == 0 || sc.Signature.Results().Len() != 1 {
			continue
		}
		var rets []*ssa.Return
		eachInstr(sc, func(i ssa.Instruction) {
			if r, isR := i.(*ssa.Return); isR && r.Block() != sc.Recover {
				rets = append(rets, r)
			}
		})
		if len(rets) == 1 && len(rets[0].Results) == 1 {
			facts = append(facts, appendCondFacts(nil, rets[0].Results[0], ft.Truth, 0)...)
		}
	}
	none := map[ssa.Value]string{}
	for _, ft := range facts {
		if nn, ok := nilFact(ft, isGlobErr); ok && nn {
			return true
		}
		if nn, ok := nilFact(ft, isGlob); ok && !nn {
			return true
		}
		if e, ok := ft.Cond.(*ssa.Extract); ok && !ft.Truth && c03YieldsGlob(e.Tuple) {
			return true // `g, ok := compile(p); if !ok`
		}
		if x, chars, ok := c03NoCharFact(ft); ok {
			none[x] += chars
		}
		// the string in hand equals a constant without meta characters (`if pattern == "" { continue }`)
		if bo, ok := ft.Cond.(*ssa.BinOp); ok && ((bo.Op == token.EQL && ft.Truth) || (bo.Op == token.NEQ && !ft.Truth)) {
			for n, side := range []ssa.Value{bo.X, bo.Y} {
				other := []ssa.Value{bo.Y, bo.X}[n]
				if k, isK := constString(side); isK && !strings.ContainsAny(k, c03globMetas) &&
					derives(other, func(x ssa.Value) bool { _, isKey := c03TableKey(x); return isKey || c03KeyList(x) }) {
					return true
				}
			}
		}
	}
	for _, chars := range none {
		all := true
		for _, m := range c03globMetas {
			if !strings.ContainsRune(chars, m) {
				all = false
			}
		}
		if all {
			return true
		}
	}
	return false
}

// c03g1: must-analysis "this code glob-matches (or is excused) on every path".
type c03g1 struct {
	memo map[*ssa.Function]int // 1 in progress, 2 yes, 3 no
}

// does: instruction i consults the glob matcher: a Match call, or a call of a repository function / local closure that
// does so (or is excused) on each of its paths.
func (g *c03g1) does(i ssa.Instruction, depth int) bool {
	if c03IsGlobMatch(i) {
		return true
	}
	call, ok := i.(*ssa.Call)
	if !ok {
		return false
	}
	if sc := call.Call.StaticCallee(); sc != nil {
		return isRepoFn(sc) && g.must(unwrap(sc), depth+1)
	}
	if call.Call.IsInvoke() {
		return false
	}
	fns := funcsOf(call.Call.Value)
	if len(fns) > 0 {
		for _, f := range fns {
			if !g.must(f, depth+1) {
				return false
			}
		}
		return true
	}
	// the test applied to a key is a parameter of a higher-order walk over the keys (`hostPatterns(tls, keep)`): the
	// callers choose the mode by the function they pass. The functions that can reach the glob matcher are the glob
	// mode's: each of them must consult it (or be excused) on every path; the others are the other mode's tests.
	if _, isParam := call.Call.Value.(*ssa.Parameter); !isParam {
		return false
	}
	nGlob := 0
	for _, f := range c03CalleesOf(call.Call.Value) {
		if !mayExec(f, c03IsGlobMatch, 1) {
			continue
		}
		nGlob++
		if !g.must(f, depth+1) {
			return false
		}
	}
	return nGlob > 0
}

func (g *c03g1) must(fn *ssa.Function, depth int) bool {
	if fn == nil || len(fn.Blocks) == 0 || depth > 3 {
		return false
	}
	switch g.memo[fn] {
	case 1, 3:
		return false
	case 2:
		return true
	}
	g.memo[fn] = 1
	res := true
	seen := map[*ssa.BasicBlock]bool{fn.Blocks[0]: true}
	stack := []*ssa.BasicBlock{fn.Blocks[0]}
walk:
	for len(stack) > 0 {
		b := stack[len(stack)-1]
		stack = stack[:len(stack)-1]
		if c03g1Excused(b) {
			continue
		}
		for _, in := range b.Instrs {
			if g.does(in, depth) {
				continue walk
			}
			if _, isRet := in.(*ssa.Return); isRet {
				res = false
				break walk
			}
		}
		for _, s := range b.Succs {
			if !seen[s] {
				seen[s] = true
				stack = append(stack, s)
			}
		}
	}
	if res {
		g.memo[fn] = 2
	} else {
		g.memo[fn] = 3
	}
	return res
}

// skips: a block of loop l from which the head is reached again although the iteration neither consulted the glob
// matcher nor passed an excuse (nil: no such path).
func (g *c03g1) skips(l *loop) *ssa.BasicBlock {
	seen := map[*ssa.BasicBlock]bool{}
	var stack []*ssa.BasicBlock
	for _, e := range l.Head.Succs {
		if l.Body[e] && e != l.Head && !seen[e] {
			seen[e] = true
			stack = append(stack, e)
		}
	}
walk:
	for len(stack) > 0 {
		b := stack[len(stack)-1]
		stack = stack[:len(stack)-1]
		if c03g1Excused(b) || g.otherMode(b, l) {
			continue
		}
		for _, in := range b.Instrs {
			if g.does(in, 0) {
				continue walk
			}
		}
		for _, s := range b.Succs {
			if c03g1EdgeExcused(b, s) {
				continue
			}
			if s == l.Head {
				return b
			}
			if l.Body[s] && !seen[s] {
				seen[s] = true
				stack = append(stack, s)
			}
		}
	}
	return nil
}

// otherMode: block b of loop l lies on the side of a branch on a loop-invariant condition (a mode flag such as "host
// globbing disabled": a value computed outside the loop, hence independent of the key, and not computed from the
// request host) from which the glob matcher is never reached within the iteration: that side is the matcher of the
// other mode (exact comparison of every key), merged into the same loop; the glob mode's obligations do not apply.
func (g *c03g1) otherMode(b *ssa.BasicBlock, l *loop) bool {
	for cur := b; cur != nil && cur != l.Head && l.Body[cur]; cur = cur.Idom() {
		if len(cur.Preds) != 1 {
			continue
		}
		p := cur.Preds[0]
		if !l.Body[p] || len(p.Instrs) == 0 || len(p.Succs) != 2 || p.Succs[0] == p.Succs[1] {
			continue
		}
		iff, ok := p.Instrs[len(p.Instrs)-1].(*ssa.If)
		if !ok {
			continue
		}
		cond := iff.Cond
		for {
			u, isNot := cond.(*ssa.UnOp)
			if !isNot || u.Op != token.NOT {
				break
			}
			cond = u.X
		}
		if in, isInstr := cond.(ssa.Instruction); isInstr && (in.Block() == nil || in.Block().Parent() != l.Head.Parent() || l.Body[in.Block()]) {
			continue // computed in the iteration
		}
		if _, isConst := cond.(*ssa.Const); isConst {
			continue
		}
		if derives(cond, func(x ssa.Value) bool { _, isHost := fieldOf(x, "http.Request", "Host"); return isHost }) {
			continue
		}
		// the glob matcher is out of reach on this side
		reach := false
		seen := map[*ssa.BasicBlock]bool{cur: true}
		stack := []*ssa.BasicBlock{cur}
		for len(stack) > 0 && !reach {
			x := stack[len(stack)-1]
			stack = stack[:len(stack)-1]
			for _, in := range x.Instrs {
				if g.does(in, 0) {
					reach = true
				}
			}
			for _, s := range x.Succs {
				if s != l.Head && l.Body[s] && !seen[s] {
					seen[s] = true
					stack = append(stack, s)
				}
			}
		}
		if !reach {
			return true
		}
	}
	return false
}

func c03blockPos(b *ssa.BasicBlock, dflt token.Pos) token.Pos {
	for _, in := range b.Instrs {
		if in.Pos() != token.NoPos {
			return in.Pos()
		}
	}
	// the condition that ends the block
	if n := len(b.Instrs); n > 0 {
		if iff, ok := b.Instrs[n-1].(*ssa.If); ok && iff.Cond.Pos() != token.NoPos {
			return iff.Cond.Pos()
		}
	}
	return dflt
}

func runC03G1(c *Ctx) {
	r := c03CurRoles
	if r == nil {
		c.undecided("C03.G1", "anchor|roles of package route", "the host matchers were not searched")
		return
	}
	g := &c03g1{memo: map[*ssa.Function]int{}}
	nGlob := 0
	for _, l := range r.keyLoops {
		var site *c03Site
		for k := range r.sites {
			if s := &r.sites[k]; s.loop != nil && s.loop.Head == l.Head && c03IsGlobMatch(s.instr) {
				site = s
				break
			}
		}
		if site == nil {
			continue // the matcher used when globbing is disabled
		}
		nGlob++
		f := c03loopFn(l)
		b := g.skips(l)
		pos := site.instr.Pos()
		if b != nil {
			pos = c03blockPos(b, pos)
		}
		c.check("C03.G1", fnKey(f)+"|every host key is offered to the glob matcher", pos, b == nil,
			"with host globbing enabled a route's host is a glob pattern (besides * the syntax has ?, [a-z], [!a] and {a,b}); here an iteration of the loop over the table's keys can decide about a key without asking the compiled pattern (a 'plain host name' fast path or a pre-filter whose test does not rule out every meta character * ? [ {): a host like {api,www}.foo.com or db[0-9].bar.com is compared literally, never equals the request host and drops out of the candidates - the request goes to a less specific wildcard host, to the host-less fallback, or is not routed although a candidate exists")
	}
	c.atLeast("C03.G1", "loops over the table's keys that glob-match them against the request host", nGlob, 1)
}

// ---- memo loads ---------------------------------------------------------------------------------------------------

// c03MemoLoadOf: v is a value taken out of a keyed store: the (type-asserted) result of a Load/Get/Peek method of a
// type that is not the repository's (sync.Map, an LRU), or an index into a map that is not the routing table and not
// made in the same function. cell says where the store lives, key is the lookup key.
func c03MemoLoadOf(v ssa.Value) (cell, key ssa.Value, kind string, ok bool) {
	if e, isE := v.(*ssa.Extract); isE && e.Index == 0 {
		switch e.Tuple.(type) {
		case *ssa.TypeAssert, *ssa.Lookup:
			v = e.Tuple
		}
	}
	switch x := v.(type) {
	case *ssa.TypeAssert:
		return c03CacheGet(x.X)
	case *ssa.Lookup:
		if _, isMap := x.X.Type().Underlying().(*types.Map); isMap && !c03IsTableT(x.X.Type()) {
			if _, local := x.X.(*ssa.MakeMap); !local {
				return x.X, x.Index, "map index", true
			}
		}
	case *ssa.Call, *ssa.Extract:
		return c03CacheGet(v)
	}
	return nil, nil, "", false
}

func c03CacheGet(v ssa.Value) (cell, key ssa.Value, kind string, ok bool) {
	if e, isE := v.(*ssa.Extract); isE {
		if e.Index != 0 {
			return nil, nil, "", false
		}
		v = e.Tuple
	}
	call, isCall := v.(*ssa.Call)
	if !isCall {
		return nil, nil, "", false
	}
	var recv ssa.Value
	var args []ssa.Value
	name := ""
	if call.Call.IsInvoke() {
		recv, args, name = call.Call.Value, call.Call.Args, call.Call.Method.Name()
	} else {
		sc := call.Call.StaticCallee()
		if sc == nil || isRepoFn(sc) || sc.Signature.Recv() == nil || len(call.Call.Args) == 0 {
			return nil, nil, "", false
		}
		recv, args, name = call.Call.Args[0], call.Call.Args[1:], sc.Name()
	}
	switch name {
	case "Load", "Get", "Peek", "LoadOrStore":
	default:
		return nil, nil, "", false
	}
	if len(args) == 0 {
		return nil, nil, "", false
	}
	return recv, args[0], c03Name(&call.Call), true
}

// c03CellID names the memory a store lives in: a struct field (by type and field name) or a package-level variable;
// "" when it is neither.
func c03CellID(v ssa.Value) string {
	for d := 0; d < 6; d++ {
		switch x := v.(type) {
		case *ssa.UnOp:
			if x.Op != token.MUL {
				return ""
			}
			v = x.X
		case *ssa.FieldAddr:
			return typeStr(x.X.Type()) + "#" + fieldName(x.X.Type(), x.Field)
		case *ssa.Field:
			return typeStr(x.X.Type()) + "#" + fieldName(x.X.Type(), x.Field)
		case *ssa.Global:
			return "global " + x.String()
		case *ssa.ChangeType:
			v = x.X
		default:
			return ""
		}
	}
	return ""
}

// c03MemoStores: what the repository puts into the store that lives in cell: the value argument of its
// Store/LoadOrStore/Swap/Add/Set/Put calls and the values of its map updates.
func c03MemoStores(c *Ctx, cell ssa.Value) (vals []ssa.Value, ats []ssa.Instruction) {
	id := c03CellID(cell)
	if id == "" {
		return
	}
	for _, f := range c.AllFns {
		eachInstr(f, func(i ssa.Instruction) {
			if mu, ok := i.(*ssa.MapUpdate); ok {
				if c03CellID(mu.Map) == id {
					vals, ats = append(vals, mu.Value), append(ats, i)
				}
				return
			}
			cc := callCommon(i)
			if cc == nil {
				return
			}
			var recv ssa.Value
			var args []ssa.Value
			name := ""
			if cc.IsInvoke() {
				recv, args, name = cc.Value, cc.Args, cc.Method.Name()
			} else if sc := cc.StaticCallee(); sc != nil && !isRepoFn(sc) && sc.Signature.Recv() != nil && len(cc.Args) > 0 {
				recv, args, name = cc.Args[0], cc.Args[1:], sc.Name()
			}
			switch name {
			case "Store", "LoadOrStore", "Swap", "Add", "Set", "Put":
			default:
				return
			}
			if len(args) < 2 || c03CellID(recv) != id {
				return
			}
			vals, ats = append(vals, c03StripIface(args[1])), append(ats, i)
		})
	}
	return
}

// ---- M1: a memo on the way to the host candidates / the target is keyed by table, host and TLS ---------------------

type c03src uint8

const (
	c03sHost c03src = 1 << iota
	c03sTLS
	c03sTable    // the table itself (its identity)
	c03sTableKey // a key / an entry of the table
	c03sPath
)

// c03srcWalk computes which inputs of a lookup a value is computed from (backward slice: operands of every
// instruction, results of repository helpers, parameters back to the call they were entered through or to every static
// call site, local cells, captured variables).
type c03srcWalk struct {
	seen  map[c03normKey]bool
	stack []ssa.CallInstruction
	hops  int
}

func c03SourcesOf(v ssa.Value, stack []ssa.CallInstruction) c03src {
	w := &c03srcWalk{seen: map[c03normKey]bool{}, stack: append([]ssa.CallInstruction(nil), stack...)}
	return w.of(v, 0)
}

func (w *c03srcWalk) of(v ssa.Value, d int) c03src {
	if v == nil || d > 60 {
		return 0
	}
	var top ssa.CallInstruction
	if n := len(w.stack); n > 0 {
		top = w.stack[n-1]
	}
	k := c03normKey{v, top}
	if w.seen[k] {
		return 0
	}
	w.seen[k] = true
	if _, ok := fieldOf(v, "http.Request", "Host"); ok {
		return c03sHost
	}
	if _, ok := fieldOf(v, "http.Request", "TLS"); ok {
		return c03sTLS
	}
	for _, fld := range []string{"Path", "RawPath"} {
		if _, ok := fieldOf(v, "url.URL", fld); ok {
			return c03sPath
		}
	}
	var out c03src
	all := func(vs ...ssa.Value) {
		for _, x := range vs {
			out |= w.of(x, d+1)
		}
	}
	storesTo := func(a *ssa.Alloc) {
		if refs := a.Referrers(); refs != nil {
			for _, r := range *refs {
				switch y := r.(type) {
				case *ssa.Store:
					if y.Addr == a {
						all(y.Val)
					}
				case *ssa.FieldAddr:
					for _, r2 := range *y.Referrers() {
						if st, ok := r2.(*ssa.Store); ok && st.Addr == y {
							all(st.Val)
						}
					}
				case *ssa.IndexAddr:
					for _, r2 := range *y.Referrers() {
						if st, ok := r2.(*ssa.Store); ok && st.Addr == y {
							all(st.Val)
						}
					}
				}
			}
		}
	}
	results := func(call *ssa.Call, idx int) bool {
		sc := call.Call.StaticCallee()
		if sc == nil || !isRepoFn(sc) || len(sc.Blocks) == 0 || w.hops >= 8 {
			return false
		}
		w.hops++
		w.stack = append(w.stack, call)
		eachInstr(sc, func(i ssa.Instruction) {
			if r, ok := i.(*ssa.Return); ok {
				for j, res := range r.Results {
					if idx < 0 || idx == j {
						all(res)
					}
				}
			}
		})
		w.stack = w.stack[:len(w.stack)-1]
		w.hops--
		return true
	}
	switch x := v.(type) {
	case *ssa.Const, *ssa.Global, *ssa.Function, *ssa.Builtin:
		return 0
	case *ssa.Range:
		if c03IsTableT(x.X.Type()) {
			return c03sTableKey
		}
		all(x.X)
	case *ssa.Lookup:
		if c03IsTableT(x.X.Type()) {
			out |= c03sTableKey
			all(x.Index)
			return out
		}
		all(x.X, x.Index)
	case *ssa.Parameter:
		fn := x.Parent()
		idx := -1
		for j, p := range fn.Params {
			if p == x {
				idx = j
			}
		}
		switch {
		case top != nil && top.Common().StaticCallee() == fn:
			// back to the call we came in through
			w.stack = w.stack[:len(w.stack)-1]
			if idx >= 0 && idx < len(top.Common().Args) {
				all(top.Common().Args[idx])
			}
			w.stack = append(w.stack, top)
		case c03IsTableT(x.Type()):
			return c03sTable
		case top == nil && idx >= 0 && w.hops < 8:
			w.hops++
			for _, s := range gSites[fn] {
				if idx < len(s.Common().Args) {
					all(s.Common().Args[idx])
				}
			}
			w.hops--
		}
	case *ssa.FreeVar:
		fn := x.Parent()
		if p := fn.Parent(); p != nil {
			for j, fv := range fn.FreeVars {
				if fv != x {
					continue
				}
				eachInstr(p, func(i ssa.Instruction) {
					if mc, ok := i.(*ssa.MakeClosure); ok && mc.Fn == fn && j < len(mc.Bindings) {
						all(mc.Bindings[j])
					}
				})
			}
		}
	case *ssa.Alloc:
		storesTo(x)
	case *ssa.UnOp:
		if a, ok := x.X.(*ssa.Alloc); ok && x.Op == token.MUL {
			storesTo(a)
			return out
		}
		all(x.X)
	case *ssa.Extract:
		if call, ok := x.Tuple.(*ssa.Call); ok && results(call, x.Index) {
			return out
		}
		all(x.Tuple)
	case *ssa.Call:
		if results(x, -1) {
			return out
		}
		if x.Call.IsInvoke() {
			all(x.Call.Value)
		}
		all(x.Call.Args...)
	case ssa.Instruction:
		for _, op := range x.Operands(nil) {
			if op != nil && *op != nil {
				all(*op)
			}
		}
	}
	if out == 0 && c03IsTableT(v.Type()) {
		out = c03sTable
	}
	return out
}

// c03keyPart: one component of a memo key with the call context it is evaluated in.
type c03keyPart struct {
	v     ssa.Value
	stack []ssa.CallInstruction
}

// c03KeyParts flattens a key into its components: the fields of a struct literal, the operands of a string
// concatenation, the arguments of fmt.Sprint*/strings.Join, an accessor's parameter back to the caller's argument.
func c03KeyParts(v ssa.Value, stack []ssa.CallInstruction, d int) []c03keyPart {
	leaf := []c03keyPart{{v, append([]ssa.CallInstruction(nil), stack...)}}
	if v == nil || d > 12 {
		return leaf
	}
	var out []c03keyPart
	more := func(x ssa.Value, st []ssa.CallInstruction) { out = append(out, c03KeyParts(x, st, d+1)...) }
	switch x := v.(type) {
	case *ssa.MakeInterface:
		more(x.X, stack)
	case *ssa.ChangeType:
		more(x.X, stack)
	case *ssa.Convert:
		if c03IsString(x.X.Type()) {
			more(x.X, stack)
		}
	case *ssa.BinOp:
		if x.Op == token.ADD && c03IsString(x.Type()) {
			more(x.X, stack)
			more(x.Y, stack)
		}
	case *ssa.UnOp:
		a, ok := x.X.(*ssa.Alloc)
		if !ok || x.Op != token.MUL {
			break
		}
		for _, r := range *a.Referrers() {
			switch y := r.(type) {
			case *ssa.Store:
				if y.Addr == a {
					more(y.Val, stack)
				}
			case *ssa.FieldAddr:
				for _, r2 := range *y.Referrers() {
					if st, ok := r2.(*ssa.Store); ok && st.Addr == y {
						more(st.Val, stack)
					}
				}
			}
		}
	case *ssa.Call:
		n := c03Name(&x.Call)
		if sc := x.Call.StaticCallee(); sc != nil && isRepoFn(sc) && len(sc.Blocks) > 0 && sc.Signature.Results().Len() == 1 && !c03IsString(x.Type()) {
			// a helper that builds the key
			eachInstr(sc, func(i ssa.Instruction) {
				if r, ok := i.(*ssa.Return); ok && len(r.Results) == 1 {
					more(r.Results[0], append(append([]ssa.CallInstruction(nil), stack...), x))
				}
			})
			break
		}
		if !strings.HasPrefix(n, "fmt.Sprint") && n != "strings.Join" {
			break
		}
		for _, a := range x.Call.Args {
			if sl, ok := a.(*ssa.Slice); ok {
				if arr, ok := sl.X.(*ssa.Alloc); ok {
					for _, r := range *arr.Referrers() {
						if ia, ok := r.(*ssa.IndexAddr); ok {
							for _, r2 := range *ia.Referrers() {
								if st, ok := r2.(*ssa.Store); ok && st.Addr == ia {
									more(st.Val, stack)
								}
							}
						}
					}
					continue
				}
			}
			more(a, stack)
		}
	case *ssa.Parameter:
		fn := x.Parent()
		idx := -1
		for j, p := range fn.Params {
			if p == x {
				idx = j
			}
		}
		if n := len(stack); n > 0 && stack[n-1].Common().StaticCallee() == fn && idx >= 0 && idx < len(stack[n-1].Common().Args) {
			more(stack[n-1].Common().Args[idx], stack[:n-1])
		} else if len(stack) == 0 && idx >= 0 && len(gSites[fn]) == 1 && idx < len(gSites[fn][0].Common().Args) {
			more(gSites[fn][0].Common().Args[idx], nil)
		}
	}
	if len(out) == 0 {
		return leaf
	}
	return out
}

// c03memoLeaf: a place where the value walked is taken out of state that outlives the call.
type c03memoLeaf struct {
	at    ssa.Instruction
	kind  string
	cell  ssa.Value
	parts []c03keyPart
}

// c03memoWalk follows a list of host keys (or a target) backwards to the places where it is taken from a memo.
type c03memoWalk struct {
	c      *Ctx
	region map[*ssa.Function]bool // the functions a lookup runs through
	seen   map[c03normKey]bool
	stack  []ssa.CallInstruction
	hops   int
	leaves []c03memoLeaf
}

// c03stateAddr: addr is memory that outlives a call: a package-level variable or a field of an object the function
// did not allocate itself.
func c03stateAddr(addr ssa.Value) bool {
	switch x := addr.(type) {
	case *ssa.Global:
		return true
	case *ssa.FieldAddr:
		_, local := x.X.(*ssa.Alloc)
		return !local
	}
	return false
}

// writtenDuringLookup: the repository stores into the cell from a function of the lookup region (the cell is filled
// while requests are served; a table built once at start-up is not a memo).
func (w *c03memoWalk) writtenDuringLookup(addr ssa.Value) bool {
	id := c03CellID(addr)
	if id == "" {
		return false
	}
	hit := false
	for f := range w.region {
		eachInstr(f, func(i ssa.Instruction) {
			if st, ok := i.(*ssa.Store); ok && c03CellID(st.Addr) == id {
				hit = true
			}
		})
	}
	return hit
}

func (w *c03memoWalk) walk(v ssa.Value, d int) {
	if v == nil || d > 40 || isNilConst(v) {
		return
	}
	var top ssa.CallInstruction
	if n := len(w.stack); n > 0 {
		top = w.stack[n-1]
	}
	k := c03normKey{v, top}
	if w.seen[k] {
		return
	}
	w.seen[k] = true
	if cell, key, kind, ok := c03MemoLoadOf(v); ok {
		at, _ := v.(ssa.Instruction)
		parts := c03KeyParts(key, w.stack, 0)
		if at != nil && at.Block() != nil {
			// what the code has compared with remembered inputs on the way here (a memo object that carries the
			// identity of the table it belongs to) counts as part of the key
			parts = append(parts, c03GuardParts(at.Block(), w.stack)...)
		}
		w.leaves = append(w.leaves, c03memoLeaf{at: at, kind: kind, cell: cell, parts: parts})
		return
	}
	results := func(call *ssa.Call, idx int) {
		sc := call.Call.StaticCallee()
		if sc == nil || !isRepoFn(sc) || len(sc.Blocks) == 0 || w.hops >= 8 {
			return
		}
		w.hops++
		w.stack = append(w.stack, call)
		eachInstr(sc, func(i ssa.Instruction) {
			if r, ok := i.(*ssa.Return); ok && idx < len(r.Results) {
				w.walk(r.Results[idx], d+1)
			}
		})
		w.stack = w.stack[:len(w.stack)-1]
		w.hops--
	}
	switch x := v.(type) {
	case *ssa.Phi:
		for _, e := range x.Edges {
			w.walk(e, d+1)
		}
	case *ssa.Slice:
		if !c03EmptyList(x) { // buf[:0] keeps the array, not the elements
			w.walk(x.X, d+1)
		}
	case *ssa.ChangeType:
		w.walk(x.X, d+1)
	case *ssa.Convert:
		w.walk(x.X, d+1)
	case *ssa.MakeInterface:
		w.walk(x.X, d+1)
	case *ssa.Extract:
		switch t := x.Tuple.(type) {
		case *ssa.Call:
			results(t, x.Index)
		case *ssa.TypeAssert:
			w.walk(t.X, d+1)
		}
	case *ssa.TypeAssert:
		w.walk(x.X, d+1)
	case *ssa.Call:
		switch n := c03Name(&x.Call); {
		case n == "builtin.append":
			for _, a := range x.Call.Args {
				if !c03FreshArray(a) {
					w.walk(a, d+1)
				}
			}
		case n == "slices.Clone" || n == "slices.Clip" || n == "slices.Compact" || n == "slices.Concat":
			for _, a := range x.Call.Args {
				w.walk(a, d+1)
			}
		default:
			results(x, 0)
		}
	case *ssa.Alloc:
		for _, r := range *x.Referrers() {
			if st, ok := r.(*ssa.Store); ok && st.Addr == x {
				w.walk(st.Val, d+1)
			}
		}
	case *ssa.UnOp:
		if x.Op != token.MUL {
			return
		}
		if a, ok := x.X.(*ssa.Alloc); ok {
			w.walk(a, d+1)
			return
		}
		if c03stateAddr(x.X) {
			if w.writtenDuringLookup(x.X) {
				w.leaves = append(w.leaves, c03memoLeaf{at: x, kind: "remembered last result", cell: x.X, parts: c03GuardParts(x.Block(), w.stack)})
			}
			return
		}
		w.walk(x.X, d+1) // *p: where the pointer comes from
	case *ssa.Parameter:
		fn := x.Parent()
		idx := -1
		for j, p := range fn.Params {
			if p == x {
				idx = j
			}
		}
		if idx < 0 {
			return
		}
		if top != nil && top.Common().StaticCallee() == fn {
			w.stack = w.stack[:len(w.stack)-1]
			if idx < len(top.Common().Args) {
				w.walk(top.Common().Args[idx], d+1)
			}
			w.stack = append(w.stack, top)
			return
		}
		if top != nil || w.hops >= 8 || !w.region[fn] {
			return
		}
		w.hops++
		for _, s := range gSites[fn] {
			if idx < len(s.Common().Args) && w.region[s.Parent()] {
				w.walk(s.Common().Args[idx], d+1)
			}
		}
		w.hops--
	case *ssa.FreeVar:
		fn := x.Parent()
		if p := fn.Parent(); p != nil {
			for j, fv := range fn.FreeVars {
				if fv != x {
					continue
				}
				eachInstr(p, func(i ssa.Instruction) {
					if mc, ok := i.(*ssa.MakeClosure); ok && mc.Fn == fn && j < len(mc.Bindings) {
						w.walk(mc.Bindings[j], d+1)
					}
				})
			}
		}
	}
}

// c03GuardParts: the "key" of a remembered last result: what the code compares with the remembered inputs (other
// state of the same kind) on the way to the load.
func c03GuardParts(at *ssa.BasicBlock, stack []ssa.CallInstruction) []c03keyPart {
	isState := func(v ssa.Value) bool {
		u, ok := v.(*ssa.UnOp)
		return ok && u.Op == token.MUL && c03stateAddr(u.X)
	}
	var out []c03keyPart
	for _, ft := range localFactsAt(at) {
		bo, ok := ft.Cond.(*ssa.BinOp)
		if !ok || !((bo.Op == token.EQL && ft.Truth) || (bo.Op == token.NEQ && !ft.Truth)) {
			continue
		}
		switch {
		case isState(bo.X) && !isState(bo.Y):
			out = append(out, c03KeyParts(bo.Y, stack, 0)...)
		case isState(bo.Y) && !isState(bo.X):
			out = append(out, c03KeyParts(bo.X, stack, 0)...)
		}
	}
	return out
}

// c03ResetOnTableChange: every place of package route that publishes a new routing table (an atomic store of a
// route.Table: route.SetTable's role) also empties the memo that lives in cell - before the publication on every path
// to it, or after it on every path to the exit: Clear/Purge/Reset, a fresh map or object assigned / atomically stored.
// Such a memo never serves the candidates of a table that has been replaced.
func c03ResetOnTableChange(c *Ctx, cell ssa.Value) bool {
	id := c03CellID(cell)
	if id == "" {
		return false
	}
	isReset := func(i ssa.Instruction) bool {
		if st, ok := i.(*ssa.Store); ok {
			return c03CellID(st.Addr) == id
		}
		cc := callCommon(i)
		if cc == nil {
			return false
		}
		if calleeName(cc) == "builtin.clear" && len(cc.Args) == 1 {
			return c03CellID(cc.Args[0]) == id
		}
		var recv ssa.Value
		nargs, name := 0, ""
		if cc.IsInvoke() {
			recv, nargs, name = cc.Value, len(cc.Args), cc.Method.Name()
		} else if sc := cc.StaticCallee(); sc != nil && !isRepoFn(sc) && sc.Signature.Recv() != nil && len(cc.Args) > 0 {
			recv, nargs, name = cc.Args[0], len(cc.Args)-1, sc.Name()
		}
		switch name {
		case "Clear", "Purge", "Reset":
			return c03CellID(recv) == id
		case "Store", "Swap":
			return nargs == 1 && c03CellID(recv) == id // an atomic pointer / atomic.Value that holds the memo
		}
		return false
	}
	n, all := 0, true
	for _, f := range c.fnsWhere("route", func(*ssa.Function) bool { return true }) {
		if isInitFn(f) {
			continue
		}
		ff := f
		eachInstr(f, func(i ssa.Instruction) {
			kind, _, val, ok := atomicOp(callCommon(i))
			if !ok || val == nil || (kind != "store" && kind != "swap" && kind != "cas") {
				return
			}
			isTable := false
			for _, pv := range publishedValue(val) {
				if c03IsTableT(c03StripIface(pv).Type()) {
					isTable = true
				}
			}
			if !isTable {
				return
			}
			n++
			before := false
			resets := liftMust(isReset, 1) // also through a repository helper that empties the memo on all of its paths
			eachInstr(ff, func(j ssa.Instruction) {
				if resets(j) && dominatesInstr(j, i) {
					before = true
				}
			})
			if before {
				return
			}
			if _, reach := exitReachableAvoiding(i, isReset); reach {
				all = false
			}
		})
	}
	return n > 0 && all
}

func (l *c03memoLeaf) missing(c *Ctx, forTarget bool) []string {
	var have c03src
	tlsAlone := false
	for _, p := range l.parts {
		s := c03SourcesOf(p.v, p.stack)
		have |= s
		if s&c03sTLS != 0 && s&(c03sHost|c03sTableKey|c03sPath) == 0 {
			tlsAlone = true
		}
	}
	var miss []string
	if have&c03sTable == 0 && !c03ResetOnTableChange(c, l.cell) {
		miss = append(miss, "the routing table (neither the table's identity in the key nor the memo emptied where a new table is published; route.SetTable replaces the table on every registry change while the memo lives on: a host that was looked up before keeps the candidates of the old table and misses a newly registered, more specific host)")
	}
	if have&c03sHost == 0 && !(forTarget && have&c03sTableKey != 0) {
		miss = append(miss, "the request host")
	}
	if !tlsAlone && !(forTarget && have&c03sHost == 0 && have&c03sTableKey != 0) {
		miss = append(miss, "the TLS state as a component of its own ('host:443' loses its port only for TLS requests and 'host:80' only for plain ones, the normalised host does not tell which: a TLS and a plain request for one host share the entry and whichever came first decides for both)")
	}
	if forTarget && have&c03sPath == 0 {
		miss = append(miss, "the request path")
	}
	return miss
}

func runC03M1(c *Ctx) {
	r := c03CurRoles
	lk := c.method("route", "Table", "Lookup")
	if r == nil || lk == nil {
		c.undecided("C03.M1", "anchor|route.Table.Lookup", "anchor does not resolve")
		return
	}
	region := map[*ssa.Function]bool{}
	for _, f := range c.region(lk) {
		region[f] = true
	}
	report := func(w *c03memoWalk, forTarget bool, what string) int {
		sort.SliceStable(w.leaves, func(a, b int) bool { return w.leaves[a].at.Pos() < w.leaves[b].at.Pos() })
		for k := range w.leaves {
			l := &w.leaves[k]
			miss := l.missing(c, forTarget)
			c.check("C03.M1", fnKey(l.at.Parent())+"|"+what+" taken from a memo keyed by everything they depend on", l.at.Pos(), len(miss) == 0,
				what+" come out of a memo here ("+l.kind+") whose key lacks "+strings.Join(miss, "; and ")+". They are a function of the receiver table, the request host and the TLS state of this very call and must either be computed from them or be remembered under a key that carries all of them")
		}
		return len(w.leaves)
	}
	// (a) the host keys tried
	lists, _ := c03TriedLists(c, lk, r)
	w := &c03memoWalk{c: c, region: region, seen: map[c03normKey]bool{}}
	for _, lst := range lists {
		w.walk(lst, 0)
	}
	n := report(w, false, "the host keys tried by Table.Lookup")
	// (b) the target returned
	wt := &c03memoWalk{c: c, region: region, seen: map[c03normKey]bool{}}
	eachInstr(lk, func(i ssa.Instruction) {
		if ret, ok := i.(*ssa.Return); ok {
			for _, v := range ret.Results {
				if namedIs(v.Type(), "route.Target") {
					wt.walk(v, 0)
				}
			}
		}
	})
	n += report(wt, true, "the target returned by Table.Lookup")
	if n == 0 {
		c.check("C03.M1", "(route.Table).Lookup|host candidates and target computed in this call", lk.Pos(), true, "no memo on the way from the table and the request to the host keys tried and the target returned")
	}
	c.atLeast("C03.M1", "lists of host keys tried by Table.Lookup", len(lists), 1)
}
