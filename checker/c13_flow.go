package main

// C13.G1 as a small path-sensitive abstract interpretation of the per-request handler, independent of how the
// handler is cut into functions: the abstract state records what is KNOWN about the request's target on the current
// path (is its RedirectCode zero / non-zero, is its RedirectURL nil / non-nil, have the access and the auth gate been
// passed, has the redirect answer been written). Branch conditions refine the state whatever their spelling
// (`!= 0`, `== 0` negated, `> 0`, `a && b` as a value, guard clause, switch) and helpers of the same package are
// entered with the caller's state; their boolean result is correlated with the states at their `return true` /
// `return false`.

import (
	"go/token"
	"go/types"
	"sort"
	"strings"

	"golang.org/x/tools/go/ssa"
)

type c13st struct {
	code   int8 // 0 unknown, 1 zero, 2 non-zero
	url    int8 // 0 unknown, 1 nil, 2 non-nil
	done   bool // the redirect answer has been written
	denied bool // AccessDeniedHTTP returned false on this path
	auth   bool // Authorized returned true on this path
	looked bool // a *route.Target has been obtained from a call (the lookup) on this path
}

type c13set map[c13st]bool

func (s c13set) addAll(o c13set) bool {
	ch := false
	for k := range o {
		if !s[k] {
			s[k] = true
			ch = true
		}
	}
	return ch
}

type c13key struct {
	fn *ssa.Function
	in c13st
}

// c13cls: what is known about one result of a helper at one of its returns: a boolean verdict, nil / non-nil for a
// pointer-like result (the admitted target, an error), the value of an integer constant (an enum verdict).
type c13cls struct {
	kind int8 // 0 unknown, 1 true, 2 false, 3 nil, 4 non-nil, 5 the integer constant n
	n    int64
}

// c13out: the states at the returns of a function (all), and per result index the same states keyed by what is known
// about that result there. Every state of all occurs under at least one class of every result.
type c13out struct {
	all c13set
	res []map[c13cls]c13set
}

func newC13out(nres int) *c13out {
	o := &c13out{all: c13set{}, res: make([]map[c13cls]c13set, nres)}
	for k := range o.res {
		o.res[k] = map[c13cls]c13set{}
	}
	return o
}

func (o *c13out) add(s c13st, cls []c13cls) {
	o.all[s] = true
	for k, cl := range cls {
		if k >= len(o.res) {
			break
		}
		if o.res[k][cl] == nil {
			o.res[k][cl] = c13set{}
		}
		o.res[k][cl][s] = true
	}
}

func (o *c13out) merge(p *c13out) {
	o.all.addAll(p.all)
	for k := range p.res {
		if k >= len(o.res) {
			break
		}
		for cl, set := range p.res[k] {
			if o.res[k][cl] == nil {
				o.res[k][cl] = c13set{}
			}
			o.res[k][cl].addAll(set)
		}
	}
}

type c13flow struct {
	c            *Ctx
	denied, auth *ssa.Function
	ci           *contactInfo
	relevant     map[*ssa.Function]int // 0 unknown, 1 computing, 2 no, 3 yes
	answers      map[ssa.Instruction]c13set
	contacts     map[ssa.Instruction]c13set
	how          map[ssa.Instruction]string
	memo         map[c13key]*c13out
	active       map[c13key]bool
	// per call of an entered helper: the caller-side states after the call, by what the helper returned in them
	calls    map[ssa.Instruction]*c13out
	phiDepth int
}

func newC13flow(c *Ctx) *c13flow {
	return &c13flow{c: c, ci: &contactInfo{}, relevant: map[*ssa.Function]int{},
		denied:  c.method("route", "Target", "AccessDeniedHTTP"),
		auth:    c.method("route", "Target", "Authorized"),
		answers: map[ssa.Instruction]c13set{}, contacts: map[ssa.Instruction]c13set{}, how: map[ssa.Instruction]string{},
		memo: map[c13key]*c13out{}, active: map[c13key]bool{}, calls: map[ssa.Instruction]*c13out{}}
}

// c13isAnswer: the instruction writes the redirect answer: http.Redirect(w, r, url, code), or
// http.RedirectHandler(url, code).ServeHTTP(w, r). Returns the url and code operands.
func c13isAnswer(i ssa.Instruction) (url, code ssa.Value, ok bool) {
	cc := callCommon(i)
	if cc == nil {
		return nil, nil, false
	}
	if _, isCall := i.(*ssa.Call); !isCall {
		return nil, nil, false
	}
	if !cc.IsInvoke() && calleeName(cc) == "net/http.Redirect" && len(cc.Args) == 4 {
		return cc.Args[2], cc.Args[3], true
	}
	if cc.IsInvoke() && cc.Method.Name() == "ServeHTTP" {
		if mk, isCall := cc.Value.(*ssa.Call); isCall && calleeName(&mk.Call) == "net/http.RedirectHandler" && len(mk.Call.Args) == 2 {
			return mk.Call.Args[0], mk.Call.Args[1], true
		}
	}
	return nil, nil, false
}

// c13targetField: v is (a load of / the address of) field `field` of some route.Target.
func c13targetField(v ssa.Value, field string) bool {
	_, ok := fieldOf(v, "route.Target", field)
	return ok
}

// c13targetFieldVal: v is such a load, or the parameter of a helper that receives one from every static caller.
func c13targetFieldVal(v ssa.Value, field string) bool {
	if c13targetField(v, field) {
		return true
	}
	if _, isP := v.(*ssa.Parameter); isP {
		return c13allArgs(v, func(a ssa.Value) bool { return a != v && c13targetField(a, field) })
	}
	return false
}

// isRelevant: f, or a repository helper it statically calls, looks at the target's redirect fields, writes the
// redirect answer or consults one of the gates — such helpers are entered, all others are opaque.
func (fl *c13flow) isRelevant(f *ssa.Function, depth int) bool {
	if f == nil || len(f.Blocks) == 0 || !isRepoFn(f) || depth > 4 {
		return false
	}
	switch fl.relevant[f] {
	case 1, 2:
		return false
	case 3:
		return true
	}
	fl.relevant[f] = 1
	hit := false
	eachInstr(f, func(i ssa.Instruction) {
		if hit {
			return
		}
		if _, _, ok := c13isAnswer(i); ok {
			hit = true
			return
		}
		if fa, ok := i.(*ssa.FieldAddr); ok && (c13targetField(fa, "RedirectCode") || c13targetField(fa, "RedirectURL")) {
			hit = true
			return
		}
		if fd, ok := i.(*ssa.Field); ok && (c13targetField(fd, "RedirectCode") || c13targetField(fd, "RedirectURL")) {
			hit = true
			return
		}
		if cc := callCommon(i); cc != nil {
			if sc := cc.StaticCallee(); sc != nil {
				if sc == fl.denied || sc == fl.auth {
					hit = true
					return
				}
				if _, isCall := i.(*ssa.Call); isCall && isRepoFn(sc) && fl.isRelevant(unwrap(sc), depth+1) {
					hit = true
				}
			}
		}
	})
	if hit {
		fl.relevant[f] = 3
	} else {
		fl.relevant[f] = 2
	}
	return hit
}

// entered: the helper a call enters (static call of a relevant repository function), or nil.
func (fl *c13flow) entered(i ssa.Instruction, depth int) *ssa.Function {
	call, ok := i.(*ssa.Call)
	if !ok || depth >= 4 {
		return nil
	}
	sc := call.Call.StaticCallee()
	if sc == nil || sc == fl.denied || sc == fl.auth || !isRepoFn(sc) {
		return nil
	}
	g := unwrap(sc)
	if len(g.Blocks) == 0 || !fl.isRelevant(g, 0) {
		return nil
	}
	return g
}

// c13yieldsTarget: the call returns a *route.Target (the lookup, whatever it is called and however it is bound).
func c13yieldsTarget(call *ssa.Call) bool {
	res := call.Call.Signature().Results()
	for k := 0; k < res.Len(); k++ {
		if namedIs(res.At(k).Type(), "route.Target") {
			return true
		}
	}
	return false
}

// c13codeIvals: what a state knows about the code, as an interval set (the configured codes are {0} ∪ [300,399], C13.C1).
func c13codeIvals(k int8) iset {
	switch k {
	case 1:
		return iset{{0, 0}}
	case 2:
		return iset{{300, 399}}
	}
	return iset{{0, 0}, {300, 399}}
}

// c13cell: a load of a local cell (a variable captured by a closure) stands for the value written to it: by the
// closest store before the load in the same block, or - when every store to the cell is executed before the load on
// all paths (a straight sequence of assignments) - by the last of them.
func c13cell(v ssa.Value) ssa.Value {
	for depth := 0; depth < 3; depth++ {
		u, ok := v.(*ssa.UnOp)
		if !ok || u.Op != token.MUL {
			return v
		}
		a, ok := u.X.(*ssa.Alloc)
		if !ok || a.Referrers() == nil || u.Block() == nil {
			return v
		}
		var val ssa.Value
		for _, in := range u.Block().Instrs {
			if in == ssa.Instruction(u) {
				break
			}
			if st, isSt := in.(*ssa.Store); isSt && st.Addr == a {
				val = st.Val
			}
		}
		if val == nil {
			var stores []*ssa.Store
			for _, r := range *a.Referrers() {
				if st, isSt := r.(*ssa.Store); isSt && st.Addr == a {
					if !dominatesInstr(st, u) {
						return v
					}
					stores = append(stores, st)
				}
			}
			for _, st := range stores {
				last := true
				for _, o := range stores {
					if o != st && !dominatesInstr(o, st) {
						last = false
					}
				}
				if last {
					val = st.Val
				}
			}
			if val == nil {
				return v
			}
		}
		v = val
	}
	return v
}

// resultOf: v is result idx of a call that entered a helper (the call itself, one component of its tuple, or a local
// cell holding it).
func (fl *c13flow) resultOf(v ssa.Value) (call *ssa.Call, idx int, ok bool) {
	v = c13cell(v)
	if ex, isEx := v.(*ssa.Extract); isEx {
		if cl, isCall := ex.Tuple.(*ssa.Call); isCall && fl.calls[cl] != nil {
			return cl, ex.Index, true
		}
		return nil, 0, false
	}
	if cl, isCall := v.(*ssa.Call); isCall && fl.calls[cl] != nil {
		return cl, 0, true
	}
	return nil, 0, false
}

// correlate keeps state s only if the helper entered at call can, in s, return a result idx for which the tested
// condition has this truth value (verdict: 1 the condition holds for such a result, -1 it does not, 0 not known).
func (fl *c13flow) correlate(call *ssa.Call, idx int, s c13st, truth bool, verdict func(c13cls) int) []c13st {
	o := fl.calls[call]
	if o == nil || idx >= len(o.res) || !o.all[s] {
		return []c13st{s} // no summary, or the state changed since the call: no correlation
	}
	for cls, set := range o.res[idx] {
		if !set[s] {
			continue
		}
		if v := verdict(cls); v == 0 || (v > 0) == truth {
			return []c13st{s}
		}
	}
	return nil
}

func c13boolVerdict(cls c13cls) int {
	switch cls.kind {
	case 1:
		return 1
	case 2:
		return -1
	}
	return 0
}

// c13eqVerdict: the verdict of `result == k` for a constant k.
func c13eqVerdict(k *ssa.Const) func(c13cls) int {
	return func(cls c13cls) int {
		switch {
		case k.Value == nil && cls.kind == 3:
			return 1
		case k.Value == nil && cls.kind == 4:
			return -1
		case cls.kind == 5:
			if n, ok := constInt(k); ok {
				if n == cls.n {
					return 1
				}
				return -1
			}
		case cls.kind == 1 || cls.kind == 2:
			if b, ok := constBool(k); ok {
				if b == (cls.kind == 1) {
					return 1
				}
				return -1
			}
		}
		return 0
	}
}

// c13classify: what is known about a non-boolean value returned where facts hold.
func c13classify(v ssa.Value, facts []Fact) c13cls {
	switch x := v.(type) {
	case *ssa.Const:
		if x.Value == nil {
			switch x.Type().Underlying().(type) {
			case *types.Pointer, *types.Interface, *types.Slice, *types.Map, *types.Chan, *types.Signature:
				return c13cls{kind: 3}
			}
			return c13cls{}
		}
		if n, ok := constInt(x); ok {
			return c13cls{kind: 5, n: n}
		}
		return c13cls{}
	case *ssa.Alloc, *ssa.MakeInterface, *ssa.MakeClosure, *ssa.MakeMap, *ssa.MakeSlice, *ssa.MakeChan, *ssa.FieldAddr, *ssa.IndexAddr, *ssa.Function, *ssa.Global:
		return c13cls{kind: 4}
	}
	if sentinelError(v) {
		return c13cls{kind: 4} // `var errDenied = errors.New(..)`
	}
	if call, ok := v.(*ssa.Call); ok {
		switch calleeName(&call.Call) {
		case "errors.New", "fmt.Errorf":
			return c13cls{kind: 4}
		}
	}
	for _, f := range facts {
		if nn, ok := nilFact(f, sameVal(v)); ok {
			if nn {
				return c13cls{kind: 4}
			}
			return c13cls{kind: 3}
		}
	}
	return c13cls{}
}

// assume refines state s by "v evaluates to truth"; nil = this outcome is impossible in s.
func (fl *c13flow) assume(v ssa.Value, truth bool, s c13st) []c13st {
	for {
		u, ok := v.(*ssa.UnOp)
		if !ok || u.Op != token.NOT {
			break
		}
		v, truth = u.X, !truth
	}
	v = c13cell(v)
	if call, idx, ok := fl.resultOf(v); ok && typeStr(v.Type()) == "bool" {
		return fl.correlate(call, idx, s, truth, c13boolVerdict)
	}
	switch x := v.(type) {
	case *ssa.Const:
		if b, ok := constBool(x); ok {
			if b == truth {
				return []c13st{s}
			}
			return nil
		}
	case *ssa.BinOp:
		// the result of an entered helper compared with a constant (`t == nil`, `err != nil`, `verdict == admitted`)
		if x.Op == token.EQL || x.Op == token.NEQ {
			for _, side := range [][2]ssa.Value{{x.X, x.Y}, {x.Y, x.X}} {
				k, isK := side[1].(*ssa.Const)
				if !isK {
					continue
				}
				if call, idx, ok := fl.resultOf(side[0]); ok {
					return fl.correlate(call, idx, s, (x.Op == token.EQL) == truth, c13eqVerdict(k))
				}
			}
		}
		// comparisons of Target.RedirectCode with a constant
		var fld ssa.Value
		switch {
		case c13targetFieldVal(x.X, "RedirectCode"):
			fld = x.X
		case c13targetFieldVal(x.Y, "RedirectCode"):
			fld = x.Y
		}
		if fld != nil {
			r := refine(c13codeIvals(s.code), x, truth, map[ssa.Value]bool{fld: true})
			switch {
			case len(r) == 0:
				return nil
			case r.subsetOf(iset{{0, 0}}):
				s.code = 1
			case len(r.meet(0, 0)) == 0:
				s.code = 2
			}
			return []c13st{s}
		}
		// Target.RedirectURL ==/!= nil
		if x.Op == token.EQL || x.Op == token.NEQ {
			isURL := (isNilConst(x.Y) && c13targetFieldVal(x.X, "RedirectURL")) || (isNilConst(x.X) && c13targetFieldVal(x.Y, "RedirectURL"))
			if isURL {
				isNil := (x.Op == token.EQL) == truth
				if isNil {
					if s.url == 2 {
						return nil
					}
					s.url = 1
				} else {
					if s.url == 1 {
						return nil
					}
					s.url = 2
				}
				return []c13st{s}
			}
		}
	case *ssa.Phi:
		// a merged boolean (`a && b` kept in a variable): one case per incoming edge that can yield this outcome, each
		// with what is known on that edge
		if fl.phiDepth > 2 || typeStr(x.Type()) != "bool" {
			return []c13st{s}
		}
		fl.phiDepth++
		defer func() { fl.phiDepth-- }()
		seen := c13set{}
		var out []c13st
		for k, e := range x.Edges {
			if b, isK := constBool(e); isK && b != truth {
				continue
			}
			facts := c13edgeFacts(x.Block().Preds[k], x.Block())
			if _, isK := constBool(e); !isK {
				facts = append(facts, Fact{e, truth})
			}
			sts := []c13st{s}
			for _, f := range facts {
				var next []c13st
				for _, s1 := range sts {
					next = append(next, fl.assume(f.Cond, f.Truth, s1)...)
				}
				sts = next
			}
			for _, s1 := range sts {
				if !seen[s1] {
					seen[s1] = true
					out = append(out, s1)
				}
			}
		}
		return out
	case *ssa.Call:
		sc := x.Call.StaticCallee()
		if sc != nil && sc == fl.denied {
			if !truth {
				s.denied = true
			}
			return []c13st{s}
		}
		if sc != nil && sc == fl.auth {
			if truth {
				s.auth = true
			}
			return []c13st{s}
		}
	}
	return []c13st{s}
}

// onlyPhisBefore: block b consists of phis (and debug refs) followed by its terminator.
func c13onlyPhisBeforeTerminator(b *ssa.BasicBlock) bool {
	for k, in := range b.Instrs {
		if k == len(b.Instrs)-1 {
			return true
		}
		switch in.(type) {
		case *ssa.Phi, *ssa.DebugRef:
		default:
			return false
		}
	}
	return true
}

// run analyses fn entered in state in and returns the states at its returns.
func (fl *c13flow) run(fn *ssa.Function, in c13st, depth int) *c13out {
	key := c13key{fn, in}
	if o := fl.memo[key]; o != nil {
		return o
	}
	nres := fn.Signature.Results().Len()
	out := newC13out(nres)
	if fl.active[key] || depth > 4 || len(fn.Blocks) == 0 {
		out.add(in, make([]c13cls, nres)) // recursion: no information
		return out
	}
	fl.active[key] = true
	defer func() { delete(fl.active, key) }()

	inSt := map[*ssa.BasicBlock]c13set{fn.Blocks[0]: {in: true}}
	edge := map[[2]*ssa.BasicBlock]c13set{}
	work := []*ssa.BasicBlock{fn.Blocks[0]}
	queued := map[*ssa.BasicBlock]bool{fn.Blocks[0]: true}
	flowTo := func(from, to *ssa.BasicBlock, sts []c13st) {
		if len(sts) == 0 {
			return
		}
		e := edge[[2]*ssa.BasicBlock{from, to}]
		if e == nil {
			e = c13set{}
			edge[[2]*ssa.BasicBlock{from, to}] = e
		}
		add := c13set{}
		for _, s := range sts {
			add[s] = true
		}
		e.addAll(add)
		if inSt[to] == nil {
			inSt[to] = c13set{}
		}
		if inSt[to].addAll(add) && !queued[to] {
			queued[to] = true
			work = append(work, to)
		}
	}
	for iter := 0; len(work) > 0 && iter < 20000; iter++ {
		b := work[0]
		work = work[1:]
		queued[b] = false
		cur := c13set{}
		cur.addAll(inSt[b])
		for _, ins := range b.Instrs {
			if _, _, ok := c13isAnswer(ins); ok {
				if fl.answers[ins] == nil {
					fl.answers[ins] = c13set{}
				}
				fl.answers[ins].addAll(cur)
				next := c13set{}
				for s := range cur {
					s.done = true
					next[s] = true
				}
				cur = next
				continue
			}
			if g := fl.entered(ins, depth); g != nil {
				next := c13set{}
				if fl.calls[ins] == nil {
					fl.calls[ins] = newC13out(g.Signature.Results().Len())
				}
				for s := range cur {
					o := fl.run(g, s, depth+1)
					fl.calls[ins].merge(o)
					next.addAll(o.all)
				}
				cur = next
				continue
			}
			if how, ok := fl.c.isContactInstr(fl.ci, ins); ok {
				// before any target has been looked up there is no redirect route to speak of
				seen := c13set{}
				for s := range cur {
					if s.looked {
						seen[s] = true
					}
				}
				if len(seen) > 0 {
					if fl.contacts[ins] == nil {
						fl.contacts[ins] = c13set{}
					}
					fl.contacts[ins].addAll(seen)
					fl.how[ins] = how
				}
			}
			if call, isCall := ins.(*ssa.Call); isCall && c13yieldsTarget(call) {
				next := c13set{}
				for s := range cur {
					s.looked = true
					next[s] = true
				}
				cur = next
			}
		}
		if len(b.Instrs) == 0 {
			continue
		}
		// threading: a terminator that tests / returns a phi of this block sees the per-edge value
		type inflow struct {
			sts  c13set
			sub  map[*ssa.Phi]ssa.Value
			pred *ssa.BasicBlock
		}
		flows := []inflow{{cur, nil, nil}}
		if c13onlyPhisBeforeTerminator(b) && len(b.Preds) > 1 {
			flows = nil
			for k, p := range b.Preds {
				e := edge[[2]*ssa.BasicBlock{p, b}]
				if len(e) == 0 {
					continue
				}
				sub := map[*ssa.Phi]ssa.Value{}
				for _, in2 := range b.Instrs {
					if phi, ok := in2.(*ssa.Phi); ok {
						sub[phi] = phi.Edges[k]
					}
				}
				flows = append(flows, inflow{e, sub, p})
			}
		}
		resolve := func(v ssa.Value, sub map[*ssa.Phi]ssa.Value) (ssa.Value, bool) {
			neg := false
			for {
				u, ok := v.(*ssa.UnOp)
				if !ok || u.Op != token.NOT {
					break
				}
				v, neg = u.X, !neg
			}
			if phi, ok := v.(*ssa.Phi); ok && sub != nil {
				if r, ok := sub[phi]; ok {
					v = r
				}
			}
			return v, neg
		}
		switch term := b.Instrs[len(b.Instrs)-1].(type) {
		case *ssa.If:
			for _, fw := range flows {
				cond, neg := resolve(term.Cond, fw.sub)
				for s := range fw.sts {
					flowTo(b, b.Succs[0], fl.assume(cond, !neg, s))
					flowTo(b, b.Succs[1], fl.assume(cond, neg, s))
				}
			}
		case *ssa.Return:
			// every result is classified at this return (boolean: the state is refined by either outcome; pointer-like:
			// nil / non-nil; integer constant), so that the caller's test of the result selects the states it can see
			type cand struct {
				s   c13st
				cls []c13cls
			}
			for _, fw := range flows {
				var facts []Fact
				if fw.pred != nil {
					facts = c13edgeFacts(fw.pred, b)
				} else {
					facts = c13factsAt(b)
				}
				for s := range fw.sts {
					cands := []cand{{s, nil}}
					for _, r := range term.Results {
						res, neg := resolve(r, fw.sub)
						var next []cand
						for _, cd := range cands {
							if typeStr(r.Type()) != "bool" {
								next = append(next, cand{cd.s, append(append([]c13cls{}, cd.cls...), c13classify(res, facts))})
								continue
							}
							for _, truth := range []bool{true, false} {
								kind := int8(1)
								if !truth {
									kind = 2
								}
								for _, s2 := range fl.assume(res, truth != neg, cd.s) {
									next = append(next, cand{s2, append(append([]c13cls{}, cd.cls...), c13cls{kind: kind})})
								}
							}
						}
						cands = next
					}
					for _, cd := range cands {
						out.add(cd.s, cd.cls)
					}
				}
			}
		default:
			for _, succ := range b.Succs {
				var sts []c13st
				for s := range cur {
					sts = append(sts, s)
				}
				flowTo(b, succ, sts)
			}
		}
	}
	fl.memo[key] = out
	return out
}

func (s c13st) String() string {
	var p []string
	p = append(p, "RedirectCode "+[]string{"unknown", "== 0", "!= 0"}[s.code])
	p = append(p, "RedirectURL "+[]string{"unknown", "== nil", "!= nil"}[s.url])
	if s.done {
		p = append(p, "redirect already answered")
	}
	return strings.Join(p, ", ")
}

func c13sortedInstrs(m map[ssa.Instruction]c13set) []ssa.Instruction {
	var out []ssa.Instruction
	for i := range m {
		out = append(out, i)
	}
	sort.Slice(out, func(a, b int) bool { return out[a].Pos() < out[b].Pos() })
	return out
}

func runC13G1(c *Ctx) {
	serve := c.method("proxy", "HTTPProxy", "ServeHTTP")
	if !c.need("C13.G1", serve, "proxy.HTTPProxy.ServeHTTP") {
		return
	}
	fl := newC13flow(c)
	if fl.denied == nil || fl.auth == nil {
		c.undecided("C13.G1", "anchor|route.Target.AccessDeniedHTTP / Authorized", "the gate methods of route.Target do not resolve")
	}
	fl.run(serve, c13st{}, 0)

	isRedirectURL := func(v ssa.Value) bool { return c13targetField(v, "RedirectURL") }
	isRedirectCode := func(v ssa.Value) bool { return c13targetField(v, "RedirectCode") }
	for _, r := range c13sortedInstrs(fl.answers) {
		u, code, _ := c13isAnswer(r)
		where := fnKey(r.Parent())
		c.check("C13.G1", where+"|redirect uses Target.RedirectURL and RedirectCode", r.Pos(), derives(u, isRedirectURL) && derives(code, isRedirectCode),
			"the redirect answer must carry the location built for this request (Target.RedirectURL) and the configured status (Target.RedirectCode)")
		guarded, gated, once := true, true, true
		for s := range fl.answers[r] {
			if s.code != 2 {
				guarded = false
			}
			if !s.denied || !s.auth {
				gated = false
			}
			if s.done {
				once = false
			}
		}
		c.check("C13.G1", where+"|redirect only for redirect targets", r.Pos(), guarded, "the redirect answer must be written only on paths where Target.RedirectCode != 0 is established")
		c.check("C13.G1", where+"|redirect behind access and auth gates", r.Pos(), gated, "the redirect answer must come after both gates (AccessDeniedHTTP false, Authorized true) on every path")
		c.check("C13.G1", where+"|redirect answered once", r.Pos(), once, "a second redirect answer is reachable after the first")
	}
	c.atLeast("C13.G1", "redirect answers (http.Redirect) reachable in ServeHTTP", len(fl.answers), 1)

	nContact := 0
	for _, s := range c13sortedInstrs(fl.contacts) {
		nContact++
		after, redirect := "", ""
		for st := range fl.contacts[s] {
			if st.done {
				after = st.String()
			} else if !(st.code == 1 || st.url == 1) {
				redirect = st.String()
			}
		}
		where := fnKey(s.Parent())
		c.check("C13.G1", where+"|no upstream contact after redirect|"+siteKey(fl.how[s]), s.Pos(), after == "",
			"after answering with a redirect the handler must return; reachable afterwards: "+fl.how[s])
		c.check("C13.G1", where+"|no upstream contact for a redirect target|"+siteKey(fl.how[s]), s.Pos(), redirect == "",
			"a request matching a redirect route must be answered from the request alone: this upstream-contact site ("+fl.how[s]+") is reachable on a path where the target is not known to be a non-redirect target ("+redirect+"); the redirect answer must be decided before any proxying")
	}
	c.atLeast("C13.G1", "upstream-contact sites reachable in ServeHTTP", nContact, 1)
}
