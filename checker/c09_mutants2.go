package main

// Overlay mutants of C09, hardening round 2: connection wrappers with an embedded net.Conn ("buffered connection"
// idiom), readers / buffers / channels kept in struct fields and filled by methods.

const c09sniFunc = "func (p *SNIProxy) ServeTCP("

// helloConn: a connection that owns the buffered reader; `read` is the text of its Read method ("" = Read stays the
// one promoted from the embedded net.Conn, i.e. the RAW connection).
func c09helloConnSrc(ctor, read string) string {
	return "type helloConn struct {\n\tnet.Conn\n\tr *bufio.Reader\n}\n\nfunc newHelloConn(c net.Conn) *helloConn {\n\t" + ctor + "\n}\n\n" + read
}

const (
	c09helloCtor     = "return &helloConn{Conn: c, r: bufio.NewReader(c)}"
	c09helloCtorStep = "hc := new(helloConn)\n\thc.Conn = c\n\thc.attach()\n\treturn hc"
	c09helloAttach   = "func (c *helloConn) attach() {\n\tc.r = bufio.NewReader(c.Conn)\n}\n\n"
	c09helloRead     = "func (c *helloConn) Read(b []byte) (int, error) {\n\treturn c.r.Read(b)\n}\n\n"
	c09helloReadRaw  = "func (c *helloConn) Read(b []byte) (int, error) {\n\treturn c.Conn.Read(b)\n}\n\n"
	c09helloReadHalf = "func (c *helloConn) Read(b []byte) (int, error) {\n\treturn c.r.Read(b[:len(b)/2])\n}\n\n"
)

func c09helloConnMutant(name, ctor, read, expect string) mutant {
	return mutant{Name: name, File: "proxy/tcp/sni_proxy.go",
		Old: "\ttlsReader := bufio.NewReader(in)\n", New: "\tclient := newHelloConn(in)\n\ttlsReader := client.r\n",
		More:   []repl{{"go cp(out, tlsReader, t.TxCounter)", "go cp(out, client, t.TxCounter)"}, {c09sniFunc, c09helloConnSrc(ctor, read) + c09sniFunc}},
		Expect: expect}
}

// sniSession: the loose locals of SNIProxy.ServeTCP become fields of a session object that is filled step by step.
const c09sniSessionSrc = "type sniSession struct {\n\tin, out net.Conn\n\tr       *bufio.Reader\n\thello   []byte\n\tdone    chan error\n}\n\nfunc (s *sniSession) sniff(size int) error {\n\ts.hello = make([]byte, size)\n\t_, err := io.ReadFull(s.r, s.hello)\n\treturn err\n}\n\n"

func c09sniSessionMutant(name, replay, src, expect string) mutant {
	return mutant{Name: name, File: "proxy/tcp/sni_proxy.go",
		Old: "\ttlsReader := bufio.NewReader(in)\n", New: "\ts := &sniSession{in: in}\n\ts.r = bufio.NewReader(s.in)\n\ttlsReader := s.r\n",
		More: []repl{
			{"\tdata := make([]byte, bufferSize)\n\t_, err = io.ReadFull(tlsReader, data)\n", "\terr = s.sniff(bufferSize)\n\tdata := s.hello\n"},
			{"\tdefer out.Close()\n", "\tdefer out.Close()\n\ts.out = out\n"},
			{"\tn, err := out.Write(data)\n", "\tn, err := s.replay()\n"},
			{"\terrc := make(chan error, 2)\n", "\ts.done = make(chan error, 2)\n"},
			{"\t\terrc <- copyBuffer(dst, src, c)\n", "\t\ts.done <- copyBuffer(dst, src, c)\n"},
			{"\tgo cp(in, out, t.RxCounter)\n\tgo cp(out, tlsReader, t.TxCounter)\n\terr = <-errc\n", "\tgo cp(s.in, s.out, t.RxCounter)\n\tgo cp(s.out, " + src + ", t.TxCounter)\n\terr = <-s.done\n"},
			{c09sniFunc, c09sniSessionSrc + "func (s *sniSession) replay() (int, error) {\n\treturn s.out.Write(" + replay + ")\n}\n\n" + c09sniFunc}},
		Expect: expect}
}

// wsClient: the hijacked connection and its ReadWriter as one connection object.
func c09wsClientMutant(name, read, expect string) mutant {
	return mutant{Name: name, File: "proxy/ws_handler.go",
		Old: "go cp(out, brw)", New: "go cp(out, &wsClient{Conn: in, rw: brw})",
		More:   []repl{{"// newWSHandler returns", "type wsClient struct {\n\tnet.Conn\n\trw *bufio.ReadWriter\n}\n\n" + read + "// newWSHandler returns"}, {"import (\n", "import (\n\t\"bufio\"\n"}},
		Expect: expect}
}

var c09mutants2 = []mutant{
	// ---- buffered connection: struct{ net.Conn; r *bufio.Reader } with an overriding Read ---------------------------
	c09helloConnMutant("benign: SNI reader owned by a buffered connection (embedded net.Conn, Read overridden to read through the bufio.Reader), copy source is that connection",
		c09helloCtor, c09helloRead, ""),
	c09helloConnMutant("benign: buffered connection filled in steps by its constructor and a method (new, field assignments)",
		c09helloCtorStep, c09helloAttach+c09helloRead, ""),
	c09helloConnMutant("buffered connection without a Read of its own: the promoted Read is the raw connection's",
		c09helloCtor, "", "C09.B1"),
	c09helloConnMutant("buffered connection whose Read forwards to the embedded raw connection",
		c09helloCtor, c09helloReadRaw, "C09.B1"),
	c09helloConnMutant("buffered connection whose Read hands its reader a shorter slice",
		c09helloCtor, c09helloReadHalf, "C09.W1"),
	c09helloConnMutant("buffered connection whose reader is a truncating view of the wrapped connection",
		"return &helloConn{Conn: c, r: bufio.NewReader(io.LimitReader(c, 1<<20))}", c09helloRead, "C09.W1"),
	{Name: "benign: buffered connection as a struct VALUE with a value-receiver Read, built at the go statement", File: "proxy/tcp/sni_proxy.go",
		Old: "go cp(out, tlsReader, t.TxCounter)", New: "go cp(out, bufferedConn{in, tlsReader}, t.TxCounter)",
		More:   []repl{{c09sniFunc, "type bufferedConn struct {\n\tnet.Conn\n\tbr *bufio.Reader\n}\n\nfunc (b bufferedConn) Read(p []byte) (int, error) { return b.br.Read(p) }\n\n" + c09sniFunc}},
		Expect: ""},
	{Name: "buffered connection value built over a SECOND reader on the raw connection", File: "proxy/tcp/sni_proxy.go",
		Old: "go cp(out, tlsReader, t.TxCounter)", New: "go cp(out, bufferedConn{in, bufio.NewReader(in)}, t.TxCounter)",
		More:   []repl{{c09sniFunc, "type bufferedConn struct {\n\tnet.Conn\n\tbr *bufio.Reader\n}\n\nfunc (b bufferedConn) Read(p []byte) (int, error) { return b.br.Read(p) }\n\n" + c09sniFunc}},
		Expect: "C09.B1"},
	{Name: "benign: copy source is an anonymous struct embedding the reader", File: "proxy/tcp/sni_proxy.go",
		Old: "go cp(out, tlsReader, t.TxCounter)", New: "go cp(out, struct{ *bufio.Reader }{tlsReader}, t.TxCounter)", Expect: ""},
	{Name: "copy source is a truncating view of the buffered reader", File: "proxy/tcp/sni_proxy.go",
		Old: "go cp(out, tlsReader, t.TxCounter)", New: "go cp(out, io.LimitReader(tlsReader, 1<<20), t.TxCounter)", Expect: "C09.B1"},

	// ---- session object: reader, captured bytes, upstream and completion channel in fields, filled by methods ---------
	c09sniSessionMutant("benign: SNI session object (reader, ClientHello, upstream, completion channel are fields set in steps; sniff/replay are methods)",
		"s.hello", "s.r", ""),
	c09sniSessionMutant("SNI session replays the ClientHello without its record header", "s.hello[5:]", "s.r", "C09.B4"),
	c09sniSessionMutant("SNI session copies from its raw connection field", "s.hello", "s.in", "C09.B1"),

	// ---- websocket: hijacked connection + ReadWriter as one object -----------------------------------------------------
	c09wsClientMutant("benign: hijacked connection and its ReadWriter wrapped in a connection object whose Read reads through the ReadWriter",
		"func (c *wsClient) Read(p []byte) (int, error) { return c.rw.Read(p) }\n\n", ""),
	c09wsClientMutant("hijacked connection object without a Read of its own reads the raw connection", "", "C09.B1"),

	// ---- relay starter: the go statements live in a method, the completion channel in a field -------------------------
	{Name: "benign: copy goroutines started by a method of a relay object that owns the completion channel", File: "proxy/tcp/tcp_proxy.go",
		Old:    "\terrc := make(chan error, 2)\n\tcp := func(dst io.Writer, src io.Reader, c gkm.Counter) {\n\t\terrc <- copyBuffer(dst, src, c)\n\t}\n\n\tgo cp(in, out, t.RxCounter)\n\tgo cp(out, in, t.TxCounter)\n\terr = <-errc\n",
		New:    "\tr := &relayPair{done: make(chan error, 2)}\n\tr.start(in, out, t.RxCounter)\n\tr.start(out, in, t.TxCounter)\n\terr = <-r.done\n",
		More:   []repl{{"// Proxy implements a generic TCP proxying handler.\n", "type relayPair struct{ done chan error }\n\nfunc (r *relayPair) start(dst io.Writer, src io.Reader, c gkm.Counter) {\n\tgo func() { r.done <- copyBuffer(dst, src, c) }()\n}\n\n// Proxy implements a generic TCP proxying handler.\n"}},
		Expect: ""},
	{Name: "benign: relay object awaits both completions in a method", File: "proxy/tcp/tcp_proxy.go",
		Old:    "\terrc := make(chan error, 2)\n\tcp := func(dst io.Writer, src io.Reader, c gkm.Counter) {\n\t\terrc <- copyBuffer(dst, src, c)\n\t}\n\n\tgo cp(in, out, t.RxCounter)\n\tgo cp(out, in, t.TxCounter)\n\terr = <-errc\n",
		New:    "\tr := &relayPair{done: make(chan error, 2)}\n\tr.start(in, out, t.RxCounter)\n\tr.start(out, in, t.TxCounter)\n\terr = r.wait()\n",
		More:   []repl{{"// Proxy implements a generic TCP proxying handler.\n", "type relayPair struct{ done chan error }\n\nfunc (r *relayPair) start(dst io.Writer, src io.Reader, c gkm.Counter) {\n\tgo func() { r.done <- copyBuffer(dst, src, c) }()\n}\n\nfunc (r *relayPair) wait() error {\n\terr := <-r.done\n\tif e := <-r.done; err == nil {\n\t\terr = e\n\t}\n\treturn err\n}\n\n// Proxy implements a generic TCP proxying handler.\n"}},
		Expect: ""},

	// ---- reader made in a helper after a synchronous raw relay -------------------------------------------------------
	{Name: "benign: websocket reader over the upstream made by a helper after the handshake relay, used as copy source", File: "proxy/ws_handler.go",
		Old: "\t\tgo cp(out, brw)\n\t\tgo cp(in, out)\n", New: "\t\tgo cp(out, brw)\n\t\tgo cp(in, upstreamReader(out))\n",
		More:   []repl{{"// newWSHandler returns", "func upstreamReader(c net.Conn) io.Reader {\n\treturn bufio.NewReaderSize(c, 32*1024)\n}\n\n// newWSHandler returns"}, {"import (\n", "import (\n\t\"bufio\"\n"}},
		Expect: ""},

	// ---- the timeout wrapper of server.go ---------------------------------------------------------------------------------
	{Name: "benign: conn.Read forwards through a method of the wrapper", File: "proxy/tcp/server.go",
		Old: "\treturn c.c.Read(b)\n}\n", New: "\treturn c.rawRead(b)\n}\n\nfunc (c *conn) rawRead(b []byte) (int, error) {\n\treturn c.c.Read(b)\n}\n", Expect: ""},
	{Name: "conn.Read forwards through a method that reads into a shorter slice", File: "proxy/tcp/server.go",
		Old: "\treturn c.c.Read(b)\n}\n", New: "\treturn c.rawRead(b)\n}\n\nfunc (c *conn) rawRead(b []byte) (int, error) {\n\treturn c.c.Read(b[:len(b)/2])\n}\n", Expect: "C09.W1"},
	{Name: "benign: conn.Write forwards in both branches of a guard clause", File: "proxy/tcp/server.go",
		Old: "\tif c.WriteTimeout > 0 {\n\t\tc.c.SetWriteDeadline(time.Now().Add(c.WriteTimeout))\n\t}\n\treturn c.c.Write(b)\n",
		New: "\tif c.WriteTimeout <= 0 {\n\t\treturn c.c.Write(b)\n\t}\n\tc.c.SetWriteDeadline(time.Now().Add(c.WriteTimeout))\n\treturn c.c.Write(b)\n", Expect: ""},
	{Name: "conn.Write writes a byte of its own before it forwards", File: "proxy/tcp/server.go",
		Old: "\treturn c.c.Write(b)\n", New: "\tc.c.Write([]byte{0})\n\treturn c.c.Write(b)\n", Expect: "C09.W1"},
	{Name: "benign: wrapped connection field typed by a local interface that embeds net.Conn", File: "proxy/tcp/server.go",
		Old: "type conn struct {\n\tc            net.Conn\n", New: "type rawConn interface {\n\tnet.Conn\n}\n\ntype conn struct {\n\tc            rawConn\n", Expect: ""},
	{Name: "benign: wrapper with a value receiver on Read", File: "proxy/tcp/server.go",
		Old: "func (c *conn) Read(b []byte) (int, error) {", New: "func (c conn) Read(b []byte) (int, error) {", Expect: ""},

	// ---- the whole handler body moves into a method of a per-connection object ------------------------------------------
	{Name: "benign: SNIProxy.ServeTCP delegates to a per-connection object; proxy and client connection are its fields", File: "proxy/tcp/sni_proxy.go",
		Old:    "func (p *SNIProxy) ServeTCP(in net.Conn) error {\n",
		New:    "type sniServe struct {\n\tp  *SNIProxy\n\tin net.Conn\n}\n\nfunc (p *SNIProxy) ServeTCP(in net.Conn) error {\n\treturn (&sniServe{p: p, in: in}).serve()\n}\n\nfunc (s *sniServe) serve() error {\n\tp, in := s.p, s.in\n",
		Expect: ""},
	{Name: "per-connection object copies from the raw connection field", File: "proxy/tcp/sni_proxy.go",
		Old:    "func (p *SNIProxy) ServeTCP(in net.Conn) error {\n",
		New:    "type sniServe struct {\n\tp  *SNIProxy\n\tin net.Conn\n}\n\nfunc (p *SNIProxy) ServeTCP(in net.Conn) error {\n\treturn (&sniServe{p: p, in: in}).serve()\n}\n\nfunc (s *sniServe) serve() error {\n\tp, in := s.p, s.in\n",
		More:   []repl{{"go cp(out, tlsReader, t.TxCounter)", "go cp(out, s.in, t.TxCounter)"}},
		Expect: "C09.B1"},

	// ---- an interface where the cp callback used to be: go statements invoke a method through an interface -------------
	{Name: "benign: copy goroutines started through an interface value (value-receiver implementation holding the completion channel)", File: "proxy/tcp/tcp_proxy.go",
		Old:    c09proxyRelayOld,
		New:    "\terrc := make(chan error, 2)\n\tvar cp relayer = chanRelayer{errc}\n\n\tgo cp.relay(in, out, t.RxCounter)\n\tgo cp.relay(out, in, t.TxCounter)\n\terr = <-errc\n",
		More:   []repl{{c09proxyDoc, c09relayerSrc + c09proxyDoc}},
		Expect: ""},
	{Name: "benign: goroutines started through an interface value, both completions awaited", File: "proxy/tcp/tcp_proxy.go",
		Old:    c09proxyRelayOld,
		New:    "\terrc := make(chan error, 2)\n\tvar cp relayer = chanRelayer{errc}\n\n\tgo cp.relay(in, out, t.RxCounter)\n\tgo cp.relay(out, in, t.TxCounter)\n\terr = <-errc\n\tif e2 := <-errc; err == nil {\n\t\terr = e2\n\t}\n",
		More:   []repl{{c09proxyDoc, c09relayerSrc + c09proxyDoc}},
		Expect: ""},
	{Name: "a new tcp.Handler starts its goroutines through an interface value and awaits one of two completions", File: "proxy/tcp/tcp_proxy.go",
		Old:    c09proxyDoc,
		New:    c09relayerSrc + "type MirrorProxy struct{ Addr string }\n\nfunc (m *MirrorProxy) ServeTCP(in net.Conn) error {\n\tdefer in.Close()\n\tout, err := net.Dial(\"tcp\", m.Addr)\n\tif err != nil {\n\t\treturn err\n\t}\n\tdefer out.Close()\n\tres := make(chan error, 2)\n\tvar cp relayer = chanRelayer{res}\n\tgo cp.relay(in, out, nil)\n\tgo cp.relay(out, in, nil)\n\treturn <-res\n}\n\n" + c09proxyDoc,
		Expect: "C09.B2"},

	// ---- B8: a pooled buffer that is NOT a relay's, released by a helper that also takes a connection ---------------------
	{Name: "benign: websocket handshake buffer from a sync.Pool, released by a deferred helper that is also given the client connection; goroutines inlined", File: "proxy/ws_handler.go",
		Old: "\t\tb := make([]byte, 1024)\n", New: "\t\tbp := hsBufs.Get().(*[]byte)\n\t\tdefer releaseBuf(in, bp)\n\t\tb := (*bp)[:1024]\n",
		More: []repl{{"\t\tgo cp(out, brw)\n\t\tgo cp(in, out)\n", "\t\tgo func() { cp(out, brw) }()\n\t\tgo func() { cp(in, out) }()\n"},
			{"// newWSHandler returns", "var hsBufs = sync.Pool{New: func() interface{} { b := make([]byte, 1024); return &b }}\n\nfunc releaseBuf(c net.Conn, bp *[]byte) {\n\tif c != nil {\n\t\thsBufs.Put(bp)\n\t}\n}\n\n// newWSHandler returns"},
			{"import (\n", "import (\n\t\"sync\"\n"}},
		Expect: ""},
}

const (
	c09proxyDoc      = "// Proxy implements a generic TCP proxying handler.\n"
	c09proxyRelayOld = "\terrc := make(chan error, 2)\n\tcp := func(dst io.Writer, src io.Reader, c gkm.Counter) {\n\t\terrc <- copyBuffer(dst, src, c)\n\t}\n\n\tgo cp(in, out, t.RxCounter)\n\tgo cp(out, in, t.TxCounter)\n\terr = <-errc\n"
	c09relayerSrc    = "type relayer interface {\n\trelay(dst io.Writer, src io.Reader, c gkm.Counter)\n}\n\ntype chanRelayer struct{ done chan error }\n\nfunc (r chanRelayer) relay(dst io.Writer, src io.Reader, c gkm.Counter) {\n\tr.done <- copyBuffer(dst, src, c)\n}\n\n"
)
