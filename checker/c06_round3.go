package main

// Rules of C06 added after the third round of independently authored breaking changes (DESIGN 11.10); wired in zzz_round3.go.

import (
	"go/token"

	"golang.org/x/tools/go/ssa"
)

// ---- C06.S7: library objects that are not safe for concurrent use, shared between requests --------------------------

var notConcurrencySafe = map[string]string{
	"*math/rand.Rand":    "a *rand.Rand made by rand.New is not safe for concurrent use (the package-level functions are)",
	"*math/rand/v2.Rand": "a *rand.Rand is not safe for concurrent use",
	"*bytes.Buffer":      "a bytes.Buffer is not safe for concurrent use",
	"*strings.Builder":   "a strings.Builder is not safe for concurrent use",
}

func runC06S7(c *Ctx) {
	sa := c06sharedFor(c)
	n := 0
	for _, f := range c.AllFns {
		if !sa.reach[f] {
			continue
		}
		eachInstr(f, func(i ssa.Instruction) {
			cc := callCommon(i)
			if cc == nil || cc.IsInvoke() || len(cc.Args) == 0 {
				return
			}
			sc := cc.StaticCallee()
			if sc == nil || sc.Signature.Recv() == nil || isRepoFn(sc) {
				return
			}
			why, risky := notConcurrencySafe[typeStr(cc.Args[0].Type())]
			if !risky {
				return
			}
			// receiver held in a package-level variable (or a field of one)
			fromGlobal := derives(cc.Args[0], func(v ssa.Value) bool { _, ok := v.(*ssa.Global); return ok })
			if !fromGlobal {
				return
			}
			n++
			c.check("C06.S7", fnKey(f)+"|"+typeStr(cc.Args[0].Type())+" shared between requests used under a lock", i.Pos(), len(heldAt(i, true)) > 0,
				why+"; this one lives in a package-level variable and is used on the request path by every serving goroutine without a lock: a data race on its state (for rand.Rand also an index-out-of-range panic inside the lookup)")
		})
	}
	c.ob("C06.S7", "request path|no unsynchronised use of a shared non-concurrency-safe library object", token.NoPos, OK, "scanned the serving-reachable functions ("+itoa(n)+" guarded uses)")
}
