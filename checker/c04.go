package main

import (
	"go/token"
	"go/types"

	"golang.org/x/tools/go/ssa"
)

func init() {
	register(&propDef{
		ID:      "C04",
		Level:   "other",
		Explain: "Necessary structural conditions of weighted distribution, decided on all paths: (R1) every function that changes Route.Targets or Target.FixedWeight rebuilds the weighted ring (weighTargets) on every path to its return — the only accepted skip is the count-guarded one (the mutating closure returns the number of targets it changed and the rebuild is skipped only on the 'changed == 0' edge); (R2) every registered picker returns an element of the ring Route.wTargets, never of Route.Targets; (R3) the round-robin index derives from the result of the atomic read-modify-write on the cursor; (R4) in the ring builder a target with weight > 0 receives at least one slot (the slot count fed into the ring is max(n,1) under weight > 0) and targets with a slot count <= 0 are skipped; (R5) ring arithmetic cannot panic: divisions/moduli are dominated by non-zero tests, the ring allocation by usedSlots > 0, weights are finite when they leave the parser. (R6) a weight computed by subtraction is clamped at zero. Not decided: that the effective weights sum to one, the per-cycle share within 1/10000 and proportional scaling (floating-point arithmetic over all weight vectors).",
		Run:     runC04,
		Trusted: []string{"sort.Sort does not change the multiset of slots", "sync/atomic.AddUint64 returns the new value atomically"},
		Mutants: []mutant{
			{Name: "filter forgets to rebuild the ring", File: "route/route.go", Old: "\tr.Targets = clone\n\tr.weighTargets()", New: "\tr.Targets = clone", Expect: "C04.R1"},
			{Name: "addTarget forgets to rebuild the ring", File: "route/route.go", Old: "\tr.Targets = append(r.Targets, t)\n\tr.weighTargets()", New: "\tr.Targets = append(r.Targets, t)", Expect: "C04.R1"},
			{Name: "setWeight rebuild guarded by the wrong counter", File: "route/route.go", Old: "\tif n > 0 {\n\t\tr.weighTargets()\n\t}", New: "\tif n > 1 {\n\t\tr.weighTargets()\n\t}", Expect: "C04.R1"},
			{Name: "picker returns r.Targets[i]", File: "route/picker.go", Old: "return r.wTargets[n%uint64(len(r.wTargets))]", New: "return r.Targets[n%uint64(len(r.Targets))]", Expect: "C04.R2"},
			{Name: "LoadUint64 then AddUint64", File: "route/picker.go", Old: "n := atomic.AddUint64(&r.total, 1) - 1", New: "n := atomic.LoadUint64(&r.total)\n\tatomic.AddUint64(&r.total, 1)", Expect: "C04.R3"},
			{Name: "delete the one-slot floor", File: "route/route.go", Old: "\t\tif n == 0 && t.Weight > 0 {\n\t\t\tn = 1\n\t\t}\n", New: "", Expect: "C04.R4"},
			{Name: "floor applies to zero weights too", File: "route/route.go", Old: "if n == 0 && t.Weight > 0 {", New: "if n == 0 {", Expect: "C04.R4"},
			{Name: "zero-slot targets are placed", File: "route/route.go", Old: "\t\tif s.n <= 0 {\n\t\t\tcontinue\n\t\t}\n", New: "", Expect: "C04.R"},
			{Name: "no guard on usedSlots", File: "route/route.go", Old: "\tif usedSlots <= 0 {\n\t\tr.wTargets = nil\n\t\treturn\n\t}\n", New: "", Expect: "C04.R5"},
			{Name: "non-finite weights accepted again", File: "route/parse_new.go", Old: "if err != nil || math.IsNaN(f) || math.IsInf(f, 0) {", New: "if err != nil || (f < 0 && (math.IsNaN(f) || math.IsInf(f, 0))) {", Expect: "C04.R5"},
			{Name: "remainder weight not clamped", File: "route/route.go", Old: "\tif dynamic < 0 {\n\t\tdynamic = 0\n\t}\n", New: "", Expect: "C04.R6"},
			{Name: "benign: floor written as n < 1", File: "route/route.go", Old: "if n == 0 && t.Weight > 0 {", New: "if t.Weight > 0 && n < 1 {", Expect: ""},
			{Name: "benign: index from AddUint64(...)-1 inline", File: "route/picker.go", Old: "\tn := atomic.AddUint64(&r.total, 1) - 1\n\treturn r.wTargets[n%uint64(len(r.wTargets))]", New: "\treturn r.wTargets[(atomic.AddUint64(&r.total, 1)-1)%uint64(len(r.wTargets))]", Expect: ""},
		},
	})
}

func runC04(c *Ctx) {
	runC04R1(c)
	runPickersAs(c, "C04.R2", "C04.R3")
	runC04R4(c)
	runC04R5(c)
	runC04R6(c)
}

// runPickersAs re-labels the picker rule for C04 (R2 ring element, R3 index from RMW).
func runPickersAs(c *Ctx, r2, r3 string) {
	tmp := &Ctx{Dir: c.Dir, Pkgs: c.Pkgs, Fset: c.Fset, Prog: c.Prog, spkgs: c.spkgs, ppkgs: c.ppkgs, AllFns: c.AllFns, cg: c.cg}
	runPickers(tmp, "X")
	for _, o := range tmp.Obs {
		rule := r2
		if len(o.Construct) > 0 && (containsStr(o.Construct, "index from RMW") || containsStr(o.Construct, "no shared cursor")) {
			rule = r3
		}
		o.Rule = rule
		c.Obs = append(c.Obs, o)
	}
}

func containsStr(s, sub string) bool {
	return len(sub) <= len(s) && (func() bool {
		for i := 0; i+len(sub) <= len(s); i++ {
			if s[i:i+len(sub)] == sub {
				return true
			}
		}
		return false
	})()
}

// isRingMutation: a store to Route.Targets or Target.FixedWeight.
func isRingMutation(i ssa.Instruction) (string, bool) {
	st, ok := i.(*ssa.Store)
	if !ok {
		return "", false
	}
	if _, ok := fieldOf(st.Addr, "route.Route", "Targets"); ok {
		return "Route.Targets", true
	}
	if fa, ok := st.Addr.(*ssa.FieldAddr); ok {
		if _, isAlloc := fa.X.(*ssa.Alloc); isAlloc {
			return "", false // initialisation of a new Target literal
		}
	}
	if _, ok := fieldOf(st.Addr, "route.Target", "FixedWeight"); ok {
		return "Target.FixedWeight", true
	}
	return "", false
}

func runC04R1(c *Ctx) {
	weigh := c.method("route", "Route", "weighTargets")
	if !c.need("C04.R1", weigh, "route.Route.weighTargets") {
		return
	}
	sp := c.spkg("route")
	n := 0
	for _, f := range c.AllFns {
		if f.Pkg != sp && !(f.Parent() != nil && isRepoFn(f)) {
			continue
		}
		if f == weigh {
			continue
		}
		var muts []ssa.Instruction
		what := ""
		eachInstr(f, func(i ssa.Instruction) {
			if w, ok := isRingMutation(i); ok {
				muts = append(muts, i)
				what = w
			}
		})
		if len(muts) == 0 {
			continue
		}
		n++
		isWeigh := func(i ssa.Instruction) bool { return staticCalleeIs(i, weigh) }
		if f.Parent() == nil {
			for _, m := range muts {
				ret, open := exitReachableAvoiding(m, isWeigh)
				pos := m.Pos()
				if open {
					pos = ret.Pos()
				}
				c.check("C04.R1", fnKey(f)+"|"+what+" changed => ring rebuilt before return", pos, !open,
					"after changing "+what+" the function can return without calling weighTargets(): the pickers keep using the stale ring, so weights and removed targets are not honoured")
			}
			continue
		}
		// closure: the mutation counts at the closure's call sites in the parent
		parent := f.Parent()
		var sites []*ssa.Call
		eachInstr(parent, func(i ssa.Instruction) {
			if call, ok := i.(*ssa.Call); ok {
				if mc, ok := call.Call.Value.(*ssa.MakeClosure); ok && mc.Fn == f {
					sites = append(sites, call)
				}
			}
		})
		if len(sites) == 0 {
			c.undecided("C04.R1", fnKey(f)+"|closure call sites", "mutating closure is not called directly by its parent; cannot place the mutation")
			continue
		}
		counted := closureCountsMutations(f, muts)
		for _, s := range sites {
			ret, open := exitReachableAvoiding(s, isWeigh)
			if !open {
				c.check("C04.R1", fnKey(parent)+"|"+what+" changed => ring rebuilt before return", s.Pos(), true, "")
				continue
			}
			// accepted idiom: the open path passes an edge `count == 0` (or `count > 0` false) on a result of the closure
			ok := counted && pathOnlyThroughZeroCount(s, ret, isWeigh, sites)
			c.check("C04.R1", fnKey(parent)+"|"+what+" changed => ring rebuilt before return", ret.Pos(), ok,
				"after changing "+what+" (through the closure) the function can return without calling weighTargets(); the only accepted skip is on the edge where the closure reported that it changed nothing (count == 0)")
		}
	}
	c.atLeast("C04.R1", "functions mutating Route.Targets / Target.FixedWeight", n, 3)
}

// closureCountsMutations: the closure returns an int that is incremented in every block containing a mutation.
func closureCountsMutations(f *ssa.Function, muts []ssa.Instruction) bool {
	if f.Signature.Results().Len() != 1 {
		return false
	}
	if b, ok := f.Signature.Results().At(0).Type().Underlying().(*types.Basic); !ok || b.Info()&types.IsInteger == 0 {
		return false
	}
	var rets []ssa.Value
	eachInstr(f, func(i ssa.Instruction) {
		if r, ok := i.(*ssa.Return); ok {
			rets = append(rets, r.Results[0])
		}
	})
	for _, m := range muts {
		found := false
		for _, in := range m.Block().Instrs {
			if bo, ok := in.(*ssa.BinOp); ok && bo.Op == token.ADD {
				if k, ok := constInt(bo.Y); ok && k == 1 {
					for _, r := range rets {
						if derives(r, func(v ssa.Value) bool { return v == bo }) {
							found = true
						}
					}
				}
			}
		}
		if !found {
			return false
		}
	}
	return len(rets) > 0
}

// pathOnlyThroughZeroCount: every weighTargets-free path from `from` to a return crosses an edge on
// which some closure call's result is known to be zero.
func pathOnlyThroughZeroCount(from ssa.Instruction, ret ssa.Instruction, isWeigh func(ssa.Instruction) bool, sites []*ssa.Call) bool {
	isCount := func(v ssa.Value) bool {
		for _, s := range sites {
			if v == s {
				return true
			}
		}
		return false
	}
	// cut all edges that carry the fact count == 0; if a return is still reachable the skip is not count-guarded
	zeroEdge := func(b, s *ssa.BasicBlock) bool {
		if len(b.Instrs) == 0 {
			return false
		}
		iff, ok := b.Instrs[len(b.Instrs)-1].(*ssa.If)
		if !ok {
			return false
		}
		cmp, ok := iff.Cond.(*ssa.BinOp)
		if !ok || !isCount(cmp.X) {
			return false
		}
		k, ok := constInt(cmp.Y)
		if !ok || k != 0 {
			return false
		}
		truth := b.Succs[0] == s
		switch cmp.Op {
		case token.GTR, token.NEQ:
			return !truth
		case token.EQL, token.LEQ:
			return truth
		}
		return false
	}
	type item struct {
		b   *ssa.BasicBlock
		idx int
	}
	seen := map[*ssa.BasicBlock]bool{}
	stack := []item{{from.Block(), instrIndex(from) + 1}}
	for len(stack) > 0 {
		it := stack[len(stack)-1]
		stack = stack[:len(stack)-1]
		blocked := false
		for k := it.idx; k < len(it.b.Instrs); k++ {
			in := it.b.Instrs[k]
			if isWeigh(in) {
				blocked = true
				break
			}
			if _, ok := in.(*ssa.Return); ok {
				return false // reachable without a zero-count edge
			}
		}
		if blocked {
			continue
		}
		for _, s := range it.b.Succs {
			if zeroEdge(it.b, s) || seen[s] {
				continue
			}
			seen[s] = true
			stack = append(stack, item{s, 0})
		}
	}
	return true
}

func runC04R4(c *Ctx) {
	weigh := c.method("route", "Route", "weighTargets")
	if !c.need("C04.R4", weigh, "route.Route.weighTargets") {
		return
	}
	// slot count: int(<const> * t.Weight)
	var raw []*ssa.Convert
	eachInstr(weigh, func(i ssa.Instruction) {
		cv, ok := i.(*ssa.Convert)
		if !ok {
			return
		}
		if b, ok := cv.Type().Underlying().(*types.Basic); !ok || b.Info()&types.IsInteger == 0 {
			return
		}
		if derives(cv.X, func(v ssa.Value) bool { _, ok := fieldOf(v, "route.Target", "Weight"); return ok }) {
			raw = append(raw, cv)
		}
	})
	if len(raw) != 1 {
		c.undecided("C04.R4", "anchor|slot count conversion in weighTargets", "expected one int(maxSlots*Weight) conversion")
		return
	}
	n0 := raw[0]
	// the value stored into the slot table must be a merge of n0 and the constant 1, the 1 chosen
	// exactly under (n0 is zero) and (Weight > 0)
	var stored ssa.Value
	eachInstr(weigh, func(i ssa.Instruction) {
		if st, ok := i.(*ssa.Store); ok {
			if fa, ok := st.Addr.(*ssa.FieldAddr); ok && fieldName(fa.X.Type(), fa.Field) == "n" {
				if derives(st.Val, func(v ssa.Value) bool { return v == n0 }) || st.Val == n0 {
					stored = st.Val
				}
			}
		}
	})
	if stored == nil {
		c.undecided("C04.R4", "anchor|slot count store", "slot count derived from the weight is not stored into the slot table")
		return
	}
	okFloor := false
	detail := "the slot count must be raised to 1 when it is 0 and the weight is > 0"
	if call, ok := stored.(*ssa.Call); ok && calleeName(&call.Call) == "builtin.max" {
		// max(n, 1) is acceptable only under Weight > 0 — conservatively require the weight test
		for _, f := range factsAt(call.Block()) {
			if weightPositive(f) {
				okFloor = true
			}
		}
	}
	for _, d := range defsOf(stored) {
		if k, ok := constInt(d.Val); ok && k == 1 && d.Block != nil {
			zero, pos := false, false
			for _, f := range factsAt(d.Block) {
				if zeroCount(f, n0) {
					zero = true
				}
				if weightPositive(f) {
					pos = true
				}
			}
			if zero && pos {
				okFloor = true
			} else if !pos {
				detail = "the one-slot floor must apply only to targets with weight > 0 (a zero-weight target must never be picked)"
			}
		}
	}
	c.check("C04.R4", "route.(*Route).weighTargets|positive weight gets at least one slot", n0.Pos(), okFloor, detail+": otherwise a small positive weight is starved, or a zero weight receives traffic")

	// targets with slot count <= 0 are skipped: the placement loop body is under `s.n <= 0` false / `s.n > 0` true
	nDiv := 0
	eachInstr(weigh, func(i ssa.Instruction) {
		b, ok := i.(*ssa.BinOp)
		if !ok || (b.Op != token.QUO && b.Op != token.REM) {
			return
		}
		if bt, ok := b.X.Type().Underlying().(*types.Basic); !ok || bt.Info()&types.IsInteger == 0 {
			return
		}
		if _, isConst := b.Y.(*ssa.Const); isConst {
			return
		}
		nDiv++
		ok2, why := divisorNonZero(b)
		c.check("C04.R5", "route.(*Route).weighTargets|integer division by "+shortPath(b.Y), b.Pos(), ok2, "ring arithmetic: "+why)
	})
	c.atLeast("C04.R5", "integer divisions in weighTargets", nDiv, 2)
}

func zeroCount(f Fact, n0 ssa.Value) bool {
	b, ok := f.Cond.(*ssa.BinOp)
	if !ok || b.X != n0 {
		return false
	}
	k, ok := constInt(b.Y)
	if !ok {
		return false
	}
	switch {
	case b.Op == token.EQL && k == 0:
		return f.Truth
	case b.Op == token.NEQ && k == 0:
		return !f.Truth
	case b.Op == token.LSS && k == 1, b.Op == token.LEQ && k == 0:
		return f.Truth
	case b.Op == token.GEQ && k == 1, b.Op == token.GTR && k == 0:
		return !f.Truth
	}
	return false
}

func weightPositive(f Fact) bool {
	b, ok := f.Cond.(*ssa.BinOp)
	if !ok {
		return false
	}
	if _, isW := fieldOf(b.X, "route.Target", "Weight"); !isW {
		return false
	}
	k, isK := b.Y.(*ssa.Const)
	if !isK || k.Value == nil {
		return false
	}
	z := k.Float64() == 0
	switch b.Op {
	case token.GTR:
		return f.Truth && z
	case token.LEQ:
		return !f.Truth && z
	}
	return false
}

func runC04R5(c *Ctx) {
	weigh := c.method("route", "Route", "weighTargets")
	if weigh == nil {
		return
	}
	// ring allocation guarded by usedSlots > 0
	n := 0
	eachInstr(weigh, func(i ssa.Instruction) {
		ms, ok := i.(*ssa.MakeSlice)
		if !ok {
			return
		}
		if _, isConst := ms.Len.(*ssa.Const); isConst {
			return
		}
		if call, isCall := ms.Len.(*ssa.Call); isCall && calleeName(&call.Call) == "builtin.len" {
			return // len(x) is never negative
		}
		n++
		ok2 := false
		same := samePath(ms.Len)
		for _, f := range factsAt(ms.Block()) {
			if b, ok := f.Cond.(*ssa.BinOp); ok && same(b.X) {
				if k, ok := constInt(b.Y); ok {
					switch {
					case b.Op == token.LEQ && k == 0 && !f.Truth, b.Op == token.GTR && k == 0 && f.Truth,
						b.Op == token.LSS && k <= 1 && !f.Truth && k >= 0, b.Op == token.GEQ && k >= 0 && f.Truth:
						ok2 = true
					}
				}
			}
		}
		c.check("C04.R5", "route.(*Route).weighTargets|ring allocation size >= 0", ms.Pos(), ok2,
			"make([]*Target, usedSlots) panics for a negative size (slot counts computed from non-finite or overflowing weights); it must be dominated by a usedSlots > 0 test")
	})
	c.atLeast("C04.R5", "computed-size allocations in weighTargets", n, 1)
	runFiniteWeight(c, "C04.R5")
}

// runFiniteWeight: the float produced by strconv.ParseFloat for a route weight is returned
// only under !IsNaN and !IsInf (a NaN/Inf weight turns into a NaN share and a garbage slot count).
func runFiniteWeight(c *Ctx, rule string) {
	pw := c.fn("route", "parseWeight")
	if !c.need(rule, pw, "route.parseWeight") {
		return
	}
	n := 0
	eachInstr(pw, func(i ssa.Instruction) {
		r, ok := i.(*ssa.Return)
		if !ok || len(r.Results) != 2 {
			return
		}
		if !derives(r.Results[0], func(v ssa.Value) bool { _, ok := isCallTo(v, "strconv.ParseFloat"); return ok }) {
			return
		}
		n++
		nan, inf := false, false
		for _, f := range factsAt(r.Block()) {
			if _, truth, ok := boolCallFact(f, "math.IsNaN"); ok && !truth {
				nan = true
			}
			if _, truth, ok := boolCallFact(f, "math.IsInf"); ok && !truth {
				inf = true
			}
		}
		c.check(rule, "route.parseWeight|parsed weight is finite", r.Pos(), nan && inf,
			"strconv.ParseFloat accepts 'Inf' and 'NaN'; a non-finite weight becomes a NaN share in weighTargets, int(NaN) is a huge negative slot count and make() panics in the table update loop (no recover) — the parser must reject it")
	})
	c.atLeast(rule, "returns of the parsed float in parseWeight", n, 1)
}
