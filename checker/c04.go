package main

import (
	"go/token"

	"golang.org/x/tools/go/ssa"
)

func init() {
	register(&propDef{
		ID:      "C04",
		Level:   "other",
		Explain: "Necessary structural conditions of weighted distribution, decided on all paths. Sites are found by role, not by function name: the ring builder is the function of package route whose region (itself + the same-package helpers it calls) contains every store to Target.Weight and to the ring field of Route (the []*Target field other than Targets) and changes none of its inputs; pickers are the functions registered in route.Picker or used as func(*Route) *Target values. (R1) after every store to Route.Targets (field or element) or to Target.FixedWeight of an existing target, every path to a return performs a full rebuild (a call of the builder or of a wrapper that reaches it on all paths, possibly deferred; never a goroutine); a helper/closure/method value that only makes the change hands the obligation to all of its call sites; the only accepted skip is the count-guarded one (the callee returns an integer incremented whenever it makes a change and the rebuild is skipped only on an edge where that result is 0); (R2) every result of a picker, followed through locals, phis and helper results, is an element of the ring, and nil only under len(ring)==0 in any spelling; (R3) the slot index of a picker that touches a cursor field of Route derives from the result of the sync/atomic read-modify-write on it (function or method spelling) and from no other read, the cursor is written nowhere else (no separate store/reset), and a picker without a cursor draws its index from a call per lookup; (R4) the float->int slot count derived from Target.Weight is used only through a merge that raises it to >= 1 exactly under (count == 0 and weight > 0) (if/switch/early return/max/n++/helper forms); (R5) integer divisions in the builder region have a divisor proved non-zero (facts lifted through helper parameters), the computed-size ring allocation is proved non-negative, a float from strconv.ParseFloat leaves the route parser only when proved finite (IsNaN/IsInf, comparisons, or a validator helper); (R6) every definition reaching a store to Target.Weight that carries a floating-point difference is chosen only where it is known non-negative (`< 0 => 0` clamp, max(x, 0), or a comparison of the operands). Not decided: that the effective weights sum to one, the per-cycle share within 1/10000 and proportional scaling (floating-point arithmetic over all weight vectors).",
		Run:     runC04,
		Trusted: []string{"sort.Sort does not change the multiset of slots", "sync/atomic.AddUint64 returns the new value atomically"},
		Mutants: []mutant{
			{Name: "filter forgets to rebuild the ring", File: "route/route.go", Old: "\tr.Targets = clone\n\tr.weighTargets()", New: "\tr.Targets = clone", Expect: "C04.R1"},
			{Name: "addTarget forgets to rebuild the ring", File: "route/route.go", Old: "\tr.Targets = append(r.Targets, t)\n\tr.weighTargets()", New: "\tr.Targets = append(r.Targets, t)", Expect: "C04.R1"},
			{Name: "setWeight rebuild guarded by the wrong counter", File: "route/route.go", Old: "\tif n > 0 {\n\t\tr.weighTargets()\n\t}", New: "\tif n > 1 {\n\t\tr.weighTargets()\n\t}", Expect: "C04.R1"},
			{Name: "picker returns r.Targets[i]", File: "route/picker.go", Old: "return r.wTargets[n%uint64(len(r.wTargets))]", New: "return r.Targets[n%uint64(len(r.Targets))]", Expect: "C04.R2"},
			{Name: "LoadUint64 then AddUint64", File: "route/picker.go", Old: "n := atomic.AddUint64(&r.total, 1) - 1", New: "n := atomic.LoadUint64(&r.total)\n\tatomic.AddUint64(&r.total, 1)", Expect: "C04.R3"},
			{Name: "delete the one-slot floor", File: "route/route.go", Old: "\t\tif n == 0 && t.Weight > 0 {\n\t\t\tn = 1\n\t\t}\n", New: "", Expect: "C04.R4"},
			{Name: "floor applies to zero weights too", File: "route/route.go", Old: "if n == 0 && t.Weight > 0 {", New: "if n == 0 {", Expect: "C04.R4"},
			{Name: "zero-slot targets are placed", File: "route/route.go", Old: "\t\tif s.n <= 0 {\n\t\t\tcontinue\n\t\t}\n", New: "", Expect: "C04.R"},
			{Name: "no guard on usedSlots", File: "route/route.go", Old: "\tif usedSlots <= 0 {\n\t\tr.wTargets = nil\n\t\treturn\n\t}\n", New: "", Expect: "C04.R5"},
			{Name: "non-finite weights accepted again", File: "route/parse_new.go", Old: "if err != nil || math.IsNaN(f) || math.IsInf(f, 0) {", New: "if err != nil || (f < 0 && (math.IsNaN(f) || math.IsInf(f, 0))) {", Expect: "C04.R5"},
			{Name: "remainder weight not clamped", File: "route/route.go", Old: "\tif dynamic < 0 {\n\t\tdynamic = 0\n\t}\n", New: "", Expect: "C04.R6"},
			{Name: "benign: floor written as n < 1", File: "route/route.go", Old: "if n == 0 && t.Weight > 0 {", New: "if t.Weight > 0 && n < 1 {", Expect: ""},
			{Name: "benign: index from AddUint64(...)-1 inline", File: "route/picker.go", Old: "\tn := atomic.AddUint64(&r.total, 1) - 1\n\treturn r.wTargets[n%uint64(len(r.wTargets))]", New: "\treturn r.wTargets[(atomic.AddUint64(&r.total, 1)-1)%uint64(len(r.wTargets))]", Expect: ""},
			// ---- proactive pass: behaviour-preserving rewrites of kinds that are not in the benign corpus
			{Name: "benign: rebuild deferred at the top of filter", File: "route/route.go", Old: "\tvar clone []*Target\n", New: "\tdefer r.weighTargets()\n\tvar clone []*Target\n", More: []repl{{"\tr.Targets = clone\n\tr.weighTargets()", "\tr.Targets = clone"}}, Expect: ""},
			{Name: "benign: ring builder renamed", File: "route/route.go", Old: "weighTargets", New: "rebuildRing", All: true, Expect: ""},
			{Name: "benign: Targets stored through a setter, rebuild stays in the caller", File: "route/route.go", Old: "\tr.Targets = clone\n\tr.weighTargets()\n}", New: "\tr.setTargets(clone)\n\tr.weighTargets()\n}\n\nfunc (r *Route) setTargets(ts []*Target) {\n\tr.Targets = ts\n}", Expect: ""},
			{Name: "benign: store+rebuild merged into one helper used by filter and addTarget", File: "route/route.go", Old: "\tr.Targets = clone\n\tr.weighTargets()\n}", New: "\tr.update(clone)\n}\n\nfunc (r *Route) update(ts []*Target) {\n\tr.Targets = ts\n\tr.weighTargets()\n}", More: []repl{{"\tr.Targets = append(r.Targets, t)\n\tr.weighTargets()", "\tr.update(append(r.Targets, t))"}}, Expect: ""},
			{Name: "benign: setWeight closure becomes a method, count guard becomes an early return", File: "route/route.go", Old: "\tloop := func(w float64) int {\n", New: "\treturn r.spread(service, tags, weight)\n}\n\nfunc (r *Route) assign(service string, tags []string, w float64) int {\n", More: []repl{{"\t\treturn n\n\t}\n", "\t\treturn n\n}\n\nfunc (r *Route) spread(service string, tags []string, weight float64) int {\n"}, {"\tn := loop(0)\n\tw := weight / float64(n)\n\tloop(w)\n\n\tif n > 0 {\n\t\tr.weighTargets()\n\t}\n\treturn n\n}", "\tn := r.assign(service, tags, 0)\n\tif n == 0 {\n\t\treturn 0\n\t}\n\tr.assign(service, tags, weight/float64(n))\n\tr.weighTargets()\n\treturn n\n}"}}, Expect: ""},
			{Name: "benign: builder wrapped (rebuild -> weighTargets), mutators call the wrapper", File: "route/route.go", Old: "\tr.Targets = clone\n\tr.weighTargets()\n}", New: "\tr.Targets = clone\n\tr.rebuild()\n}\n\nfunc (r *Route) rebuild() {\n\tr.weighTargets()\n}", Expect: ""},
			{Name: "benign: equal-share case split off the builder, helper publishes the ring itself", File: "route/route.go", Old: "\tif nFixed == 0 {\n\t\tw := 1.0 / float64(len(r.Targets))\n\t\tfor _, t := range r.Targets {\n\t\t\tt.Weight = w\n\t\t}\n\t\tr.wTargets = r.Targets\n\t\treturn\n\t}\n", New: "\tif nFixed == 0 {\n\t\tr.equalShares()\n\t\treturn\n\t}\n", More: []repl{{"type byN []struct{ i, n int }", "func (r *Route) equalShares() {\n\tw := 1.0 / float64(len(r.Targets))\n\tfor _, t := range r.Targets {\n\t\tt.Weight = w\n\t}\n\tr.wTargets = r.Targets\n}\n\ntype byN []struct{ i, n int }"}}, Expect: ""},
			{Name: "benign: FixedWeight assigned after the Target literal", File: "route/route.go", Old: "\t\tFixedWeight: fixedWeight,\n", New: "", More: []repl{{"\tvar err error\n\tif opts != nil {", "\tt.FixedWeight = fixedWeight\n\tvar err error\n\tif opts != nil {"}}, Expect: ""},
			{Name: "benign: picker guard inverted, ring in a local", File: "route/picker.go", Old: "\tif len(r.wTargets) == 0 {\n\t\treturn nil\n\t}\n\tn := atomic.AddUint64(&r.total, 1) - 1\n\treturn r.wTargets[n%uint64(len(r.wTargets))]", New: "\tif ring := r.wTargets; len(ring) > 0 {\n\t\tn := atomic.AddUint64(&r.total, 1) - 1\n\t\treturn ring[n%uint64(len(ring))]\n\t}\n\treturn nil", Expect: ""},
			{Name: "benign: pickers share emptyRing() and slot(i) helpers", File: "route/picker.go", Old: "\tif len(r.wTargets) == 0 {\n\t\treturn nil\n\t}\n\treturn r.wTargets[randIntn(len(r.wTargets))]\n}", New: "\tif r.emptyRing() {\n\t\treturn nil\n\t}\n\treturn r.slot(uint64(randIntn(len(r.wTargets))))\n}\n\nfunc (r *Route) emptyRing() bool { return len(r.wTargets) == 0 }\n\nfunc (r *Route) slot(i uint64) *Target { return r.wTargets[i%uint64(len(r.wTargets))] }", More: []repl{{"\tif len(r.wTargets) == 0 {\n\t\treturn nil\n\t}\n\tn := atomic", "\tif r.emptyRing() {\n\t\treturn nil\n\t}\n\tn := atomic"}, {"return r.wTargets[n%uint64(len(r.wTargets))]", "return r.slot(n)"}}, Expect: ""},
			{Name: "benign: picker result through a named result variable", File: "route/picker.go", Old: "func rrPicker(r *Route) *Target {\n\tif len(r.wTargets) == 0 {\n\t\treturn nil\n\t}\n\tn := atomic.AddUint64(&r.total, 1) - 1\n\treturn r.wTargets[n%uint64(len(r.wTargets))]", New: "func rrPicker(r *Route) (t *Target) {\n\tif size := uint64(len(r.wTargets)); size != 0 {\n\t\tt = r.wTargets[(atomic.AddUint64(&r.total, 1)-1)%size]\n\t}\n\treturn t", Expect: ""},
			{Name: "benign: floor written as max(n, 1) under the weight test", File: "route/route.go", Old: "\t\tif n == 0 && t.Weight > 0 {\n\t\t\tn = 1\n\t\t}\n", New: "\t\tif t.Weight > 0 {\n\t\t\tn = max(n, 1)\n\t\t}\n", Expect: ""},
			{Name: "benign: floor written as n++", File: "route/route.go", Old: "if n == 0 && t.Weight > 0 {\n\t\t\tn = 1", New: "if n == 0 && t.Weight > 0 {\n\t\t\tn++", Expect: ""},
			{Name: "benign: floor as nested ifs, weight test first", File: "route/route.go", Old: "\t\tif n == 0 && t.Weight > 0 {\n\t\t\tn = 1\n\t\t}\n", New: "\t\tif 0 < t.Weight {\n\t\t\tif n < 1 {\n\t\t\t\tn = 1\n\t\t\t}\n\t\t}\n", Expect: ""},
			{Name: "benign: zero-weight targets skipped before the slot count", File: "route/route.go", Old: "\t\tn := int(float64(maxSlots) * t.Weight)\n\t\tif n == 0 && t.Weight > 0 {\n\t\t\tn = 1\n\t\t}\n\t\tslots[i].i = i\n", New: "\t\tslots[i].i = i\n\t\tif t.Weight <= 0 {\n\t\t\tcontinue\n\t\t}\n\t\tn := int(float64(maxSlots) * t.Weight)\n\t\tif n == 0 {\n\t\t\tn = 1\n\t\t}\n", Expect: ""},
			{Name: "benign: placement loop extracted, ring size passed as a parameter", File: "route/route.go", Old: "\tsort.Sort(slots)\n\ttargets := make([]*Target, usedSlots)\n\tfor _, s := range slots {", New: "\tsort.Sort(slots)\n\tr.wTargets = spread(r.Targets, slots, usedSlots)\n}\n\nfunc spread(all []*Target, slots byN, usedSlots int) []*Target {\n\ttargets := make([]*Target, usedSlots)\n\tfor _, s := range slots {", More: []repl{{"targets[next] = r.Targets[s.i]", "targets[next] = all[s.i]"}, {"\tr.wTargets = targets\n}", "\treturn targets\n}"}}, Expect: ""},
			{Name: "benign: usedSlots guard written as < 1", File: "route/route.go", Old: "\tif usedSlots <= 0 {\n\t\tr.wTargets = nil", New: "\tif usedSlots < 1 {\n\t\tr.wTargets = nil", Expect: ""},
			{Name: "benign: clamp written as max(dynamic, 0)", File: "route/route.go", Old: "\tif dynamic < 0 {\n\t\tdynamic = 0\n\t}\n", New: "\tdynamic = max(dynamic, 0)\n", Expect: ""},
			{Name: "benign: remainder computed only when the fixed weights leave one", File: "route/route.go", Old: "\tdynamic := (1 - sumFixed) / float64(len(r.Targets)-nFixed)\n\tif dynamic < 0 {\n\t\tdynamic = 0\n\t}\n", New: "\tdynamic := 0.0\n\tif sumFixed < 1 {\n\t\tdynamic = (1 - sumFixed) / float64(len(r.Targets)-nFixed)\n\t}\n", Expect: ""},
			{Name: "benign: clamped remainder computed by a helper", File: "route/route.go", Old: "\tdynamic := (1 - sumFixed) / float64(len(r.Targets)-nFixed)\n\tif dynamic < 0 {\n\t\tdynamic = 0\n\t}\n", New: "\tdynamic := remainder(sumFixed, len(r.Targets)-nFixed)\n", More: []repl{{"type byN []struct{ i, n int }", "func remainder(sumFixed float64, n int) float64 {\n\td := (1 - sumFixed) / float64(n)\n\tif d < 0 {\n\t\treturn 0\n\t}\n\treturn d\n}\n\ntype byN []struct{ i, n int }"}}, Expect: ""},
			{Name: "benign: finite(f) helper in the parser", File: "route/parse_new.go", Old: "if err != nil || math.IsNaN(f) || math.IsInf(f, 0) {", New: "if err != nil || !finite(f) {", More: []repl{{"func parseTags(s string) []string {", "func finite(f float64) bool { return !math.IsNaN(f) && !math.IsInf(f, 0) }\n\nfunc parseTags(s string) []string {"}}, Expect: ""},
			{Name: "benign: finiteness tested by comparisons", File: "route/parse_new.go", Old: "if err != nil || math.IsNaN(f) || math.IsInf(f, 0) {", New: "if err != nil || f != f || f > math.MaxFloat64 || f < -math.MaxFloat64 {", Expect: ""},
			{Name: "benign: setWeight closure becomes a method used through a method value", File: "route/route.go", Old: "\tloop := func(w float64) int {\n", New: "\treturn r.spread(service, tags, weight)\n}\n\nfunc (r *Route) assign(service string, tags []string, w float64) int {\n", More: []repl{{"\t\treturn n\n\t}\n", "\t\treturn n\n}\n\nfunc (r *Route) spread(service string, tags []string, weight float64) int {\n"}, {"\tn := loop(0)\n\tw := weight / float64(n)\n\tloop(w)\n\n\tif n > 0 {\n\t\tr.weighTargets()\n\t}\n\treturn n\n}", "\tapply := r.assign\n\tn := apply(service, tags, 0)\n\tapply(service, tags, weight/float64(n))\n\tif n != 0 {\n\t\tr.weighTargets()\n\t}\n\treturn n\n}"}}, Expect: ""},
			{Name: "benign: floor applied by a helper that receives the count and the weight", File: "route/route.go", Old: "\t\tif n == 0 && t.Weight > 0 {\n\t\t\tn = 1\n\t\t}\n", New: "\t\tn = atLeastOne(n, t.Weight)\n", More: []repl{{"type byN []struct{ i, n int }", "func atLeastOne(n int, w float64) int {\n\tif n == 0 && w > 0 {\n\t\treturn 1\n\t}\n\treturn n\n}\n\ntype byN []struct{ i, n int }"}}, Expect: ""},
			{Name: "benign: pickers registered in an init function", File: "route/picker.go", Old: "var Picker = map[string]picker{\n\t\"rnd\": rndPicker,\n\t\"rr\":  rrPicker,\n}", New: "var Picker = map[string]picker{}\n\nfunc init() {\n\tPicker[\"rnd\"] = rndPicker\n\tPicker[\"rr\"] = rrPicker\n}", Expect: ""},
			{Name: "benign: ParseFloat wrapped in a helper, validation stays in parseWeight", File: "route/parse_new.go", Old: "\tf, err := strconv.ParseFloat(s, 64)\n", New: "\tf, err := parseFloat(s)\n", More: []repl{{"func parseTags(s string) []string {", "func parseFloat(s string) (float64, error) { return strconv.ParseFloat(s, 64) }\n\nfunc parseTags(s string) []string {"}}, Expect: ""},
			// ---- breaks that the rewritten rules must still report
			{Name: "ParseFloat wrapped in a helper, caller checks only NaN", File: "route/parse_new.go", Old: "\tf, err := strconv.ParseFloat(s, 64)\n\tif err != nil || math.IsNaN(f) || math.IsInf(f, 0) {", New: "\tf, err := parseFloat(s)\n\tif err != nil || math.IsNaN(f) {", More: []repl{{"func parseTags(s string) []string {", "func parseFloat(s string) (float64, error) { return strconv.ParseFloat(s, 64) }\n\nfunc parseTags(s string) []string {"}}, Expect: "C04.R5"},
			{Name: "floor helper ignores the weight", File: "route/route.go", Old: "\t\tif n == 0 && t.Weight > 0 {\n\t\t\tn = 1\n\t\t}\n", New: "\t\tn = atLeastOne(n)\n", More: []repl{{"type byN []struct{ i, n int }", "func atLeastOne(n int) int {\n\tif n == 0 {\n\t\treturn 1\n\t}\n\treturn n\n}\n\ntype byN []struct{ i, n int }"}}, Expect: "C04.R4"},
			{Name: "setter helper, caller forgets the rebuild", File: "route/route.go", Old: "\tr.Targets = clone\n\tr.weighTargets()\n}", New: "\tr.setTargets(clone)\n}\n\nfunc (r *Route) setTargets(ts []*Target) {\n\tr.Targets = ts\n}", Expect: "C04.R1"},
			{Name: "rebuild started in a goroutine", File: "route/route.go", Old: "\tr.Targets = clone\n\tr.weighTargets()", New: "\tr.Targets = clone\n\tgo r.weighTargets()", Expect: "C04.R1"},
			{Name: "filter skips the rebuild when nothing is left", File: "route/route.go", Old: "\tr.Targets = clone\n\tr.weighTargets()", New: "\tr.Targets = clone\n\tif len(clone) == 0 {\n\t\treturn\n\t}\n\tr.weighTargets()", Expect: "C04.R1"},
			{Name: "closure counts only non-zero weights", File: "route/route.go", Old: "\t\t\tn++\n\t\t\tt.FixedWeight = w", New: "\t\t\tif w > 0 {\n\t\t\t\tn++\n\t\t\t}\n\t\t\tt.FixedWeight = w", Expect: "C04.R1"},
			{Name: "method form of setWeight, rebuild only for more than one match", File: "route/route.go", Old: "\tloop := func(w float64) int {\n", New: "\treturn r.spread(service, tags, weight)\n}\n\nfunc (r *Route) assign(service string, tags []string, w float64) int {\n", More: []repl{{"\t\treturn n\n\t}\n", "\t\treturn n\n}\n\nfunc (r *Route) spread(service string, tags []string, weight float64) int {\n"}, {"\tn := loop(0)\n\tw := weight / float64(n)\n\tloop(w)\n\n\tif n > 0 {\n\t\tr.weighTargets()\n\t}\n\treturn n\n}", "\tn := r.assign(service, tags, 0)\n\tif n <= 1 {\n\t\treturn n\n\t}\n\tr.assign(service, tags, weight/float64(n))\n\tr.weighTargets()\n\treturn n\n}"}}, Expect: "C04.R1"},
			{Name: "picker reports no target when the target list is empty", File: "route/picker.go", Old: "\tif len(r.wTargets) == 0 {\n\t\treturn nil\n\t}\n\treturn r.wTargets[randIntn", New: "\tif len(r.Targets) == 0 {\n\t\treturn nil\n\t}\n\treturn r.wTargets[randIntn", Expect: "C04.R2"},
			{Name: "shared slot(i) helper indexes Route.Targets", File: "route/picker.go", Old: "\tif len(r.wTargets) == 0 {\n\t\treturn nil\n\t}\n\treturn r.wTargets[randIntn(len(r.wTargets))]\n}", New: "\tif r.emptyRing() {\n\t\treturn nil\n\t}\n\treturn r.slot(uint64(randIntn(len(r.wTargets))))\n}\n\nfunc (r *Route) emptyRing() bool { return len(r.wTargets) == 0 }\n\nfunc (r *Route) slot(i uint64) *Target { return r.Targets[i%uint64(len(r.Targets))] }", More: []repl{{"\tif len(r.wTargets) == 0 {\n\t\treturn nil\n\t}\n\tn := atomic", "\tif r.emptyRing() {\n\t\treturn nil\n\t}\n\tn := atomic"}, {"return r.wTargets[n%uint64(len(r.wTargets))]", "return r.slot(n)"}}, Expect: "C04.R2"},
			{Name: "cursor reset at the end of the ring", File: "route/picker.go", Old: "\tn := atomic.AddUint64(&r.total, 1) - 1\n", New: "\tn := atomic.AddUint64(&r.total, 1) - 1\n\tif n >= uint64(len(r.wTargets)) {\n\t\tatomic.StoreUint64(&r.total, 0)\n\t}\n", Expect: "C04.R3"},
			{Name: "random picker always takes slot 0", File: "route/picker.go", Old: "return r.wTargets[randIntn(len(r.wTargets))]", New: "return r.wTargets[0]", Expect: "C04.R3"},
			{Name: "max(n, 1) for every target", File: "route/route.go", Old: "\t\tif n == 0 && t.Weight > 0 {\n\t\t\tn = 1\n\t\t}\n", New: "\t\tn = max(n, 1)\n", Expect: "C04.R4"},
			{Name: "ring sized with the count before the floor", File: "route/route.go", Old: "\t\tif n == 0 && t.Weight > 0 {\n\t\t\tn = 1\n\t\t}\n\t\tslots[i].i = i\n\t\tslots[i].n = n\n\t\tusedSlots += n\n", New: "\t\tusedSlots += n\n\t\tif n == 0 && t.Weight > 0 {\n\t\t\tn = 1\n\t\t}\n\t\tslots[i].i = i\n\t\tslots[i].n = n\n", Expect: "C04.R4"},
			{Name: "extracted placement called without the usedSlots guard", File: "route/route.go", Old: "\tsort.Sort(slots)\n\ttargets := make([]*Target, usedSlots)\n\tfor _, s := range slots {", New: "\tsort.Sort(slots)\n\tr.wTargets = spread(r.Targets, slots, usedSlots)\n}\n\nfunc spread(all []*Target, slots byN, usedSlots int) []*Target {\n\ttargets := make([]*Target, usedSlots)\n\tfor _, s := range slots {", More: []repl{{"targets[next] = r.Targets[s.i]", "targets[next] = all[s.i]"}, {"\tr.wTargets = targets\n}", "\treturn targets\n}"}, {"\tif usedSlots <= 0 {\n\t\tr.wTargets = nil\n\t\treturn\n\t}\n", ""}}, Expect: "C04.R5"},
			{Name: "remainder computed when the fixed weights exceed 100%", File: "route/route.go", Old: "\tdynamic := (1 - sumFixed) / float64(len(r.Targets)-nFixed)\n\tif dynamic < 0 {\n\t\tdynamic = 0\n\t}\n", New: "\tdynamic := 0.0\n\tif sumFixed > 1 {\n\t\tdynamic = (1 - sumFixed) / float64(len(r.Targets)-nFixed)\n\t}\n", Expect: "C04.R6"},
			{Name: "remainder helper without the clamp", File: "route/route.go", Old: "\tdynamic := (1 - sumFixed) / float64(len(r.Targets)-nFixed)\n\tif dynamic < 0 {\n\t\tdynamic = 0\n\t}\n", New: "\tdynamic := remainder(sumFixed, len(r.Targets)-nFixed)\n", More: []repl{{"type byN []struct{ i, n int }", "func remainder(sumFixed float64, n int) float64 {\n\td := (1 - sumFixed) / float64(n)\n\treturn d\n}\n\ntype byN []struct{ i, n int }"}}, Expect: "C04.R6"},
			{Name: "finite(f) helper forgets the infinities", File: "route/parse_new.go", Old: "if err != nil || math.IsNaN(f) || math.IsInf(f, 0) {", New: "if err != nil || !finite(f) {", More: []repl{{"func parseTags(s string) []string {", "func finite(f float64) bool { return !math.IsNaN(f) }\n\nfunc parseTags(s string) []string {"}}, Expect: "C04.R5"},
		},
	})
}

func runC04(c *Ctx) {
	b := c04cachedBuilder(c)
	if b == nil {
		c.undecided("C04.R1", "anchor|ring builder", "no function of package route whose region contains every store to Target.Weight and Route.wTargets and changes neither Route.Targets nor Target.FixedWeight (nor one that assigns every Target.Weight, changes no input and whose []*Target result is all that is stored in the ring field outside its region): the ring builder does not resolve")
	} else {
		runC04R1(c, b)
		runC04R4(c, b)
	}
	runC04Pickers(c, "C04.R2", "C04.R3")
	runC04R5(c)
	runC04R6(c)
}

// isRingMutation: a store to Route.Targets (the field, or an element of the slice it holds) or Target.FixedWeight.
func isRingMutation(i ssa.Instruction) (string, bool) {
	st, ok := i.(*ssa.Store)
	if !ok {
		return "", false
	}
	if _, ok := fieldOf(st.Addr, "route.Route", "Targets"); ok {
		return "Route.Targets", true
	}
	if ia, ok := st.Addr.(*ssa.IndexAddr); ok {
		if _, ok := fieldOf(ia.X, "route.Route", "Targets"); ok {
			return "Route.Targets", true
		}
	}
	if fa, ok := st.Addr.(*ssa.FieldAddr); ok {
		if _, isAlloc := fa.X.(*ssa.Alloc); isAlloc {
			return "", false // initialisation of a new Target literal
		}
	}
	if _, ok := fieldOf(st.Addr, "route.Target", "FixedWeight"); ok {
		return "Target.FixedWeight", true
	}
	return "", false
}

// c04point is a place where the inputs of the ring change: the store itself, or - one level up - the call of the
// helper / closure that performs it without rebuilding the ring itself.
type c04point struct {
	at     ssa.Instruction
	what   string
	count  *ssa.Function   // the callee reports the number of changes it made through its result
	origin ssa.Instruction // the store this obligation started from
	exit   ssa.Instruction // the first exit of the origin's function that is reached without a rebuild
}

// runC04R1: after every change of Route.Targets / Target.FixedWeight the ring is rebuilt before control returns to
// code that can run a lookup. The rebuild is a call of the ring builder (resolved by role), directly, through a
// helper that performs it on all of its paths, or deferred. A helper or closure that only performs the change hands
// the obligation to its (static) call sites. The only accepted skip is the count-guarded one.
func runC04R1(c *Ctx, b *c04builder) {
	isRebuild := func(i ssa.Instruction) bool {
		if c04rebuildCall(b, i) {
			return true
		}
		if _, isGo := i.(*ssa.Go); isGo {
			return false
		}
		cc := callCommon(i)
		if cc == nil {
			return false
		}
		sc := cc.StaticCallee()
		if sc == nil || !isRepoFn(sc) || b.full[unwrap(sc)] {
			return false
		}
		return mustExec(unwrap(sc), func(j ssa.Instruction) bool { return c04rebuildCall(b, j) }, 1)
	}
	pending := map[*ssa.Function][]c04point{}
	var order []*ssa.Function
	queued := map[[2]ssa.Instruction]bool{}
	add := func(f *ssa.Function, p c04point) {
		if queued[[2]ssa.Instruction{p.at, p.origin}] {
			return
		}
		queued[[2]ssa.Instruction{p.at, p.origin}] = true
		if _, ok := pending[f]; !ok {
			order = append(order, f)
		}
		pending[f] = append(pending[f], p)
	}
	violated := map[ssa.Instruction]bool{}
	nTargets, nFixed := 0, 0
	for _, f := range c.AllFns {
		if b.in[f] || b.in[c04outer(f)] {
			continue
		}
		ff := f
		eachInstr(f, func(i ssa.Instruction) {
			if w, ok := isRingMutation(i); ok {
				add(ff, c04point{at: i, what: w, origin: i})
				if w == "Route.Targets" {
					nTargets++
				} else {
					nFixed++
				}
			}
		})
	}
	for round := 0; round < 4 && len(order) > 0; round++ {
		cur, pts := order, pending
		order, pending = nil, map[*ssa.Function][]c04point{}
		for _, f := range cur {
			sites, sitesKnown := c04callersOf(c, f)
			counting := false
			if sitesKnown {
				var ats []ssa.Instruction
				for _, p := range pts[f] {
					ats = append(ats, p.at)
				}
				counting = c04countsChanges(f, ats)
			}
			for _, p := range pts[f] {
				var counts []ssa.Value
				if p.count != nil {
					eachInstr(f, func(i ssa.Instruction) {
						call, ok := i.(*ssa.Call)
						if !ok {
							return
						}
						if sc := call.Call.StaticCallee(); sc != nil && unwrap(sc) == p.count {
							counts = append(counts, call)
						} else if sc == nil {
							for _, h := range funcsOf(call.Call.Value) {
								if h == p.count {
									counts = append(counts, call)
								}
							}
						}
					})
				}
				key := fnKey(c04outer(p.origin.Parent())) + "|" + p.what + " changed => ring rebuilt before return"
				ret, open := c04openExit(p.at, isRebuild, counts)
				if !open {
					c.check("C04.R1", key, p.origin.Pos(), true, "")
					continue
				}
				if p.exit == nil {
					p.exit = ret
				}
				if sitesKnown && round < 3 {
					for _, s := range sites {
						q := c04point{at: s, what: p.what, origin: p.origin, exit: p.exit}
						if counting {
							q.count = f
						}
						add(s.Parent(), q)
					}
					continue
				}
				detail := "after changing " + p.what + " the function can return without rebuilding the weighted ring (" + fnKey(b.entry) + "): the pickers keep using the stale ring, so weights and removed targets are not honoured"
				if len(b.hands) > 0 {
					detail += "; the builder hands the ring back to its caller: a call of it rebuilds the ring only when it is given the route's target list (read from Route.Targets, or the value just stored there) and its result is stored in the ring field of the route on every path to the return"
				}
				if p.count != nil || f.Parent() != nil {
					detail += "; the only accepted skip is on the edge where the code that made the change reported that it changed nothing (count == 0)"
				}
				if violated[p.origin] {
					continue
				}
				violated[p.origin] = true
				if p.at != p.origin {
					detail += " (nor does any caller up to " + fnKey(f) + " rebuild it after the call)"
				}
				c.check("C04.R1", key, p.exit.Pos(), false, detail)
			}
		}
	}
	c.atLeast("C04.R1", "stores to Route.Targets", nTargets, 1)
	c.atLeast("C04.R1", "stores to Target.FixedWeight of an existing target", nFixed, 1)
}

func c04outer(f *ssa.Function) *ssa.Function {
	for f != nil && f.Parent() != nil {
		f = f.Parent()
	}
	return f
}

// c04callersOf: the places where f runs, when all of them are visible: f is a closure or an unexported function that
// cannot be reached through an interface, and every use of it is a synchronous call in its package - a static call,
// a call of a value that denotes it (a closure or method value held in a local), or a call it is handed to as an
// argument. A use as a goroutine, or a value that escapes (stored, returned), makes the callers unknown.
func c04callersOf(c *Ctx, f *ssa.Function) ([]ssa.Instruction, bool) {
	if f.Parent() == nil {
		if token.IsExported(f.Name()) || isInitFn(f) || f.Name() == "main" {
			return nil, false
		}
		if f.Signature.Recv() != nil && gInvoked[f.Name()] {
			return nil, false
		}
	}
	denotes := func(v ssa.Value) bool {
		switch v.(type) {
		case *ssa.Function, *ssa.MakeClosure, *ssa.Phi, *ssa.UnOp, *ssa.ChangeType:
		default:
			return false
		}
		for _, h := range funcsOf(v) {
			if h == f {
				return true
			}
		}
		return false
	}
	var out []ssa.Instruction
	known := true
	home := rootPkg(f)
	for _, g := range c.AllFns {
		if rootPkg(g) != home {
			continue
		}
		eachInstr(g, func(i ssa.Instruction) {
			if cc := callCommon(i); cc != nil && !cc.IsInvoke() {
				hit := false
				if sc := cc.StaticCallee(); sc != nil {
					hit = unwrap(sc) == f
				} else {
					hit = denotes(cc.Value)
				}
				for _, a := range cc.Args {
					if !hit && denotes(a) {
						hit = true
					}
				}
				if hit {
					if _, isGo := i.(*ssa.Go); isGo {
						known = false
					} else if i.Parent() != f {
						out = append(out, i)
					}
					return
				}
			}
			// the function value itself: a closure or bound method made here must only be called or passed on
			if mc, ok := i.(*ssa.MakeClosure); ok {
				if fn, ok := mc.Fn.(*ssa.Function); ok && unwrap(fn) == f {
					for _, r := range *mc.Referrers() {
						switch x := r.(type) {
						case *ssa.DebugRef:
						case ssa.CallInstruction:
						case *ssa.Store:
							if _, local := x.Addr.(*ssa.Alloc); !local {
								known = false
							}
						default:
							known = false
						}
					}
				}
				return
			}
			for _, op := range i.Operands(nil) {
				if op == nil || *op == nil {
					continue
				}
				if fn, ok := (*op).(*ssa.Function); ok && unwrap(fn) == f {
					known = false // stored, returned, sent ...
				}
			}
		})
	}
	return out, known && len(out) > 0
}

// c04countsChanges: f returns an integer that is incremented whenever one of the change points executes (the
// increment is in the block of the change or dominates it).
func c04countsChanges(f *ssa.Function, points []ssa.Instruction) bool {
	if f.Signature.Results().Len() != 1 || !c04isInt(f.Signature.Results().At(0).Type()) {
		return false
	}
	var rets []ssa.Value
	eachInstr(f, func(i ssa.Instruction) {
		if r, ok := i.(*ssa.Return); ok {
			rets = append(rets, r.Results[0])
		}
	})
	var incs []*ssa.BinOp
	eachInstr(f, func(i ssa.Instruction) {
		bo, ok := i.(*ssa.BinOp)
		if !ok || bo.Op != token.ADD {
			return
		}
		k, isK := constInt(bo.Y)
		if !isK {
			k, isK = constInt(bo.X)
		}
		if !isK || k < 1 {
			return
		}
		for _, r := range rets {
			if derives(r, func(v ssa.Value) bool { return v == bo }) {
				incs = append(incs, bo)
				return
			}
		}
	})
	for _, m := range points {
		found := false
		for _, bo := range incs {
			if bo.Block() == m.Block() || bo.Block().Dominates(m.Block()) {
				found = true
			}
		}
		if !found {
			return false
		}
	}
	return len(rets) > 0 && len(points) > 0
}

// c04openExit: is there a path from `from` to a return of its function on which the ring is not rebuilt? A rebuild
// deferred before `from` covers every exit. Edges on which one of counts (results of the call that made the change)
// is known to be zero are not followed: nothing was changed there.
func c04openExit(from ssa.Instruction, isRebuild func(ssa.Instruction) bool, counts []ssa.Value) (ssa.Instruction, bool) {
	fn := from.Parent()
	covered := false
	eachInstr(fn, func(i ssa.Instruction) {
		if d, ok := i.(*ssa.Defer); ok && isRebuild(d) && dominatesInstr(d, from) {
			covered = true
		}
	})
	if covered {
		return nil, false
	}
	isCount := func(v ssa.Value) bool {
		for _, s := range counts {
			if v == s {
				return true
			}
		}
		return false
	}
	zeroEdge := func(b, s *ssa.BasicBlock) bool {
		if len(counts) == 0 || len(b.Succs) != 2 || b.Succs[0] == b.Succs[1] {
			return false
		}
		fs := c04edgeFacts(b, s)
		if len(fs) == 0 {
			return false
		}
		return c04isZeroFact(fs[len(fs)-1], isCount)
	}
	type item struct {
		b   *ssa.BasicBlock
		idx int
	}
	seen := map[*ssa.BasicBlock]bool{}
	stack := []item{{from.Block(), instrIndex(from) + 1}}
	for len(stack) > 0 {
		it := stack[len(stack)-1]
		stack = stack[:len(stack)-1]
		blocked := false
		for k := it.idx; k < len(it.b.Instrs); k++ {
			in := it.b.Instrs[k]
			if isRebuild(in) {
				blocked = true
				break
			}
			if r, ok := in.(*ssa.Return); ok {
				return r, true
			}
		}
		if blocked {
			continue
		}
		for _, s := range it.b.Succs {
			if seen[s] || zeroEdge(it.b, s) {
				continue
			}
			seen[s] = true
			stack = append(stack, item{s, 0})
		}
	}
	return nil, false
}
