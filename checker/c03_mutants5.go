package main

// Overlay mutants of hardening round 3 of C03: the refactoring kinds that made the rules fire in benign round 4
// (constructor loop over an iterator, higher-order walk over the table's keys, request host carried in a struct) in
// spellings that are NOT in the corpus, each with breaking twins that the rewritten rules must still report.

var c03MutantsMore5 = func() []mutant {
	const f = "route/table.go"
	const (
		imports       = "\t\"net/url\"\n\t\"sort\"\n"
		importsSlices = "\t\"net/url\"\n\t\"slices\"\n\t\"sort\"\n"
		loopHead      = "\tfor _, d := range defs {\n\t\tswitch d.Cmd {\n"
		loopHeadIter  = "\tfor d := range slices.Values(defs) {\n\t\tswitch d.Cmd {\n"
		sortAll       = "\t// Sort the route table for each hostname\n\tfor _, h := range t {\n\t\tsort.Sort(h)\n\t}\n\n\treturn t, nil\n}\n\nfunc NewTableCustom("
		makeTable     = "\tt = make(Table)\n\tfor _, d := range defs {\n"
	)
	// a visitor over the keys: the callback gets the raw key and its normalised form
	const visitor = `func (t Table) eachHostKey(tls bool, visit func(key, normpat string)) {
	for key := range t {
		visit(key, normalizeHost(key, tls))
	}
}

`
	visitMatchers := func(globTest, plainTest string) []repl {
		return []repl{
			{c03srcMatchingHostNoGlob, `func (t Table) matchingHostNoGlob(req *http.Request) (hosts []string) {
	host := normalizeHost(req.Host, req.TLS != nil)
	t.eachHostKey(req.TLS != nil, func(key, normpat string) {
		if ` + plainTest + ` {
			hosts = append(hosts, strings.ToLower(key))
		}
	})
	hosts = sortHostsReverseHostPort(hosts)
	return
}
`},
			{"// Issue 548 - Added separate func\n", visitor + "// Issue 548 - Added separate func\n"},
		}
	}
	visitGlob := func(pre string) string {
		return `func (t Table) matchingHosts(req *http.Request, globCache *GlobCache) (hosts []string) {
	host := normalizeHost(req.Host, req.TLS != nil)
	t.eachHostKey(req.TLS != nil, func(key, normpat string) {
` + pre + `		g, err := globCache.Get(normpat)
		if err != nil {
			log.Print("[ERROR] Compiling glob - ", err)
			return
		}
		if g.Match(host) {
			hosts = append(hosts, key)
		}
	})
	hosts = sortHostsReverseHostPort(hosts)
	return
}
`
	}
	// the request host in a struct handled through a pointer, the comparison in a method of it
	const queryType = `type hostQuery struct {
	host string
	tls  bool
}

func newHostQuery(req *http.Request) *hostQuery {
	q := &hostQuery{tls: req.TLS != nil}
	q.host = NORMALISE(req.Host, q.tls)
	return q
}

func (q *hostQuery) is(pattern string) bool { return normalizeHost(pattern, q.tls) == q.host }

`
	queryNoGlob := `func (t Table) matchingHostNoGlob(req *http.Request) (hosts []string) {
	q := newHostQuery(req)
	for pattern := range t {
		if q.is(pattern) {
			hosts = append(hosts, strings.ToLower(pattern))
		}
	}
	hosts = sortHostsReverseHostPort(hosts)
	return
}
`
	queryNoGlobValue := `func (t Table) keysWhere(keep func(string) bool) (keys []string) {
	for key := range t {
		if keep(key) {
			keys = append(keys, key)
		}
	}
	return keys
}

func (t Table) matchingHostNoGlob(req *http.Request) (hosts []string) {
	for _, key := range t.keysWhere(newHostQuery(req).is) {
		hosts = append(hosts, strings.ToLower(key))
	}
	hosts = sortHostsReverseHostPort(hosts)
	return
}
`
	repl1 := func(s, old, new string) string {
		out := ""
		for i := 0; i+len(old) <= len(s); i++ {
			if s[i:i+len(old)] == old {
				out = s[:i] + new + s[i+len(old):]
				break
			}
		}
		return out
	}
	return []mutant{
		// ---- O1: the command loop of a constructor ranges over an iterator (range-over-func) -------------------------
		{Name: "benign: NewTable ranges over slices.Values(defs), named results kept (return nil, err inside the iterator body)", File: f,
			Old: loopHead, New: loopHeadIter, More: []repl{{imports, importsSlices}}, Expect: ""},
		{Name: "NewTable ranges over slices.Values(defs) and sorts the hosts BEFORE the commands are applied", File: f,
			Old: makeTable, New: "\tt = make(Table)\n\tfor _, h := range t {\n\t\tsort.Sort(h)\n\t}\n\tfor d := range slices.Values(defs) {\n",
			More:   []repl{{imports, importsSlices}, {sortAll, "\treturn t, nil\n}\n\nfunc NewTableCustom("}},
			Expect: "C03.O1"},
		{Name: "NewTable ranges over slices.Values(defs) and hands out the half-built, unsorted table with the error", File: f,
			Old: loopHead, New: loopHeadIter,
			More:   []repl{{imports, importsSlices}, {"\t\tif err != nil {\n\t\t\treturn nil, err\n\t\t}\n\t}\n\n\t// Sort the route table for each hostname\n\tfor _, h := range t {\n\t\tsort.Sort(h)\n\t}\n\n\treturn t, nil\n}\n\nfunc NewTableCustom(", "\t\tif err != nil {\n\t\t\treturn t, err\n\t\t}\n\t}\n\n\t// Sort the route table for each hostname\n\tfor _, h := range t {\n\t\tsort.Sort(h)\n\t}\n\n\treturn t, nil\n}\n\nfunc NewTableCustom("}},
			Expect: "C03.O1"},
		{Name: "benign: NewTable clears its named result in a deferred function when a command failed", File: f,
			Old: makeTable, New: "\tt = make(Table)\n\tdefer func() {\n\t\tif err != nil {\n\t\t\tt = nil\n\t\t}\n\t}()\n\tfor _, d := range defs {\n",
			More:   []repl{{"\t\t\terr = fmt.Errorf(\"route: invalid command: %s\", d.Cmd)\n\t\t}\n\t\tif err != nil {\n\t\t\treturn nil, err\n\t\t}\n\t}\n\n\t// Sort the route table for each hostname\n\tfor _, h := range t {\n\t\tsort.Sort(h)\n\t}\n\n\treturn t, nil\n}\n\nfunc NewTableCustom(", "\t\t\terr = fmt.Errorf(\"route: invalid command: %s\", d.Cmd)\n\t\t}\n\t\tif err != nil {\n\t\t\treturn\n\t\t}\n\t}\n\n\t// Sort the route table for each hostname\n\tfor _, h := range t {\n\t\tsort.Sort(h)\n\t}\n\n\treturn t, nil\n}\n\nfunc NewTableCustom("}},
			Expect: ""},

		{Name: "benign: NewTable sorts the hosts in a range over maps.Values(t)", File: f,
			Old: sortAll, New: "\tfor h := range maps.Values(t) {\n\t\tsort.Sort(h)\n\t}\n\n\treturn t, nil\n}\n\nfunc NewTableCustom(",
			More: []repl{{"\t\"log\"\n", "\t\"log\"\n\t\"maps\"\n"}}, Expect: ""},
		{Name: "NewTable sorts in a range over maps.Values(t), but only hosts with more than eight routes", File: f,
			Old: sortAll, New: "\tfor h := range maps.Values(t) {\n\t\tif len(h) > 8 {\n\t\t\tsort.Sort(h)\n\t\t}\n\t}\n\n\treturn t, nil\n}\n\nfunc NewTableCustom(",
			More: []repl{{"\t\"log\"\n", "\t\"log\"\n\t\"maps\"\n"}}, Expect: "C03.O1"},
		{Name: "deferred function clears the named result only when the table is still empty: a failed command hands out a half-built table", File: f,
			Old: makeTable, New: "\tt = make(Table)\n\tdefer func() {\n\t\tif err != nil && len(t) == 0 {\n\t\t\tt = nil\n\t\t}\n\t}()\n\tfor _, d := range defs {\n",
			More:   []repl{{"\t\t\terr = fmt.Errorf(\"route: invalid command: %s\", d.Cmd)\n\t\t}\n\t\tif err != nil {\n\t\t\treturn nil, err\n\t\t}\n\t}\n\n\t// Sort the route table for each hostname\n\tfor _, h := range t {\n\t\tsort.Sort(h)\n\t}\n\n\treturn t, nil\n}\n\nfunc NewTableCustom(", "\t\t\terr = fmt.Errorf(\"route: invalid command: %s\", d.Cmd)\n\t\t}\n\t\tif err != nil {\n\t\t\treturn\n\t\t}\n\t}\n\n\t// Sort the route table for each hostname\n\tfor _, h := range t {\n\t\tsort.Sort(h)\n\t}\n\n\treturn t, nil\n}\n\nfunc NewTableCustom("}},
			Expect: "C03.O1"},

		// ---- round-4 residual items: plainness test in a predicate helper (G1), memo emptied by a helper (M1) ---------
		{Name: "benign: plain-name fast path whose test is a predicate helper ruling out every glob meta character", File: f,
			Old: c03m4BeforeGlob, New: c03m4FastPath("isPlainHost(normpat)"),
			More:   []repl{{c03m4HelperAnchor, "func isPlainHost(s string) bool {\n\treturn !strings.ContainsAny(s, \"*?[{\")\n}\n\n" + c03m4HelperAnchor}},
			Expect: ""},
		{Name: "plain-name fast path whose predicate helper only looks for * and ?", File: f,
			Old: c03m4BeforeGlob, New: c03m4FastPath("isPlainHost(normpat)"),
			More:   []repl{{c03m4HelperAnchor, "func isPlainHost(s string) bool {\n\treturn !strings.ContainsAny(s, \"*?\")\n}\n\n" + c03m4HelperAnchor}},
			Expect: "C03.G1"},
		{Name: "benign: memo keyed by host and TLS, emptied by a helper called before the new table is published", File: f,
			Old: c03m4LookupGlob, New: c03m4Memo("hostListKey{normalizeHost(req.Host, req.TLS != nil), req.TLS != nil}"),
			More: []repl{{c03m4TableVar, c03m4TableVar + "\ntype hostListKey struct {\n\thost string\n\ttls  bool\n}\n\nvar hostLists sync.Map\n\nfunc dropHostLists() {\n\thostLists.Clear()\n}\n"}, {c03m4Imports, c03m4ImportSync},
				{"\t\treturn\n\t}\n\ttable.Store(t)\n}\n", "\t\treturn\n\t}\n\tdropHostLists()\n\ttable.Store(t)\n}\n"}},
			Expect: ""},
		{Name: "memo keyed by host and TLS, the helper called before publication empties it only for an empty table", File: f,
			Old: c03m4LookupGlob, New: c03m4Memo("hostListKey{normalizeHost(req.Host, req.TLS != nil), req.TLS != nil}"),
			More: []repl{{c03m4TableVar, c03m4TableVar + "\ntype hostListKey struct {\n\thost string\n\ttls  bool\n}\n\nvar hostLists sync.Map\n\nfunc dropHostLists(n int) {\n\tif n == 0 {\n\t\thostLists.Clear()\n\t}\n}\n"}, {c03m4Imports, c03m4ImportSync},
				{"\t\treturn\n\t}\n\ttable.Store(t)\n}\n", "\t\treturn\n\t}\n\tdropHostLists(len(t))\n\ttable.Store(t)\n}\n"}},
			Expect: "C03.M1"},

		// ---- the walk over the keys is a visitor with a callback (N1, L1, G1 sites live in closures) ------------------
		{Name: "benign: both host matchers use a visitor over the keys (callback gets key and normalised key, appends itself)", File: f,
			Old: c03srcMatchingHosts, New: visitGlob(""), More: visitMatchers("", "normpat == host"), Expect: ""},
		{Name: "visitor over the keys: the no-glob callback compares the raw key with the normalised request host", File: f,
			Old: c03srcMatchingHosts, New: visitGlob(""), More: visitMatchers("", "key == host"), Expect: "C03.N1"},
		{Name: "visitor over the keys: the glob callback has a plain-name fast path for patterns without * and ?", File: f,
			Old: c03srcMatchingHosts, New: visitGlob("\t\tif !strings.ContainsAny(normpat, \"*?\") {\n\t\t\tif normpat == host {\n\t\t\t\thosts = append(hosts, key)\n\t\t\t}\n\t\t\treturn\n\t\t}\n"),
			More: visitMatchers("", "normpat == host"), Expect: "C03.G1"},
		{Name: "visitor over the keys gives up after 64 keys", File: f,
			Old: c03srcMatchingHosts, New: visitGlob(""),
			More:   append(visitMatchers("", "normpat == host")[:1:1], repl{"// Issue 548 - Added separate func\n", repl1(visitor, "\tfor key := range t {\n", "\tn := 0\n\tfor key := range t {\n\t\tif n++; n > 64 {\n\t\t\tbreak\n\t\t}\n") + "// Issue 548 - Added separate func\n"}),
			Expect: "C03.L1"},

		// ---- the request host travels in a struct behind a pointer, the comparison is a method ------------------------
		{Name: "benign: request host and TLS flag in a *hostQuery built by a constructor, comparison in its method", File: f,
			Old: c03srcMatchingHostNoGlob, New: repl1(queryType, "NORMALISE", "normalizeHost") + queryNoGlob, Expect: ""},
		{Name: "benign: the bound method value q.is is handed to a filter over the table's keys", File: f,
			Old: c03srcMatchingHostNoGlob, New: repl1(queryType, "NORMALISE", "normalizeHost") + queryNoGlobValue, Expect: ""},
		{Name: "bound method value handed to a filter over the keys; the method compares the raw key", File: f,
			Old: c03srcMatchingHostNoGlob, New: repl1(repl1(queryType, "NORMALISE", "normalizeHost"), "return normalizeHost(pattern, q.tls) == q.host", "return pattern == q.host") + queryNoGlobValue, Expect: "C03.N1"},
		{Name: "*hostQuery constructor stores the request host without lower-casing it", File: f,
			Old: c03srcMatchingHostNoGlob, New: repl1(queryType, "NORMALISE", "normalizeHostNoLower") + queryNoGlob, Expect: "C03.N1"},
	}
}()
