package main

// C13.C1: interval analysis of Target.RedirectCode wherever it is written. Variant of analyseFieldIntervals
// (intervals.go, shared) that (a) evaluates the stored VALUE interprocedurally (a helper that parses the option and
// returns the code: the union of what its returns can yield under the branch conditions that hold there), (b) follows
// a value through a local variable (phi) with the condition of each incoming edge, and (c) is run for every function
// that writes the field, whatever its name, with the inductive hypothesis that targets it did not create itself
// already satisfy the invariant.

import (
	"go/token"
	"go/types"
	"math"
	"strings"

	"golang.org/x/tools/go/ssa"
)

var c13want = iset{{0, 0}, {300, 399}}

type c13ivals struct {
	flows map[ssa.Value]*c13vflow
	depth int
}

// c13vflow: interval of one immutable SSA value at every block (and on every edge) reachable from its definition,
// refined by the branch conditions that mention it.
type c13vflow struct {
	in   map[*ssa.BasicBlock]iset
	edge map[[2]*ssa.BasicBlock]iset
}

func c13isInt(t types.Type) bool {
	b, ok := t.Underlying().(*types.Basic)
	return ok && b.Info()&types.IsInteger != 0
}

// base: what v can be, ignoring branch conditions on v itself.
func (iv *c13ivals) base(v ssa.Value) iset {
	if iv.depth > 6 {
		return top
	}
	iv.depth++
	defer func() { iv.depth-- }()
	switch x := v.(type) {
	case *ssa.Const:
		if n, ok := constInt(x); ok {
			return iset{{n, n}}
		}
	case *ssa.Phi:
		var out iset
		for k, e := range x.Edges {
			if e == v {
				continue
			}
			out = out.union(iv.at(e, x.Block(), x.Block().Preds[k]))
		}
		return out
	case *ssa.Convert:
		if c13isInt(x.X.Type()) && c13isInt(x.Type()) {
			r := iv.base(x.X)
			if r.subsetOf(iset{{math.MinInt32, math.MaxInt32}}) {
				if b, ok := x.Type().Underlying().(*types.Basic); ok && b.Info()&types.IsUnsigned == 0 && b.Kind() != types.Int8 && b.Kind() != types.Int16 {
					return r
				}
			}
		}
	case *ssa.ChangeType:
		return iv.base(x.X)
	case *ssa.UnOp:
		if x.Op == token.MUL {
			// a copy of another target's code satisfies the invariant by induction
			if _, ok := fieldOf(x, "route.Target", "RedirectCode"); ok {
				return c13want
			}
			// a local cell: everything stored into it
			if a, ok := x.X.(*ssa.Alloc); ok {
				var out iset
				n := 0
				for _, r := range *a.Referrers() {
					switch y := r.(type) {
					case *ssa.Store:
						if y.Addr == a {
							out = out.union(iv.at(y.Val, y.Block(), nil))
							n++
						}
					case *ssa.UnOp, *ssa.DebugRef:
					default:
						return top
					}
				}
				if n > 0 {
					return out
				}
			}
		}
	case *ssa.Field:
		if _, ok := fieldOf(x, "route.Target", "RedirectCode"); ok {
			return c13want
		}
	case *ssa.Call:
		return iv.callResult(x, 0)
	case *ssa.Extract:
		if call, ok := x.Tuple.(*ssa.Call); ok {
			return iv.callResult(call, x.Index)
		}
	}
	return top
}

// callResult: the idx-th result of a static call of a repository function = union over its returns.
func (iv *c13ivals) callResult(call *ssa.Call, idx int) iset {
	sc := call.Call.StaticCallee()
	if sc == nil || !isRepoFn(sc) || len(sc.Blocks) == 0 {
		return top
	}
	var out iset
	n := 0
	eachInstr(sc, func(i ssa.Instruction) {
		if r, ok := i.(*ssa.Return); ok && idx < len(r.Results) {
			out = out.union(iv.at(r.Results[idx], r.Block(), nil))
			n++
		}
	})
	if n == 0 {
		return top
	}
	return out
}

// at: interval of v when control is at the start of block b, or on the edge via -> b when via != nil.
func (iv *c13ivals) at(v ssa.Value, b, via *ssa.BasicBlock) iset {
	switch x := v.(type) {
	case *ssa.Const:
		return iv.base(v)
	case *ssa.ChangeType:
		return iv.at(x.X, b, via)
	case *ssa.Convert:
		// an integer conversion keeps a value that fits 32 bits: what is known about the operand here carries over
		if c13isInt(x.X.Type()) && c13isInt(x.Type()) && iv.depth < 6 {
			if bt, ok := x.Type().Underlying().(*types.Basic); ok && bt.Info()&types.IsUnsigned == 0 && bt.Kind() != types.Int8 && bt.Kind() != types.Int16 {
				iv.depth++
				r := iv.at(x.X, b, via)
				iv.depth--
				if r.subsetOf(iset{{math.MinInt32, math.MaxInt32}}) {
					return r
				}
			}
		}
	}
	r := iv.atFlow(v, b, via)
	if ex, ok := v.(*ssa.Extract); ok && iv.depth < 6 {
		// one result of a helper with several: what is known here about its other results (`err == nil`, `ok`) selects
		// the returns it can have come from
		iv.depth++
		r = c13isect(r, iv.siblings(ex, b, via))
		iv.depth--
	}
	return r
}

func (iv *c13ivals) atFlow(v ssa.Value, b, via *ssa.BasicBlock) iset {
	fl := iv.flow(v)
	if fl == nil {
		return iv.base(v)
	}
	if via != nil {
		if r, ok := fl.edge[[2]*ssa.BasicBlock{via, b}]; ok {
			return r
		}
		if r, ok := fl.in[via]; ok {
			return r
		}
	}
	if r, ok := fl.in[b]; ok {
		return r
	}
	return iv.base(v)
}

func c13isect(a, b iset) iset {
	var out iset
	for _, x := range b {
		out = out.union(a.meet(x.lo, x.hi))
	}
	return out
}

// siblings: the values result ex of a multi-result repository helper can have, given what block b (or the edge
// via -> b) knows about the OTHER results of the same call: only the returns whose other results can satisfy those
// facts count (`code, err := parse(s); if err == nil { t.RedirectCode = code }` - the returns that hand back a nil error).
func (iv *c13ivals) siblings(ex *ssa.Extract, b, via *ssa.BasicBlock) iset {
	call, ok := ex.Tuple.(*ssa.Call)
	if !ok || b == nil {
		return top
	}
	sc := call.Call.StaticCallee()
	if sc == nil || !isRepoFn(sc) || len(sc.Blocks) == 0 {
		return top
	}
	var facts []Fact
	if via != nil {
		facts = c13edgeFacts(via, b)
	} else {
		facts = c13factsAt(b)
	}
	type want struct {
		idx     int
		verdict func(c13cls) int
		truth   bool
	}
	var wants []want
	sibling := func(v ssa.Value) (int, bool) {
		e2, ok := v.(*ssa.Extract)
		if ok && e2.Tuple == ex.Tuple && e2.Index != ex.Index {
			return e2.Index, true
		}
		return 0, false
	}
	for _, f := range facts {
		if idx, ok := sibling(f.Cond); ok {
			wants = append(wants, want{idx, c13boolVerdict, f.Truth})
			continue
		}
		bo, ok := f.Cond.(*ssa.BinOp)
		if !ok || (bo.Op != token.EQL && bo.Op != token.NEQ) {
			continue
		}
		for _, side := range [][2]ssa.Value{{bo.X, bo.Y}, {bo.Y, bo.X}} {
			if k, isK := side[1].(*ssa.Const); isK {
				if idx, ok := sibling(side[0]); ok {
					wants = append(wants, want{idx, c13eqVerdict(k), (bo.Op == token.EQL) == f.Truth})
				}
			}
		}
	}
	if len(wants) == 0 {
		return top
	}
	var out iset
	n := 0
	eachInstr(sc, func(i ssa.Instruction) {
		r, ok := i.(*ssa.Return)
		if !ok || r.Parent() != sc || ex.Index >= len(r.Results) {
			return
		}
		n++
		for _, w := range wants {
			if w.idx >= len(r.Results) {
				continue
			}
			res := r.Results[w.idx]
			var cls c13cls
			if typeStr(res.Type()) == "bool" {
				if k, isK := constBool(res); isK && k {
					cls = c13cls{kind: 1}
				} else if isK {
					cls = c13cls{kind: 2}
				}
			} else {
				cls = c13classify(res, c13factsAt(r.Block()))
			}
			if v := w.verdict(cls); v != 0 && (v > 0) != w.truth {
				return // this return cannot be the one the call came back from
			}
		}
		out = out.union(iv.at(r.Results[ex.Index], r.Block(), nil))
	})
	if n == 0 {
		return top
	}
	return out
}

func (iv *c13ivals) flow(v ssa.Value) *c13vflow {
	if iv.flows == nil {
		iv.flows = map[ssa.Value]*c13vflow{}
	}
	if fl, ok := iv.flows[v]; ok {
		return fl
	}
	iv.flows[v] = nil // recursion guard
	var start *ssa.BasicBlock
	switch x := v.(type) {
	case *ssa.Parameter:
		if x.Parent() != nil && len(x.Parent().Blocks) > 0 {
			start = x.Parent().Blocks[0]
		}
	case ssa.Instruction:
		start = x.Block()
	}
	if start == nil || !c13isInt(v.Type()) {
		return nil
	}
	base := iv.base(v)
	// values equal to v: v itself and integer conversions of it that keep the value
	alias := map[ssa.Value]bool{v: true}
	if refs := v.Referrers(); refs != nil {
		for _, r := range *refs {
			if cv, ok := r.(*ssa.Convert); ok && c13isInt(cv.Type()) {
				if b, ok := cv.Type().Underlying().(*types.Basic); ok && (b.Kind() == types.Int || b.Kind() == types.Int64) {
					alias[cv] = true
				}
			}
		}
	}
	fl := &c13vflow{in: map[*ssa.BasicBlock]iset{start: base}, edge: map[[2]*ssa.BasicBlock]iset{}}
	work := []*ssa.BasicBlock{start}
	visited := map[*ssa.BasicBlock]bool{}
	for iter := 0; len(work) > 0 && iter < 10000; iter++ {
		b := work[0]
		work = work[1:]
		visited[b] = true
		cur := fl.in[b]
		var iff *ssa.If
		if len(b.Instrs) > 0 {
			iff, _ = b.Instrs[len(b.Instrs)-1].(*ssa.If)
		}
		phi, neg := c13threaded(b)
		for k, s := range b.Succs {
			r := cur
			if iff != nil && len(b.Succs) == 2 && b.Succs[0] != b.Succs[1] {
				if phi != nil && b != start {
					// `a || b` evaluated as a value: the branch sees, per incoming edge, the operand that decided it
					r = nil
					for pi, p := range b.Preds {
						es, ok := fl.edge[[2]*ssa.BasicBlock{p, b}]
						if !ok {
							continue
						}
						r = r.union(c13refine(es, phi.Edges[pi], (k == 0) != neg, alias))
					}
				} else {
					r = c13refine(cur, iff.Cond, k == 0, alias)
				}
			}
			fl.edge[[2]*ssa.BasicBlock{b, s}] = r
			var nin iset
			for _, p := range s.Preds {
				if e, ok := fl.edge[[2]*ssa.BasicBlock{p, s}]; ok {
					nin = nin.union(e)
				}
			}
			if s == start {
				nin = nin.union(base)
			}
			if !visited[s] || !nin.eq(fl.in[s]) {
				fl.in[s] = nin
				work = append(work, s)
			}
		}
	}
	iv.flows[v] = fl
	return fl
}

// c13threaded: block b only merges a boolean (`x || y`, `x && y` evaluated as a value) and branches on it: returns
// the phi and whether the branch negates it.
func c13threaded(b *ssa.BasicBlock) (*ssa.Phi, bool) {
	if len(b.Instrs) == 0 || len(b.Preds) < 2 || !c13onlyPhisBeforeTerminator(b) {
		return nil, false
	}
	iff, ok := b.Instrs[len(b.Instrs)-1].(*ssa.If)
	if !ok {
		return nil, false
	}
	v, neg := iff.Cond, false
	for {
		u, isNot := v.(*ssa.UnOp)
		if !isNot || u.Op != token.NOT {
			break
		}
		v, neg = u.X, !neg
	}
	phi, isPhi := v.(*ssa.Phi)
	if !isPhi || phi.Block() != b {
		return nil, false
	}
	return phi, neg
}

// c13refine: refine() that also understands a constant condition (an operand of a merged boolean) and a merged
// boolean kept in a variable (`bad := err != nil || code < 300 || code > 399`): one case per incoming edge that can
// yield the outcome, refined by what is known on that edge.
func c13refine(cur iset, cond ssa.Value, truth bool, alias map[ssa.Value]bool) iset {
	return c13refineDepth(cur, cond, truth, alias, 0)
}

func c13refineDepth(cur iset, cond ssa.Value, truth bool, alias map[ssa.Value]bool, depth int) iset {
	for {
		u, ok := cond.(*ssa.UnOp)
		if !ok || u.Op != token.NOT {
			break
		}
		cond, truth = u.X, !truth
	}
	if k, ok := constBool(cond); ok {
		if k == truth {
			return cur
		}
		return nil
	}
	if phi, ok := cond.(*ssa.Phi); ok && depth < 3 && typeStr(phi.Type()) == "bool" {
		var out iset
		for k, e := range phi.Edges {
			if b, isK := constBool(e); isK && b != truth {
				continue
			}
			r := cur
			for _, f := range c13edgeFacts(phi.Block().Preds[k], phi.Block()) {
				r = c13refineDepth(r, f.Cond, f.Truth, alias, depth+1)
			}
			if _, isK := constBool(e); !isK {
				r = c13refineDepth(r, e, truth, alias, depth+1)
			}
			out = out.union(r)
		}
		return out
	}
	// `code/100 == 3`: the hundreds digit spelled as a division (x/d == q  <=>  q*d <= x <= q*d+d-1 for q >= 1)
	if bo, ok := cond.(*ssa.BinOp); ok && (bo.Op == token.EQL || bo.Op == token.NEQ) {
		quo, q := bo.X, bo.Y
		if _, isK := constInt(quo); isK {
			quo, q = bo.Y, bo.X
		}
		if dv, isQ := quo.(*ssa.BinOp); isQ && dv.Op == token.QUO && alias[dv.X] {
			d, okD := constInt(dv.Y)
			n, okN := constInt(q)
			if okD && okN && d >= 1 && n >= 1 && n < 1<<20 && d < 1<<20 {
				in := iset{{n * d, n*d + d - 1}}
				if (bo.Op == token.EQL) == truth {
					return c13isect(cur, in)
				}
				return c13minus(cur, in)
			}
		}
	}
	return refine(cur, cond, truth, alias)
}

// c13fieldFlow: forward analysis of field RedirectCode of the target designated by base in fn. init is the value at
// entry; isWriter tells which callees may themselves write the field of a target passed to them (after such a call the
// field is whatever the invariant allows: the callee is checked on its own).
func c13fieldFlow(fn *ssa.Function, base ssa.Value, init iset, iv *c13ivals, isWriter func(*ssa.Function) bool) *fieldIvals {
	isField := func(addr ssa.Value) bool {
		fa, ok := addr.(*ssa.FieldAddr)
		return ok && fa.X == base && fieldName(fa.X.Type(), fa.Field) == "RedirectCode"
	}
	res := &fieldIvals{in: map[*ssa.BasicBlock]iset{}, at: map[ssa.Instruction]iset{}}
	// alias: the SSA values known to equal the field's current value - the value last stored and every load of the
	// field since then. They are carried along the edges (a value counts at a merge when it does on every incoming
	// edge), so that `code := t.RedirectCode` loaded once and compared in several later blocks refines the field as
	// well as a fresh load in every comparison does.
	type edgeState struct {
		v     iset
		alias map[ssa.Value]bool
	}
	sameSet := func(a, b map[ssa.Value]bool) bool {
		if len(a) != len(b) {
			return false
		}
		for k := range a {
			if !b[k] {
				return false
			}
		}
		return true
	}
	inAlias := map[*ssa.BasicBlock]map[ssa.Value]bool{}
	out := map[*ssa.BasicBlock]map[*ssa.BasicBlock]edgeState{}
	work := []*ssa.BasicBlock{fn.Blocks[0]}
	res.in[fn.Blocks[0]] = init
	visited := map[*ssa.BasicBlock]bool{}
	for iter := 0; len(work) > 0 && iter < 10000; iter++ {
		b := work[0]
		work = work[1:]
		visited[b] = true
		cur := res.in[b]
		alias := map[ssa.Value]bool{}
		for k := range inAlias[b] {
			alias[k] = true
		}
		for _, in := range b.Instrs {
			res.at[in] = cur
			switch x := in.(type) {
			case *ssa.Store:
				if isField(x.Addr) {
					alias = map[ssa.Value]bool{x.Val: true}
					cur = iv.at(x.Val, b, nil)
				} else if x.Addr == base {
					// the whole struct is overwritten: a zero value / literal is 0, a copy of another target is in range by induction
					alias = map[ssa.Value]bool{}
					cur = c13want
				}
			case *ssa.UnOp:
				if x.Op == token.MUL && isField(x.X) {
					alias[x] = true
				}
			case *ssa.Call:
				if sc := x.Call.StaticCallee(); sc != nil && isWriter != nil && isWriter(unwrap(sc)) {
					for _, a := range x.Call.Args {
						if a == base {
							alias = map[ssa.Value]bool{}
							cur = cur.union(c13want)
						}
					}
				}
			}
		}
		var iff *ssa.If
		if len(b.Instrs) > 0 {
			iff, _ = b.Instrs[len(b.Instrs)-1].(*ssa.If)
		}
		phi, neg := c13threaded(b)
		for k, s := range b.Succs {
			v := cur
			if iff != nil && len(b.Succs) == 2 && b.Succs[0] != b.Succs[1] {
				if phi != nil {
					// the merged boolean is decided, per incoming edge, by a comparison made in that predecessor
					v = nil
					for pi, p := range b.Preds {
						if e, ok := out[p][b]; ok {
							v = v.union(c13refine(e.v, phi.Edges[pi], (k == 0) != neg, e.alias))
						}
					}
				} else {
					v = c13refine(cur, iff.Cond, k == 0, alias)
				}
			}
			if out[b] == nil {
				out[b] = map[*ssa.BasicBlock]edgeState{}
			}
			out[b][s] = edgeState{v, alias}
			var nin iset
			var nal map[ssa.Value]bool
			for _, p := range s.Preds {
				e, ok := out[p][s]
				if !ok {
					continue
				}
				nin = nin.union(e.v)
				if nal == nil {
					nal = map[ssa.Value]bool{}
					for a := range e.alias {
						nal[a] = true
					}
				} else {
					for a := range nal {
						if !e.alias[a] {
							delete(nal, a)
						}
					}
				}
			}
			if !visited[s] || !nin.eq(res.in[s]) || !sameSet(inAlias[s], nal) {
				res.in[s] = nin
				inAlias[s] = nal
				work = append(work, s)
			}
		}
	}
	return res
}

func runC13C1(c *Ctx) {
	// writers: every (function, target) pair with a store to Target.RedirectCode
	type wkey struct {
		fn   *ssa.Function
		base ssa.Value
	}
	var order []wkey
	stores := map[wkey][]*ssa.Store{}
	writerFns := map[*ssa.Function]bool{}
	for _, f := range c.AllFns {
		ff := f
		eachInstr(f, func(i ssa.Instruction) {
			st, ok := i.(*ssa.Store)
			if !ok {
				return
			}
			fa, ok := st.Addr.(*ssa.FieldAddr)
			if !ok || !namedIs(fa.X.Type(), "route.Target") || fieldName(fa.X.Type(), fa.Field) != "RedirectCode" {
				return
			}
			k := wkey{ff, fa.X}
			if stores[k] == nil {
				order = append(order, k)
			}
			stores[k] = append(stores[k], st)
			writerFns[ff] = true
		})
	}
	c.atLeast("C13.C1", "functions that store Target.RedirectCode", len(order), 1)
	iv := &c13ivals{}
	isWriter := func(f *ssa.Function) bool { return writerFns[f] }
	isParse := func(v ssa.Value) bool {
		call, ok := v.(*ssa.Call)
		return ok && strings.HasPrefix(calleeName(&call.Call), "strconv.")
	}
	parsed, nExit := false, 0
	for _, k := range order {
		for _, st := range stores[k] {
			if derives(st.Val, isParse) {
				parsed = true
			}
		}
		init := c13want // a target this function did not create: in range by induction
		if _, fresh := k.base.(*ssa.Alloc); fresh {
			init = iset{{0, 0}} // zero value of a fresh struct
		}
		fi := c13fieldFlow(k.fn, k.base, init, iv, isWriter)
		where := fnKey(k.fn)
		eachInstr(k.fn, func(i ssa.Instruction) {
			what := ""
			switch x := i.(type) {
			case *ssa.Store:
				if _, isT := fieldOf(x.Addr, "route.Route", "Targets"); isT {
					what = "RedirectCode range when the target joins the route"
				}
			case *ssa.Return:
				what = "RedirectCode range when the function returns"
			}
			if what == "" {
				return
			}
			v, reached := fi.at[i]
			if !reached {
				return
			}
			nExit++
			c.check("C13.C1", where+"|"+what, i.Pos(), v.subsetOf(c13want),
				"Target.RedirectCode must be 0 or in [300,399] on every path; it can be "+v.String()+" here (strconv.Atoi returns the clamped value together with a range error, e.g. redirect=99999999999999999999 leaves MaxInt64; http.Redirect/WriteHeader then panics on the invalid status inside the request handler)")
		})
	}
	c.atLeast("C13.C1", "exits of functions that store Target.RedirectCode", nExit, 1)
	// the field must actually be parsed from the option (vacuity): some stored value comes out of strconv
	pos := token.NoPos
	if len(order) > 0 {
		pos = order[0].fn.Pos()
	}
	c.check("C13.C1", "route|RedirectCode parsed from the redirect option", pos, parsed, "the redirect option is no longer parsed into Target.RedirectCode (no stored value derives from a strconv call)")
}
