package main

// C15.V3: enumerated options are validated raw against exactly the keys of the registries they index.

import (
	"go/token"
	"sort"
	"strings"

	"golang.org/x/tools/go/ssa"
)

// registryKeys: the constant keys of the package-level map pkg.name, whether it is initialised by a map literal or
// filled in an init function.
func registryKeys(c *Ctx, pkg, name string) []string {
	g := c.global(pkg, name)
	if g == nil {
		return nil
	}
	set := map[string]bool{}
	for _, f := range c.fnsWhere(pkg, func(f *ssa.Function) bool { return isInitFn(f) || (f.Parent() != nil && isInitFn(f.Parent())) }) {
		eachInstr(f, func(i ssa.Instruction) {
			mu, ok := i.(*ssa.MapUpdate)
			if !ok {
				return
			}
			k, isK := constString(mu.Key)
			if !isK {
				return
			}
			switch m := mu.Map.(type) {
			case *ssa.MakeMap:
				for _, r := range *m.Referrers() {
					if st, ok := r.(*ssa.Store); ok && st.Addr == g {
						set[k] = true
					}
				}
			case *ssa.UnOp:
				if m.Op == token.MUL && m.X == ssa.Value(g) {
					set[k] = true
				}
			}
		})
	}
	if init := c.spkg(pkg).Func("init"); init != nil {
		eachInstr(init, func(i ssa.Instruction) {
			mu, ok := i.(*ssa.MapUpdate)
			if !ok {
				return
			}
			if mm, ok := mu.Map.(*ssa.MakeMap); ok {
				for _, r := range *mm.Referrers() {
					if st, ok := r.(*ssa.Store); ok && st.Addr == g {
						if k, ok := constString(mu.Key); ok {
							set[k] = true
						}
					}
				}
			}
		})
	}
	var keys []string
	for k := range set {
		keys = append(keys, k)
	}
	sort.Strings(keys)
	return keys
}

// c15rawness classifies how v relates to the option: "raw" — it is the option's value itself, handed on unchanged
// (helper parameters, local variables, merges); "derived" — computed from it (ToLower, TrimSpace ...); "" — unrelated.
func c15rawness(v ssa.Value, isOpt func(ssa.Value) bool, depth int, seen map[ssa.Value]bool) string {
	if v == nil || depth > 8 || seen[v] {
		return ""
	}
	seen[v] = true
	if isOpt(v) {
		return "raw"
	}
	merge := func(vs []ssa.Value) string {
		out := ""
		for _, x := range vs {
			switch c15rawness(x, isOpt, depth+1, seen) {
			case "derived":
				return "derived"
			case "raw":
				out = "raw"
			}
		}
		return out
	}
	switch x := v.(type) {
	case *ssa.Phi:
		return merge(x.Edges)
	case *ssa.ChangeType:
		return c15rawness(x.X, isOpt, depth+1, seen)
	case *ssa.Parameter:
		fn := x.Parent()
		var args []ssa.Value
		for k, p := range fn.Params {
			if p == x {
				for _, s := range gSites[fn] {
					if k < len(s.Common().Args) {
						args = append(args, s.Common().Args[k])
					}
				}
			}
		}
		return merge(args)
	case *ssa.UnOp:
		if x.Op == token.MUL {
			switch x.X.(type) {
			case *ssa.Alloc, *ssa.FreeVar:
				return merge(c15stores(x.X))
			}
		}
	}
	if c15derives(v, isOpt) {
		return "derived"
	}
	return ""
}

// c15stringSetLiteral: the constant elements of a []string literal / the constant keys of a local map literal.
func c15stringSetLiteral(v ssa.Value) ([]string, bool) {
	switch x := v.(type) {
	case *ssa.Slice:
		arr, ok := x.X.(*ssa.Alloc)
		if !ok {
			return nil, false
		}
		var out []string
		for _, r := range *arr.Referrers() {
			if ia, ok := r.(*ssa.IndexAddr); ok {
				for _, r2 := range *ia.Referrers() {
					if st, ok := r2.(*ssa.Store); ok && st.Addr == ia {
						s, isS := constString(st.Val)
						if !isS {
							return nil, false
						}
						out = append(out, s)
					}
				}
			}
		}
		return out, len(out) > 0
	case *ssa.MakeMap:
		var out []string
		for _, r := range *x.Referrers() {
			if mu, ok := r.(*ssa.MapUpdate); ok && mu.Map == ssa.Value(x) {
				s, isS := constString(mu.Key)
				if !isS {
					return nil, false
				}
				out = append(out, s)
			}
		}
		return out, len(out) > 0
	case *ssa.UnOp:
		if x.Op == token.MUL {
			if sv := c15stores(x.X); len(sv) == 1 {
				return c15stringSetLiteral(sv[0])
			}
		}
	}
	return nil, false
}

func runC15V3(c *Ctx) {
	_, reg := c15loadRegion(c)
	if len(reg) == 0 {
		c.undecided("C15.V3", "anchor|config.Load", "not found")
		return
	}
	for _, opt := range []struct{ field, regPkg, reg string }{{"Strategy", "route", "Picker"}, {"Matcher", "route", "Matcher"}} {
		want := registryKeys(c, opt.regPkg, opt.reg)
		isOpt := func(v ssa.Value) bool { _, ok := fieldOf(v, "config.Proxy", opt.field); return ok }
		got := map[string]bool{}
		raw := true
		note := func(v ssa.Value, keys ...string) {
			switch c15rawness(v, isOpt, 0, map[ssa.Value]bool{}) {
			case "raw":
			case "derived":
				raw = false
			default:
				return
			}
			for _, k := range keys {
				got[k] = true
			}
		}
		eachInstrOf(reg, func(_ *ssa.Function, i ssa.Instruction) {
			switch x := i.(type) {
			case *ssa.BinOp:
				// option == "key" (if chains, switch statements)
				if x.Op != token.EQL && x.Op != token.NEQ {
					return
				}
				if k, isK := constString(x.Y); isK {
					note(x.X, k)
				} else if k, isK := constString(x.X); isK {
					note(x.Y, k)
				}
			case *ssa.Call:
				// slices.Contains([]string{...}, option), oneOf(option, "a", "b"): the option and a literal list of
				// strings handed to the same call
				for _, a := range x.Call.Args {
					if keys, ok := c15stringSetLiteral(a); ok {
						for _, b := range x.Call.Args {
							if b != a {
								note(b, keys...)
							}
						}
					}
				}
			case *ssa.Lookup:
				// a local set literal indexed by the option
				if keys, ok := c15stringSetLiteral(x.X); ok {
					note(x.Index, keys...)
				}
			}
		})
		var gotKeys []string
		for k := range got {
			gotKeys = append(gotKeys, k)
		}
		sort.Strings(gotKeys)
		c.check("C15.V3", "config.Load|proxy."+strings.ToLower(opt.field)+" validated as it is used", reg[0].Pos(), raw && strings.Join(gotKeys, ",") == strings.Join(want, ",") && len(want) > 0,
			"main looks the option up in route."+opt.reg+" (keys ["+strings.Join(want, ",")+"]) with the value exactly as configured; loading must accept exactly those keys, compared against the raw option value (validated: ["+strings.Join(gotKeys, ",")+"], raw comparison: "+boolStr(raw)+") — a value that passes validation in another letter case yields a nil function and every request panics")
	}
}

func boolStr(b bool) string {
	if b {
		return "yes"
	}
	return "no"
}
