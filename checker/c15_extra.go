package main

// Rules of C15 added after the rounds of independently authored breaking changes (DESIGN 11.6, 11.7).

import (
	"go/token"
	"sort"
	"strings"

	"golang.org/x/tools/go/ssa"
)

func registryKeys(c *Ctx, pkg, name string) []string {
	g := c.global(pkg, name)
	if g == nil {
		return nil
	}
	var keys []string
	eachInstr(c.spkg(pkg).Func("init"), func(i ssa.Instruction) {
		mu, ok := i.(*ssa.MapUpdate)
		if !ok {
			return
		}
		if mm, ok := mu.Map.(*ssa.MakeMap); ok {
			for _, r := range *mm.Referrers() {
				if st, ok := r.(*ssa.Store); ok && st.Addr == g {
					if k, ok := constString(mu.Key); ok {
						keys = append(keys, k)
					}
				}
			}
		}
	})
	sort.Strings(keys)
	return keys
}

func runC15V3(c *Ctx) {
	load := c.fn("config", "load")
	if load == nil {
		return
	}
	for _, opt := range []struct{ field, regPkg, reg string }{{"Strategy", "route", "Picker"}, {"Matcher", "route", "Matcher"}} {
		want := registryKeys(c, opt.regPkg, opt.reg)
		var got []string
		raw := true
		eachInstr(load, func(i ssa.Instruction) {
			b, ok := i.(*ssa.BinOp)
			if !ok || (b.Op != token.EQL && b.Op != token.NEQ) {
				return
			}
			k, isK := constString(b.Y)
			if !isK {
				return
			}
			if _, isF := fieldOf(b.X, "config.Proxy", opt.field); isF {
				got = append(got, k)
				return
			}
			// compared value derives from the field through a transformation
			if derives(b.X, func(v ssa.Value) bool { _, ok := fieldOf(v, "config.Proxy", opt.field); return ok }) {
				got = append(got, k)
				raw = false
			}
		})
		sort.Strings(got)
		c.check("C15.V3", "config.load|proxy."+strings.ToLower(opt.field)+" validated as it is used", load.Pos(), raw && strings.Join(got, ",") == strings.Join(want, ",") && len(want) > 0,
			"main looks the option up in route."+opt.reg+" (keys ["+strings.Join(want, ",")+"]) with the value exactly as configured; load must accept exactly those keys, compared against the raw field value (validated: ["+strings.Join(got, ",")+"], raw comparison: "+boolStr(raw)+") — a value that passes validation in another letter case yields a nil function and every request panics")
	}
}

func boolStr(b bool) string {
	if b {
		return "yes"
	}
	return "no"
}

// ---- C16.P4 / G2 ------------------------------------------------------------------------------------------------------
