package main

// C17 helpers that do not depend on how proxy/gzip is cut into functions: the response-writer type and its fields are
// found by ROLE (the struct type that declares Write and WriteHeader; its io.Writer / *gzip.Writer /
// http.ResponseWriter fields), conditions are established as FACTS that may be spelled inline, as a boolean helper, as
// `a && b`, or as a guard clause, and values are followed through copies (locals, phis, helper parameters, helper
// results, the struct's own fields).

import (
	"go/constant"
	"go/token"
	"go/types"
	"strings"

	"golang.org/x/tools/go/ssa"
)

// c17kit: the anchors of the property, resolved by role.
type c17kit struct {
	c       *Ctx
	pkg     *ssa.Package
	T       *types.Named    // the compressing response writer
	W       c17fkey         // the decided writer: the writer-typed field through which T.Write sends the body
	sel     bool            // no such field: the body's destination is SELECTED where it is written (see c17_select.go)
	RW      c17fkey         // field of T of type net/http.ResponseWriter: the wrapped writer
	fns     []*ssa.Function // all functions and closures of the package (and of packages below it)
	methods []*ssa.Function // declared methods of T
	wh, wr  *ssa.Function   // T.WriteHeader, T.Write (interface methods of http.ResponseWriter)
	stores  map[c17fkey][]*ssa.Store
	flags   map[c17fkey]bool           // decision states (lazily, see decisionFlags in c17_state.go)
	types   []*types.Named             // named non-interface types of the region (lazily, see regionTypes)
	gzflags map[c17fkey]constant.Value // states equivalent to gzipWriter != nil (lazily, see gzStates)
	invok   map[*ssa.Function]bool
	embeds  map[*types.Named]bool
}

// c17fkey names a field of a struct type of the region: the rules speak about "the decided writer" or "a field that
// holds the pooled gzip writer" wherever that field lives (in the response writer itself, in a state struct nested in
// it, in a small type that wraps the pooled writer).
type c17fkey struct {
	n   *types.Named
	idx int
}

func (fk c17fkey) typ() types.Type {
	if fk.n == nil {
		return nil
	}
	return fk.n.Underlying().(*types.Struct).Field(fk.idx).Type()
}

const c17pkg = "proxy/gzip"

// c17hasMethod: the method set of interface type t has a method of that name.
func c17hasMethod(t types.Type, name string) bool {
	it, ok := t.Underlying().(*types.Interface)
	if !ok {
		return false
	}
	for i := 0; i < it.NumMethods(); i++ {
		if it.Method(i).Name() == name {
			return true
		}
	}
	return false
}

// c17writerIface: an interface type that can receive the body (has Write) but is not a ResponseWriter (no
// WriteHeader): io.Writer, io.WriteCloser, a package-local interface embedding io.Writer ...
func c17writerIface(t types.Type) bool {
	return t != nil && c17hasMethod(t, "Write") && !c17hasMethod(t, "WriteHeader")
}

func c17respWriterIface(t types.Type) bool {
	return t != nil && c17hasMethod(t, "Write") && c17hasMethod(t, "WriteHeader") && c17hasMethod(t, "Header")
}

func (k *c17kit) inRegion(f *ssa.Function) bool {
	if f == nil {
		return false
	}
	for f.Parent() != nil {
		f = f.Parent()
	}
	var path string
	switch {
	case f.Pkg != nil:
		path = f.Pkg.Pkg.Path()
	case f.Object() != nil && f.Object().Pkg() != nil:
		path = f.Object().Pkg().Path()
	default:
		return false
	}
	home := k.pkg.Pkg.Path()
	return path == home || strings.HasPrefix(path, home+"/")
}

func (k *c17kit) inRegionType(n *types.Named) bool {
	if n == nil || n.Obj() == nil || n.Obj().Pkg() == nil {
		return false
	}
	home := k.pkg.Pkg.Path()
	path := n.Obj().Pkg().Path()
	return path == home || strings.HasPrefix(path, home+"/")
}

func c17resolve(c *Ctx) *c17kit {
	c17theKit = nil
	k := &c17kit{c: c, pkg: c.spkg(c17pkg)}
	if k.pkg == nil {
		c.undecided("C17.D1", "anchor|package proxy/gzip", "package not loaded")
		return nil
	}
	for _, f := range c.AllFns {
		if k.inRegion(f) {
			k.fns = append(k.fns, f)
		}
	}
	// the type: a struct of the package that itself declares Write and WriteHeader
	decl := map[*types.Named]map[string]*ssa.Function{}
	for _, f := range k.fns {
		if f.Parent() != nil || f.Signature.Recv() == nil {
			continue
		}
		n := c17named(f.Signature.Recv().Type())
		if n == nil {
			continue
		}
		if decl[n] == nil {
			decl[n] = map[string]*ssa.Function{}
		}
		decl[n][f.Name()] = f
	}
	var cands []*types.Named
	for n, ms := range decl {
		if ms["Write"] != nil && ms["WriteHeader"] != nil {
			if _, isStruct := n.Underlying().(*types.Struct); isStruct {
				cands = append(cands, n)
			}
		}
	}
	if len(cands) != 1 {
		c.undecided("C17.D1", "anchor|compressing response writer type", "expected exactly one struct type in proxy/gzip that declares Write and WriteHeader")
		return nil
	}
	k.T = cands[0]
	k.wh, k.wr = decl[k.T]["WriteHeader"], decl[k.T]["Write"]
	for _, f := range k.fns {
		if f.Parent() == nil && f.Signature.Recv() != nil && c17named(f.Signature.Recv().Type()) == k.T {
			k.methods = append(k.methods, f)
		}
	}
	c17theKit = k
	k.stores = map[c17fkey][]*ssa.Store{}
	eachInstrOf(k.fns, func(_ *ssa.Function, i ssa.Instruction) {
		if st, ok := i.(*ssa.Store); ok {
			if _, isAddr := st.Addr.(*ssa.FieldAddr); isAddr {
				if fk := k.fkey(st.Addr); fk.n != nil {
					k.stores[fk] = append(k.stores[fk], st)
				}
			}
		}
	})
	// the wrapped writer: the one field of T that is a ResponseWriter
	st := k.T.Underlying().(*types.Struct)
	nRW := 0
	for i := 0; i < st.NumFields(); i++ {
		if c17respWriterIface(st.Field(i).Type()) {
			k.RW = c17fkey{k.T, i}
			nRW++
		}
	}
	// the decided writer: the writer-typed field (of T, or of a struct the package keeps T's state in) on which T.Write
	// - or a same-package helper it calls - invokes Write
	wcand := map[c17fkey]bool{}
	eachInstrOf(c.region(k.wr), func(_ *ssa.Function, i ssa.Instruction) {
		cc := callCommon(i)
		if cc == nil || !cc.IsInvoke() || cc.Method.Name() != "Write" {
			return
		}
		if fk := k.fkey(cc.Value); fk.n != nil && c17writerIface(fk.typ()) {
			wcand[fk] = true
		}
		if phi, isPhi := cc.Value.(*ssa.Phi); isPhi {
			for _, e := range phi.Edges {
				if fk := k.fkey(e); fk.n != nil && c17writerIface(fk.typ()) {
					wcand[fk] = true
				}
			}
		}
	})
	if len(wcand) != 1 {
		// T.Write may not use it directly: the one writer-typed field of T
		wcand = map[c17fkey]bool{}
		for i := 0; i < st.NumFields(); i++ {
			if c17writerIface(st.Field(i).Type()) {
				wcand[c17fkey{k.T, i}] = true
			}
		}
	}
	for fk := range wcand {
		k.W = fk
	}
	if len(wcand) == 0 && nRW == 1 {
		// no writer-typed field at all: the destination of the body may be computed from the rest of the state where it is
		// needed (`decided bool` + `body()` returning the gzip writer if one was taken and the wrapped writer otherwise)
		k.W = c17fkey{}
		if k.resolveSelected() {
			return k
		}
	}
	if len(wcand) != 1 || nRW != 1 {
		c.undecided("C17.T1", "anchor|fields of the compressing response writer", "expected exactly one writer-typed field (an interface with Write but without WriteHeader: the decided writer) that the response writer's Write sends the body through, and exactly one http.ResponseWriter field (wrapped writer)")
		return nil
	}
	return k
}

func c17named(t types.Type) *types.Named {
	for {
		t = types.Unalias(t)
		if p, ok := t.(*types.Pointer); ok {
			t = p.Elem()
			continue
		}
		break
	}
	n, _ := t.(*types.Named)
	return n
}

func (k *c17kit) isT(t types.Type) bool { return c17named(t) == k.T }

// fkey: v is the address of / a load of / the extraction of a field of a struct type of the region; the zero key
// otherwise.
func (k *c17kit) fkey(v ssa.Value) c17fkey {
	if u, ok := v.(*ssa.UnOp); ok && u.Op == token.MUL {
		v = u.X
	}
	var base types.Type
	idx := 0
	switch x := v.(type) {
	case *ssa.FieldAddr:
		base, idx = x.X.Type(), x.Field
	case *ssa.Field:
		base, idx = x.X.Type(), x.Field
	default:
		return c17fkey{}
	}
	n := c17named(base)
	if n == nil || !k.inRegionType(n) {
		return c17fkey{}
	}
	if _, isStruct := n.Underlying().(*types.Struct); !isStruct {
		return c17fkey{}
	}
	return c17fkey{n, idx}
}

func (k *c17kit) isW(v ssa.Value) bool { return k.W.n != nil && k.fkey(v) == k.W }

// isWval: v is the decided writer: a load of the field, or a local copy of it (`w := grw.writer; if w == nil { ...;
// w = grw.writer }`): every origin of v inside its function is a load of the field.
func (k *c17kit) isWval(v ssa.Value) bool {
	if k.sel {
		_, _, ok := k.selection(v, nil)
		return ok
	}
	if k.isW(v) {
		return true
	}
	if !c17writerIface(v.Type()) {
		return false
	}
	seen := map[ssa.Value]bool{}
	var all func(x ssa.Value, d int) bool
	all = func(x ssa.Value, d int) bool {
		if k.isW(x) {
			return true
		}
		if seen[x] {
			return true
		}
		seen[x] = true
		if d > 6 {
			return false
		}
		switch y := x.(type) {
		case *ssa.Phi:
			for _, e := range y.Edges {
				if !all(e, d+1) {
					return false
				}
			}
			return len(y.Edges) > 0
		case *ssa.ChangeInterface:
			return all(y.X, d+1)
		case *ssa.UnOp:
			if a, ok := y.X.(*ssa.Alloc); ok && y.Op == token.MUL {
				n := 0
				for _, r := range *a.Referrers() {
					if st, ok := r.(*ssa.Store); ok && st.Addr == a {
						n++
						if !all(st.Val, d+1) {
							return false
						}
					}
				}
				return n > 0
			}
		}
		return false
	}
	return all(v, 0)
}
func (k *c17kit) isRW(v ssa.Value) bool { return k.fkey(v) == k.RW }

// isGz: a field (of any struct of the region) that holds a *gzip.Writer.
func (k *c17kit) isGz(v ssa.Value) bool {
	fk := k.fkey(v)
	return fk.n != nil && c17isGzipType(fk.typ())
}

// c17typeStr: typeStr that looks through type aliases (`type gzWriter = gzip.Writer`, `type header = http.Header`), also
// behind a pointer.
func c17typeStr(t types.Type) string {
	if t == nil {
		return ""
	}
	t = types.Unalias(t)
	if p, ok := t.(*types.Pointer); ok {
		return "*" + c17typeStr(p.Elem())
	}
	if s, ok := t.(*types.Slice); ok {
		return "[]" + c17typeStr(s.Elem())
	}
	return typeStr(t)
}

func c17isGzipType(t types.Type) bool { return t != nil && c17typeStr(t) == "*compress/gzip.Writer" }

// holder: t is (a pointer to) a small struct type of the region, other than the response writer, that wraps a
// writer: gz lists its *gzip.Writer fields, ws its writer-typed interface fields.
func (k *c17kit) holder(t types.Type) (n *types.Named, gz, ws []int) {
	n = c17named(t)
	if n == nil || n == k.T || !k.inRegionType(n) {
		return nil, nil, nil
	}
	st, ok := n.Underlying().(*types.Struct)
	if !ok {
		return nil, nil, nil
	}
	for i := 0; i < st.NumFields(); i++ {
		ft := st.Field(i).Type()
		switch {
		case c17isGzipType(ft):
			gz = append(gz, i)
		case c17hasMethod(ft, "Write"):
			ws = append(ws, i)
		}
	}
	if len(gz) == 0 && len(ws) == 0 {
		return nil, nil, nil
	}
	return n, gz, ws
}

// isGzipValue: v is the pooled gzip writer or a package-local wrapper around one (a struct with a *gzip.Writer field).
func (k *c17kit) isGzipValue(v ssa.Value) bool {
	if c17isGzipType(v.Type()) {
		return true
	}
	_, gz, _ := k.holder(v.Type())
	return len(gz) > 0
}

// gzLeaves: the *gzip.Writer values behind v (v itself, or what is stored into the gzip-writer fields of the wrapper
// type v is an instance of), followed back until stop.
func (k *c17kit) gzLeaves(v ssa.Value, stop func(ssa.Value) bool) []c17leaf {
	var out []c17leaf
	isWrapper := func(x ssa.Value) bool { _, gz, _ := k.holder(x.Type()); return len(gz) > 0 }
	for _, l := range k.origins(v, func(x ssa.Value) bool { return stop(x) || isWrapper(x) }) {
		n, gz, _ := k.holder(l.v.Type())
		if stop(l.v) || len(gz) == 0 {
			out = append(out, l)
			continue
		}
		for _, idx := range gz {
			sts := k.stores[c17fkey{n, idx}]
			if len(sts) == 0 {
				out = append(out, l) // a wrapper whose gzip writer is never set
			}
			for _, st := range sts {
				for _, m := range k.origins(st.Val, stop) {
					if m.b == nil {
						m.b = st.Block()
					}
					out = append(out, m)
				}
			}
		}
	}
	return out
}

// alwaysSet: every instance of the struct type that is created in the region has field fk assigned (not nil) where it
// is created, and the zero value of the type is never used: a load of the field cannot yield nil.
func (k *c17kit) alwaysSet(fk c17fkey) bool { return k.alwaysAssigned(fk, false) }

// alwaysSetAny: like alwaysSet, for a field whose zero value is meaningful (a boolean verdict): every instance created
// in the region has the field assigned explicitly.
func (k *c17kit) alwaysSetAny(fk c17fkey) bool { return k.alwaysAssigned(fk, true) }

func (k *c17kit) alwaysAssigned(fk c17fkey, zeroOK bool) bool {
	if fk.n == nil {
		return false
	}
	ok, n := true, 0
	eachInstrOf(k.fns, func(f *ssa.Function, i ssa.Instruction) {
		if a, isA := i.(*ssa.Alloc); isA {
			if p, isP := a.Type().Underlying().(*types.Pointer); isP && c17namedExact(p.Elem()) == fk.n {
				n++
				if !k.allocAssigns(f, a, fk.idx, zeroOK) {
					ok = false
				}
			}
		}
		for _, op := range i.Operands(nil) {
			if op == nil || *op == nil {
				continue
			}
			if cst, isC := (*op).(*ssa.Const); isC && c17namedExact(cst.Type()) == fk.n {
				ok = false // the zero value of the struct
			}
		}
	})
	if !zeroOK {
		for _, st := range k.stores[fk] {
			if isNilConst(st.Val) {
				ok = false
			}
		}
	}
	return ok && n > 0
}

// allocAssigns: the struct allocated by a has field idx assigned before the struct is used as a whole (loaded, handed
// on, returned): by a store through the field's address, or because the whole struct is copied from an existing
// instance (a value receiver or a helper's result spilled to a local).
func (k *c17kit) allocAssigns(f *ssa.Function, a *ssa.Alloc, idx int, zeroOK bool) bool {
	sets := map[ssa.Instruction]bool{}
	var uses []ssa.Instruction
	for _, r := range *a.Referrers() {
		switch x := r.(type) {
		case *ssa.Store:
			if x.Addr == a {
				if _, isC := x.Val.(*ssa.Const); !isC {
					sets[x] = true
				}
				continue
			}
			uses = append(uses, r)
		case *ssa.FieldAddr:
			if x.X != a || x.Referrers() == nil {
				continue
			}
			for _, rr := range *x.Referrers() {
				st, isSt := rr.(*ssa.Store)
				switch {
				case isSt && st.Addr == x && x.Field == idx && (zeroOK || !isNilConst(st.Val)):
					sets[st] = true
				case isSt && st.Addr == x:
				case x.Field == idx:
					uses = append(uses, rr) // a read of the field
				}
			}
		case *ssa.DebugRef:
		default:
			uses = append(uses, r)
		}
	}
	if len(sets) == 0 {
		return false
	}
	for _, u := range uses {
		if u.Block() != nil && pathAvoiding(a, u, func(i ssa.Instruction) bool { return sets[i] }) {
			return false
		}
	}
	return true
}

// c17namedExact: t itself (not a pointer to it) is a named type.
func c17namedExact(t types.Type) *types.Named {
	n, _ := types.Unalias(t).(*types.Named)
	return n
}

// c17closed: every call of fn is a static call site that we can see. fabio is a closed program, so - unlike
// onlyStaticallyCalled - an exported name does not disqualify a function: what matters is that it is never used as a
// value and cannot be reached through an interface.
func c17closed(fn *ssa.Function) bool {
	if fn == nil || len(gSites[fn]) == 0 {
		return false
	}
	if fn.Parent() != nil && len(fn.FreeVars) > 0 {
		// a closure that captures: gAddrTaken counts the MakeClosure itself as a use of the function value (shared
		// helper, read-only), so look at what is done with the closure value: it may only be called
		ok := true
		eachInstr(fn.Parent(), func(i ssa.Instruction) {
			mc, isMC := i.(*ssa.MakeClosure)
			if !isMC || mc.Fn != fn || mc.Referrers() == nil {
				return
			}
			for _, r := range *mc.Referrers() {
				ci, isCall := r.(ssa.CallInstruction)
				if !isCall || ci.Common().Value != mc {
					ok = false
					continue
				}
				for _, a := range ci.Common().Args {
					if a == mc {
						ok = false
					}
				}
			}
		})
		return ok
	}
	if gAddrTaken[fn] {
		return false
	}
	if fn.Parent() != nil {
		return true
	}
	if fn.Name() == "init" || fn.Name() == "main" {
		return false
	}
	if fn.Signature.Recv() == nil || !gInvoked[fn.Name()] {
		return true
	}
	// gInvoked knows the bare name only: `Serve`, `Close`, `Flush` are method names of many interfaces. What counts is
	// whether a call through an interface with this method and signature, which the receiver type satisfies, exists
	k := c17theKit
	return k != nil && k.c != nil && fn.Prog == k.c.Prog && !k.invokable(fn)
}

// ---- facts, lifted through the callers of helpers ------------------------------------------------------------------

// c17holds: some branch condition that is known whenever control reaches b satisfies test - in b's function, or (for
// a helper all of whose calls are visible static call sites) at every one of its call sites.
func c17holds(b *ssa.BasicBlock, test func(Fact) bool, depth int) bool {
	return c17holdsX(b, test, depth, false)
}

// c17holdsX: c17holds; with join == true a block that several edges lead to (the body of `case a, b:`, the code after
// `if x { ... } else if y { ... }`) also counts when the test is established on EVERY edge into it - by the branch
// outcome of that edge or by what holds at its source. Only for tests about pure values (the atoms below); facts about
// the nil-ness of a field may be stale at a join when one arm assigns the field.
func c17holdsX(b *ssa.BasicBlock, test func(Fact) bool, depth int, join bool) bool {
	if b == nil {
		return false
	}
	for _, f := range localFactsAt(b) {
		if test(f) {
			return true
		}
	}
	if join && c17joinHolds(b, test, 0) {
		return true
	}
	fn := b.Parent()
	if depth >= 3 || !c17closed(fn) {
		return false
	}
	for _, s := range gSites[fn] {
		if _, isGo := s.(*ssa.Go); isGo || s.Parent() == fn || !c17holdsX(s.Block(), test, depth+1, join) {
			return false
		}
	}
	return true
}

// c17joinHolds: b, or a block that dominates b, is a join all of whose incoming edges establish the test. Joins that
// a back edge leads to (loop headers) are not looked at.
func c17joinHolds(b *ssa.BasicBlock, test func(Fact) bool, d int) bool {
	if d >= 3 {
		return false
	}
	for cur := b; cur != nil; cur = cur.Idom() {
		if len(cur.Preds) < 2 {
			continue
		}
		all := true
		for _, p := range cur.Preds {
			if cur.Dominates(p) || !c17edgeHolds(p, cur, test, d) {
				all = false
				break
			}
		}
		if all {
			return true
		}
	}
	return false
}

// c17edgeHolds: the test is established whenever control goes from p to its successor to.
func c17edgeHolds(p, to *ssa.BasicBlock, test func(Fact) bool, d int) bool {
	if n := len(p.Instrs); n > 0 && len(p.Succs) == 2 && p.Succs[0] != p.Succs[1] {
		if iff, ok := p.Instrs[n-1].(*ssa.If); ok {
			for _, f := range appendCondFacts(nil, iff.Cond, p.Succs[0] == to, 0) {
				if test(f) {
					return true
				}
			}
		}
	}
	for _, f := range localFactsAt(p) {
		if test(f) {
			return true
		}
	}
	return c17joinHolds(p, test, d+1)
}

func c17knownNil(b *ssa.BasicBlock, same func(ssa.Value) bool) bool {
	return c17holds(b, func(f Fact) bool { nn, ok := nilFact(f, same); return ok && !nn }, 0)
}

func c17knownNonNil(b *ssa.BasicBlock, same func(ssa.Value) bool) bool {
	return c17holds(b, func(f Fact) bool { nn, ok := nilFact(f, same); return ok && nn }, 0)
}

// c17atom recognises "v == truth states the condition".
type c17atom func(v ssa.Value, truth bool) bool

// c17holdsAtom: the atom is established at block b.
func c17holdsAtom(b *ssa.BasicBlock, atom c17atom, depth int) bool {
	if depth > c17maxDepth {
		return false
	}
	return c17holdsX(b, func(f Fact) bool { return c17implies(f.Cond, f.Truth, nil, atom, depth+1) }, 0, true)
}

// c17implies: whenever v evaluates to truth (and, if at != nil, control is in block at), the atom holds. v may be
// the atom itself, a negation, the lowered form of `a && b` / `a || b` (a phi), a comparison with a boolean constant,
// or the result of a boolean repository helper all of whose returns that can yield truth imply the atom.
func c17implies(v ssa.Value, truth bool, at *ssa.BasicBlock, atom c17atom, depth int) bool {
	if depth > c17maxDepth || v == nil {
		return false
	}
	if at != nil && c17holdsAtom(at, atom, depth+1) {
		return true
	}
	if atom(v, truth) {
		return true
	}
	switch x := v.(type) {
	case *ssa.Const:
		if bv, ok := constBool(x); ok && bv != truth {
			return true // cannot evaluate to truth
		}
	case *ssa.UnOp:
		if x.Op == token.NOT {
			return c17implies(x.X, !truth, nil, atom, depth+1)
		}
		if x.Op == token.MUL {
			return c17impliesStored(v, truth, atom, depth)
		}
	case *ssa.BinOp:
		if x.Op == token.EQL || x.Op == token.NEQ {
			for _, p := range [][2]ssa.Value{{x.X, x.Y}, {x.Y, x.X}} {
				if bv, ok := constBool(p[1]); ok {
					// (e == bv) == truth  <=>  e == (truth == bv), and the reverse for !=
					t := truth == bv
					if x.Op == token.NEQ {
						t = !t
					}
					return c17implies(p[0], t, nil, atom, depth+1)
				}
			}
			// a verdict that is not a bool: `switch negotiate(r) { case "gzip": ...` / `if mode(h) == modeCompress`
			for _, p := range [][2]ssa.Value{{x.X, x.Y}, {x.Y, x.X}} {
				if kc, ok := p[1].(*ssa.Const); ok && kc.Value != nil {
					if _, isK := p[0].(*ssa.Const); !isK {
						return c17impliesCmp(p[0], kc.Value, (x.Op == token.EQL) == truth, nil, atom, depth+1)
					}
				}
			}
		}
	case *ssa.Phi:
		if len(x.Edges) == 0 {
			return false
		}
		pk := c17phiKey{x, truth}
		if c17phiBusy[pk] {
			return true // loop-carried edge back to the phi under evaluation: contributes no new origin
		}
		c17phiBusy[pk] = true
		defer delete(c17phiBusy, pk)
		for i, e := range x.Edges {
			if !c17impliesOnEdge(e, truth, x.Block().Preds[i], x.Block(), atom, depth+1) {
				return false
			}
		}
		return true
	case *ssa.Field:
		return c17impliesStored(v, truth, atom, depth)
	case *ssa.Parameter:
		// a verdict handed down to a helper (`serve(w, r, acceptsGzip(r))`, `func serve(..., compress bool)`): what every
		// caller passes
		return c17viaCallers(x, func(arg ssa.Value, site *ssa.BasicBlock) bool { return c17implies(arg, truth, site, atom, depth+1) })
	case *ssa.Extract:
		// one of several results of a repository helper (`ok, reason := compressable(h)`)
		call, isCall := x.Tuple.(*ssa.Call)
		if !isCall {
			return false
		}
		sc := call.Call.StaticCallee()
		if sc == nil || !isRepoFn(sc) || len(sc.Blocks) == 0 {
			return false
		}
		n, all := 0, true
		eachInstr(sc, func(i ssa.Instruction) {
			if r, ok := i.(*ssa.Return); ok && x.Index < len(r.Results) {
				n++
				if !c17implies(r.Results[x.Index], truth, r.Block(), atom, depth+1) {
					all = false
				}
			}
		})
		return n > 0 && all
	case *ssa.Call:
		sc := x.Call.StaticCallee()
		if sc == nil || !isRepoFn(sc) || len(sc.Blocks) == 0 || sc.Signature.Results().Len() != 1 {
			return false
		}
		n, all := 0, true
		eachInstr(sc, func(i ssa.Instruction) {
			if r, ok := i.(*ssa.Return); ok && len(r.Results) == 1 {
				n++
				if !c17implies(r.Results[0], truth, r.Block(), atom, depth+1) {
					all = false
				}
			}
		})
		return n > 0 && all
	}
	return false
}

// c17impliesCmp: whenever (x == K) == want the atom holds (and, if at != nil, control is in block at where x is
// chosen). For a verdict that is spelled as one of several constants instead of a bool (`negotiateEncoding(r) string`
// returning "gzip" / "identity", a `mode` enumeration): x is the result of a repository helper (every return that can
// make the comparison come out as wanted must be taken where the atom is established), a phi of such values, or a
// constant. A value that is not a constant may compare either way: it counts only where the atom is established anyway.
func c17impliesCmp(x ssa.Value, K constant.Value, want bool, at *ssa.BasicBlock, atom c17atom, depth int) bool {
	if depth > c17maxDepth || x == nil {
		return false
	}
	if at != nil && c17holdsAtom(at, atom, depth+1) {
		return true
	}
	returns := func(sc *ssa.Function, idx int) bool {
		if sc == nil || !isRepoFn(sc) || len(sc.Blocks) == 0 {
			return false
		}
		n, all := 0, true
		eachInstr(sc, func(i ssa.Instruction) {
			if r, ok := i.(*ssa.Return); ok && idx < len(r.Results) {
				n++
				if !c17impliesCmp(r.Results[idx], K, want, r.Block(), atom, depth+1) {
					all = false
				}
			}
		})
		return n > 0 && all
	}
	switch y := x.(type) {
	case *ssa.Const:
		if y.Value == nil || y.Value.Kind() != K.Kind() {
			return false
		}
		return constant.Compare(y.Value, token.EQL, K) != want // cannot compare as wanted
	case *ssa.ChangeType:
		return c17impliesCmp(y.X, K, want, nil, atom, depth+1)
	case *ssa.Parameter:
		return c17viaCallers(y, func(arg ssa.Value, site *ssa.BasicBlock) bool {
			return c17impliesCmp(arg, K, want, site, atom, depth+1)
		})
	case *ssa.UnOp, *ssa.Field:
		// the verdict kept in a field of a struct of the region (`grw.coding = negotiate(r)` ... `if grw.coding == codingGzip`):
		// every value stored into the field; the zero value of the field is one more value unless it is always assigned
		k := c17theKit
		if u, isU := y.(*ssa.UnOp); k == nil || (isU && u.Op != token.MUL) {
			return false
		}
		fk := k.fkey(x)
		if fk.n == nil || len(k.stores[fk]) == 0 {
			return false
		}
		if !k.alwaysSetAny(fk) {
			zero := zeroConst(fk.typ())
			if zero == nil || zero.Kind() != K.Kind() || constant.Compare(zero, token.EQL, K) == want {
				return false
			}
		}
		// (the conditions are about headers that change while the response is built: a verdict computed elsewhere - in
		// the constructor, before the inner handler ran - is not a verdict about the headers at the point of use)
		var home []*ssa.Function
		if xi, isI := x.(ssa.Instruction); isI && xi.Parent() != nil {
			home = k.c.region(xi.Parent())
		}
		for _, st := range k.stores[fk] {
			near := false
			for _, f := range home {
				if f == st.Parent() {
					near = true
				}
			}
			if !near || !c17impliesCmp(st.Val, K, want, st.Block(), atom, depth+1) {
				return false
			}
		}
		return true
	case *ssa.Phi:
		if len(y.Edges) == 0 {
			return false
		}
		pk := c17phiKey{y, want}
		if c17phiBusy[pk] {
			return true
		}
		c17phiBusy[pk] = true
		defer delete(c17phiBusy, pk)
		for i, e := range y.Edges {
			from := y.Block().Preds[i]
			if c17holdsAtom(from, atom, depth+1) {
				continue
			}
			if n := len(from.Instrs); n > 0 && len(from.Succs) == 2 && from.Succs[0] != from.Succs[1] {
				if iff, ok := from.Instrs[n-1].(*ssa.If); ok && c17implies(iff.Cond, from.Succs[0] == y.Block(), nil, atom, depth+1) {
					continue
				}
			}
			if !c17impliesCmp(e, K, want, nil, atom, depth+1) {
				return false
			}
		}
		return true
	case *ssa.Call:
		if sc := y.Call.StaticCallee(); sc != nil && sc.Signature.Results().Len() == 1 {
			return returns(sc, 0)
		}
	case *ssa.Extract:
		if call, ok := y.Tuple.(*ssa.Call); ok {
			return returns(call.Call.StaticCallee(), y.Index)
		}
	}
	return false
}

// zeroConst: the zero value of a basic type as a constant (nil for other types).
func zeroConst(t types.Type) constant.Value {
	b, ok := t.Underlying().(*types.Basic)
	if !ok {
		return nil
	}
	switch {
	case b.Info()&types.IsString != 0:
		return constant.MakeString("")
	case b.Info()&types.IsInteger != 0:
		return constant.MakeInt64(0)
	case b.Info()&types.IsBoolean != 0:
		return constant.MakeBool(false)
	}
	return nil
}

// c17viaCallers: parameter p of a helper all of whose calls are visible static call sites: test holds for the
// argument at every call site.
func c17viaCallers(p *ssa.Parameter, test func(arg ssa.Value, site *ssa.BasicBlock) bool) bool {
	fn := p.Parent()
	if fn == nil || !c17closed(fn) {
		return false
	}
	idx := -1
	for i, q := range fn.Params {
		if q == p {
			idx = i
		}
	}
	if idx < 0 || len(gSites[fn]) == 0 {
		return false
	}
	for _, s := range gSites[fn] {
		cc := s.Common()
		if _, isGo := s.(*ssa.Go); isGo || s.Parent() == fn || idx >= len(cc.Args) || cc.StaticCallee() == nil {
			return false
		}
		if !test(cc.Args[idx], s.Block()) {
			return false
		}
	}
	return true
}

// c17impliesStored: v reads a boolean field of a struct of the repository (a verdict carried in a small result /
// state struct): every value ever stored into that field that can be truth implies the atom where it is stored.
func c17impliesStored(v ssa.Value, truth bool, atom c17atom, depth int) bool {
	k := c17theKit
	if k == nil {
		return false
	}
	fk := k.fkey(v)
	if fk.n == nil || len(k.stores[fk]) == 0 {
		return false
	}
	if b, ok := fk.typ().Underlying().(*types.Basic); !ok || b.Kind() != types.Bool {
		return false
	}
	if truth == false {
		// the zero value of the field is false without any store: only a struct that is always assigned counts
		if !k.alwaysSetAny(fk) {
			return false
		}
	}
	for _, st := range k.stores[fk] {
		if !c17implies(st.Val, truth, st.Block(), atom, depth+1) {
			return false
		}
	}
	return true
}

// c17theKit: the anchors of the current run (the atoms are plain functions of a value; the few places that need the
// field tables reach them here).
var c17theKit *c17kit

type c17phiKey struct {
	p     *ssa.Phi
	truth bool
}

var c17phiBusy = map[c17phiKey]bool{}

// c17impliesOnEdge: value e flows from block from to the phi in block to; on that edge the facts of from hold, and
// so does the branch condition of from with the polarity of the edge.
func c17impliesOnEdge(e ssa.Value, truth bool, from, to *ssa.BasicBlock, atom c17atom, depth int) bool {
	if bv, ok := constBool(e); ok && bv != truth {
		return true
	}
	if c17holdsAtom(from, atom, depth+1) {
		return true
	}
	if n := len(from.Instrs); n > 0 && len(from.Succs) == 2 && from.Succs[0] != from.Succs[1] {
		if iff, ok := from.Instrs[n-1].(*ssa.If); ok {
			if c17implies(iff.Cond, from.Succs[0] == to, nil, atom, depth+1) {
				return true
			}
		}
	}
	return c17implies(e, truth, nil, atom, depth+1)
}

// ---- the three conditions of the property -------------------------------------------------------------------------

func c17isHeaderGet(v ssa.Value, key string) (*ssa.CallCommon, bool) {
	call, ok := v.(*ssa.Call)
	if !ok {
		return nil, false
	}
	k, cc, ok := headerCall(call, "Get")
	return cc, ok && k == key
}

// c17fromHeader: string s derives from Header.Get(key) (fromRequest: of the request's header).
func c17fromHeader(s ssa.Value, key string, fromRequest bool) bool {
	return derives(s, func(v ssa.Value) bool {
		cc, ok := c17isHeaderGet(v, key)
		if !ok {
			return false
		}
		if !fromRequest {
			return true
		}
		return derives(cc.Args[0], func(w ssa.Value) bool { return c17typeStr(w.Type()) == "*net/http.Request" })
	})
}

// c17intCmp: v is `x OP k` (or `k OP x`, mirrored) for an integer constant k.
func c17intCmp(v ssa.Value) (x ssa.Value, op token.Token, k int64, ok bool) {
	b, isB := v.(*ssa.BinOp)
	if !isB {
		return nil, 0, 0, false
	}
	if n, isK := constInt(b.Y); isK {
		return b.X, b.Op, n, true
	}
	if n, isK := constInt(b.X); isK {
		// mirror
		m := map[token.Token]token.Token{token.LSS: token.GTR, token.GTR: token.LSS, token.LEQ: token.GEQ, token.GEQ: token.LEQ, token.EQL: token.EQL, token.NEQ: token.NEQ}
		if o, has := m[b.Op]; has {
			return b.Y, o, n, true
		}
	}
	return nil, 0, 0, false
}

// c17fromAcceptEncoding: string s derives from the request's Accept-Encoding header, however it is read (Header.Get,
// Header.Values, the map itself) and whatever strings.* / strconv.* steps cut it into tokens.
func c17fromAcceptEncoding(s ssa.Value) bool {
	const key = "Accept-Encoding"
	ofRequest := func(h ssa.Value) bool {
		return derives(h, func(w ssa.Value) bool { return c17typeStr(w.Type()) == "*net/http.Request" })
	}
	return derives(s, func(v ssa.Value) bool {
		switch x := v.(type) {
		case *ssa.Call:
			for _, m := range []string{"Get", "Values"} {
				if k, cc, ok := headerCall(x, m); ok && k == key {
					return ofRequest(cc.Args[0])
				}
			}
		case *ssa.Lookup:
			if k, ok := constString(x.Index); ok && k == key && c17typeStr(x.X.Type()) == "net/http.Header" {
				return ofRequest(x.X)
			}
		}
		return false
	})
}

// c17codingTest: v == truth establishes that a string cut out of the request's Accept-Encoding names the constant
// coding K: strings.Contains / HasPrefix / HasSuffix / EqualFold(s, K), strings.Index(s, K) >= 0, s == K (the cases of
// a `switch s`) and their negations.
func c17codingTest(v ssa.Value, truth bool) (string, bool) {
	args := func(cc *ssa.CallCommon) (string, bool) {
		if len(cc.Args) != 2 {
			return "", false
		}
		for _, p := range [][2]ssa.Value{{cc.Args[0], cc.Args[1]}, {cc.Args[1], cc.Args[0]}} {
			if s, ok := constString(p[1]); ok && c17fromAcceptEncoding(p[0]) {
				return s, true
			}
			if calleeName(cc) != "strings.EqualFold" {
				break // only EqualFold is symmetric
			}
		}
		return "", false
	}
	switch x := v.(type) {
	case *ssa.Call:
		switch calleeName(&x.Call) {
		case "strings.Contains", "strings.HasPrefix", "strings.HasSuffix", "strings.EqualFold":
			if s, ok := args(&x.Call); ok && truth {
				return s, true
			}
		}
		return "", false
	case *ssa.BinOp:
		if x.Op == token.EQL || x.Op == token.NEQ {
			for _, p := range [][2]ssa.Value{{x.X, x.Y}, {x.Y, x.X}} {
				if s, ok := constString(p[1]); ok && (x.Op == token.EQL) == truth && c17isString(p[0].Type()) && c17fromAcceptEncoding(p[0]) {
					return s, true
				}
			}
		}
	}
	// strings.Index(ae, K) >= 0 and its spellings
	if x, op, n, ok := c17intCmp(v); ok {
		if call, isC := x.(*ssa.Call); isC && calleeName(&call.Call) == "strings.Index" {
			if s, isS := args(&call.Call); isS {
				switch {
				case (op == token.GEQ && n == 0) || (op == token.GTR && n == -1) || (op == token.NEQ && n == -1):
					return s, truth
				case (op == token.LSS && n == 0) || (op == token.LEQ && n == -1) || (op == token.EQL && n == -1):
					return s, !truth
				}
			}
		}
	}
	return "", false
}

func c17isString(t types.Type) bool {
	b, ok := t.Underlying().(*types.Basic)
	return ok && b.Info()&types.IsString != 0
}

// c17positiveWeight: v == truth establishes w > 0 for a number w parsed out of the request's Accept-Encoding (the
// q-value of a coding): w > 0, w >= k (k > 0), w != 0, 0 < w and the negations of w <= 0, w < k, w == 0.
func c17positiveWeight(v ssa.Value, truth bool) bool {
	b, ok := v.(*ssa.BinOp)
	if !ok {
		return false
	}
	num := func(x ssa.Value) (float64, bool) {
		c, isC := x.(*ssa.Const)
		if !isC || c.Value == nil {
			return 0, false
		}
		if bt, isB := c.Type().Underlying().(*types.Basic); !isB || bt.Info()&types.IsNumeric == 0 {
			return 0, false
		}
		return c.Float64(), true
	}
	x, op := b.X, b.Op
	k, isK := num(b.Y)
	if !isK {
		if k, isK = num(b.X); !isK {
			return false
		}
		x = b.Y
		m := map[token.Token]token.Token{token.LSS: token.GTR, token.GTR: token.LSS, token.LEQ: token.GEQ, token.GEQ: token.LEQ, token.EQL: token.EQL, token.NEQ: token.NEQ}
		var has bool
		if op, has = m[op]; !has {
			return false
		}
	}
	if bt, isB := x.Type().Underlying().(*types.Basic); !isB || bt.Info()&types.IsNumeric == 0 || !c17fromAcceptEncoding(x) {
		return false
	}
	switch {
	case (op == token.GTR && k >= 0) || (op == token.GEQ && k > 0) || (op == token.NEQ && k == 0):
		return truth
	case (op == token.LEQ && k >= 0) || (op == token.LSS && k > 0) || (op == token.EQL && k == 0):
		return !truth
	}
	return false
}

// atomAcceptsGzip: the client accepts gzip: a coding cut out of the request's Accept-Encoding is found to name gzip
// ("gzip", "x-gzip": any constant that contains gzip - today's test is strings.Contains(header, "gzip")), or it is the
// wildcard "*" AND its weight is found to be positive. Any other coding (identity, deflate, br), and a wildcard whose
// q-value is not looked at (`*;q=0` is how clients REFUSE every coding they did not list), is not acceptance.
func (k *c17kit) atomAcceptsGzip(v ssa.Value, truth bool) bool {
	at := func() *ssa.BasicBlock {
		if i, ok := v.(ssa.Instruction); ok {
			return i.Block()
		}
		return nil
	}
	if coding, ok := c17codingTest(v, truth); ok {
		switch {
		case strings.Contains(coding, "gzip"):
			return true
		case coding == "*":
			// the wildcard counts where the weight is known to be positive when the coding is compared
			return at() != nil && c17holdsX(at(), func(f Fact) bool { return c17positiveWeight(f.Cond, f.Truth) }, 0, true)
		}
		return false
	}
	if c17positiveWeight(v, truth) {
		// `wildcard = q > 0` / `return q > 0` in the arm of the wildcard (the arm of gzip is covered by its own fact)
		return at() != nil && c17holdsX(at(), func(f Fact) bool { s, ok := c17codingTest(f.Cond, f.Truth); return ok && s == "*" }, 0, true)
	}
	return false
}

// atomTypeMatches: the configured expression matches the response's Content-Type.
func (k *c17kit) atomTypeMatches(v ssa.Value, truth bool) bool {
	return truth && k.matchVerdict(v, func(s ssa.Value) bool { return c17fromHeader(s, "Content-Type", false) }, 0)
}

func c17isRegexpMatch(name string) bool {
	return name == "(*regexp.Regexp).MatchString" || name == "(*regexp.Regexp).Match"
}

// configuredExpr: the expression is the configured one: kept in a field of the response writer (or of a struct of the
// package), or handed in from outside - not a package variable or an expression compiled on the spot.
func (k *c17kit) configuredExpr(e ssa.Value) bool {
	return derives(e, func(w ssa.Value) bool {
		switch w.(type) {
		case *ssa.Parameter, *ssa.FreeVar:
			return true
		}
		return k.fkey(w).n != nil
	})
}

// matchVerdict: v is the verdict of matching a subject string against the configured expression. The match may be
// spelled as a call of (*regexp.Regexp).MatchString|Match, as a call through an interface that the expression was
// stored into, or as a call of a function value: the bound method value expr.MatchString, or a repository function /
// closure all of whose `true` returns are such a verdict about its parameter.
func (k *c17kit) matchVerdict(v ssa.Value, subject func(ssa.Value) bool, depth int) bool {
	call, ok := v.(*ssa.Call)
	if !ok || depth > 3 {
		return false
	}
	cc := &call.Call
	if cc.IsInvoke() {
		if n := cc.Method.Name(); (n != "MatchString" && n != "Match") || len(cc.Args) != 1 || !subject(cc.Args[0]) {
			return false
		}
		isRe := func(x ssa.Value) bool { return c17typeStr(x.Type()) == "*regexp.Regexp" }
		ls := k.origins(cc.Value, isRe)
		for _, l := range ls {
			if !isRe(l.v) || !k.configuredExpr(l.v) {
				return false
			}
		}
		return len(ls) > 0
	}
	if c17isRegexpMatch(calleeName(cc)) {
		return len(cc.Args) == 2 && subject(cc.Args[1]) && k.configuredExpr(cc.Args[0])
	}
	if cc.StaticCallee() != nil {
		return false // a repository helper: c17implies looks at its returns
	}
	// a function value
	ls := k.origins(cc.Value, c17isFuncValue)
	for _, l := range ls {
		var fn *ssa.Function
		var bind []ssa.Value
		switch x := l.v.(type) {
		case *ssa.MakeClosure:
			fn, _ = x.Fn.(*ssa.Function)
			bind = x.Bindings
		case *ssa.Function:
			fn = x
		}
		if fn == nil {
			return false
		}
		if strings.HasPrefix(fn.Synthetic, "bound method wrapper") {
			if !c17isRegexpMatch(funcName(fn)) || len(bind) != 1 || !k.configuredExpr(bind[0]) || len(cc.Args) != 1 || !subject(cc.Args[0]) {
				return false
			}
			continue
		}
		if fn.Synthetic != "" || !isRepoFn(fn) || len(fn.Blocks) == 0 || fn.Signature.Results().Len() != 1 {
			return false
		}
		// the parameters that receive the subject
		subj := map[ssa.Value]bool{}
		for j, a := range cc.Args {
			if j < len(fn.Params) && subject(a) {
				subj[fn.Params[j]] = true
			}
		}
		if len(subj) == 0 {
			return false
		}
		inner := func(w ssa.Value, truth bool) bool {
			return truth && k.matchVerdict(w, func(s ssa.Value) bool {
				for _, m := range k.origins(s, func(x ssa.Value) bool { return subj[x] }) {
					if !subj[m.v] {
						return false
					}
				}
				return true
			}, depth+1)
		}
		n, all := 0, true
		eachInstr(fn, func(i ssa.Instruction) {
			if r, isR := i.(*ssa.Return); isR && len(r.Results) == 1 {
				n++
				if !c17implies(r.Results[0], true, r.Block(), inner, 0) {
					all = false
				}
			}
		})
		if n == 0 || !all {
			return false
		}
	}
	return len(ls) > 0
}

// atomNotEncoded: the response carries no Content-Encoding yet.
func (k *c17kit) atomNotEncoded(v ssa.Value, truth bool) bool {
	if b, ok := v.(*ssa.BinOp); ok && (b.Op == token.EQL || b.Op == token.NEQ) {
		for _, p := range [][2]ssa.Value{{b.X, b.Y}, {b.Y, b.X}} {
			if s, isS := constString(p[1]); isS && s == "" {
				if _, isG := c17isHeaderGet(p[0], "Content-Encoding"); isG {
					return (b.Op == token.EQL) == truth
				}
			}
		}
	}
	// len(h.Get("Content-Encoding")) == 0 and its spellings
	if x, op, n, ok := c17intCmp(v); ok {
		if call, isC := x.(*ssa.Call); isC && calleeName(&call.Call) == "builtin.len" && len(call.Call.Args) == 1 {
			if _, isG := c17isHeaderGet(call.Call.Args[0], "Content-Encoding"); isG {
				switch {
				case (op == token.EQL && n == 0) || (op == token.LSS && n == 1) || (op == token.LEQ && n == 0):
					return truth
				case (op == token.NEQ && n == 0) || (op == token.GTR && n == 0) || (op == token.GEQ && n == 1):
					return !truth
				}
			}
		}
	}
	return false
}

// onCompressEdge: both conditions for compressing this response are established at b.
func (k *c17kit) onCompressEdge(b *ssa.BasicBlock) bool {
	return c17holdsAtom(b, k.atomTypeMatches, 0) && c17holdsAtom(b, k.atomNotEncoded, 0)
}

// ---- copies of a value -------------------------------------------------------------------------------------------

// c17leaf is an origin of a value together with the block in which that origin is chosen.
type c17leaf struct {
	v ssa.Value
	b *ssa.BasicBlock
}

// origins follows v backwards through value-preserving steps only: interface boxing and conversion between
// interface types, type assertions, phis, local cells, results of repository helpers, parameters of helpers whose
// call sites are all visible, captured variables, and the fields of T (to every value stored into that field anywhere
// in the package). stop(v) makes v a leaf.
func (k *c17kit) origins(v ssa.Value, stop func(ssa.Value) bool) []c17leaf {
	var out []c17leaf
	seen := map[ssa.Value]bool{}
	var walk func(v ssa.Value, from *ssa.BasicBlock, d int)
	leaf := func(v ssa.Value, from *ssa.BasicBlock) {
		if i, ok := v.(ssa.Instruction); ok && i.Block() != nil {
			from = i.Block()
		}
		out = append(out, c17leaf{v, from})
	}
	walk = func(v ssa.Value, from *ssa.BasicBlock, d int) {
		if v == nil || seen[v] {
			return
		}
		seen[v] = true
		if d > 12 || (stop != nil && stop(v)) {
			leaf(v, from)
			return
		}
		switch x := v.(type) {
		case *ssa.MakeInterface:
			walk(x.X, from, d+1)
		case *ssa.ChangeInterface:
			walk(x.X, from, d+1)
		case *ssa.ChangeType:
			walk(x.X, from, d+1)
		case *ssa.TypeAssert:
			walk(x.X, from, d+1)
		case *ssa.Extract:
			if ta, ok := x.Tuple.(*ssa.TypeAssert); ok && x.Index == 0 {
				walk(ta.X, from, d+1)
				return
			}
			if call, ok := x.Tuple.(*ssa.Call); ok {
				if sc := call.Call.StaticCallee(); sc != nil && isRepoFn(sc) && len(sc.Blocks) > 0 {
					eachInstr(sc, func(i ssa.Instruction) {
						if r, ok := i.(*ssa.Return); ok && x.Index < len(r.Results) {
							walk(r.Results[x.Index], r.Block(), d+1)
						}
					})
					return
				}
			}
			leaf(v, from)
		case *ssa.Phi:
			for i, e := range x.Edges {
				walk(e, x.Block().Preds[i], d+1)
			}
		case *ssa.UnOp:
			if x.Op != token.MUL {
				leaf(v, from)
				return
			}
			if a, ok := x.X.(*ssa.Alloc); ok {
				n := 0
				for _, r := range *a.Referrers() {
					if st, ok := r.(*ssa.Store); ok && st.Addr == a {
						n++
						walk(st.Val, st.Block(), d+1)
					}
				}
				if n == 0 {
					leaf(v, from)
				}
				return
			}
			if fk := k.fkey(x); fk.n != nil {
				n := 0
				for _, st := range k.stores[fk] {
					if !isNilConst(st.Val) {
						n++
						walk(st.Val, st.Block(), d+1)
					}
				}
				if n == 0 {
					leaf(v, from)
				}
				return
			}
			if fv, ok := x.X.(*ssa.FreeVar); ok {
				// a captured variable (captured by reference): what is stored into the cell by the function that made
				// the closure and by the closure itself
				fn := fv.Parent()
				idx := -1
				for i, f := range fn.FreeVars {
					if f == fv {
						idx = i
					}
				}
				n, opaque := 0, false
				if fv.Referrers() != nil {
					for _, r := range *fv.Referrers() {
						if st, ok := r.(*ssa.Store); ok && st.Addr == fv {
							n++
							walk(st.Val, st.Block(), d+1)
						}
					}
				}
				if fn.Parent() != nil {
					eachInstr(fn.Parent(), func(i ssa.Instruction) {
						mc, ok := i.(*ssa.MakeClosure)
						if !ok || mc.Fn != fn || idx < 0 || idx >= len(mc.Bindings) {
							return
						}
						a, isA := mc.Bindings[idx].(*ssa.Alloc)
						if !isA {
							opaque = true
							return
						}
						for _, r := range *a.Referrers() {
							if st, ok := r.(*ssa.Store); ok && st.Addr == a {
								n++
								walk(st.Val, st.Block(), d+1)
							}
						}
					})
				}
				if n == 0 || opaque {
					leaf(v, from)
				}
				return
			}
			leaf(v, from)
		case *ssa.Field:
			// a field of a struct VALUE (a value receiver, a struct returned by a helper): what is stored into that field
			if fk := k.fkey(x); fk.n != nil {
				n := 0
				for _, st := range k.stores[fk] {
					if !isNilConst(st.Val) {
						n++
						walk(st.Val, st.Block(), d+1)
					}
				}
				if n > 0 {
					return
				}
			}
			leaf(v, from)
		case *ssa.Call:
			if sc := x.Call.StaticCallee(); sc != nil && isRepoFn(sc) && len(sc.Blocks) > 0 && sc.Signature.Results().Len() == 1 {
				eachInstr(sc, func(i ssa.Instruction) {
					if r, ok := i.(*ssa.Return); ok && len(r.Results) == 1 {
						walk(r.Results[0], r.Block(), d+1)
					}
				})
				return
			}
			leaf(v, from)
		case *ssa.Parameter:
			fn := x.Parent()
			if !c17closed(fn) {
				leaf(v, nil)
				return
			}
			idx := -1
			for i, p := range fn.Params {
				if p == x {
					idx = i
				}
			}
			for _, s := range gSites[fn] {
				if cc := s.Common(); idx >= 0 && idx < len(cc.Args) {
					walk(cc.Args[idx], s.Block(), d+1)
				} else {
					leaf(v, nil)
				}
			}
		case *ssa.FreeVar:
			fn := x.Parent()
			idx := -1
			for i, fv := range fn.FreeVars {
				if fv == x {
					idx = i
				}
			}
			n := 0
			if fn.Parent() != nil {
				eachInstr(fn.Parent(), func(i ssa.Instruction) {
					if mc, ok := i.(*ssa.MakeClosure); ok && mc.Fn == fn && idx >= 0 && idx < len(mc.Bindings) {
						n++
						walk(mc.Bindings[idx], mc.Block(), d+1)
					}
				})
			}
			if n == 0 {
				leaf(v, nil)
			}
		default:
			leaf(v, from)
		}
	}
	walk(v, nil, 0)
	return out
}

// precededBy: on every path that reaches instruction at - inside its function and, for a helper whose call sites are
// all visible, through every caller - an instruction matching pred (or a helper doing it on all its paths) has
// executed before.
func c17precededBy(at ssa.Instruction, pred func(ssa.Instruction) bool, depth int) bool {
	f := at.Parent()
	if f == nil || len(f.Blocks) == 0 {
		return false
	}
	if !pathAvoidingFromBlock(f.Blocks[0], at, pred) {
		return true
	}
	if depth >= 3 || !c17closed(f) {
		return false
	}
	for _, s := range gSites[f] {
		if _, isGo := s.(*ssa.Go); isGo || s.Parent() == f || !c17precededBy(s, pred, depth+1) {
			return false
		}
	}
	return true
}

// c17maxDepth bounds the recursion of the implication engine (facts -> verdicts of helpers -> facts at their returns
// ...): a verdict that passes through a field, two helpers and a guard clause needs about ten steps.
const c17maxDepth = 14
