package main

// C17 helpers that do not depend on how proxy/gzip is cut into functions: the response-writer type and its fields are
// found by ROLE (the struct type that declares Write and WriteHeader; its io.Writer / *gzip.Writer /
// http.ResponseWriter fields), conditions are established as FACTS that may be spelled inline, as a boolean helper, as
// `a && b`, or as a guard clause, and values are followed through copies (locals, phis, helper parameters, helper
// results, the struct's own fields).

import (
	"go/token"
	"go/types"

	"golang.org/x/tools/go/ssa"
)

// c17kit: the anchors of the property, resolved by role.
type c17kit struct {
	c       *Ctx
	pkg     *ssa.Package
	T       *types.Named    // the compressing response writer
	wIdx    int             // field of type io.Writer: the decided writer
	gzIdx   int             // field of type *compress/gzip.Writer: the pooled writer
	rwIdx   int             // field of type net/http.ResponseWriter: the wrapped writer
	fns     []*ssa.Function // all functions and closures of the package
	methods []*ssa.Function // declared methods of T
	wh, wr  *ssa.Function   // T.WriteHeader, T.Write (interface methods of http.ResponseWriter)
}

const c17pkg = "proxy/gzip"

func c17resolve(c *Ctx) *c17kit {
	k := &c17kit{c: c, pkg: c.spkg(c17pkg), wIdx: -1, gzIdx: -1, rwIdx: -1}
	if k.pkg == nil {
		c.undecided("C17.D1", "anchor|package proxy/gzip", "package not loaded")
		return nil
	}
	k.fns = c.fnsWhere(c17pkg, func(*ssa.Function) bool { return true })
	// the type: a struct of the package that itself declares Write and WriteHeader
	decl := map[*types.Named]map[string]*ssa.Function{}
	for _, f := range k.fns {
		if f.Parent() != nil || f.Signature.Recv() == nil {
			continue
		}
		n := c17named(f.Signature.Recv().Type())
		if n == nil {
			continue
		}
		if decl[n] == nil {
			decl[n] = map[string]*ssa.Function{}
		}
		decl[n][f.Name()] = f
	}
	var cands []*types.Named
	for n, ms := range decl {
		if ms["Write"] != nil && ms["WriteHeader"] != nil {
			if _, isStruct := n.Underlying().(*types.Struct); isStruct {
				cands = append(cands, n)
			}
		}
	}
	if len(cands) != 1 {
		c.undecided("C17.D1", "anchor|compressing response writer type", "expected exactly one struct type in proxy/gzip that declares Write and WriteHeader")
		return nil
	}
	k.T = cands[0]
	k.wh, k.wr = decl[k.T]["WriteHeader"], decl[k.T]["Write"]
	for _, f := range k.fns {
		if f.Parent() == nil && f.Signature.Recv() != nil && c17named(f.Signature.Recv().Type()) == k.T {
			k.methods = append(k.methods, f)
		}
	}
	st := k.T.Underlying().(*types.Struct)
	uniq := func(want string) int {
		idx, n := -1, 0
		for i := 0; i < st.NumFields(); i++ {
			if typeStr(st.Field(i).Type()) == want {
				idx = i
				n++
			}
		}
		if n != 1 {
			return -1
		}
		return idx
	}
	k.wIdx, k.gzIdx, k.rwIdx = uniq("io.Writer"), uniq("*compress/gzip.Writer"), uniq("net/http.ResponseWriter")
	if k.wIdx < 0 || k.gzIdx < 0 || k.rwIdx < 0 {
		c.undecided("C17.T1", "anchor|fields of the compressing response writer", "expected exactly one field each of type io.Writer (decided writer), *gzip.Writer (pooled writer) and http.ResponseWriter (wrapped writer)")
		return nil
	}
	return k
}

func c17named(t types.Type) *types.Named {
	for {
		t = types.Unalias(t)
		if p, ok := t.(*types.Pointer); ok {
			t = p.Elem()
			continue
		}
		break
	}
	n, _ := t.(*types.Named)
	return n
}

func (k *c17kit) isT(t types.Type) bool { return c17named(t) == k.T }

// field: v is the address of / a load of field idx of a T; returns the index or -1.
func (k *c17kit) field(v ssa.Value) int {
	if u, ok := v.(*ssa.UnOp); ok && u.Op == token.MUL {
		v = u.X
	}
	switch x := v.(type) {
	case *ssa.FieldAddr:
		if k.isT(x.X.Type()) {
			return x.Field
		}
	case *ssa.Field:
		if k.isT(x.X.Type()) {
			return x.Field
		}
	}
	return -1
}

func (k *c17kit) isW(v ssa.Value) bool  { return k.field(v) == k.wIdx }
func (k *c17kit) isGz(v ssa.Value) bool { return k.field(v) == k.gzIdx }

// c17closed: every call of fn is a static call site that we can see. fabio is a closed program, so - unlike
// onlyStaticallyCalled - an exported name does not disqualify a function: what matters is that it is never used as a
// value and cannot be reached through an interface.
func c17closed(fn *ssa.Function) bool {
	if fn == nil || len(gSites[fn]) == 0 {
		return false
	}
	if fn.Parent() != nil && len(fn.FreeVars) > 0 {
		// a closure that captures: gAddrTaken counts the MakeClosure itself as a use of the function value (shared
		// helper, read-only), so look at what is done with the closure value: it may only be called
		ok := true
		eachInstr(fn.Parent(), func(i ssa.Instruction) {
			mc, isMC := i.(*ssa.MakeClosure)
			if !isMC || mc.Fn != fn || mc.Referrers() == nil {
				return
			}
			for _, r := range *mc.Referrers() {
				ci, isCall := r.(ssa.CallInstruction)
				if !isCall || ci.Common().Value != mc {
					ok = false
					continue
				}
				for _, a := range ci.Common().Args {
					if a == mc {
						ok = false
					}
				}
			}
		})
		return ok
	}
	if gAddrTaken[fn] {
		return false
	}
	if fn.Parent() != nil {
		return true
	}
	if fn.Name() == "init" || fn.Name() == "main" {
		return false
	}
	return fn.Signature.Recv() == nil || !gInvoked[fn.Name()]
}

// ---- facts, lifted through the callers of helpers ------------------------------------------------------------------

// c17holds: some branch condition that is known whenever control reaches b satisfies test - in b's function, or (for
// a helper all of whose calls are visible static call sites) at every one of its call sites.
func c17holds(b *ssa.BasicBlock, test func(Fact) bool, depth int) bool {
	if b == nil {
		return false
	}
	for _, f := range localFactsAt(b) {
		if test(f) {
			return true
		}
	}
	fn := b.Parent()
	if depth >= 3 || !c17closed(fn) {
		return false
	}
	for _, s := range gSites[fn] {
		if _, isGo := s.(*ssa.Go); isGo || s.Parent() == fn || !c17holds(s.Block(), test, depth+1) {
			return false
		}
	}
	return true
}

func c17knownNil(b *ssa.BasicBlock, same func(ssa.Value) bool) bool {
	return c17holds(b, func(f Fact) bool { nn, ok := nilFact(f, same); return ok && !nn }, 0)
}

func c17knownNonNil(b *ssa.BasicBlock, same func(ssa.Value) bool) bool {
	return c17holds(b, func(f Fact) bool { nn, ok := nilFact(f, same); return ok && nn }, 0)
}

// c17atom recognises "v == truth states the condition".
type c17atom func(v ssa.Value, truth bool) bool

// c17holdsAtom: the atom is established at block b.
func c17holdsAtom(b *ssa.BasicBlock, atom c17atom, depth int) bool {
	if depth > 8 {
		return false
	}
	return c17holds(b, func(f Fact) bool { return c17implies(f.Cond, f.Truth, nil, atom, depth+1) }, 0)
}

// c17implies: whenever v evaluates to truth (and, if at != nil, control is in block at), the atom holds. v may be
// the atom itself, a negation, the lowered form of `a && b` / `a || b` (a phi), a comparison with a boolean constant,
// or the result of a boolean repository helper all of whose returns that can yield truth imply the atom.
func c17implies(v ssa.Value, truth bool, at *ssa.BasicBlock, atom c17atom, depth int) bool {
	if depth > 8 || v == nil {
		return false
	}
	if at != nil && c17holdsAtom(at, atom, depth+1) {
		return true
	}
	if atom(v, truth) {
		return true
	}
	switch x := v.(type) {
	case *ssa.Const:
		if bv, ok := constBool(x); ok && bv != truth {
			return true // cannot evaluate to truth
		}
	case *ssa.UnOp:
		if x.Op == token.NOT {
			return c17implies(x.X, !truth, nil, atom, depth+1)
		}
	case *ssa.BinOp:
		if x.Op == token.EQL || x.Op == token.NEQ {
			for _, p := range [][2]ssa.Value{{x.X, x.Y}, {x.Y, x.X}} {
				if bv, ok := constBool(p[1]); ok {
					// (e == bv) == truth  <=>  e == (truth == bv), and the reverse for !=
					t := truth == bv
					if x.Op == token.NEQ {
						t = !t
					}
					return c17implies(p[0], t, nil, atom, depth+1)
				}
			}
		}
	case *ssa.Phi:
		if len(x.Edges) == 0 {
			return false
		}
		pk := c17phiKey{x, truth}
		if c17phiBusy[pk] {
			return true // loop-carried edge back to the phi under evaluation: contributes no new origin
		}
		c17phiBusy[pk] = true
		defer delete(c17phiBusy, pk)
		for i, e := range x.Edges {
			if !c17impliesOnEdge(e, truth, x.Block().Preds[i], x.Block(), atom, depth+1) {
				return false
			}
		}
		return true
	case *ssa.Call:
		sc := x.Call.StaticCallee()
		if sc == nil || !isRepoFn(sc) || len(sc.Blocks) == 0 || sc.Signature.Results().Len() != 1 {
			return false
		}
		n, all := 0, true
		eachInstr(sc, func(i ssa.Instruction) {
			if r, ok := i.(*ssa.Return); ok && len(r.Results) == 1 {
				n++
				if !c17implies(r.Results[0], truth, r.Block(), atom, depth+1) {
					all = false
				}
			}
		})
		return n > 0 && all
	}
	return false
}

type c17phiKey struct {
	p     *ssa.Phi
	truth bool
}

var c17phiBusy = map[c17phiKey]bool{}

// c17impliesOnEdge: value e flows from block from to the phi in block to; on that edge the facts of from hold, and
// so does the branch condition of from with the polarity of the edge.
func c17impliesOnEdge(e ssa.Value, truth bool, from, to *ssa.BasicBlock, atom c17atom, depth int) bool {
	if bv, ok := constBool(e); ok && bv != truth {
		return true
	}
	if c17holdsAtom(from, atom, depth+1) {
		return true
	}
	if n := len(from.Instrs); n > 0 && len(from.Succs) == 2 && from.Succs[0] != from.Succs[1] {
		if iff, ok := from.Instrs[n-1].(*ssa.If); ok {
			if c17implies(iff.Cond, from.Succs[0] == to, nil, atom, depth+1) {
				return true
			}
		}
	}
	return c17implies(e, truth, nil, atom, depth+1)
}

// ---- the three conditions of the property -------------------------------------------------------------------------

func c17isHeaderGet(v ssa.Value, key string) (*ssa.CallCommon, bool) {
	call, ok := v.(*ssa.Call)
	if !ok {
		return nil, false
	}
	k, cc, ok := headerCall(call, "Get")
	return cc, ok && k == key
}

// c17fromHeader: string s derives from Header.Get(key) (fromRequest: of the request's header).
func c17fromHeader(s ssa.Value, key string, fromRequest bool) bool {
	return derives(s, func(v ssa.Value) bool {
		cc, ok := c17isHeaderGet(v, key)
		if !ok {
			return false
		}
		if !fromRequest {
			return true
		}
		return derives(cc.Args[0], func(w ssa.Value) bool { return typeStr(w.Type()) == "*net/http.Request" })
	})
}

// c17intCmp: v is `x OP k` (or `k OP x`, mirrored) for an integer constant k.
func c17intCmp(v ssa.Value) (x ssa.Value, op token.Token, k int64, ok bool) {
	b, isB := v.(*ssa.BinOp)
	if !isB {
		return nil, 0, 0, false
	}
	if n, isK := constInt(b.Y); isK {
		return b.X, b.Op, n, true
	}
	if n, isK := constInt(b.X); isK {
		// mirror
		m := map[token.Token]token.Token{token.LSS: token.GTR, token.GTR: token.LSS, token.LEQ: token.GEQ, token.GEQ: token.LEQ, token.EQL: token.EQL, token.NEQ: token.NEQ}
		if o, has := m[b.Op]; has {
			return b.Y, o, n, true
		}
	}
	return nil, 0, 0, false
}

// atomAcceptsGzip: the request's Accept-Encoding mentions gzip.
func (k *c17kit) atomAcceptsGzip(v ssa.Value, truth bool) bool {
	isArgs := func(cc *ssa.CallCommon) bool {
		if len(cc.Args) != 2 {
			return false
		}
		s, _ := constString(cc.Args[1])
		return s == "gzip" && c17fromHeader(cc.Args[0], "Accept-Encoding", true)
	}
	if call, ok := v.(*ssa.Call); ok && calleeName(&call.Call) == "strings.Contains" {
		return truth && isArgs(&call.Call)
	}
	// strings.Index(ae, "gzip") >= 0 and its spellings
	if x, op, n, ok := c17intCmp(v); ok {
		if call, isC := x.(*ssa.Call); isC && calleeName(&call.Call) == "strings.Index" && isArgs(&call.Call) {
			switch {
			case (op == token.GEQ && n == 0) || (op == token.GTR && n == -1) || (op == token.NEQ && n == -1):
				return truth
			case (op == token.LSS && n == 0) || (op == token.LEQ && n == -1) || (op == token.EQL && n == -1):
				return !truth
			}
		}
	}
	return false
}

// atomTypeMatches: the configured expression matches the response's Content-Type.
func (k *c17kit) atomTypeMatches(v ssa.Value, truth bool) bool {
	call, ok := v.(*ssa.Call)
	if !ok || !truth {
		return false
	}
	switch calleeName(&call.Call) {
	case "(*regexp.Regexp).MatchString", "(*regexp.Regexp).Match":
	default:
		return false
	}
	if len(call.Call.Args) != 2 || !c17fromHeader(call.Call.Args[1], "Content-Type", false) {
		return false
	}
	// the expression is the configured one: a *regexp.Regexp field of the response writer, or handed in from outside -
	// not a package variable or an expression compiled on the spot
	return derives(call.Call.Args[0], func(w ssa.Value) bool {
		switch w.(type) {
		case *ssa.Parameter, *ssa.FreeVar:
			return true
		}
		return k.field(w) >= 0
	})
}

// atomNotEncoded: the response carries no Content-Encoding yet.
func (k *c17kit) atomNotEncoded(v ssa.Value, truth bool) bool {
	if b, ok := v.(*ssa.BinOp); ok && (b.Op == token.EQL || b.Op == token.NEQ) {
		for _, p := range [][2]ssa.Value{{b.X, b.Y}, {b.Y, b.X}} {
			if s, isS := constString(p[1]); isS && s == "" {
				if _, isG := c17isHeaderGet(p[0], "Content-Encoding"); isG {
					return (b.Op == token.EQL) == truth
				}
			}
		}
	}
	// len(h.Get("Content-Encoding")) == 0 and its spellings
	if x, op, n, ok := c17intCmp(v); ok {
		if call, isC := x.(*ssa.Call); isC && calleeName(&call.Call) == "builtin.len" && len(call.Call.Args) == 1 {
			if _, isG := c17isHeaderGet(call.Call.Args[0], "Content-Encoding"); isG {
				switch {
				case (op == token.EQL && n == 0) || (op == token.LSS && n == 1) || (op == token.LEQ && n == 0):
					return truth
				case (op == token.NEQ && n == 0) || (op == token.GTR && n == 0) || (op == token.GEQ && n == 1):
					return !truth
				}
			}
		}
	}
	return false
}

// onCompressEdge: both conditions for compressing this response are established at b.
func (k *c17kit) onCompressEdge(b *ssa.BasicBlock) bool {
	return c17holdsAtom(b, k.atomTypeMatches, 0) && c17holdsAtom(b, k.atomNotEncoded, 0)
}

// ---- copies of a value -------------------------------------------------------------------------------------------

// c17leaf is an origin of a value together with the block in which that origin is chosen.
type c17leaf struct {
	v ssa.Value
	b *ssa.BasicBlock
}

// origins follows v backwards through value-preserving steps only: interface boxing and conversion between
// interface types, type assertions, phis, local cells, results of repository helpers, parameters of helpers whose
// call sites are all visible, captured variables, and the fields of T (to every value stored into that field anywhere
// in the package). stop(v) makes v a leaf.
func (k *c17kit) origins(v ssa.Value, stop func(ssa.Value) bool) []c17leaf {
	var out []c17leaf
	seen := map[ssa.Value]bool{}
	var walk func(v ssa.Value, from *ssa.BasicBlock, d int)
	leaf := func(v ssa.Value, from *ssa.BasicBlock) {
		if i, ok := v.(ssa.Instruction); ok && i.Block() != nil {
			from = i.Block()
		}
		out = append(out, c17leaf{v, from})
	}
	walk = func(v ssa.Value, from *ssa.BasicBlock, d int) {
		if v == nil || seen[v] {
			return
		}
		seen[v] = true
		if d > 12 || (stop != nil && stop(v)) {
			leaf(v, from)
			return
		}
		switch x := v.(type) {
		case *ssa.MakeInterface:
			walk(x.X, from, d+1)
		case *ssa.ChangeInterface:
			walk(x.X, from, d+1)
		case *ssa.ChangeType:
			walk(x.X, from, d+1)
		case *ssa.TypeAssert:
			walk(x.X, from, d+1)
		case *ssa.Extract:
			if ta, ok := x.Tuple.(*ssa.TypeAssert); ok && x.Index == 0 {
				walk(ta.X, from, d+1)
				return
			}
			if call, ok := x.Tuple.(*ssa.Call); ok {
				if sc := call.Call.StaticCallee(); sc != nil && isRepoFn(sc) && len(sc.Blocks) > 0 {
					eachInstr(sc, func(i ssa.Instruction) {
						if r, ok := i.(*ssa.Return); ok && x.Index < len(r.Results) {
							walk(r.Results[x.Index], r.Block(), d+1)
						}
					})
					return
				}
			}
			leaf(v, from)
		case *ssa.Phi:
			for i, e := range x.Edges {
				walk(e, x.Block().Preds[i], d+1)
			}
		case *ssa.UnOp:
			if x.Op != token.MUL {
				leaf(v, from)
				return
			}
			if a, ok := x.X.(*ssa.Alloc); ok {
				n := 0
				for _, r := range *a.Referrers() {
					if st, ok := r.(*ssa.Store); ok && st.Addr == a {
						n++
						walk(st.Val, st.Block(), d+1)
					}
				}
				if n == 0 {
					leaf(v, from)
				}
				return
			}
			if idx := k.field(x); idx >= 0 {
				n := 0
				eachInstrOf(k.fns, func(_ *ssa.Function, i ssa.Instruction) {
					if st, ok := i.(*ssa.Store); ok && k.field(st.Addr) == idx {
						if _, isAddr := st.Addr.(*ssa.FieldAddr); isAddr && !isNilConst(st.Val) {
							n++
							walk(st.Val, st.Block(), d+1)
						}
					}
				})
				if n == 0 {
					leaf(v, from)
				}
				return
			}
			leaf(v, from)
		case *ssa.Call:
			if sc := x.Call.StaticCallee(); sc != nil && isRepoFn(sc) && len(sc.Blocks) > 0 && sc.Signature.Results().Len() == 1 {
				eachInstr(sc, func(i ssa.Instruction) {
					if r, ok := i.(*ssa.Return); ok && len(r.Results) == 1 {
						walk(r.Results[0], r.Block(), d+1)
					}
				})
				return
			}
			leaf(v, from)
		case *ssa.Parameter:
			fn := x.Parent()
			if !c17closed(fn) {
				leaf(v, nil)
				return
			}
			idx := -1
			for i, p := range fn.Params {
				if p == x {
					idx = i
				}
			}
			for _, s := range gSites[fn] {
				if cc := s.Common(); idx >= 0 && idx < len(cc.Args) {
					walk(cc.Args[idx], s.Block(), d+1)
				} else {
					leaf(v, nil)
				}
			}
		case *ssa.FreeVar:
			fn := x.Parent()
			idx := -1
			for i, fv := range fn.FreeVars {
				if fv == x {
					idx = i
				}
			}
			n := 0
			if fn.Parent() != nil {
				eachInstr(fn.Parent(), func(i ssa.Instruction) {
					if mc, ok := i.(*ssa.MakeClosure); ok && mc.Fn == fn && idx >= 0 && idx < len(mc.Bindings) {
						n++
						walk(mc.Bindings[idx], mc.Block(), d+1)
					}
				})
			}
			if n == 0 {
				leaf(v, nil)
			}
		default:
			leaf(v, from)
		}
	}
	walk(v, nil, 0)
	return out
}

// precededBy: on every path that reaches instruction at - inside its function and, for a helper whose call sites are
// all visible, through every caller - an instruction matching pred (or a helper doing it on all its paths) has
// executed before.
func c17precededBy(at ssa.Instruction, pred func(ssa.Instruction) bool, depth int) bool {
	f := at.Parent()
	if f == nil || len(f.Blocks) == 0 {
		return false
	}
	if !pathAvoidingFromBlock(f.Blocks[0], at, pred) {
		return true
	}
	if depth >= 3 || !c17closed(f) {
		return false
	}
	for _, s := range gSites[f] {
		if _, isGo := s.(*ssa.Go); isGo || s.Parent() == f || !c17precededBy(s, pred, depth+1) {
			return false
		}
	}
	return true
}
