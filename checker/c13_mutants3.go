package main

// Overlay mutants of C13, round 3 of the hardening (after the fourth round of breaking changes): the substitution of
// $path / $host done by a repository helper that is handed the variable (hand-written replace on strings.Index, a
// closure), the host loop of Table.Lookup split off into a helper that carries no target round the loop, a cloning
// helper in front of the builder, the redirect code tested through a predicate helper or by its hundreds digit, the
// final Path default through a local. `Expect: ""` keeps the property and must stay silent.

const (
	c13tgt = "route/target.go"
	c13tbl = "route/table.go"
	c13rt  = "route/route.go"

	c13builderDecl = "func (t *Target) BuildRedirectURL(requestURL *url.URL) {\n"

	c13slashRepl = "\t\tt.RedirectURL.Path = strings.Replace(t.RedirectURL.Path, \"/$path\", \"$path\", 1)\n\t\tt.RedirectURL.RawPath = strings.Replace(t.RedirectURL.RawPath, \"/$path\", \"$path\", 1)\n"
	c13pathRepl  = "\t\tt.RedirectURL.Path = strings.Replace(t.RedirectURL.Path, \"$path\", replacePath, 1)\n\t\tt.RedirectURL.RawPath = strings.Replace(t.RedirectURL.RawPath, \"$path\", replaceRawPath, 1)\n"
	c13hostRepl  = "\t\tt.RedirectURL.Host = strings.Replace(t.RedirectURL.Host, \"$host\", requestURL.Host, 1)\n"

	// a hand-written "replace the first occurrence" on strings.Index
	c13replaceFirst = "func replaceFirst(s, name, value string) string {\n\ti := strings.Index(s, name)\n\tif i < 0 {\n\t\treturn s\n\t}\n\treturn s[:i] + value + s[i+len(name):]\n}\n\n"

	c13pathDefault = "\tif t.RedirectURL.Path == \"\" {\n\t\tt.RedirectURL.Path = \"/\"\n\t}\n"

	c13hostLoop = "\tfor _, h := range hosts {\n\t\tif target = t.lookup(h, req.URL.Path, trace, pick, match); target != nil {\n\t\t\tif target.RedirectCode != 0 {\n\t\t\t\treq.URL.Host = req.Host\n\t\t\t\t// The target is shared between concurrent requests.\n\t\t\t\t// Build the redirect url on a copy which belongs to\n\t\t\t\t// this request only.\n\t\t\t\tredirect := *target\n\t\t\t\tredirect.BuildRedirectURL(req.URL)\n\t\t\t\ttarget = &redirect\n\t\t\t\tif target.RedirectURL.Scheme == req.Header.Get(\"X-Forwarded-Proto\") &&\n\t\t\t\t\ttarget.RedirectURL.Host == req.Host &&\n\t\t\t\t\ttarget.RedirectURL.Path == req.URL.Path {\n\t\t\t\t\tlog.Print(\"[INFO] Skipping redirect with same scheme, host and path\")\n\t\t\t\t\ttarget = nil\n\t\t\t\t\tcontinue\n\t\t\t\t}\n\t\t\t}\n\t\t\tbreak\n\t\t}\n\t}\n"
)

// c13replPaths: the statements of the builder that compute replacePath / replaceRawPath.
const c13replPaths = "\t\t// set replacement paths\n\t\treplacePath := requestURL.Path\n\t\tvar replaceRawPath string\n\t\tif requestURL.RawPath == \"\" {\n\t\t\treplaceRawPath = requestURL.Path\n\t\t} else {\n\t\t\treplaceRawPath = requestURL.RawPath\n\t\t}\n\t\t// strip path before replacement\n" + c13stripPrepend

func c13replPathsHelper(path, rawPath string) string {
	return "func replacementPaths(u *url.URL, strip, prepend string) (string, string) {\n\tp, rp := u.Path, u.RawPath\n\tif rp == \"\" {\n\t\trp = p\n\t}\n\treturn " + path + ", " + rawPath + "\n}\n\n"
}

// c13firstMatch: the host loop as a helper of Lookup that declares the target inside the loop - nothing is carried
// round the loop; cmp is the self-redirect condition, onSelf what is done when it holds.
func c13firstMatch(cmp, onSelf string) []repl {
	return []repl{{c13lookupHostDecl, "func (t Table) firstMatch(hosts []string, req *http.Request, trace string, pick picker, match matcher) *Target {\n\tfor _, h := range hosts {\n\t\ttarget := t.lookup(h, req.URL.Path, trace, pick, match)\n\t\tif target == nil {\n\t\t\tcontinue\n\t\t}\n\t\tif target.RedirectCode == 0 {\n\t\t\treturn target\n\t\t}\n\t\treq.URL.Host = req.Host\n\t\tredirect := *target\n\t\tredirect.BuildRedirectURL(req.URL)\n\t\tloc := redirect.RedirectURL\n\t\tif " + cmp + " {\n\t\t\tlog.Print(\"[INFO] Skipping redirect with same scheme, host and path\")\n" + onSelf + "\t\t}\n\t\treturn &redirect\n\t}\n\treturn nil\n}\n\n" + c13lookupHostDecl}}
}

const c13selfCmp = "loc.Scheme == req.Header.Get(\"X-Forwarded-Proto\") && loc.Host == req.Host && loc.Path == req.URL.Path"

// c13cloneURL: a cloning helper of the builder; guard is its first statement(s).
func c13cloneURL(guard string) []repl {
	return []repl{{c13builderDecl, "func cloneURL(u *url.URL) *url.URL {\n" + guard + "\tc := *u\n\treturn &c\n}\n\n" + c13builderDecl}}
}

var c13round5Mutants = []mutant{
	// ---- the substitution done by a helper that is handed the variable ----
	{Name: "benign: $path / $host substituted by a hand-written replaceFirst on strings.Index", File: c13tgt, Old: c13builderDecl, New: c13replaceFirst + c13builderDecl,
		More: []repl{
			{c13slashRepl, "\t\tt.RedirectURL.Path = replaceFirst(t.RedirectURL.Path, \"/$path\", \"$path\")\n\t\tt.RedirectURL.RawPath = replaceFirst(t.RedirectURL.RawPath, \"/$path\", \"$path\")\n"},
			{c13pathRepl, "\t\tt.RedirectURL.Path = replaceFirst(t.RedirectURL.Path, \"$path\", replacePath)\n\t\tt.RedirectURL.RawPath = replaceFirst(t.RedirectURL.RawPath, \"$path\", replaceRawPath)\n"},
			{c13hostRepl, "\t\tt.RedirectURL.Host = replaceFirst(t.RedirectURL.Host, \"$host\", requestURL.Host)\n"},
		}, Expect: ""},
	{Name: "replaceFirst helper: $path from the target's own URL", File: c13tgt, Old: c13builderDecl, New: c13replaceFirst + c13builderDecl,
		More: []repl{
			{c13pathRepl, "\t\tt.RedirectURL.Path = replaceFirst(t.RedirectURL.Path, \"$path\", t.URL.Path)\n\t\tt.RedirectURL.RawPath = replaceFirst(t.RedirectURL.RawPath, \"$path\", replaceRawPath)\n"},
			{c13hostRepl, "\t\tt.RedirectURL.Host = replaceFirst(t.RedirectURL.Host, \"$host\", requestURL.Host)\n"},
		}, Expect: "C13.P1"},
	{Name: "replaceFirst helper: $host from the target", File: c13tgt, Old: c13builderDecl, New: c13replaceFirst + c13builderDecl,
		More: []repl{
			{c13pathRepl, "\t\tt.RedirectURL.Path = replaceFirst(t.RedirectURL.Path, \"$path\", replacePath)\n\t\tt.RedirectURL.RawPath = replaceFirst(t.RedirectURL.RawPath, \"$path\", replaceRawPath)\n"},
			{c13hostRepl, "\t\tt.RedirectURL.Host = replaceFirst(t.RedirectURL.Host, \"$host\", t.URL.Host)\n"},
		}, Expect: "C13.P1"},
	{Name: "replaceFirst helper: substitution in Path only", File: c13tgt, Old: c13builderDecl, New: c13replaceFirst + c13builderDecl,
		More: []repl{
			{c13pathRepl, "\t\tt.RedirectURL.Path = replaceFirst(t.RedirectURL.Path, \"$path\", replacePath)\n\t\t_ = replaceRawPath\n"},
		}, Expect: "C13.E3"},
	{Name: "replaceFirst helper: the caller hands the builder a URL rebuilt without RawPath", File: c13tgt, Old: c13builderDecl, New: c13replaceFirst + c13builderDecl,
		More: []repl{
			{c13pathRepl, "\t\tt.RedirectURL.Path = replaceFirst(t.RedirectURL.Path, \"$path\", replacePath)\n\t\tt.RedirectURL.RawPath = replaceFirst(t.RedirectURL.RawPath, \"$path\", replaceRawPath)\n"},
			{"\t\treplacePath := requestURL.Path\n", "\t\trequestURL = &url.URL{Host: requestURL.Host, Path: requestURL.Path, RawQuery: requestURL.RawQuery}\n\t\treplacePath := requestURL.Path\n"},
		}, Expect: "C13.E2"},
	{Name: "benign: $path substituted through a closure of the builder", File: c13tgt, Old: c13pathRepl,
		New: "\t\tsubst := func(s, v string) string { return strings.Replace(s, \"$path\", v, 1) }\n\t\tt.RedirectURL.Path = subst(t.RedirectURL.Path, replacePath)\n\t\tt.RedirectURL.RawPath = subst(t.RedirectURL.RawPath, replaceRawPath)\n", Expect: ""},
	{Name: "closure substitutes $path with the target's path", File: c13tgt, Old: c13pathRepl,
		New: "\t\tsubst := func(s, v string) string { return strings.Replace(s, \"$path\", v, 1) }\n\t\tt.RedirectURL.Path = subst(t.RedirectURL.Path, t.URL.Path)\n\t\tt.RedirectURL.RawPath = subst(t.RedirectURL.RawPath, t.URL.Path)\n\t\t_, _ = replacePath, replaceRawPath\n", Expect: "C13.P1"},
	{Name: "benign: the variables as typed constants, substitution through a method of the type", File: c13tgt, Old: c13builderDecl,
		New: "type tmplVar string\n\nconst (\n\tpathVar tmplVar = \"$path\"\n\thostVar tmplVar = \"$host\"\n)\n\nfunc (v tmplVar) expand(s, value string) string {\n\treturn strings.Replace(s, string(v), value, 1)\n}\n\n" + c13builderDecl,
		More: []repl{
			{c13pathRepl, "\t\tt.RedirectURL.Path = pathVar.expand(t.RedirectURL.Path, replacePath)\n\t\tt.RedirectURL.RawPath = pathVar.expand(t.RedirectURL.RawPath, replaceRawPath)\n"},
			{c13hostRepl, "\t\tt.RedirectURL.Host = hostVar.expand(t.RedirectURL.Host, requestURL.Host)\n"},
		}, Expect: ""},

	{Name: "benign: the variable names as package-level variables", File: c13tgt, Old: c13builderDecl,
		New: "var (\n\tpathVariable = \"$path\"\n\thostVariable = \"$host\"\n)\n\n" + c13builderDecl,
		More: []repl{
			{c13pathRepl, "\t\tt.RedirectURL.Path = strings.Replace(t.RedirectURL.Path, pathVariable, replacePath, 1)\n\t\tt.RedirectURL.RawPath = strings.Replace(t.RedirectURL.RawPath, pathVariable, replaceRawPath, 1)\n"},
			{c13hostRepl, "\t\tt.RedirectURL.Host = strings.Replace(t.RedirectURL.Host, hostVariable, requestURL.Host, 1)\n"},
		}, Expect: ""},
	{Name: "package-level variable names: $host from the target", File: c13tgt, Old: c13builderDecl,
		New: "var (\n\tpathVariable = \"$path\"\n\thostVariable = \"$host\"\n)\n\n" + c13builderDecl,
		More: []repl{
			{c13pathRepl, "\t\tt.RedirectURL.Path = strings.Replace(t.RedirectURL.Path, pathVariable, replacePath, 1)\n\t\tt.RedirectURL.RawPath = strings.Replace(t.RedirectURL.RawPath, pathVariable, replaceRawPath, 1)\n"},
			{c13hostRepl, "\t\tt.RedirectURL.Host = strings.Replace(t.RedirectURL.Host, hostVariable, t.URL.Host, 1)\n"},
		}, Expect: "C13.P1"},
	{Name: "benign: both replacement paths computed by one helper with two results", File: c13tgt, Old: c13replPaths,
		New:  "\t\treplacePath, replaceRawPath := replacementPaths(requestURL, t.StripPath, t.PrependPath)\n",
		More: []repl{{c13builderDecl, c13replPathsHelper("prepend + strings.TrimPrefix(p, strip)", "prepend + strings.TrimPrefix(rp, strip)") + c13builderDecl}}, Expect: ""},
	{Name: "two-result helper prepends before it strips", File: c13tgt, Old: c13replPaths,
		New:  "\t\treplacePath, replaceRawPath := replacementPaths(requestURL, t.StripPath, t.PrependPath)\n",
		More: []repl{{c13builderDecl, c13replPathsHelper("strings.TrimPrefix(prepend+p, strip)", "strings.TrimPrefix(prepend+rp, strip)") + c13builderDecl}}, Expect: "C13.P1"},
	{Name: "benign: the location built in a local and stored into the target at the end", File: c13tgt, Old: "t.RedirectURL.", New: "loc.", All: true,
		More: []repl{{"\tt.RedirectURL = &url.URL{\n", "\tloc := &url.URL{\n"}, {"requestURL.Host, 1)\n\t}\n}\n", "requestURL.Host, 1)\n\t}\n\tt.RedirectURL = loc\n}\n"}}, Expect: ""},
	{Name: "location in a local: $path substituted in Path only", File: c13tgt, Old: "t.RedirectURL.", New: "loc.", All: true,
		More: []repl{{"\tt.RedirectURL = &url.URL{\n", "\tloc := &url.URL{\n"}, {"requestURL.Host, 1)\n\t}\n}\n", "requestURL.Host, 1)\n\t}\n\tt.RedirectURL = loc\n}\n"},
			{"\t\tloc.RawPath = strings.Replace(loc.RawPath, \"$path\", replaceRawPath, 1)\n", "\t\t_ = replaceRawPath\n"}}, Expect: "C13.E3"},
	{Name: "location in a local: the request's query always copied", File: c13tgt, Old: "t.RedirectURL.", New: "loc.", All: true,
		More: []repl{{"\tt.RedirectURL = &url.URL{\n", "\tloc := &url.URL{\n"}, {"requestURL.Host, 1)\n\t}\n}\n", "requestURL.Host, 1)\n\t}\n\tt.RedirectURL = loc\n}\n"},
			{"if loc.RawQuery == \"\" && requestURL.RawQuery != \"\" {", "if requestURL.RawQuery != \"\" {"}}, Expect: "C13.P1"},

	// ---- E3: shapes of the Path / RawPath pair ----
	{Name: "benign: the empty-path default through a local", File: c13tgt, Old: c13pathDefault,
		New: "\tp := t.RedirectURL.Path\n\tif p == \"\" {\n\t\tp = \"/\"\n\t}\n\tt.RedirectURL.Path = p\n", Expect: ""},
	{Name: "benign: Path and RawPath set by a helper that takes the pair", File: c13tgt, Old: c13builderDecl,
		New: "func setPaths(u *url.URL, path, rawPath string) {\n\tu.Path = path\n\tu.RawPath = rawPath\n}\n\n" + c13builderDecl,
		More: []repl{
			{"\t\tt.RedirectURL.Path = \"$path\"\n\t\tt.RedirectURL.RawPath = \"$path\"\n", "\t\tsetPaths(t.RedirectURL, \"$path\", \"$path\")\n"},
			{c13pathRepl, "\t\tsetPaths(t.RedirectURL, strings.Replace(t.RedirectURL.Path, \"$path\", replacePath, 1), strings.Replace(t.RedirectURL.RawPath, \"$path\", replaceRawPath, 1))\n"},
		}, Expect: ""},
	{Name: "a helper sets the Path of the location only", File: c13tgt, Old: c13builderDecl,
		New: "func setPath(u *url.URL, path string) {\n\tu.Path = path\n}\n\n" + c13builderDecl,
		More: []repl{
			{"\t\tt.RedirectURL.Path = \"$path\"\n\t\tt.RedirectURL.RawPath = \"$path\"\n", "\t\tsetPath(t.RedirectURL, \"$path\")\n"},
		}, Expect: "C13.E3"},

	// ---- L1 / L2: the host loop split off, nothing carried round the loop ----
	{Name: "benign: host loop in a helper that declares the target inside the loop", File: c13tbl, Old: c13hostLoop,
		New: "\ttarget = t.firstMatch(hosts, req, trace, pick, match)\n", More: c13firstMatch(c13selfCmp, "\t\t\tcontinue\n"), Expect: ""},
	{Name: "host loop helper: the self-redirect is logged but returned", File: c13tbl, Old: c13hostLoop,
		New: "\ttarget = t.firstMatch(hosts, req, trace, pick, match)\n", More: c13firstMatch(c13selfCmp, ""), Expect: "C13.L1"},
	{Name: "host loop helper: self-redirect test without the path", File: c13tbl, Old: c13hostLoop,
		New: "\ttarget = t.firstMatch(hosts, req, trace, pick, match)\n", More: c13firstMatch("loc.Scheme == req.Header.Get(\"X-Forwarded-Proto\") && loc.Host == req.Host", "\t\t\tcontinue\n"), Expect: "C13.L2"},
	{Name: "benign: self-redirect test in a closure of Lookup", File: c13tbl,
		Old:  "\t\t\t\tif target.RedirectURL.Scheme == req.Header.Get(\"X-Forwarded-Proto\") &&\n\t\t\t\t\ttarget.RedirectURL.Host == req.Host &&\n\t\t\t\t\ttarget.RedirectURL.Path == req.URL.Path {\n",
		New:  "\t\t\t\tif pointsBack(target.RedirectURL) {\n",
		More: []repl{{"\thosts = append(hosts, \"\")\n", "\thosts = append(hosts, \"\")\n\tpointsBack := func(loc *url.URL) bool {\n\t\treturn loc.Scheme == req.Header.Get(\"X-Forwarded-Proto\") && loc.Host == req.Host && loc.Path == req.URL.Path\n\t}\n"}}, Expect: ""},

	// ---- R1: a cloning helper in front of the builder's own edits ----
	{Name: "benign: the builder edits a clone made by a helper with a nil guard that returns its argument", File: c13tgt,
		Old: "\t\treplacePath := requestURL.Path\n", New: "\t\tru := cloneURL(requestURL)\n\t\tru.Host = requestURL.Host\n\t\tru.RawQuery = \"\"\n\t\treplacePath := ru.Path\n",
		More: c13cloneURL("\tif u == nil {\n\t\treturn u\n\t}\n"), Expect: ""},
	{Name: "the 'clone' helper hands back the request's URL itself, the builder strips it in place", File: c13tgt,
		Old: "\t\treplacePath := requestURL.Path\n", New: "\t\tru := cloneURL(requestURL)\n\t\tru.Path = strings.TrimPrefix(ru.Path, t.StripPath)\n\t\treplacePath := ru.Path\n",
		More: c13cloneURL("\tif u.RawPath == \"\" {\n\t\treturn u\n\t}\n"), Expect: "C13.R1"},

	// ---- C1 / C2: spelling of the range check, request-time test through a helper ----
	{Name: "benign: range check by the hundreds digit", File: c13rt, Old: "t.RedirectCode < 300 || t.RedirectCode > 399", New: "t.RedirectCode/100 != 3", Expect: ""},
	{Name: "benign: parsed code stored only when its hundreds digit is 3", File: c13rt, Old: c13parseBlock,
		New: "\t\t\tif code, err := strconv.Atoi(opts[\"redirect\"]); err == nil && code/100 == 3 {\n\t\t\t\tt.RedirectCode = code\n\t\t\t} else {\n\t\t\t\tlog.Printf(\"[ERROR] redirect status code should be numeric in 3xx range. Got: %s\", opts[\"redirect\"])\n\t\t\t}\n", Expect: ""},
	{Name: "range check by the tens: only 300-309 accepted", File: c13rt, Old: "t.RedirectCode < 300 || t.RedirectCode > 399", New: "t.RedirectCode/10 != 30", Expect: "C13.C2"},
	{Name: "range check by the hundreds digit, wrong digit", File: c13rt, Old: "t.RedirectCode < 300 || t.RedirectCode > 399", New: "t.RedirectCode/100 != 4", Expect: "C13.C1"},
	{Name: "benign: Lookup tests the code through a predicate helper on the value", File: c13tbl, Old: "\t\t\tif target.RedirectCode != 0 {\n",
		New: "\t\t\tif isRedirectCode(target.RedirectCode) {\n", More: []repl{{c13lookupHostDecl, "func isRedirectCode(code int) bool {\n\treturn code != 0\n}\n\n" + c13lookupHostDecl}}, Expect: ""},
	{Name: "predicate helper on the code value accepts only the codes net/http names", File: c13tbl, Old: "\t\t\tif target.RedirectCode != 0 {\n",
		New: "\t\t\tif isRedirectCode(target.RedirectCode) {\n", More: []repl{{c13lookupHostDecl, "func isRedirectCode(code int) bool {\n\treturn code >= 300 && code <= 308\n}\n\n" + c13lookupHostDecl}}, Expect: "C13.C2"},
}
