package main

// Overlay mutants of C02 added in hardening round 3: refactorings of kinds the benign corpus does not hold (Expect "")
// and the breaks of the property in the same shapes, which the rewritten rules must still report.

import "strings"

// the two table constructors as they stand in route/table.go
const c02ctorsOld = `func NewTable(b *bytes.Buffer) (t Table, err error) {
	defs, err := Parse(b)
	if err != nil {
		return nil, err
	}

	t = make(Table)
	for _, d := range defs {
		switch d.Cmd {
		case RouteAddCmd:
			err = t.addRoute(d)
		case RouteDelCmd:
			err = t.delRoute(d)
		case RouteWeightCmd:
			err = t.weighRoute(d)
		default:
			err = fmt.Errorf("route: invalid command: %s", d.Cmd)
		}
		if err != nil {
			return nil, err
		}
	}

	// Sort the route table for each hostname
	for _, h := range t {
		sort.Sort(h)
	}

	return t, nil
}

func NewTableCustom(defs *[]RouteDef) (t Table, err error) {
	if defs == nil {
		return nil, errors.New("route: no route definitions")
	}

	t = make(Table)
	for _, d := range *defs {
		switch d.Cmd {
		case RouteAddCmd:
			err = t.addRoute(&d)
		case RouteDelCmd:
			err = t.delRoute(&d)
		case RouteWeightCmd:
			err = t.weighRoute(&d)
		default:
			err = fmt.Errorf("route: invalid command: %s", d.Cmd)
		}
		if err != nil {
			return nil, err
		}
	}

	// Sort the route table for each hostname
	for _, h := range t {
		sort.Sort(h)
	}

	return t, nil
}
`

// both constructors hand a sequence of definitions to one builder that ranges over it (range-over-func): the
// `return nil, err` stands in the loop body, which go/ssa compiles into a synthetic function literal
const c02ctorsSeq = `func NewTable(b *bytes.Buffer) (Table, error) {
	defs, err := Parse(b)
	if err != nil {
		return nil, err
	}
	return tableOf(func(yield func(*RouteDef) bool) {
		for _, d := range defs {
			if !yield(d) {
				return
			}
		}
	})
}

func NewTableCustom(defs *[]RouteDef) (Table, error) {
	if defs == nil {
		return nil, errors.New("route: no route definitions")
	}
	return tableOf(func(yield func(*RouteDef) bool) {
		for _, d := range *defs {
			if !yield(&d) {
				return
			}
		}
	})
}

func tableOf(defs func(yield func(*RouteDef) bool)) (Table, error) {
	t := make(Table)
	for d := range defs {
		var err error
		switch d.Cmd {
		case RouteAddCmd:
			err = t.addRoute(d)
		case RouteDelCmd:
			err = t.delRoute(d)
		case RouteWeightCmd:
			err = t.weighRoute(d)
		default:
			err = fmt.Errorf("route: invalid command: %s", d.Cmd)
		}
		if err != nil {
			return nil, err
		}
	}
	for _, h := range t {
		sort.Sort(h)
	}
	return t, nil
}
`

// the text constructor keeps its loop; a helper returns what it built so far together with the error and the
// constructor drops the table on the error path by assignment
const c02ctorsDrop = `func NewTable(b *bytes.Buffer) (Table, error) {
	defs, err := Parse(b)
	if err != nil {
		return nil, err
	}
	t, err := apply(defs)
	if err != nil {
		t = nil
	}
	return t, err
}

func apply(defs []*RouteDef) (Table, error) {
	t := make(Table)
	for _, d := range defs {
		var err error
		switch d.Cmd {
		case RouteAddCmd:
			err = t.addRoute(d)
		case RouteDelCmd:
			err = t.delRoute(d)
		case RouteWeightCmd:
			err = t.weighRoute(d)
		default:
			err = fmt.Errorf("route: invalid command: %s", d.Cmd)
		}
		if err != nil {
			return t, err
		}
	}
	for _, h := range t {
		sort.Sort(h)
	}
	return t, nil
}
`

func c02ctorsTail() string {
	return c02ctorsOld[strings.Index(c02ctorsOld, "func NewTableCustom("):]
}

const c02deferOld = "func NewTable(b *bytes.Buffer) (t Table, err error) {\n\tdefs, err := Parse(b)\n"

const c02nilTestOld = "\tif defs == nil {\n\t\treturn nil, errors.New(\"route: no route definitions\")\n\t}\n"

// GlobCache with the LRU ring moved into an embedded type: the capacity test stays in Get (through an accessor), the
// modulus moves into the ring's method
const c02ringOld = `	// if the LRU buffer is not full just append
	// the element to the buffer.
	if c.n < len(c.l) {
		c.m.Store(pattern, glbCompiled)
		c.l[c.n] = pattern
		c.n++
		return glbCompiled, nil
	}

	// otherwise, remove the oldest element and move
	// the head. Note that once the buffer is full
	// (c.n == len(c.l)) it will never become smaller
	// again.
	// TODO add logging for cache full - How will this impact performance
	c.m.Delete(c.l[c.h])
	c.m.Store(pattern, glbCompiled)
	c.l[c.h] = pattern
	c.h = (c.h + 1) % len(c.l)
	return glbCompiled, nil
}
`

const c02ringNew = `	if old, full := c.put(pattern); full {
		c.m.Delete(old)
	}
	c.m.Store(pattern, glbCompiled)
	return glbCompiled, nil
}

type lruRing struct {
	l []string
	h int
	n int
}

func (r *lruRing) size() int { return len(r.l) }

func (r *lruRing) put(pattern string) (old string, full bool) {
	if r.n < len(r.l) {
		r.l[r.n] = pattern
		r.n++
		return "", false
	}
	old = r.l[r.h]
	r.l[r.h] = pattern
	r.h = (r.h + 1) % len(r.l)
	return old, true
}
`

var c02ringMore = []repl{
	{"\t// l contains the added patterns and serves as an LRU cache.\n\t// l has a fixed size and is initialized in the constructor.\n\tl []string\n\n\t// h is the first element in l.\n\th int\n\n\t// n is the number of elements in l.\n\tn int\n", "\tlruRing\n"},
	{"\treturn &GlobCache{\n\t\tl: make([]string, size),\n\t}\n", "\tc := &GlobCache{}\n\tc.l = make([]string, size)\n\treturn c\n"},
}

const c02ringGuardOld = "\tif len(c.l) == 0 {\n\t\treturn glbCompiled, nil\n\t}\n"

// the update loop's state in a struct that keeps the buffer BY VALUE (every u.buf.M() computes &u.buf anew)
const c02updLoopOld = `			tableBuffer.Reset()
			tableBuffer.WriteString(svccfg)
			tableBuffer.WriteString("\n")
			tableBuffer.WriteString(mancfg)
			// set nextTable here to preserve the state.  The buffer is altered
			// when calling route.NewTable and we lose change logging (#737)
			if nextTable = tableBuffer.String(); nextTable == lastTable {
				continue
			}
			aliases, err := route.ParseAliases(nextTable)
			if err != nil {
				log.Printf("[WARN]: %s", err)
			}
			registry.Default.Register(aliases)
			t, err := route.NewTable(tableBuffer)
			if err != nil {
				log.Printf("[WARN] %s", err)
				continue
			}
			route.SetTable(t)
			logRoutes(t, lastTable, nextTable, cfg.Log.RoutesFormat)
			lastTable = nextTable
			once.Do(func() { close(first) })
`

const c02updLoopNew = `			if upd.apply(cfg, svccfg, mancfg) {
				once.Do(func() { close(first) })
			}
`

const c02updType = `type tableUpdater struct {
	buf  bytes.Buffer
	last string
}

func (u *tableUpdater) apply(cfg *config.Config, svccfg, mancfg string) bool {
	u.buf.Reset()
	u.buf.WriteString(svccfg)
	u.buf.WriteString("\n")
	u.buf.WriteString(mancfg)
	next := u.buf.String()
	if next == u.last {
		return false
	}
	aliases, err := route.ParseAliases(next)
	if err != nil {
		log.Printf("[WARN]: %s", err)
	}
	registry.Default.Register(aliases)
	t, err := route.NewTable(&u.buf)
	if err != nil {
		log.Printf("[WARN] %s", err)
		return false
	}
	route.SetTable(t)
	logRoutes(t, u.last, next, cfg.Log.RoutesFormat)
	u.last = next
	return true
}

func watchNoRouteHTML(cfg *config.Config) {`

func c02updMore(typ string) []repl {
	return []repl{
		{"\t\tnextTable   string\n\t\tlastTable   string\n", ""},
		{"\t\ttableBuffer = new(bytes.Buffer) // fix crash on reset before used (#650)\n", "\t\tupd         tableUpdater\n"},
		{"func watchNoRouteHTML(cfg *config.Config) {", typ},
	}
}

// addRoute: the route literal first, its Glob assigned together with the compile error, which is tested next
const c02globOld1 = "\t\tg, err := glob.Compile(path)\n\t\tif err != nil {\n\t\t\treturn err\n\t\t}\n\t\tr := &Route{Host: host, Path: path, Glob: g}\n\t\tr.addTarget(d.Service, targetURL, d.Weight, d.Tags, d.Opts)\n\t\tt[host] = Routes{r}\n"
const c02globOld2 = "\t\tg, err := glob.Compile(path)\n\t\tif err != nil {\n\t\t\treturn err\n\t\t}\n\t\tr := &Route{Host: host, Path: path, Glob: g}\n\t\tr.addTarget(d.Service, targetURL, d.Weight, d.Tags, d.Opts)\n\t\tt[host] = append(t[host], r)\n"

func c02globNew(onErr, tail string) string {
	return "\t\tr := &Route{Host: host, Path: path}\n\t\tif r.Glob, err = glob.Compile(path); err != nil {\n\t\t\t" + onErr + "\n\t\t}\n\t\tr.addTarget(d.Service, targetURL, d.Weight, d.Tags, d.Opts)\n\t\t" + tail + "\n"
}

var c02round3Mutants = []mutant{
	// ---- L2 / P8: shapes of the constructors
	{Name: "benign: both constructors hand an iterator to one builder that ranges over it (range-over-func)", File: "route/table.go", Old: c02ctorsOld, New: c02ctorsSeq, Expect: ""},
	{Name: "range-over-func builder returns the partial table from inside the loop body", File: "route/table.go", Old: c02ctorsOld, New: strings.Replace(c02ctorsSeq, "\t\t\treturn nil, err\n\t\t}\n\t}\n\tfor _, h := range t {", "\t\t\treturn t, err\n\t\t}\n\t}\n\tfor _, h := range t {", 1), Expect: "C02.L2"},
	{Name: "iterator literal dereferences the definition list, nil test deleted", File: "route/table.go", Old: c02ctorsOld, New: strings.Replace(c02ctorsSeq, c02nilTestOld, "", 1), Expect: "C02.P8"},
	{Name: "benign: helper returns what it built with the error, the constructor drops it by assignment", File: "route/table.go", Old: c02ctorsOld, New: c02ctorsDrop + "\n" + c02ctorsTail(), Expect: ""},
	{Name: "helper returns what it built with the error and the constructor hands it on", File: "route/table.go", Old: c02ctorsOld, New: strings.Replace(c02ctorsDrop, "\tif err != nil {\n\t\tt = nil\n\t}\n\treturn t, err\n", "\treturn t, err\n", 1) + "\n" + c02ctorsTail(), Expect: "C02.L2"},
	{Name: "benign: deferred literal decorates the constructor's error (results travel through captured variables)", File: "route/table.go", Old: c02deferOld, New: "func NewTable(b *bytes.Buffer) (t Table, err error) {\n\tdefer func() {\n\t\tif err != nil {\n\t\t\terr = fmt.Errorf(\"route: %w\", err)\n\t\t}\n\t}()\n\tdefs, err := Parse(b)\n", Expect: ""},
	{Name: "deferred literal hands back an empty table with the error", File: "route/table.go", Old: c02deferOld, New: "func NewTable(b *bytes.Buffer) (t Table, err error) {\n\tdefer func() {\n\t\tif err != nil {\n\t\t\tt = make(Table)\n\t\t}\n\t}()\n\tdefs, err := Parse(b)\n", Expect: "C02.L2"},
	{Name: "benign: nil test of the definition list in a predicate helper", File: "route/table.go", Old: c02nilTestOld, New: "\tif missing(defs) {\n\t\treturn nil, errors.New(\"route: no route definitions\")\n\t}\n", Expect: "",
		More: []repl{{"func NewTableCustom(", "func missing(defs *[]RouteDef) bool {\n\treturn defs == nil\n}\n\nfunc NewTableCustom("}}},
	{Name: "predicate helper for the definition list forgets the nil test", File: "route/table.go", Old: c02nilTestOld, New: "\tif missing(defs) {\n\t\treturn nil, errors.New(\"route: no route definitions\")\n\t}\n", Expect: "C02.P8",
		More: []repl{{"func NewTableCustom(", "func missing(defs *[]RouteDef) bool {\n\treturn defs != nil && cap(*defs) < 0\n}\n\nfunc NewTableCustom("}}},

	// ---- P3: guard in the caller through an accessor, modulus in a method of an embedded type
	{Name: "benign: LRU ring of the glob cache in an embedded type, capacity tested through an accessor", File: "route/glob_cache.go", Old: c02ringOld, New: c02ringNew, Expect: "",
		More: append([]repl{{c02ringGuardOld, "\tif c.size() == 0 {\n\t\treturn glbCompiled, nil\n\t}\n"}}, c02ringMore...)},
	{Name: "LRU ring in an embedded type, capacity test dropped", File: "route/glob_cache.go", Old: c02ringOld, New: c02ringNew, Expect: "C02.P3",
		More: append([]repl{{c02ringGuardOld, ""}}, c02ringMore...)},

	// ---- L5: how the buffer is kept and emptied
	{Name: "benign: update loop state in a struct that keeps the buffer by value", File: "main.go", Old: c02updLoopOld, New: c02updLoopNew, Expect: "", More: c02updMore(c02updType)},
	{Name: "struct keeps the buffer by value, the update method never empties it", File: "main.go", Old: c02updLoopOld, New: c02updLoopNew, Expect: "C02.L5", More: c02updMore(strings.Replace(c02updType, "\tu.buf.Reset()\n", "", 1))},
	{Name: "benign: buffer emptied by assigning the zero value", File: "main.go", Old: "\t\t\ttableBuffer.Reset()\n", New: "\t\t\t*tableBuffer = bytes.Buffer{}\n", Expect: ""},
	{Name: "buffer assigned the zero value only when there is a service text", File: "main.go", Old: "\t\t\ttableBuffer.Reset()\n", New: "\t\t\tif svccfg != \"\" {\n\t\t\t\t*tableBuffer = bytes.Buffer{}\n\t\t\t}\n", Expect: "C02.L5"},
	{Name: "benign: buffer declared as a value, its address handed to the constructor", File: "main.go", Old: "\t\ttableBuffer = new(bytes.Buffer) // fix crash on reset before used (#650)\n", New: "\t\ttableBuffer bytes.Buffer\n", Expect: "",
		More: []repl{{"route.NewTable(tableBuffer)", "route.NewTable(&tableBuffer)"}}},

	// ---- P9: field assigned first, error tested next
	{Name: "benign: route literal first, Glob assigned with the compile error that is tested next", File: "route/table.go", Old: c02globOld1, New: c02globNew("return err", "t[host] = Routes{r}"), Expect: "",
		More: []repl{{c02globOld2, c02globNew("return err", "t[host] = append(t[host], r)")}}},
	{Name: "Glob assigned with the compile error, which is only logged", File: "route/table.go", Old: c02globOld1, New: c02globNew("log.Printf(\"[WARN] route: %s\", err)", "t[host] = Routes{r}"), Expect: "C02.P9",
		More: []repl{{c02globOld2, c02globNew("return err", "t[host] = append(t[host], r)")}}},

	// ---- L4: the constructor's error examined by a predicate helper
	{Name: "benign: constructor error examined by a logging predicate helper", File: "main.go", Old: c02warnOld, New: "\t\t\tt, err := route.NewTable(tableBuffer)\n\t\t\tif warn(err) {\n\t\t\t\tcontinue\n\t\t\t}\n", Expect: "",
		More: []repl{{"func watchNoRouteHTML(cfg *config.Config) {", "func warn(err error) bool {\n\tif err == nil {\n\t\treturn false\n\t}\n\tlog.Printf(\"[WARN] %s\", err)\n\treturn true\n}\n\nfunc watchNoRouteHTML(cfg *config.Config) {"}}},
	{Name: "logging predicate helper reports nothing, the rejected text is remembered", File: "main.go", Old: c02warnOld, New: "\t\t\tt, err := route.NewTable(tableBuffer)\n\t\t\tif warn(err) {\n\t\t\t\tcontinue\n\t\t\t}\n", Expect: "C02.L4",
		More: []repl{{"func watchNoRouteHTML(cfg *config.Config) {", "func warn(err error) bool {\n\tif err == nil {\n\t\treturn false\n\t}\n\tlog.Printf(\"[WARN] %s\", err)\n\treturn false\n}\n\nfunc watchNoRouteHTML(cfg *config.Config) {"}}},

	// ---- P3: divisor is a field of a value receiver, guard is a predicate method at the call site
	{Name: "benign: slot type with step and empty methods", File: "route/route.go", Old: "type byN []struct{ i, n int }", New: c02slotType + "func (s slotCount) empty() bool { return s.n <= 0 }\n\ntype byN []slotCount", Expect: "",
		More: []repl{{c02stepOld, "\t\tif s.empty() {\n\t\t\tcontinue\n\t\t}\n\n\t\tnext, step := 0, s.step(usedSlots)\n"}}},
	{Name: "slot type with a step method, empty slots no longer skipped", File: "route/route.go", Old: "type byN []struct{ i, n int }", New: c02slotType + "type byN []slotCount", Expect: "C02.P3",
		More: []repl{{c02stepOld, "\t\tnext, step := 0, s.step(usedSlots)\n"}}},
	// ---- P10: the region continues through the body of a range-over-func loop
	{Name: "range-over-func builder, package-level glob cache without a lock", File: "route/table.go", Old: "g, err := glob.Compile(path)", New: "g, err := compilePath(path)", All: true, Expect: "C02.P10",
		More: []repl{{c02ctorsOld, c02ctorsSeq}, {"// addRoute adds a new route prefix -> target for the given service.\n", "var pathGlobs = map[string]glob.Glob{}\n\nfunc compilePath(path string) (glob.Glob, error) {\n\tif g, ok := pathGlobs[path]; ok {\n\t\treturn g, nil\n\t}\n\tg, err := glob.Compile(path)\n\tif err != nil {\n\t\treturn nil, err\n\t}\n\tpathGlobs[path] = g\n\treturn g, nil\n}\n\n// addRoute adds a new route prefix -> target for the given service.\n"}}},
}

const c02warnOld = "\t\t\tt, err := route.NewTable(tableBuffer)\n\t\t\tif err != nil {\n\t\t\t\tlog.Printf(\"[WARN] %s\", err)\n\t\t\t\tcontinue\n\t\t\t}\n"
const c02slotType = "type slotCount struct{ i, n int }\n\nfunc (s slotCount) step(total int) int { return total / s.n }\n\n"
const c02stepOld = "\t\tif s.n <= 0 {\n\t\t\tcontinue\n\t\t}\n\n\t\tnext, step := 0, usedSlots/s.n\n"
