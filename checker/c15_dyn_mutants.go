package main

// Overlay mutants of C15 added in hardening round 3: fallback sources behind an interface / in a list of lookup
// functions (the precedence is the order of the list), table-driven flag registration, struct-typed flag.Value,
// properties applied by ranging over their map.

import "strings"

// the body of ParseFlags after the command line has been parsed
const c15pfBody = `	if len(prefixes) == 0 {
		prefixes = []string{""}
	}

	// parse environment in case-insensitive way
	env := map[string]string{}
	for _, e := range environ {
		p := strings.SplitN(e, "=", 2)
		if len(p) != 2 {
			// ignore entries without a value
			continue
		}
		env[strings.ToUpper(p[0])] = p[1]
	}

	// determine all values that were set via cmdline
	f.Visit(func(fl *flag.Flag) {
		f.set[fl.Name] = true
	})

	// lookup the rest via environ and properties
	f.VisitAll(func(fl *flag.Flag) {
		// skip if already set
		if f.set[fl.Name] {
			return
		}

		// check environment variables
		for _, pfx := range prefixes {
			name := strings.ToUpper(pfx + strings.Replace(fl.Name, ".", "_", -1))
			if val, ok := env[name]; ok {
				f.set[fl.Name] = true
				f.Set(fl.Name, val)
				return
			}
		}

		// check properties
		if p == nil {
			return
		}
		if val, ok := p.Get(fl.Name); ok {
			f.set[fl.Name] = true
			f.Set(fl.Name, val)
			return
		}
	})
	return nil
}
`

const c15srcTmpl = `	@BUILD@
	f.Visit(func(fl *flag.Flag) {
		f.set[fl.Name] = true
	})
	f.VisitAll(func(fl *flag.Flag) {
		if f.set[fl.Name] {
			return
		}
@LOOP@
	})
	return nil
}

type lookuper interface {
	Find(name string) (string, bool)
}

type fileVars struct{ p *properties.Properties }

func (s fileVars) Find(name string) (string, bool) { return s.p.Get(name) }

type envVars struct {
	vars     map[string]string
	prefixes []string
}

func readEnv(environ, prefixes []string) envVars {
	if len(prefixes) == 0 {
		prefixes = []string{""}
	}
	vars := map[string]string{}
	for _, e := range environ {
		i := strings.IndexByte(e, '=')
		if i < 0 {
			continue
		}
		vars[strings.ToUpper(e[:i])] = e[i+1:]
	}
	return envVars{vars: vars, prefixes: prefixes}
}

func (s envVars) Find(name string) (string, bool) {
	for _, pfx := range s.prefixes {
		if val, ok := s.vars[@KEY@]; ok {
			return val, true
		}
	}
	return "", false
}

func fallbacks(environ, prefixes []string, p *properties.Properties) []lookuper {
	@LIST@
}
`

const (
	c15srcBuildIface = "sources := fallbacks(environ, prefixes, p)"
	c15srcListOK     = "list := []lookuper{readEnv(environ, prefixes)}\n\tif p != nil {\n\t\tlist = append(list, fileVars{p})\n\t}\n\treturn list"
	c15srcListRev    = "var list []lookuper\n\tif p != nil {\n\t\tlist = append(list, fileVars{p})\n\t}\n\treturn append(list, readEnv(environ, prefixes))"
	c15srcKeyOK      = `strings.ToUpper(pfx+strings.Replace(name, ".", "_", -1))`
	c15srcLoopOK     = "\t\tfor i := 0; i < len(sources); i++ {\n\t\t\tif val, ok := sources[i].Find(fl.Name); ok {\n\t\t\t\tf.set[fl.Name] = true\n\t\t\t\tf.Set(fl.Name, val)\n\t\t\t\treturn\n\t\t\t}\n\t\t}"
	c15srcLoopBack   = "\t\tfor i := len(sources) - 1; i >= 0; i-- {\n\t\t\tif val, ok := sources[i].Find(fl.Name); ok {\n\t\t\t\tf.set[fl.Name] = true\n\t\t\t\tf.Set(fl.Name, val)\n\t\t\t\treturn\n\t\t\t}\n\t\t}"
	c15srcLoopBreak  = "\t\tval, found := \"\", false\n\t\tfor _, src := range sources {\n\t\t\tif val, found = src.Find(fl.Name); found {\n\t\t\t\tbreak\n\t\t\t}\n\t\t}\n\t\tif found {\n\t\t\tf.set[fl.Name] = true\n\t\t\tf.Set(fl.Name, val)\n\t\t}"
	c15srcLoopLast   = "\t\tval, found := \"\", false\n\t\tfor _, src := range sources {\n\t\t\tif v, ok := src.Find(fl.Name); ok {\n\t\t\t\tval, found = v, true\n\t\t\t}\n\t\t}\n\t\tif found {\n\t\t\tf.set[fl.Name] = true\n\t\t\tf.Set(fl.Name, val)\n\t\t}"
	c15srcLoopNoMark = "\t\tfor _, src := range sources {\n\t\t\tif val, ok := src.Find(fl.Name); ok {\n\t\t\t\tf.Set(fl.Name, val)\n\t\t\t\treturn\n\t\t\t}\n\t\t}"
	c15srcLoopEmpty  = "\t\tfor _, src := range sources {\n\t\t\tif val, ok := src.Find(fl.Name); ok && val != \"\" {\n\t\t\t\tf.set[fl.Name] = true\n\t\t\t\tf.Set(fl.Name, val)\n\t\t\t\treturn\n\t\t\t}\n\t\t}"
)

// c15srcList: ParseFlags with its fallback sources behind an interface, taken from a list built by a helper.
func c15srcList(name, list, loop, key, expect string) mutant {
	r := strings.NewReplacer("@BUILD@", c15srcBuildIface, "@LOOP@", loop, "@KEY@", key, "@LIST@", list)
	return mutant{Name: name, File: "config/flagset.go", Old: c15pfBody, New: r.Replace(c15srcTmpl), Expect: expect}
}

// ParseFlags with a list of lookup functions (a closure over the environment map, the method value of the properties)
const c15funcListTmpl = `	if len(prefixes) == 0 {
		prefixes = []string{""}
	}
	env := map[string]string{}
	for _, e := range environ {
		if k, v, ok := strings.Cut(e, "="); ok {
			env[strings.ToUpper(k)] = v
		}
	}
	fromEnv := func(name string) (string, bool) {
		for _, pfx := range prefixes {
			if val, ok := env[strings.ToUpper(pfx+strings.Replace(name, ".", "_", -1))]; ok {
				return val, true
			}
		}
		return "", false
	}
	@LIST@
	f.Visit(func(fl *flag.Flag) {
		f.set[fl.Name] = true
	})
	f.VisitAll(func(fl *flag.Flag) {
		if f.set[fl.Name] {
			return
		}
		for _, lookup := range lookups {
			if val, ok := lookup(fl.Name); ok {
				f.set[fl.Name] = true
				f.Set(fl.Name, val)
				return
			}
		}
	})
	return nil
}
`

func c15funcList(name, list, expect string) mutant {
	return mutant{Name: name, File: "config/flagset.go", Old: c15pfBody, New: strings.Replace(c15funcListTmpl, "@LIST@", list, 1), Expect: expect}
}

const c15fourDurations = `	f.DurationVar(&cfg.Proxy.DialTimeout, "proxy.dialtimeout", defaultConfig.Proxy.DialTimeout, "connection timeout for backend connections")
	f.DurationVar(&cfg.Proxy.ResponseHeaderTimeout, "proxy.responseheadertimeout", defaultConfig.Proxy.ResponseHeaderTimeout, "response header timeout")
	f.DurationVar(&cfg.Proxy.KeepAliveTimeout, "proxy.keepalivetimeout", defaultConfig.Proxy.KeepAliveTimeout, "keep-alive timeout")
	f.DurationVar(&cfg.Proxy.IdleConnTimeout, "proxy.idleconntimeout", defaultConfig.Proxy.IdleConnTimeout, "idle timeout, when to close (keep-alive) connections")
`

// c15durTable: the four upstream timeouts registered from a local table of {pointer, name, default, usage} rows.
func c15durTable(name, row3, expect string) mutant {
	return mutant{Name: name, File: "config/load.go", Old: c15fourDurations, Expect: expect, New: `	for _, o := range []struct {
		p    *time.Duration
		name string
		def  time.Duration
		help string
	}{
		{&cfg.Proxy.DialTimeout, "proxy.dialtimeout", defaultConfig.Proxy.DialTimeout, "connection timeout for backend connections"},
		{&cfg.Proxy.ResponseHeaderTimeout, "proxy.responseheadertimeout", defaultConfig.Proxy.ResponseHeaderTimeout, "response header timeout"},
		` + row3 + `
		{&cfg.Proxy.IdleConnTimeout, "proxy.idleconntimeout", defaultConfig.Proxy.IdleConnTimeout, "idle timeout, when to close (keep-alive) connections"},
	} {
		f.DurationVar(o.p, o.name, o.def, o.help)
	}
`}
}

// c15durPtrTable: the same from a table of pointers to descriptors with accessor functions, walked by index.
func c15durPtrTable(name, acc3, expect string) mutant {
	return mutant{Name: name, File: "config/load.go", Old: c15fourDurations, Expect: expect, New: `	type durOpt struct {
		name, help string
		at         func(*Config) *time.Duration
	}
	durOpts := []*durOpt{
		{name: "proxy.dialtimeout", help: "connection timeout for backend connections", at: func(c *Config) *time.Duration { return &c.Proxy.DialTimeout }},
		{name: "proxy.responseheadertimeout", help: "response header timeout", at: func(c *Config) *time.Duration { return &c.Proxy.ResponseHeaderTimeout }},
		{name: "proxy.keepalivetimeout", help: "keep-alive timeout", at: func(c *Config) *time.Duration { return ` + acc3 + ` }},
		{name: "proxy.idleconntimeout", help: "idle timeout, when to close (keep-alive) connections", at: func(c *Config) *time.Duration { return &c.Proxy.IdleConnTimeout }},
	}
	for i := range durOpts {
		f.DurationVar(durOpts[i].at(cfg), durOpts[i].name, *durOpts[i].at(defaultConfig), durOpts[i].help)
	}
`}
}

const c15stringSliceOld = `type stringSliceValue []string

func newStringSliceValue(val []string, p *[]string) *stringSliceValue {
	*p = val
	return (*stringSliceValue)(p)
}

func (v *stringSliceValue) Set(s string) error {
	*v = []string{}
	for _, x := range strings.Split(s, ",") {
		x = strings.TrimSpace(x)
		if x == "" {
			continue
		}
		*v = append(*v, x)
	}
	return nil
}

func (v *stringSliceValue) Get() interface{} { return []string(*v) }
func (v *stringSliceValue) String() string   { return strings.Join(*v, ",") }
`

const c15floatSetOld = `func (f *floatSliceValue) Set(s string) error {
	*f = []float64{}
	for _, x := range strings.Split(s, ",") {
		x = strings.TrimSpace(x)
		if x == "" {
			continue
		}
		v, err := strconv.ParseFloat(x, 64)
		if err != nil {
			return fmt.Errorf("error parsing float slice value %s: %w", x, err)
		}
		*f = append(*f, v)
	}
	return nil
}
`

// c15genericSlice: both slice-valued flag.Value types replaced by one generic struct type (reset = how Set starts).
func c15genericSlice(name, reset, expect string) mutant {
	return mutant{Name: name, File: "config/flagset.go", Expect: expect, Old: c15stringSliceOld, New: `type sliceValue[T any] struct {
	dst   *[]T
	parse func(string) (T, error)
}

func (v *sliceValue[T]) Set(s string) error {
	out := ` + reset + `
	for _, x := range strings.Split(s, ",") {
		x = strings.TrimSpace(x)
		if x == "" {
			continue
		}
		t, err := v.parse(x)
		if err != nil {
			return err
		}
		out = append(out, t)
	}
	*v.dst = out
	return nil
}

func (v *sliceValue[T]) Get() interface{} { return *v.dst }
func (v *sliceValue[T]) String() string {
	if v.dst == nil {
		return ""
	}
	return strings.Trim(fmt.Sprint(*v.dst), "[]")
}
`, More: []repl{
		{Old: c15floatSetOld, New: ""},
		{Old: "\tf.Var(newStringSliceValue(value, p), name, usage)\n", New: "\t*p = value\n\tf.Var(&sliceValue[string]{dst: p, parse: func(s string) (string, error) { return s, nil }}, name, usage)\n"},
		{Old: "\tf.Var(newFloatSliceValue(value, p), name, usage)\n", New: "\t*p = value\n\tf.Var(&sliceValue[float64]{dst: p, parse: func(s string) (float64, error) { return strconv.ParseFloat(s, 64) }}, name, usage)\n"},
	}}
}

// c15structReuse: stringSliceValue as a struct built in place by StringSliceVar; Set reuses the storage it finds
// (install = how StringSliceVar puts the default into the variable).
func c15structReuse(name, install, expect string) mutant {
	return mutant{Name: name, File: "config/flagset.go", Expect: expect, Old: c15stringSliceOld, New: `type stringSliceValue struct{ dst *[]string }

func (v *stringSliceValue) Set(s string) error {
	*v.dst = (*v.dst)[:0]
	for _, x := range strings.Split(s, ",") {
		if x = strings.TrimSpace(x); x != "" {
			*v.dst = append(*v.dst, x)
		}
	}
	return nil
}

func (v *stringSliceValue) Get() interface{} { return *v.dst }
func (v *stringSliceValue) String() string {
	if v.dst == nil {
		return ""
	}
	return strings.Join(*v.dst, ",")
}
`, More: []repl{{Old: "\tf.Var(newStringSliceValue(value, p), name, usage)\n", New: "\t*p = " + install + "\n\tf.Var(&stringSliceValue{dst: p}, name, usage)\n"}}}
}

var c15round5Mutants = []mutant{
	c15structReuse("benign: struct-typed slice value built in place over a private copy of the default, Set reuses its storage", "append([]string(nil), value...)", ""),
	c15structReuse("struct-typed slice value built in place over the caller's default, Set reuses the storage", "value", "C15.D1"),
	c15genericSlice("benign: both slice values become one generic struct type, constructors inlined", "[]T{}", ""),
	c15genericSlice("generic slice value collects into a reslice of what it finds", "(*v.dst)[:0]", "C15.D1"),
	// sources behind an interface, in a list built by a helper
	c15srcList("benign: fallback sources behind an interface (value types), list built by a helper, index loop", c15srcListOK, c15srcLoopOK, c15srcKeyOK, ""),
	c15srcList("benign: fallback sources behind an interface, search ended by break, assigned after the loop", c15srcListOK, c15srcLoopBreak, c15srcKeyOK, ""),
	c15srcList("sources behind an interface: the list holds the properties first", c15srcListRev, c15srcLoopOK, c15srcKeyOK, "C15.R2"),
	c15srcList("sources behind an interface: the list is walked backwards", c15srcListOK, c15srcLoopBack, c15srcKeyOK, "C15.R2"),
	c15srcList("sources behind an interface: the last source that has a value wins", c15srcListOK, c15srcLoopLast, c15srcKeyOK, "C15.R2"),
	c15srcList("sources behind an interface: a supplied value is not marked", c15srcListOK, c15srcLoopNoMark, c15srcKeyOK, "C15.R2"),
	c15srcList("sources behind an interface: an empty value counts as absent", c15srcListOK, c15srcLoopEmpty, c15srcKeyOK, "C15.R2"),
	c15srcList("sources behind an interface: the environment name is not upper-cased", c15srcListOK, c15srcLoopOK, `pfx+strings.Replace(name, ".", "_", -1)`, "C15.R3"),
	c15srcList("sources behind an interface: the dots of the name are kept", c15srcListOK, c15srcLoopOK, `strings.ToUpper(pfx+name)`, "C15.R3"),
	// a list of lookup functions
	c15funcList("benign: fallback sources as a list of lookup functions (closure, method value)", "lookups := []func(string) (string, bool){fromEnv}\n\tif p != nil {\n\t\tlookups = append(lookups, p.Get)\n\t}", ""),
	c15funcList("benign: list of lookup functions filled by two appends onto an empty variable", "var lookups []func(string) (string, bool)\n\tlookups = append(lookups, fromEnv)\n\tif p != nil {\n\t\tlookups = append(lookups, p.Get)\n\t}", ""),
	c15funcList("list of lookup functions: the properties come first", "var lookups []func(string) (string, bool)\n\tif p != nil {\n\t\tlookups = append(lookups, p.Get)\n\t}\n\tlookups = append(lookups, fromEnv)", "C15.R2"),
	// table-driven registration
	c15durTable("benign: four options registered from a local table of rows", `{&cfg.Proxy.KeepAliveTimeout, "proxy.keepalivetimeout", defaultConfig.Proxy.KeepAliveTimeout, "keep-alive timeout"},`, ""),
	c15durTable("table of rows: one row takes another option's default", `{&cfg.Proxy.KeepAliveTimeout, "proxy.keepalivetimeout", defaultConfig.Proxy.IdleConnTimeout, "keep-alive timeout"},`, "C15.R1"),
	c15durTable("table of rows: two rows bind the same variable", `{&cfg.Proxy.IdleConnTimeout, "proxy.keepalivetimeout", defaultConfig.Proxy.KeepAliveTimeout, "keep-alive timeout"},`, "C15.R1"),
	c15durPtrTable("benign: four options registered from a table of pointers to descriptors with accessors, by index", "&c.Proxy.KeepAliveTimeout", ""),
	c15durPtrTable("table of descriptors: one accessor designates another option's field", "&c.Proxy.IdleConnTimeout", "C15.R1"),
	// struct-typed flag.Value
	{Name: "benign: stringSliceValue as a struct keeping a pointer to the variable, built by its constructor", File: "config/flagset.go", Old: c15stringSliceOld, New: `type stringSliceValue struct{ dst *[]string }

func newStringSliceValue(val []string, p *[]string) *stringSliceValue {
	*p = val
	return &stringSliceValue{dst: p}
}

func (v *stringSliceValue) Set(s string) error {
	list := []string{}
	for _, x := range strings.Split(s, ",") {
		if x = strings.TrimSpace(x); x != "" {
			list = append(list, x)
		}
	}
	*v.dst = list
	return nil
}

func (v *stringSliceValue) Get() interface{} { return v.list() }
func (v *stringSliceValue) String() string   { return strings.Join(v.list(), ",") }

func (v *stringSliceValue) list() []string {
	if v.dst == nil {
		return nil
	}
	return *v.dst
}
`, Expect: ""},
	{Name: "benign: slice constructors inlined, pointer converted in place", File: "config/flagset.go",
		Old:  "\tf.Var(newStringSliceValue(value, p), name, usage)\n",
		New:  "\t*p = value\n\tf.Var((*stringSliceValue)(p), name, usage)\n",
		More: []repl{{Old: "\tf.Var(newFloatSliceValue(value, p), name, usage)\n", New: "\t*p = value\n\tf.Var((*floatSliceValue)(p), name, usage)\n"}}, Expect: ""},
	// properties applied by ranging over their map
	{Name: "benign: properties applied by ranging over their map, marked as set", File: "config/flagset.go", Old: c15propsTail, New: `	})
	if p == nil {
		return nil
	}
	for key, val := range p.Map() {
		if f.set[key] || f.Lookup(key) == nil {
			continue
		}
		f.set[key] = true
		f.Set(key, val)
	}
	return nil
}
`, Expect: ""},
	{Name: "properties applied by ranging over their map, not marked as set", File: "config/flagset.go", Old: c15propsTail, New: `	})
	if p == nil {
		return nil
	}
	for key, val := range p.Map() {
		if f.set[key] || f.Lookup(key) == nil {
			continue
		}
		f.Set(key, val)
	}
	return nil
}
`, Expect: "C15.R2"},
	{Name: "properties applied by ranging over their map, empty values skipped", File: "config/flagset.go", Old: c15propsTail, New: `	})
	if p == nil {
		return nil
	}
	for key, val := range p.Map() {
		if f.set[key] || f.Lookup(key) == nil || val == "" {
			continue
		}
		f.set[key] = true
		f.Set(key, val)
	}
	return nil
}
`, Expect: "C15.R2"},
}
