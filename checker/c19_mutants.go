package main

// Overlay variants of C19 written during the hardening pass: ordinary refactorings of the wiring (must stay silent)
// and the breaking change next to each of them (must be reported by the rule that states the reason).

const c19tBody = `var (
	cfg *config.Config = &config.Config{}
)

func NewTransport(tlscfg *tls.Config) *http.Transport {
	return &http.Transport{
		ResponseHeaderTimeout: cfg.Proxy.ResponseHeaderTimeout,
		IdleConnTimeout:       cfg.Proxy.IdleConnTimeout,
		MaxIdleConnsPerHost:   cfg.Proxy.MaxConn,
		Dial: (&net.Dialer{
			Timeout:   cfg.Proxy.DialTimeout,
			KeepAlive: cfg.Proxy.KeepAliveTimeout,
		}).Dial,
		TLSClientConfig: tlscfg,
	}
}

func SetConfig(c *config.Config) {
	cfg = c
}
`

const c19tAtomic = `var cfg atomic.Pointer[config.Config]

func init() { cfg.Store(&config.Config{}) }

func NewTransport(tlscfg *tls.Config) *http.Transport {
	c := cfg.Load()
	return &http.Transport{
		ResponseHeaderTimeout: c.Proxy.ResponseHeaderTimeout,
		IdleConnTimeout:       c.Proxy.IdleConnTimeout,
		MaxIdleConnsPerHost:   c.Proxy.MaxConn,
		Dial: (&net.Dialer{
			Timeout:   c.Proxy.DialTimeout,
			KeepAlive: c.Proxy.KeepAliveTimeout,
		}).Dial,
		TLSClientConfig: tlscfg,
	}
}

func SetConfig(c *config.Config) {
	cfg.Store(c)
}
`

const c19tProxyOnly = `var proxyCfg config.Proxy

func NewTransport(tlscfg *tls.Config) *http.Transport {
	return &http.Transport{
		ResponseHeaderTimeout: proxyCfg.ResponseHeaderTimeout,
		IdleConnTimeout:       proxyCfg.IdleConnTimeout,
		MaxIdleConnsPerHost:   proxyCfg.MaxConn,
		Dial: (&net.Dialer{
			Timeout:   proxyCfg.DialTimeout,
			KeepAlive: proxyCfg.KeepAliveTimeout,
		}).Dial,
		TLSClientConfig: tlscfg,
	}
}

func SetConfig(c *config.Config) {
	proxyCfg = c.Proxy
}
`

// guarded getter, new(T) filled in by a helper through pointers, dialer as a value, Dial as a hand-written closure
const c19tHelpers = `var (
	mu  sync.RWMutex
	cfg *config.Config = &config.Config{}
)

func current() *config.Config {
	mu.RLock()
	defer mu.RUnlock()
	return cfg
}

func NewTransport(tlscfg *tls.Config) *http.Transport {
	p := &current().Proxy
	tr := new(http.Transport)
	applyLimits(tr, p)
	tr.TLSClientConfig = tlscfg
	return tr
}

func applyLimits(tr *http.Transport, p *config.Proxy) {
	d := net.Dialer{Timeout: p.DialTimeout, KeepAlive: p.KeepAliveTimeout}
	tr.Dial = func(network, addr string) (net.Conn, error) { return d.Dial(network, addr) }
	tr.ResponseHeaderTimeout = p.ResponseHeaderTimeout
	tr.IdleConnTimeout = p.IdleConnTimeout
	tr.MaxIdleConnsPerHost = p.MaxConn
}

func SetConfig(c *config.Config) {
	mu.Lock()
	defer mu.Unlock()
	cfg = c
}
`

// configuration kept in a struct behind a package variable, construction in a method, addressable local transport
const c19tFactory = `type factory struct{ cfg *config.Config }

var def = &factory{cfg: &config.Config{}}

func (f *factory) build(tlscfg *tls.Config) *http.Transport {
	dialer := &net.Dialer{}
	dialer.Timeout = f.cfg.Proxy.DialTimeout
	dialer.KeepAlive = f.cfg.Proxy.KeepAliveTimeout
	var tr http.Transport
	tr.DialContext = dialer.DialContext
	tr.ResponseHeaderTimeout = f.cfg.Proxy.ResponseHeaderTimeout
	tr.IdleConnTimeout = f.cfg.Proxy.IdleConnTimeout
	tr.MaxIdleConnsPerHost = f.cfg.Proxy.MaxConn
	tr.TLSClientConfig = tlscfg
	return &tr
}

func NewTransport(tlscfg *tls.Config) *http.Transport { return def.build(tlscfg) }

func SetConfig(c *config.Config) { setConfig(def, c) }

func setConfig(f *factory, c *config.Config) { f.cfg = c }
`

const c19selOld = "\ttr := p.Transport\n\tif t.Transport != nil {\n\t\ttr = t.Transport\n\t} else if t.TLSSkipVerify {\n\t\ttr = p.InsecureTransport\n\t}\n"

const c19selMethod = `func (p *HTTPProxy) transportFor(t *route.Target) http.RoundTripper {
	if t.Transport != nil {
		return t.Transport
	}
	if t.TLSSkipVerify {
		return p.InsecureTransport
	}
	return p.Transport
}

func (p *HTTPProxy) ServeHTTP(`

const c19selMethodWrong = `func (p *HTTPProxy) transportFor(t *route.Target) http.RoundTripper {
	if t.TLSSkipVerify {
		return p.InsecureTransport
	}
	if t.Transport != nil {
		return t.Transport
	}
	return p.Transport
}

func (p *HTTPProxy) ServeHTTP(`

const c19classifyOld = `	if e, ok := err.(net.Error); ok {
		if e.Timeout() {
			statusCode = http.StatusGatewayTimeout
		} else {
			statusCode = http.StatusBadGateway
		}
	} else if err == io.EOF {
		statusCode = http.StatusBadGateway
	} else if err == context.Canceled {
		statusCode = StatusClientClosedRequest
	}
`

const c19rpOld = "\t\tFlushInterval: flush,\n\t\tTransport:     tr,\n\t\tErrorHandler:  httpProxyErrorHandler,\n\t}\n}\n"

func c19moreMutants() []mutant {
	tr := func(name, body, expect string, more ...repl) mutant {
		return mutant{Name: name, File: "transport/transport.go", Old: c19tBody, New: body, Expect: expect, More: more}
	}
	imp := func(pkg string) repl { return repl{"\t\"net/http\"\n)", "\t\"net/http\"\n\t\"" + pkg + "\"\n)"} }
	rep := func(s string, pairs ...string) string {
		for k := 0; k+1 < len(pairs); k += 2 {
			s = replaceOnce(s, pairs[k], pairs[k+1])
		}
		return s
	}
	return []mutant{
		// ---- package transport --------------------------------------------------------------------------------------
		tr("benign: configuration in an atomic.Pointer", c19tAtomic, "", imp("sync/atomic")),
		tr("atomic.Pointer variant, idle timeout from keep-alive", rep(c19tAtomic, "c.Proxy.IdleConnTimeout", "c.Proxy.KeepAliveTimeout"), "C19.F2", imp("sync/atomic")),
		tr("atomic.Pointer variant, setter stores a fresh config", rep(c19tAtomic, "cfg.Store(c)\n", "cfg.Store(&config.Config{})\n"), "C19.F1", imp("sync/atomic")),
		tr("benign: only config.Proxy is kept", c19tProxyOnly, ""),
		tr("config.Proxy variant, setter keeps the zero value", rep(c19tProxyOnly, "proxyCfg = c.Proxy", "proxyCfg = config.Proxy{}"), "C19.F1"),
		tr("config.Proxy variant, response header timeout doubled", rep(c19tProxyOnly, "proxyCfg.ResponseHeaderTimeout,", "2 * proxyCfg.ResponseHeaderTimeout,"), "C19.F2"),
		tr("benign: guarded getter, fill-in helper, dial closure", c19tHelpers, "", imp("sync")),
		tr("helper variant, idle timeout from keep-alive inside the helper", rep(c19tHelpers, "p.IdleConnTimeout", "p.KeepAliveTimeout"), "C19.F2", imp("sync")),
		tr("helper variant, dial closure bypasses the dialer", rep(c19tHelpers, "return d.Dial(network, addr)", "_ = d\n\t\treturn net.DialTimeout(network, addr, p.DialTimeout)"), "C19.F2", imp("sync")),
		tr("helper variant, limits applied to a transport that is not returned", rep(c19tHelpers, "applyLimits(tr, p)", "applyLimits(new(http.Transport), p)"), "C19.F2", imp("sync")),
		tr("benign: factory struct, method, DialContext, delegated setter", c19tFactory, ""),
		tr("factory variant, setter writes a copy", rep(c19tFactory, "func SetConfig(c *config.Config) { setConfig(def, c) }", "func SetConfig(c *config.Config) { f := *def; setConfig(&f, c) }"), "C19.F1"),
		tr("factory variant, keep-alive never set", rep(c19tFactory, "\tdialer.KeepAlive = f.cfg.Proxy.KeepAliveTimeout\n", ""), "C19.F2"),
		{Name: "setter keeps a private copy made before the call", File: "transport/transport.go", Old: "\tcfg = c\n", New: "\tcp := *cfg\n\tcfg = &cp\n", Expect: "C19.F1"},

		{Name: "benign: setter stores a defensive copy, nil means defaults", File: "transport/transport.go", Old: "\tcfg = c\n", New: "\tif c == nil {\n\t\tc = &config.Config{}\n\t}\n\tcp := *c\n\tcfg = &cp\n", Expect: ""},
		{Name: "setter stores a copy of which the proxy section is reset", File: "transport/transport.go", Old: "\tcfg = c\n", New: "\tcp := config.Config{Log: c.Log}\n\tcfg = &cp\n", Expect: "C19.F1"},
		{Name: "benign: TLS configuration cloned, transport in a named result", File: "transport/transport.go", Old: "func NewTransport(tlscfg *tls.Config) *http.Transport {\n\treturn &http.Transport{", New: "func NewTransport(tlscfg *tls.Config) (tr *http.Transport) {\n\ttr = &http.Transport{", Expect: "",
			More: []repl{{"\t\tTLSClientConfig: tlscfg,\n\t}\n", "\t\tTLSClientConfig: tlscfg.Clone(),\n\t}\n\treturn\n"}}},

		// ---- main ---------------------------------------------------------------------------------------------------
		{Name: "benign: setter called through a helper of main", File: "main.go", Old: "\ttransport.SetConfig(cfg)\n", New: "\tinitTransport(cfg)\n", Expect: "",
			More: []repl{{"func newGrpcProxy(", "func initTransport(cfg *config.Config) {\n\ttransport.SetConfig(cfg)\n}\n\nfunc newGrpcProxy("}}},
		{Name: "benign: setter moved below the log set-up", File: "main.go", Old: "\ttransport.SetConfig(cfg)\n\n", New: "", Expect: "",
			More: []repl{{"\t// warn once so that it is at the beginning of the log\n", "\ttransport.SetConfig(cfg)\n\n\t// warn once so that it is at the beginning of the log\n"}}},
		{Name: "benign: main split, rest of start-up in run()", File: "main.go", Old: "\ttransport.SetConfig(cfg)\n\n\tlog.Printf(\"[INFO] Setting log level", Expect: "",
			New: "\trun(cfg, logOutput)\n}\n\nfunc run(cfg *config.Config, logOutput *logger.LevelWriter) {\n\tvar err error\n\ttransport.SetConfig(cfg)\n\n\tlog.Printf(\"[INFO] Setting log level"},
		{Name: "setter after the table watcher was started", File: "main.go", Old: "\ttransport.SetConfig(cfg)\n\n", New: "", Expect: "C19.F3",
			More: []repl{{"\tlog.Print(\"[INFO] Waiting for first routing table\")\n", "\ttransport.SetConfig(cfg)\n\tlog.Print(\"[INFO] Waiting for first routing table\")\n"}}},
		{Name: "setter only on one branch", File: "main.go", Old: "\ttransport.SetConfig(cfg)\n", New: "\tif cfg.Proxy.DialTimeout > 0 {\n\t\ttransport.SetConfig(cfg)\n\t}\n", Expect: "C19.F3"},
		{Name: "setter given a fresh configuration", File: "main.go", Old: "\ttransport.SetConfig(cfg)\n", New: "\ttransport.SetConfig(&config.Config{Proxy: config.Proxy{MaxConn: cfg.Proxy.MaxConn}})\n", Expect: "C19.F3"},
		{Name: "main split, run() starts the servers before the setter", File: "main.go", Old: "\ttransport.SetConfig(cfg)\n\n\tlog.Printf(\"[INFO] Setting log level", Expect: "C19.F3",
			New: "\trun(cfg, logOutput)\n\ttransport.SetConfig(cfg)\n}\n\nfunc run(cfg *config.Config, logOutput *logger.LevelWriter) {\n\tvar err error\n\n\tlog.Printf(\"[INFO] Setting log level"},
		{Name: "benign: both proxy transports from a helper of main", File: "main.go", Expect: "",
			Old:  "\t\tTransport:         transport.NewTransport(nil),\n\t\tInsecureTransport: transport.NewTransport(&tls.Config{InsecureSkipVerify: true}),\n",
			New:  "\t\tTransport:         upstreamTransport(false),\n\t\tInsecureTransport: upstreamTransport(true),\n",
			More: []repl{{"func newGrpcProxy(", "func upstreamTransport(insecure bool) http.RoundTripper {\n\tif insecure {\n\t\treturn transport.NewTransport(&tls.Config{InsecureSkipVerify: true})\n\t}\n\treturn transport.NewTransport(nil)\n}\n\nfunc newGrpcProxy("}}},
		{Name: "helper of main falls back to the default transport", File: "main.go", Expect: "C19.F4",
			Old:  "\t\tTransport:         transport.NewTransport(nil),\n\t\tInsecureTransport: transport.NewTransport(&tls.Config{InsecureSkipVerify: true}),\n",
			New:  "\t\tTransport:         upstreamTransport(false),\n\t\tInsecureTransport: upstreamTransport(true),\n",
			More: []repl{{"func newGrpcProxy(", "func upstreamTransport(insecure bool) http.RoundTripper {\n\tif insecure {\n\t\treturn transport.NewTransport(&tls.Config{InsecureSkipVerify: true})\n\t}\n\treturn http.DefaultTransport\n}\n\nfunc newGrpcProxy("}}},

		// ---- route --------------------------------------------------------------------------------------------------
		{Name: "benign: per-route transport from a method of Target", File: "route/route.go", Expect: "",
			Old:  "\t\t\tt.Transport = transport.NewTransport(&tls.Config{ServerName: t.Host, InsecureSkipVerify: t.TLSSkipVerify})\n",
			New:  "\t\t\tt.Transport = t.hostTransport()\n",
			More: []repl{{"func (r *Route) addTarget(", "func (t *Target) hostTransport() *http.Transport {\n\tcfg := &tls.Config{ServerName: t.Host}\n\tcfg.InsecureSkipVerify = t.TLSSkipVerify\n\treturn transport.NewTransport(cfg)\n}\n\nfunc (r *Route) addTarget("}, {"import (\n", "import (\n\t\"net/http\"\n"}}},
		{Name: "per-route transport built by hand", File: "route/route.go", Expect: "C19.F4",
			Old:  "\t\t\tt.Transport = transport.NewTransport(&tls.Config{ServerName: t.Host, InsecureSkipVerify: t.TLSSkipVerify})\n",
			New:  "\t\t\tt.Transport = t.hostTransport()\n\t\t\t_ = transport.NewTransport\n",
			More: []repl{{"func (r *Route) addTarget(", "func (t *Target) hostTransport() *http.Transport {\n\treturn &http.Transport{TLSClientConfig: &tls.Config{ServerName: t.Host, InsecureSkipVerify: t.TLSSkipVerify}}\n}\n\nfunc (r *Route) addTarget("}, {"import (\n", "import (\n\t\"net/http\"\n"}}},

		// ---- proxy: selection -----------------------------------------------------------------------------------------
		{Name: "benign: selection in a method with early returns", File: "proxy/http_proxy.go", Old: c19selOld, New: "\ttr := p.transportFor(t)\n", Expect: "",
			More: []repl{{"func (p *HTTPProxy) ServeHTTP(", c19selMethod}}},
		{Name: "selection method tests skip-verify before the per-route transport", File: "proxy/http_proxy.go", Old: c19selOld, New: "\ttr := p.transportFor(t)\n", Expect: "C19.F4",
			More: []repl{{"func (p *HTTPProxy) ServeHTTP(", c19selMethodWrong}}},
		{Name: "benign: selection as a switch with default", File: "proxy/http_proxy.go", Old: c19selOld, Expect: "",
			New: "\tvar tr http.RoundTripper\n\tswitch {\n\tcase t.Transport != nil:\n\t\ttr = t.Transport\n\tcase t.TLSSkipVerify:\n\t\ttr = p.InsecureTransport\n\tdefault:\n\t\ttr = p.Transport\n\t}\n"},
		{Name: "benign: selection with a local for the per-route transport", File: "proxy/http_proxy.go", Old: c19selOld, Expect: "",
			New: "\ttr := p.Transport\n\tif own := t.Transport; own != nil {\n\t\ttr = own\n\t} else if t.TLSSkipVerify {\n\t\ttr = p.InsecureTransport\n\t}\n"},
		{Name: "plain-http targets get http.DefaultTransport", File: "proxy/http_proxy.go", Old: c19selOld, Expect: "C19.F4",
			New: "\tvar tr http.RoundTripper\n\tswitch {\n\tcase t.Transport != nil:\n\t\ttr = t.Transport\n\tcase t.TLSSkipVerify:\n\t\ttr = p.InsecureTransport\n\tcase t.URL.Scheme == \"http\":\n\t\ttr = http.DefaultTransport\n\tdefault:\n\t\ttr = p.Transport\n\t}\n"},

		// ---- proxy: reverse proxy and error handler ---------------------------------------------------------------------
		{Name: "benign: reverse proxy filled in by assignments", File: "proxy/http_handler.go", Expect: "",
			Old: "\treturn &httputil.ReverseProxy{\n", New: "\trp := &httputil.ReverseProxy{\n",
			More: []repl{{c19rpOld, "\t}\n\trp.FlushInterval = flush\n\trp.Transport = tr\n\trp.ErrorHandler = httpProxyErrorHandler\n\treturn rp\n}\n"}}},
		{Name: "reverse proxy filled in by assignments, transport forgotten", File: "proxy/http_handler.go", Expect: "C19.F5",
			Old: "\treturn &httputil.ReverseProxy{\n", New: "\trp := &httputil.ReverseProxy{\n",
			More: []repl{{c19rpOld, "\t}\n\trp.FlushInterval = flush\n\t_ = tr\n\trp.ErrorHandler = httpProxyErrorHandler\n\treturn rp\n}\n"}}},
		{Name: "benign: error handler wrapped in a closure", File: "proxy/http_handler.go", Expect: "",
			Old: "\t\tErrorHandler:  httpProxyErrorHandler,\n", New: "\t\tErrorHandler: func(w http.ResponseWriter, r *http.Request, err error) {\n\t\t\thttpProxyErrorHandler(w, r, err)\n\t\t},\n"},
		{Name: "benign: timeout test in a predicate, status written by a helper", File: "proxy/http_handler.go", Expect: "",
			Old: c19classifyOld,
			New: "\tif isTimeout(err) {\n\t\tstatusCode = http.StatusGatewayTimeout\n\t} else if _, ok := err.(net.Error); ok || err == io.EOF {\n\t\tstatusCode = http.StatusBadGateway\n\t} else if err == context.Canceled {\n\t\tstatusCode = StatusClientClosedRequest\n\t}\n",
			More: []repl{{"\tw.WriteHeader(statusCode)\n", "\twriteStatus(w, statusCode)\n"},
				{"func httpProxyErrorHandler(", "func isTimeout(err error) bool {\n\te, ok := err.(net.Error)\n\treturn ok && e.Timeout()\n}\n\nfunc writeStatus(w http.ResponseWriter, code int) {\n\tw.WriteHeader(code)\n}\n\nfunc httpProxyErrorHandler("}}},
		{Name: "benign: client-gone predicate (canceled only) tested first", File: "proxy/http_handler.go", Expect: "",
			Old:  "\tif e, ok := err.(net.Error); ok {",
			New:  "\tif clientGone(err) {\n\t\tstatusCode = StatusClientClosedRequest\n\t} else if e, ok := err.(net.Error); ok {",
			More: []repl{{"func httpProxyErrorHandler(", "func clientGone(err error) bool {\n\treturn err == context.Canceled || err == http.ErrAbortHandler\n}\n\nfunc httpProxyErrorHandler("}}},
		{Name: "client-gone predicate includes deadline errors and is tested first", File: "proxy/http_handler.go", Expect: "C19.F5",
			Old:  "\tif e, ok := err.(net.Error); ok {",
			New:  "\tif clientGone(err) {\n\t\tstatusCode = StatusClientClosedRequest\n\t} else if e, ok := err.(net.Error); ok {",
			More: []repl{{"func httpProxyErrorHandler(", "func clientGone(err error) bool {\n\treturn err == context.Canceled || err == context.DeadlineExceeded\n}\n\nfunc httpProxyErrorHandler("}}},
		{Name: "benign: guard clause for a nil error, errors.As for the timeout", File: "proxy/http_handler.go", Expect: "",
			Old:  "\tif e, ok := err.(net.Error); ok {",
			New:  "\tif err == nil {\n\t\treturn\n\t}\n\tvar e net.Error\n\tif errors.As(err, &e) {",
			More: []repl{{"import (\n", "import (\n\t\"errors\"\n"}}},
		{Name: "benign: classification as a type switch", File: "proxy/http_handler.go", Expect: "",
			Old: c19classifyOld,
			New: "\tswitch e := err.(type) {\n\tcase net.Error:\n\t\tstatusCode = http.StatusBadGateway\n\t\tif e.Timeout() {\n\t\t\tstatusCode = http.StatusGatewayTimeout\n\t\t}\n\tdefault:\n\t\tswitch err {\n\t\tcase io.EOF:\n\t\t\tstatusCode = http.StatusBadGateway\n\t\tcase context.Canceled:\n\t\t\tstatusCode = StatusClientClosedRequest\n\t\t}\n\t}\n"},
		{Name: "benign: reverse proxy literal inlined at the call site", File: "proxy/http_proxy.go", Expect: "",
			Old:  "\t\th = newHTTPProxy(targetURL, tr, p.Config.GlobalFlushInterval)\n",
			New:  "\t\th = &httputil.ReverseProxy{Director: func(req *http.Request) { req.URL = targetURL }, FlushInterval: p.Config.GlobalFlushInterval, Transport: tr, ErrorHandler: httpProxyErrorHandler}\n",
			More: []repl{{"import (\n", "import (\n\t\"net/http/httputil\"\n"}}},
		{Name: "inlined reverse proxy literal without error handler", File: "proxy/http_proxy.go", Expect: "C19.F5",
			Old:  "\t\th = newHTTPProxy(targetURL, tr, p.Config.GlobalFlushInterval)\n",
			New:  "\t\th = &httputil.ReverseProxy{Director: func(req *http.Request) { req.URL = targetURL }, FlushInterval: p.Config.GlobalFlushInterval, Transport: tr}\n",
			More: []repl{{"import (\n", "import (\n\t\"net/http/httputil\"\n"}}},
		{Name: "predicate variant answers 502 on timeout", File: "proxy/http_handler.go", Expect: "C19.F5",
			Old:  c19classifyOld,
			New:  "\tif isTimeout(err) {\n\t\tstatusCode = http.StatusBadGateway\n\t} else if _, ok := err.(net.Error); ok || err == io.EOF {\n\t\tstatusCode = http.StatusGatewayTimeout\n\t} else if err == context.Canceled {\n\t\tstatusCode = StatusClientClosedRequest\n\t}\n",
			More: []repl{{"func httpProxyErrorHandler(", "func isTimeout(err error) bool {\n\te, ok := err.(net.Error)\n\treturn ok && e.Timeout()\n}\n\nfunc httpProxyErrorHandler("}}},
		{Name: "deadline attached through a helper that returns the context", File: "proxy/http_proxy.go", Expect: "C19.D1",
			Old:  "\t\th = newHTTPProxy(targetURL, tr, p.Config.GlobalFlushInterval)\n",
			New:  "\t\th = newHTTPProxy(targetURL, tr, p.Config.GlobalFlushInterval)\n\t\tctx, cancel := p.upstreamContext(r)\n\t\tdefer cancel()\n\t\tr = r.Clone(ctx)\n",
			More: []repl{{"import (\n", "import (\n\t\"context\"\n"}, {"func (p *HTTPProxy) ServeHTTP(", "func (p *HTTPProxy) upstreamContext(r *http.Request) (context.Context, context.CancelFunc) {\n\treturn context.WithTimeout(r.Context(), p.Config.DialTimeout+p.Config.ResponseHeaderTimeout)\n}\n\nfunc (p *HTTPProxy) ServeHTTP("}}},
	}
}

func replaceOnce(s, old, new string) string {
	for i := 0; i+len(old) <= len(s); i++ {
		if s[i:i+len(old)] == old {
			return s[:i] + new + s[i+len(old):]
		}
	}
	panic("c19 mutant text: " + old + " not found")
}
