package main

import (
	"os"
	"strings"
)

// c20SelectMutants: development aid - C20_MUT=<text> restricts `verifcheck mutants C20` to the overlay mutants whose
// name contains the text. Without the variable all mutants run.
func c20SelectMutants(all []mutant) []mutant {
	want := os.Getenv("C20_MUT")
	if want == "" {
		return all
	}
	var out []mutant
	for _, m := range all {
		if strings.Contains(m.Name, want) {
			out = append(out, m)
		}
	}
	return out
}

// The round-4 rules of C20 registered their mutants in the init functions of c20_round4.go and c20_round4_s1.go, which
// run before this one (files initialise in name order) and before the wiring in zzz_round4.go.
func init() {
	if os.Getenv("C20_MUT") == "" {
		return
	}
	rs := round4Rules["C20"]
	for k := range rs {
		rs[k].mutants = c20SelectMutants(rs[k].mutants)
	}
}
