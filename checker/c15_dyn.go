package main

// Dynamic dispatch in the region of ParseFlags: the fallback sources may be values behind a small interface of the
// repository (Get(name) (string, bool), implemented by an environment type and by *properties.Properties) or
// functions kept in a list, and the precedence is then the ORDER OF THAT LIST. The helpers here resolve such a call
// to the implementations it can enter - by following the receiver / the function value back to the conversions and
// function values it is made from - and, when the callee is an element of a list, to the alternatives of that list in
// order.

import (
	"go/token"
	"go/types"
	"strings"

	"golang.org/x/tools/go/ssa"
)

// c15ctx is the context of the run in progress (the free helper functions need the program and the function list).
var c15ctx *Ctx

var c15dynCache map[*ssa.CallCommon]*c15dynInfo

func c15use(c *Ctx) {
	if c15ctx != c {
		c15ctx = c
		c15dynCache = map[*ssa.CallCommon]*c15dynInfo{}
	}
}

// c15impl is one implementation a dynamic call can enter.
type c15impl struct {
	fn  *ssa.Function // a repository function with a body, or nil
	ext string        // the full name of a function outside the repository (or without a body)
}

// kind: what the implementation can consult.
func (im c15impl) kind() (env, props bool) {
	if im.fn != nil {
		return c15mayFn(im.fn, c15isEnvLookup, 1), c15mayFn(im.fn, c15isPropsCall, 1)
	}
	return false, strings.HasPrefix(im.ext, c15propsRecv)
}

type c15dynInfo struct {
	impls    []c15impl
	fromList bool        // the callee is an element of a list
	lists    [][]c15impl // the alternatives of that list, each in order (one entry per element; nil entries never occur)
	index    ssa.Value   // the index the element is selected with
}

func (d *c15dynInfo) repoFns() []*ssa.Function {
	var out []*ssa.Function
	if d == nil {
		return nil
	}
	for _, im := range d.impls {
		if im.fn != nil {
			out = append(out, im.fn)
		}
	}
	return out
}

func (d *c15dynInfo) exts() []string {
	var out []string
	if d == nil {
		return nil
	}
	for _, im := range d.impls {
		if im.fn == nil {
			out = append(out, im.ext)
		}
	}
	return out
}

// both: the call can consult the environment and the properties, depending on the implementation entered.
func (d *c15dynInfo) both() bool {
	if d == nil {
		return false
	}
	e, p := false, false
	for _, im := range d.impls {
		e2, p2 := im.kind()
		e, p = e || e2, p || p2
	}
	return e && p
}

func c15repoNamed(t types.Type) bool {
	nt, ok := t.(*types.Named)
	return ok && nt.Obj() != nil && nt.Obj().Pkg() != nil && strings.HasPrefix(nt.Obj().Pkg().Path(), repoMod)
}

// c15dyn resolves a dynamic call: an invoke on an interface type declared in the repository, or a call of a function
// value that is an element of a list. nil for every other call.
func c15dyn(cc *ssa.CallCommon) *c15dynInfo {
	if cc == nil || c15ctx == nil {
		return nil
	}
	if info, ok := c15dynCache[cc]; ok {
		return info
	}
	c15dynCache[cc] = nil // while in progress
	var info *c15dynInfo
	switch {
	case cc.IsInvoke():
		if _, isIface := cc.Value.Type().Underlying().(*types.Interface); isIface && c15repoNamed(cc.Value.Type()) {
			info = c15resolveDyn(cc.Value, cc.Method)
		}
	case cc.StaticCallee() == nil:
		if _, isBuiltin := cc.Value.(*ssa.Builtin); !isBuiltin {
			if info = c15resolveDyn(cc.Value, nil); info != nil && !info.fromList {
				info = nil
			}
		}
	}
	if info != nil && len(info.impls) == 0 {
		info = nil
	}
	c15dynCache[cc] = info
	return info
}

type c15dynRes struct {
	method  *types.Func
	busy    map[ssa.Value]bool
	lists   [][]ssa.Value
	index   ssa.Value
	listed  int // values that came from a list
	direct  int // values that did not
	inLists int // nesting: inside the resolution of a list
}

func c15resolveDyn(v ssa.Value, method *types.Func) *c15dynInfo {
	r := &c15dynRes{method: method, busy: map[ssa.Value]bool{}}
	vals, ok := r.values(v, 0)
	if !ok && method != nil {
		// the flow of the receiver is not followed to its end: every conversion to the interface type in the package
		vals, ok = c15conversionsTo(v), true
		r.lists, r.listed = nil, 0
	}
	if !ok {
		return nil
	}
	info := &c15dynInfo{}
	seen := map[c15impl]bool{}
	for _, e := range vals {
		for _, im := range r.implsOf(e) {
			if !seen[im] {
				seen[im] = true
				info.impls = append(info.impls, im)
			}
		}
	}
	if r.listed > 0 && r.direct == 0 && len(r.lists) > 0 {
		info.fromList, info.index = true, r.index
		for _, l := range r.lists {
			var alt []c15impl
			for _, e := range l {
				ims := r.implsOf(e)
				if len(ims) != 1 {
					alt = append(alt, c15impl{ext: "?"})
					continue
				}
				alt = append(alt, ims[0])
			}
			info.lists = append(info.lists, alt)
		}
	}
	return info
}

// c15conversionsTo: every conversion to the (interface) type of v in the functions of the package v lives in.
func c15conversionsTo(v ssa.Value) []ssa.Value {
	var out []ssa.Value
	nt, ok := v.Type().(*types.Named)
	if !ok || nt.Obj().Pkg() == nil {
		return nil
	}
	for _, f := range c15ctx.AllFns {
		root := f
		for root.Parent() != nil {
			root = root.Parent()
		}
		if root.Pkg == nil || root.Pkg.Pkg.Path() != nt.Obj().Pkg().Path() {
			continue
		}
		eachInstr(f, func(i ssa.Instruction) {
			if mi, ok := i.(*ssa.MakeInterface); ok && types.Identical(mi.Type(), v.Type()) {
				out = append(out, mi)
			}
		})
	}
	return out
}

// implsOf: the implementations a resolved value stands for: the method of the converted type, or the functions a
// function value denotes.
func (r *c15dynRes) implsOf(e ssa.Value) []c15impl {
	wrap := func(fn *ssa.Function) c15impl {
		if fn == nil {
			return c15impl{ext: "?"}
		}
		fn = unwrap(fn)
		if isRepoFn(fn) && len(fn.Blocks) > 0 {
			return c15impl{fn: fn}
		}
		return c15impl{ext: funcName(fn)}
	}
	switch x := e.(type) {
	case *ssa.MakeInterface:
		if r.method == nil {
			return nil
		}
		sel := c15ctx.Prog.MethodSets.MethodSet(x.X.Type()).Lookup(r.method.Pkg(), r.method.Name())
		if sel == nil {
			return []c15impl{{ext: "?"}}
		}
		return []c15impl{wrap(c15ctx.Prog.MethodValue(sel))}
	case *ssa.Function:
		return []c15impl{wrap(x)}
	case *ssa.MakeClosure:
		if fn, ok := x.Fn.(*ssa.Function); ok {
			return []c15impl{wrap(fn)}
		}
	}
	return nil
}

func (r *c15dynRes) count(n int) {
	if r.inLists > 0 {
		return
	}
	r.direct += n
}

// values: the conversions / function values v can be.
func (r *c15dynRes) values(v ssa.Value, depth int) ([]ssa.Value, bool) {
	if v == nil || depth > 10 {
		return nil, false
	}
	if r.busy[v] {
		return nil, true
	}
	r.busy[v] = true
	defer delete(r.busy, v)
	union := func(vs []ssa.Value) ([]ssa.Value, bool) {
		var out []ssa.Value
		if len(vs) == 0 {
			return nil, false
		}
		for _, x := range vs {
			o, ok := r.values(x, depth+1)
			if !ok {
				return nil, false
			}
			out = append(out, o...)
		}
		return out, true
	}
	switch x := v.(type) {
	case *ssa.Const:
		if x.Value == nil {
			return nil, true // the nil interface / function: nothing to enter
		}
		return nil, false
	case *ssa.MakeInterface:
		r.count(1)
		return []ssa.Value{x}, true
	case *ssa.Function:
		r.count(1)
		return []ssa.Value{x}, true
	case *ssa.MakeClosure:
		r.count(1)
		return []ssa.Value{x}, true
	case *ssa.ChangeInterface:
		return r.values(x.X, depth+1)
	case *ssa.ChangeType:
		return r.values(x.X, depth+1)
	case *ssa.Phi:
		return union(x.Edges)
	case *ssa.Parameter:
		return union(c15argsFor(x))
	case *ssa.Call:
		var rets []ssa.Value
		if x.Call.IsInvoke() {
			return nil, false
		}
		for _, g := range c15callees(&x.Call) {
			eachInstr(g, func(i ssa.Instruction) {
				if ret, ok := i.(*ssa.Return); ok && len(ret.Results) == 1 {
					rets = append(rets, ret.Results[0])
				}
			})
		}
		return union(rets)
	case *ssa.UnOp:
		if x.Op != token.MUL {
			return nil, false
		}
		switch y := x.X.(type) {
		case *ssa.IndexAddr:
			if r.inLists > 0 {
				return nil, false
			}
			r.inLists++
			alts, ok := r.listAlts(y.X, depth+1)
			r.inLists--
			if !ok || len(alts) == 0 {
				return nil, false
			}
			if r.lists != nil {
				return nil, false // elements of two lists
			}
			r.lists, r.index = alts, y.Index
			var out []ssa.Value
			for _, l := range alts {
				out = append(out, l...)
				r.listed += len(l)
			}
			return out, true
		case *ssa.Alloc, *ssa.FreeVar:
			return union(c15stores(y))
		case *ssa.FieldAddr:
			return union(c15fieldStores(y))
		}
	}
	return nil, false
}

// c15argsFor: the arguments the static callers of the function of p pass for p.
func c15argsFor(p *ssa.Parameter) []ssa.Value {
	fn := p.Parent()
	var out []ssa.Value
	for k, q := range fn.Params {
		if q != p {
			continue
		}
		for _, s := range gSites[fn] {
			if _, isGo := s.(*ssa.Go); isGo {
				continue
			}
			if a := c15argAt(s.Common(), fn, k); a != nil {
				out = append(out, a)
			}
		}
	}
	return out
}

// c15argAt: the argument of call cc that becomes parameter k of the function fn it enters (the receiver of an invoke,
// or the receiver bound into a method value, is parameter 0 and is not among the arguments).
func c15argAt(cc *ssa.CallCommon, fn *ssa.Function, k int) ssa.Value {
	if cc == nil || fn == nil {
		return nil
	}
	bound := !cc.IsInvoke() && fn.Signature.Recv() != nil && len(cc.Args) == len(fn.Params)-1
	if cc.IsInvoke() || bound {
		if k == 0 {
			if bound {
				return nil
			}
			return cc.Value
		}
		k--
	}
	if k < 0 || k >= len(cc.Args) {
		return nil
	}
	return cc.Args[k]
}

// c15fieldStores: the values stored anywhere in the package into the field fa designates (same struct type, same
// field), by field assignments and by composite literals.
func c15fieldStores(fa *ssa.FieldAddr) []ssa.Value {
	var out []ssa.Value
	home := fa.Parent()
	for home != nil && home.Parent() != nil {
		home = home.Parent()
	}
	for _, f := range c15ctx.AllFns {
		root := f
		for root.Parent() != nil {
			root = root.Parent()
		}
		if home == nil || root.Pkg != home.Pkg {
			continue
		}
		eachInstr(f, func(i ssa.Instruction) {
			st, ok := i.(*ssa.Store)
			if !ok {
				return
			}
			if fa2, ok := st.Addr.(*ssa.FieldAddr); ok && fa2.Field == fa.Field && types.Identical(fa2.X.Type(), fa.X.Type()) {
				out = append(out, st.Val)
			}
		})
	}
	return out
}

const c15maxAlts = 16

// listAlts: the lists a slice value can be, each as its elements in order: literals, append onto such lists,
// merges, local variables, parameters (to the arguments of the static callers), struct fields (every store of the
// package), results of helpers.
func (r *c15dynRes) listAlts(s ssa.Value, depth int) ([][]ssa.Value, bool) {
	if s == nil || depth > 12 {
		return nil, false
	}
	if r.busy[s] {
		return nil, true // a cycle (the variable appended to): the other definitions supply the alternatives
	}
	r.busy[s] = true
	defer delete(r.busy, s)
	union := func(vs []ssa.Value) ([][]ssa.Value, bool) {
		var out [][]ssa.Value
		if len(vs) == 0 {
			return nil, false
		}
		for _, x := range vs {
			o, ok := r.listAlts(x, depth+1)
			if !ok {
				return nil, false
			}
			out = append(out, o...)
		}
		if len(out) > c15maxAlts {
			return nil, false
		}
		return out, true
	}
	// an element of a list: the value stored (the conversion, the function value), which may be a merge
	elems := func(vs []ssa.Value) ([][]ssa.Value, bool) {
		alts := [][]ssa.Value{{}}
		for _, e := range vs {
			opts, ok := r.values(e, depth+1)
			if !ok || len(opts) == 0 {
				return nil, false
			}
			var next [][]ssa.Value
			for _, a := range alts {
				for _, o := range opts {
					next = append(next, append(append([]ssa.Value{}, a...), o))
				}
			}
			if len(next) > c15maxAlts {
				return nil, false
			}
			alts = next
		}
		return alts, true
	}
	switch x := s.(type) {
	case *ssa.Const:
		if x.Value == nil {
			return [][]ssa.Value{{}}, true
		}
	case *ssa.ChangeType:
		return r.listAlts(x.X, depth+1)
	case *ssa.Slice:
		if x.Low != nil || x.High != nil {
			return nil, false
		}
		if _, isAlloc := x.X.(*ssa.Alloc); isAlloc {
			vs, ok := c15sliceElems(x)
			if !ok {
				return nil, false
			}
			return elems(vs)
		}
		return r.listAlts(x.X, depth+1)
	case *ssa.Alloc:
		// an array literal indexed directly
		if vs, ok := c15arrayElems(x); ok {
			return elems(vs)
		}
		return nil, false
	case *ssa.Phi:
		return union(x.Edges)
	case *ssa.Parameter:
		return union(c15argsFor(x))
	case *ssa.Call:
		if calleeName(&x.Call) == "builtin.append" && len(x.Call.Args) == 2 {
			base, ok := r.listAlts(x.Call.Args[0], depth+1)
			if !ok {
				return nil, false
			}
			tail, ok := r.listAlts(x.Call.Args[1], depth+1)
			if !ok {
				return nil, false
			}
			var out [][]ssa.Value
			for _, b := range base {
				for _, t := range tail {
					out = append(out, append(append([]ssa.Value{}, b...), t...))
				}
			}
			if len(out) > c15maxAlts {
				return nil, false
			}
			return out, true
		}
		if x.Call.IsInvoke() {
			return nil, false
		}
		var rets []ssa.Value
		for _, g := range c15callees(&x.Call) {
			eachInstr(g, func(i ssa.Instruction) {
				if ret, ok := i.(*ssa.Return); ok && len(ret.Results) == 1 {
					rets = append(rets, ret.Results[0])
				}
			})
		}
		return union(rets)
	case *ssa.UnOp:
		if x.Op != token.MUL {
			return nil, false
		}
		switch y := x.X.(type) {
		case *ssa.Alloc, *ssa.FreeVar:
			defs, zero := c15reachingDefs(x)
			if len(defs) == 0 && !zero {
				return nil, false
			}
			var out [][]ssa.Value
			if len(defs) > 0 {
				o, ok := union(defs)
				if !ok {
					return nil, false
				}
				out = o
			}
			if zero {
				out = append(out, []ssa.Value{}) // the variable's zero value: the empty list
			}
			return out, true
		case *ssa.FieldAddr:
			return union(c15fieldStores(y))
		case *ssa.Global:
			if v := c15globalInit(c15ctx, y); v != nil {
				return r.listAlts(v, depth+1)
			}
		}
	}
	return nil, false
}

// c15arrayElems: the values stored into the elements of a local array, in index order (every element exactly once,
// under a constant index).
func c15arrayElems(arr *ssa.Alloc) ([]ssa.Value, bool) {
	pt, ok := arr.Type().(*types.Pointer)
	if !ok || arr.Referrers() == nil {
		return nil, false
	}
	at, ok := pt.Elem().Underlying().(*types.Array)
	if !ok || at.Len() == 0 || at.Len() > 64 {
		return nil, false
	}
	out := make([]ssa.Value, at.Len())
	for _, r := range *arr.Referrers() {
		ia, isIA := r.(*ssa.IndexAddr)
		if !isIA || ia.Referrers() == nil {
			continue
		}
		k, isK := constInt(ia.Index)
		if !isK {
			continue // a read
		}
		if k < 0 || k >= at.Len() {
			return nil, false
		}
		for _, r2 := range *ia.Referrers() {
			if st, isSt := r2.(*ssa.Store); isSt && st.Addr == ssa.Value(ia) {
				if out[k] != nil {
					return nil, false
				}
				out[k] = st.Val
			}
		}
	}
	for _, x := range out {
		if x == nil {
			return nil, false
		}
	}
	return out, true
}

// c15reachingDefs: the values a load of a local variable (a cell, possibly captured) can see: the stores that reach
// the load - or, for a load inside a closure, the place where the closure is made, plus everything stored later or by
// closures - and whether the variable's zero value can reach it.
func c15reachingDefs(load *ssa.UnOp) (defs []ssa.Value, zero bool) {
	a, ok := c15cell(load.X).(*ssa.Alloc)
	if !ok || a.Referrers() == nil {
		return nil, false
	}
	home := a.Parent()
	// the point of the owner's body the load stands for
	var at ssa.Instruction = load
	inClosure := load.Parent() != home
	if inClosure {
		at = nil
		outer := load.Parent()
		for outer != nil && outer.Parent() != home {
			outer = outer.Parent()
		}
		n := 0
		if outer != nil {
			eachInstr(home, func(i ssa.Instruction) {
				if mc, isMC := i.(*ssa.MakeClosure); isMC && mc.Fn == ssa.Value(outer) {
					at, n = mc, n+1
				}
			})
		}
		if n != 1 {
			at = nil
		}
	}
	isStore := func(i ssa.Instruction) bool {
		st, ok := i.(*ssa.Store)
		return ok && st.Addr == ssa.Value(a)
	}
	if at == nil {
		return c15stores(a), true
	}
	var local []*ssa.Store
	eachInstr(home, func(i ssa.Instruction) {
		if isStore(i) {
			local = append(local, i.(*ssa.Store))
		}
	})
	for _, st := range local {
		if pathAvoiding(st, at, isStore) || (inClosure && canReach(at, st)) {
			defs = append(defs, st.Val)
		}
	}
	// stores made by closures that captured the cell: at any time
	have := map[ssa.Value]bool{}
	for _, st := range local {
		have[st.Val] = true
	}
	for _, v := range c15stores(a) {
		if !have[v] {
			defs = append(defs, v)
		}
	}
	zero = pathAvoiding(a, at, isStore)
	return defs, zero
}
