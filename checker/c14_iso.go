package main

// C14.I1 (one service's failure stays its own) and C14.P4 (no non-finite weight leaves the parser), by role.

import (
	"go/token"
	"go/types"
	"strings"

	"golang.org/x/tools/go/ssa"
)

const c14catalogService = "(*" + apiPkg + ".Catalog).Service"

// c14isCatalogQuery: the call asks consul's catalog for the instances of a service: (*api.Catalog).Service itself, or a
// call that leaves the repository (a library function, a method of an interface put in front of the client) and
// returns a list of catalog entries together with an error.
func c14isCatalogQuery(cc *ssa.CallCommon) bool {
	if calleeName(cc) == c14catalogService {
		return true
	}
	if sc := cc.StaticCallee(); sc != nil && isRepoFn(sc) {
		return false
	}
	if !cc.IsInvoke() && cc.StaticCallee() == nil {
		return false // a function value: followed to the functions it denotes
	}
	if cc.IsInvoke() && len(c14callees(cc)) > 0 {
		return false // an interface the repository implements itself: followed into the implementations
	}
	res := cc.Signature().Results()
	entries, hasErr := false, false
	for k := 0; k < res.Len(); k++ {
		t := res.At(k).Type()
		if c14isErrorType(t) {
			hasErr = true
		}
		if sl, ok := t.Underlying().(*types.Slice); ok {
			if pt, ok := sl.Elem().(*types.Pointer); ok && namedIs(pt.Elem(), "api.CatalogService") {
				entries = true
			}
		}
	}
	return entries && hasErr
}

// c14chanOrigins: the make(chan) instructions a channel value can come from.
func c14chanOrigins(v ssa.Value) map[*ssa.MakeChan]bool {
	out := map[*ssa.MakeChan]bool{}
	c14derives(v, func(x ssa.Value) bool {
		if mc, ok := x.(*ssa.MakeChan); ok {
			out[mc] = true
		}
		return false
	})
	return out
}

func c14innermostLoop(i ssa.Instruction) *loop {
	var best *loop
	if i.Parent() == nil {
		return nil
	}
	for _, l := range loopsOf(i.Parent()) {
		if l.Body[i.Block()] && (best == nil || len(l.Body) < len(best.Body)) {
			best = l
		}
	}
	return best
}

// c14loopCount: the collection X such that the loop runs exactly len(X) times (range X; i := 0; i < len(X); i++;
// range len(X); n := len(X); n > 0; n--), and the block that holds the loop test; nil when the count is not of that form.
func c14loopCount(l *loop) (ssa.Value, *ssa.BasicBlock) {
	if l == nil {
		return nil, nil
	}
	var exits []*ssa.BasicBlock
	for _, b := range l.Head.Parent().Blocks {
		if !l.Body[b] {
			continue
		}
		for _, s := range b.Succs {
			if !l.Body[s] {
				exits = append(exits, b)
				break
			}
		}
	}
	for _, tb := range exits {
		if coll := c14loopCountAt(l, tb); coll != nil {
			return coll, tb
		}
	}
	return nil, nil
}

func c14loopCountAt(l *loop, tb *ssa.BasicBlock) ssa.Value {
	if len(tb.Instrs) == 0 || len(tb.Succs) != 2 {
		return nil
	}
	iff, ok := tb.Instrs[len(tb.Instrs)-1].(*ssa.If)
	if !ok {
		return nil
	}
	stays := l.Body[tb.Succs[0]] // the true edge stays in the loop
	if stays == l.Body[tb.Succs[1]] {
		return nil
	}
	// a loop tested at the bottom (range over an int is compiled that way) runs once before the first test
	bottom := tb.Succs[0] == l.Head || tb.Succs[1] == l.Head
	// range over a map / string: ok of next(range X)
	if ex, ok := iff.Cond.(*ssa.Extract); ok {
		if nx, ok := ex.Tuple.(*ssa.Next); ok && ex.Index == 0 && stays && tb == l.Head {
			if rg, ok := nx.Iter.(*ssa.Range); ok {
				return rg.X
			}
		}
		return nil
	}
	x, op, y, ok := c14cmp(Fact{iff.Cond, stays})
	if !ok {
		return nil
	}
	lenOf := func(v ssa.Value) ssa.Value {
		v = c14resolveArg(v) // a count handed to a helper: `collect(ch, len(m))`
		if call, ok := v.(*ssa.Call); ok && calleeName(&call.Call) == "builtin.len" && len(call.Call.Args) == 1 {
			return call.Call.Args[0]
		}
		return nil
	}
	// the counter: a phi of the header, or its increment
	counter := func(v ssa.Value) (phi *ssa.Phi, incremented bool) {
		if b, ok := v.(*ssa.BinOp); ok && b.Op == token.ADD {
			if k, isK := constInt(b.Y); isK && k == 1 {
				v, incremented = b.X, true
			}
		}
		phi, ok := v.(*ssa.Phi)
		if !ok || phi.Block() != l.Head {
			return nil, false
		}
		return phi, incremented
	}
	// the phi moves by `step` on every back edge
	steps := func(phi *ssa.Phi, step int64) bool {
		n := 0
		for k, e := range phi.Edges {
			if !l.Body[phi.Block().Preds[k]] {
				continue
			}
			n++
			b, ok := e.(*ssa.BinOp)
			if !ok || b.X != phi {
				return false
			}
			d, isK := constInt(b.Y)
			if !isK || !((b.Op == token.ADD && d == step) || (b.Op == token.SUB && d == -step)) {
				return false
			}
		}
		return n > 0
	}
	initOf := func(phi *ssa.Phi) ssa.Value {
		var init ssa.Value
		for k, e := range phi.Edges {
			if l.Body[phi.Block().Preds[k]] {
				continue
			}
			if init != nil && init != e {
				return nil
			}
			init = e
		}
		return init
	}
	// the loop is entered only when coll is not empty
	guarded := func(coll ssa.Value) bool {
		n := 0
		for _, p := range l.Head.Preds {
			if l.Body[p] {
				continue
			}
			n++
			facts := factsAt(p)
			if len(p.Instrs) > 0 && len(p.Succs) == 2 && p.Succs[0] != p.Succs[1] {
				if pif, ok := p.Instrs[len(p.Instrs)-1].(*ssa.If); ok {
					facts = append(facts, Fact{pif.Cond, p.Succs[0] == l.Head})
				}
			}
			if lo, _ := c14lenBounds(facts, func(v ssa.Value) bool { return v == coll }); lo < 1 {
				return false
			}
		}
		return n > 0
	}
	// counting up: i < len(X)  /  len(X) > i  /  i != len(X)
	if op == token.GTR {
		x, y, op = y, x, token.LSS
	}
	if op == token.LSS || op == token.NEQ {
		for _, pr := range [][2]ssa.Value{{x, y}, {y, x}} {
			if op == token.LSS && pr[0] != x {
				continue
			}
			coll := lenOf(pr[1])
			if coll == nil {
				continue
			}
			phi, inc := counter(pr[0])
			if phi == nil || !steps(phi, 1) {
				continue
			}
			k, isK := constInt(initOf(phi))
			switch {
			case !isK:
			case !bottom && !inc && k == 0, !bottom && inc && k == -1:
				return coll
			case bottom && inc && k == 0 && guarded(coll):
				return coll
			}
		}
	}
	// counting down: n := len(X); n > 0; n--   (also 0 < n, n != 0)
	xx, yy, oo := x, y, op
	if oo == token.LSS {
		xx, yy, oo = yy, xx, token.GTR
	}
	if (oo == token.GTR || oo == token.NEQ) && !bottom {
		if k, isK := constInt(yy); isK && k == 0 {
			if phi, ok := xx.(*ssa.Phi); ok && phi.Block() == l.Head && steps(phi, -1) {
				if init := initOf(phi); init != nil {
					return lenOf(init)
				}
			}
		}
	}
	return nil
}

// c14resolveArg maps a parameter of a helper with one call site to the argument passed there.
func c14resolveArg(v ssa.Value) ssa.Value {
	for d := 0; d < 3; d++ {
		switch x := v.(type) {
		case *ssa.ChangeType:
			v = x.X
			continue
		case *ssa.Parameter:
			fn := x.Parent()
			sites := gSites[fn]
			if fn == nil || len(sites) != 1 || !onlyStaticallyCalled(fn) {
				return v
			}
			for k, p := range fn.Params {
				if p == x && k < len(sites[0].Common().Args) {
					v = sites[0].Common().Args[k]
				}
			}
			if v == ssa.Value(x) {
				return v
			}
			continue
		case *ssa.FreeVar:
			fn := x.Parent()
			if fn == nil || fn.Parent() == nil {
				return v
			}
			var bound ssa.Value
			eachInstr(fn.Parent(), func(i ssa.Instruction) {
				if mc, ok := i.(*ssa.MakeClosure); ok && mc.Fn == fn {
					for k, fv := range fn.FreeVars {
						if fv == x && k < len(mc.Bindings) {
							bound = mc.Bindings[k]
						}
					}
				}
			})
			if bound == nil {
				return v
			}
			v = bound
			continue
		}
		return v
	}
	return v
}

const c14errgroupGo = "(*golang.org/x/sync/errgroup.Group).Go"

// c14isSpawn: the instruction starts a goroutine: a go statement, or a call of (*errgroup.Group).Go.
func c14isSpawn(i ssa.Instruction) bool {
	if _, isGo := i.(*ssa.Go); isGo {
		return true
	}
	call, ok := i.(*ssa.Call)
	return ok && calleeName(&call.Call) == c14errgroupGo && len(call.Call.Args) == 2
}

// c14started: the repository functions the instruction starts as goroutines.
func c14started(i ssa.Instruction) []*ssa.Function {
	switch x := i.(type) {
	case *ssa.Go:
		return c14callees(&x.Call)
	case *ssa.Call:
		if c14isSpawn(x) {
			fs := funcsOf(x.Call.Args[1])
			if len(fs) == 0 {
				fs = c14tableFuncs(x.Call.Args[1])
			}
			return fs
		}
	}
	return nil
}

// c14regionNoGo: f, the repository functions it calls or defers (transitively, any package), and the closures it makes
// - except the functions it only starts as goroutines.
func c14regionNoGo(root *ssa.Function, depth int) []*ssa.Function {
	var out []*ssa.Function
	seen := map[*ssa.Function]bool{}
	var add func(f *ssa.Function, d int)
	add = func(f *ssa.Function, d int) {
		if f == nil || seen[f] || len(f.Blocks) == 0 || !isRepoFn(f) {
			return
		}
		seen[f] = true
		out = append(out, f)
		if d >= depth {
			return
		}
		started := map[*ssa.Function]bool{}
		eachInstr(f, func(i ssa.Instruction) {
			for _, g := range c14started(i) {
				started[g] = true
			}
		})
		eachInstr(f, func(i ssa.Instruction) {
			if c14isSpawn(i) {
				return
			}
			for _, op := range i.Operands(nil) {
				if op == nil || *op == nil {
					continue
				}
				var g *ssa.Function
				switch x := (*op).(type) {
				case *ssa.Function:
					g = unwrap(x)
				case *ssa.MakeClosure:
					if fn, ok := x.Fn.(*ssa.Function); ok {
						g = unwrap(fn)
					}
				}
				if g != nil && !started[g] {
					add(g, d+1)
				}
			}
		})
	}
	add(root, 0)
	return out
}

func runC14I1(c *Ctx) {
	// role: the functions that ask the catalog for the instances of one service
	query := map[*ssa.Function]bool{}
	for _, f := range c14fns(c) {
		hit := false
		eachInstr(f, func(i ssa.Instruction) {
			if cc := callCommon(i); cc != nil && c14isCatalogQuery(cc) {
				hit = true
			}
		})
		if hit {
			query[f] = true
		}
	}
	if len(query) == 0 {
		c.undecided("C14.I1", "anchor|per-service catalog query", "no function calls (*api.Catalog).Service")
		return
	}
	// reaches: f performs the query itself or through the functions it calls - not through goroutines it starts
	memo := map[*ssa.Function]bool{}
	reaches := func(f *ssa.Function) bool {
		if r, ok := memo[f]; ok {
			return r
		}
		r := false
		for _, g := range c14regionNoGo(f, 4) {
			if query[g] {
				r = true
			}
		}
		memo[f] = r
		return r
	}
	isQueryCall := func(v ssa.Value) bool {
		call, ok := v.(*ssa.Call)
		if !ok {
			return false
		}
		for _, g := range c14callees(&call.Call) {
			if g != nil && isRepoFn(g) && reaches(g) {
				return true
			}
		}
		return false
	}

	// ---- per-service goroutines ----
	type spawn struct {
		gi ssa.CallInstruction // the go statement, or the call of (*errgroup.Group).Go
		g  *ssa.Function
		// worker: the goroutine takes the services from a channel: its job loop, and the loops that fill that channel
		worker    *loop
		producers []*loop
	}
	var spawns []*spawn
	for _, f := range c14fns(c) {
		eachInstr(f, func(i ssa.Instruction) {
			if !c14isSpawn(i) {
				return
			}
			for _, g := range c14started(i) {
				if g != nil && isRepoFn(g) && len(g.Blocks) > 0 && reaches(g) {
					spawns = append(spawns, &spawn{gi: i.(ssa.CallInstruction), g: g})
				}
			}
		})
	}
	if len(spawns) == 0 {
		c.undecided("C14.I1", "anchor|per-service goroutine", "no go statement starts a function that queries the catalog for one service")
	}
	nWaitGroup := 0 // goroutines joined through a WaitGroup (no collector loop to look at)
	results := map[*ssa.MakeChan]bool{}
	producers := map[*ssa.Function]bool{} // the functions whose result is handed over (today: serviceConfig)
	for _, sp := range spawns {
		g := sp.g
		// the sends that hand over the result of the query
		isResultSend := func(i ssa.Instruction) bool {
			s, ok := i.(*ssa.Send)
			return ok && c14derives(s.X, isQueryCall)
		}
		// a deferred function that sends on all of its paths sends at exit
		isSend := func(i ssa.Instruction) bool {
			if isResultSend(i) {
				return true
			}
			if d, ok := i.(*ssa.Defer); ok {
				for _, df := range c14callees(&d.Call) {
					if df != nil && isRepoFn(df) && mustExec(df, isResultSend, 1) {
						return true
					}
				}
			}
			return false
		}
		var sends []ssa.Instruction
		for _, f := range c14regionNoGo(g, 3) {
			if query[f] && f != g {
				continue
			}
			eachInstr(f, func(i ssa.Instruction) {
				if isResultSend(i) {
					sends = append(sends, i)
					c14derives(i.(*ssa.Send).X, func(x ssa.Value) bool {
						if call, ok := x.(*ssa.Call); ok && isQueryCall(x) {
							for _, pf := range c14callees(&call.Call) {
								producers[pf] = true
							}
						}
						return false
					})
					for mc := range c14chanOrigins(i.(*ssa.Send).Chan) {
						results[mc] = true
					}
				}
			})
		}
		if len(sends) == 0 {
			// no channel: the other spelling of the join (stores + sync.WaitGroup)
			ok, why := c14wgJoin(sp.gi, g, isQueryCall)
			if ok {
				nWaitGroup++
			}
			c.check("C14.I1", fnKey(g)+"|exactly one result per service on every path", g.Pos(), ok,
				"each per-service goroutine ("+fnKey(g)+") must hand over its (possibly empty) result exactly once on every path - a send on the result channel, or a store followed by WaitGroup.Done with the spawner waiting for the group; "+why)
			continue
		}
		// at most once: nothing that sends on the result channel - whatever value - (or calls / defers a helper that
		// may) can be followed by another one
		onResultChan := func(i ssa.Instruction) bool {
			s, ok := i.(*ssa.Send)
			if !ok {
				return false
			}
			for mc := range c14chanOrigins(s.Chan) {
				if results[mc] {
					return true
				}
			}
			return false
		}
		may := liftMay(func(i ssa.Instruction) bool {
			if onResultChan(i) {
				return true
			}
			if d, ok := i.(*ssa.Defer); ok {
				for _, df := range c14callees(&d.Call) {
					if df != nil && isRepoFn(df) && mayExec(df, onResultChan, 1) {
						return true
					}
				}
			}
			return false
		})
		var sites []ssa.Instruction
		eachInstr(g, func(i ssa.Instruction) {
			if !c14isSpawn(i) && may(i) {
				sites = append(sites, i)
			}
		})
		// the other way of limiting concurrency: a fixed number of workers that take the services from a channel. The
		// unit is then one iteration of the worker's job loop instead of one goroutine.
		if jl, jobs := c14jobLoop(sites); jl != nil {
			okWorker, why := c14workerIteration(jl, jobs, sites, liftMust(isSend, 1))
			var prod []*loop
			if okWorker {
				prod, why = c14jobProducers(c, jobs, g)
				okWorker = why == ""
			}
			sp.worker, sp.producers = jl, prod
			c.check("C14.I1", fnKey(g)+"|exactly one result per service on every path", g.Pos(), okWorker,
				"each worker ("+fnKey(g)+") must send exactly one (possibly empty) result for every service it takes from the job channel and keep taking services until that channel is closed, and every service must be put on the job channel exactly once; "+why)
			continue
		}
		okSend := mustExec(g, isSend, 0)
		for _, a := range sites {
			for _, b := range sites {
				if pathAvoiding(a, b, nil) {
					okSend = false
				}
			}
		}
		c.check("C14.I1", fnKey(g)+"|exactly one result per service on every path", g.Pos(), okSend,
			"each per-service goroutine ("+fnKey(g)+") must send its (possibly empty) result exactly once on every path; a goroutine that sends nothing on failure makes the collector wait forever (all route updates stop), one that sends twice shifts results")
	}

	// ---- collector ----
	if len(spawns) > 0 && !(nWaitGroup == len(spawns) && len(results) == 0) {
		type recv struct {
			u *ssa.UnOp
		}
		var recvs []recv
		inGoroutine := map[*ssa.Function]bool{}
		for _, sp := range spawns {
			for _, f := range c14regionNoGo(sp.g, 3) {
				inGoroutine[f] = true
			}
		}
		for _, f := range c14fns(c) {
			if inGoroutine[f] {
				continue
			}
			eachInstr(f, func(i ssa.Instruction) {
				u, ok := i.(*ssa.UnOp)
				if !ok || u.Op != token.ARROW {
					return
				}
				for mc := range c14chanOrigins(u.X) {
					if results[mc] {
						recvs = append(recvs, recv{u})
						return
					}
				}
			})
		}
		if len(recvs) == 0 {
			c.check("C14.I1", fnKey(spawns[0].gi.Parent())+"|collector takes exactly one result per service", spawns[0].gi.Pos(), false,
				"no receive from the channel on which the per-service goroutines hand over their results: the collector must receive one result per spawned goroutine")
		}
		for _, rc := range recvs {
			l := c14innermostLoop(rc.u)
			okLoop, why := l != nil, "the receive is not in a loop"
			if l != nil {
				// the receive happens in every iteration, and nothing leaves the loop once a result has been taken
				after := map[*ssa.BasicBlock]bool{rc.u.Block(): true}
				stack := []*ssa.BasicBlock{rc.u.Block()}
				for len(stack) > 0 {
					b := stack[len(stack)-1]
					stack = stack[:len(stack)-1]
					for _, s := range b.Succs {
						if l.Body[s] && s != l.Head && !after[s] {
							after[s] = true
							stack = append(stack, s)
						}
					}
				}
				_, test := c14loopCount(l)
				for b := range after {
					if b == l.Head || b == test {
						continue
					}
					for _, s := range b.Succs {
						if !l.Body[s] {
							okLoop, why = false, "the loop can be left after a result has been received (early exit)"
						}
					}
				}
				for _, b := range l.Head.Preds {
					if l.Body[b] && !rc.u.Block().Dominates(b) && rc.u.Block() != l.Head {
						okLoop, why = false, "an iteration can complete without receiving a result"
					}
				}
				// as many iterations as goroutines
				cntColl, _ := c14loopCount(l)
				cnt := c14resolveArg(cntColl)
				match := false
				for _, sp := range spawns {
					if sp.worker != nil {
						// as many results as services put on the job channel
						for _, pl := range sp.producers {
							pc, _ := c14loopCount(pl)
							if x := c14resolveArg(pc); x != nil && cnt != nil && x == cnt {
								match = true
							}
						}
						continue
					}
					var at ssa.Instruction = sp.gi
					sl := c14innermostLoop(at)
					if sl == nil {
						// the go statement sits in a helper called from the spawning loop
						if f := sp.gi.Parent(); f != nil && len(gSites[f]) == 1 && onlyStaticallyCalled(f) {
							at = gSites[f][0]
							sl = c14innermostLoop(at)
						}
					}
					scColl, _ := c14loopCount(sl)
					if sc := c14resolveArg(scColl); sc != nil && cnt != nil && sc == cnt {
						match = true
					}
				}
				if !match {
					okLoop, why = false, "the number of iterations is not the number of goroutines spawned / of services handed to the workers (both loops must run len(X) times for the same X)"
				}
			}
			c.check("C14.I1", fnKey(rc.u.Parent())+"|collector takes exactly one result per service", rc.u.Pos(), okLoop,
				"the collector ("+fnKey(rc.u.Parent())+") must receive exactly one result per spawned goroutine and keep going whatever a single service returned: aborting on one empty/failed result drops the routes of all other services (and leaks the remaining goroutines); "+why)
		}
	}

	// ---- the query itself: a failing catalog call drops only this service ----
	// error values of the catalog call, also when handed up by a repository wrapper
	errOf := func(v ssa.Value) bool {
		ex, ok := v.(*ssa.Extract)
		if !ok || !c14isErrorType(ex.Type()) {
			return false
		}
		call, ok := ex.Tuple.(*ssa.Call)
		if !ok {
			return false
		}
		if c14isCatalogQuery(&call.Call) {
			return true
		}
		for _, g := range c14callees(&call.Call) {
			if g != nil && isRepoFn(g) && reaches(g) {
				return true
			}
		}
		return false
	}
	// wherever that error value arrives: from there on nothing ends the process or panics unless the error is known
	// to be nil, and the function can still return
	nTested := 0
	for _, f := range c14fns(c) {
		if !reaches(f) {
			continue
		}
		ff := f
		eachInstr(f, func(i ssa.Instruction) {
			ev, ok := i.(ssa.Value)
			if !ok || !errOf(ev) {
				return
			}
			used := false
			if refs := ev.Referrers(); refs != nil {
				for _, r := range *refs {
					if _, isDbg := r.(*ssa.DebugRef); !isDbg {
						used = true
					}
				}
			}
			if !used {
				return
			}
			nTested++
			from := []*ssa.BasicBlock{i.Block()}
			after := reachableFrom(from, nil)
			after[i.Block()] = true
			returns, fatal := false, false
			for b := range after {
				isNil := knownNil(b, func(v ssa.Value) bool { return v == ev })
				for _, in := range b.Instrs {
					switch x := in.(type) {
					case *ssa.Return:
						returns = true
					case *ssa.Panic:
						if !isNil {
							fatal = true
						}
					case *ssa.Call:
						if n := calleeName(&x.Call); !isNil && (strings.HasPrefix(n, "log.Fatal") || strings.HasPrefix(n, "log.Panic") || n == "os.Exit" || n == "runtime.Goexit" || strings.HasPrefix(n, "(*log.Logger).Fatal") || strings.HasPrefix(n, "(*log.Logger).Panic")) {
							fatal = true
						}
					}
				}
			}
			c.check("C14.I1", fnKey(ff)+"|a failing catalog query drops only this service", i.Pos(), returns && !fatal,
				"when the catalog query for one service fails, "+fnKey(ff)+" must go on and return (nothing) for that service only - not exit or panic")
		})
	}
	c.atLeast("C14.I1", "places where the error of the per-service catalog query is received", nTested, 1)
	// the function whose result a goroutine hands over returns only its own slice: nil, a fresh slice, or what it
	// appended to
	for _, f := range c14fns(c) {
		if !producers[f] {
			continue
		}
		okRet := true
		eachInstr(f, func(i ssa.Instruction) {
			r, ok := i.(*ssa.Return)
			if !ok {
				return
			}
			for _, res := range r.Results {
				if typeStr(res.Type().Underlying()) == "[]string" && !c14ownSlice(res, 0, map[ssa.Value]bool{}) {
					okRet = false
				}
			}
		})
		c.check("C14.I1", fnKey(f)+"|returns only its own slice", f.Pos(), okRet,
			fnKey(f)+" must return nil or the slice it built itself on every path (a slice shared with other services or kept from an earlier run mixes registrations)")
	}
}

// c14jobLoop: all places of a goroutine that (may) send a result lie in one loop of it that takes a value from a
// channel at the start of every iteration (`for j := range jobs`, `for { j, ok := <-jobs; if !ok { return } ... }`):
// that loop and the receive. nil when the goroutine is not of that shape.
func c14jobLoop(sites []ssa.Instruction) (*loop, *ssa.UnOp) {
	if len(sites) == 0 {
		return nil, nil
	}
	var jl *loop
	for _, s := range sites {
		l := c14innermostLoop(s)
		if l == nil || (jl != nil && jl.Head != l.Head) {
			return nil, nil
		}
		jl = l
	}
	var recv *ssa.UnOp
	for b := range jl.Body {
		for _, in := range b.Instrs {
			u, ok := in.(*ssa.UnOp)
			if !ok || u.Op != token.ARROW {
				continue
			}
			// taken in every iteration, before any result is sent
			every := true
			for _, s := range sites {
				if !dominatesInstr(u, s) {
					every = false
				}
			}
			if every && (b == jl.Head || b.Dominates(jl.Head) || c14dominatesBackEdges(jl, b)) {
				recv = u
			}
		}
	}
	if recv == nil {
		return nil, nil
	}
	return jl, recv
}

func c14dominatesBackEdges(l *loop, b *ssa.BasicBlock) bool {
	n := 0
	for _, p := range l.Head.Preds {
		if !l.Body[p] {
			continue
		}
		n++
		if p != b && !b.Dominates(p) {
			return false
		}
	}
	return n > 0
}

// c14workerIteration: in job loop jl, after a job has been taken (recv), exactly one result is sent before the next
// one is taken, on every path, and the loop is left only where the job channel turns out to be closed.
func c14workerIteration(jl *loop, recv *ssa.UnOp, sites []ssa.Instruction, isSend func(ssa.Instruction) bool) (bool, string) {
	// the edge on which the channel is known to be closed / the value is not a job
	closedExit := func(from, to *ssa.BasicBlock) bool {
		if len(from.Instrs) == 0 {
			return false
		}
		iff, ok := from.Instrs[len(from.Instrs)-1].(*ssa.If)
		if !ok || len(from.Succs) != 2 {
			return false
		}
		cond, truth := iff.Cond, from.Succs[0] == to
		for {
			u, isNot := cond.(*ssa.UnOp)
			if !isNot || u.Op != token.NOT {
				break
			}
			cond, truth = u.X, !truth
		}
		ex, ok := cond.(*ssa.Extract)
		return ok && ex.Tuple == ssa.Value(recv) && ex.Index == 1 && !truth
	}
	type item struct {
		b   *ssa.BasicBlock
		idx int
	}
	// at least once: from the receive, neither the next receive (the head) nor the end of the loop is reached without a send
	seen := map[*ssa.BasicBlock]bool{}
	stack := []item{{recv.Block(), instrIndex(recv) + 1}}
	for len(stack) > 0 {
		it := stack[len(stack)-1]
		stack = stack[:len(stack)-1]
		blocked := false
		for k := it.idx; k < len(it.b.Instrs); k++ {
			in := it.b.Instrs[k]
			if isSend(in) {
				blocked = true
				break
			}
			if _, isRet := in.(*ssa.Return); isRet {
				return false, "a worker can return after taking a service without sending a result for it"
			}
		}
		if blocked {
			continue
		}
		for _, sx := range it.b.Succs {
			if closedExit(it.b, sx) {
				continue
			}
			if sx == jl.Head || !jl.Body[sx] {
				return false, "a worker can go on (or stop) after taking a service without sending a result for it"
			}
			if !seen[sx] {
				seen[sx] = true
				stack = append(stack, item{sx, 0})
			}
		}
	}
	// at most once: no send can be followed by another one before the next job is taken
	for _, a := range sites {
		for _, b := range sites {
			if pathAvoiding(a, b, func(i ssa.Instruction) bool { return i == ssa.Instruction(recv) }) {
				return false, "a worker can send two results for one service"
			}
		}
	}
	// the worker stays: the loop is left only where the job channel is closed
	for b := range jl.Body {
		for _, sx := range b.Succs {
			if !jl.Body[sx] && !closedExit(b, sx) {
				return false, "a worker can stop taking services before the job channel is closed (the remaining services are never answered)"
			}
		}
		for _, in := range b.Instrs {
			if _, isRet := in.(*ssa.Return); isRet {
				return false, "a worker can stop taking services before the job channel is closed (the remaining services are never answered)"
			}
		}
	}
	return true, ""
}

// c14jobProducers: the loops that put the services on the job channel the workers read: every send on that channel
// (outside the worker) lies in a loop with a countable number of iterations and happens exactly once per iteration.
func c14jobProducers(c *Ctx, recv *ssa.UnOp, worker *ssa.Function) ([]*loop, string) {
	jobs := c14chanOrigins(recv.X)
	if len(jobs) == 0 {
		return nil, "the job channel cannot be identified"
	}
	inWorker := map[*ssa.Function]bool{}
	for _, f := range c14regionNoGo(worker, 3) {
		inWorker[f] = true
	}
	var out []*loop
	why := ""
	for _, f := range c14fns(c) {
		if inWorker[f] {
			continue
		}
		eachInstr(f, func(i ssa.Instruction) {
			s, ok := i.(*ssa.Send)
			if !ok || why != "" {
				return
			}
			same := false
			for mc := range c14chanOrigins(s.Chan) {
				if jobs[mc] {
					same = true
				}
			}
			if !same {
				return
			}
			l := c14innermostLoop(s)
			if l == nil {
				why = "a service is put on the job channel outside a loop over the services"
				return
			}
			if coll, _ := c14loopCount(l); coll == nil {
				why = "the loop that puts the services on the job channel has no countable number of iterations"
				return
			}
			if !(s.Block() == l.Head || c14dominatesBackEdges(l, s.Block())) {
				why = "a service can be skipped when the job channel is filled"
				return
			}
			for _, o := range out {
				if o.Head == l.Head {
					why = "a service is put on the job channel twice"
					return
				}
			}
			out = append(out, l)
		})
	}
	if why == "" && len(out) == 0 {
		why = "nothing puts the services on the job channel"
	}
	return out, why
}

// c14ownSlice: the slice value is nil, freshly made, or an append to / a reslice of such a slice - not a load from a
// global, a field or a map.
func c14ownSlice(v ssa.Value, d int, seen map[ssa.Value]bool) bool {
	if seen[v] || d > 10 {
		return true
	}
	seen[v] = true
	switch x := v.(type) {
	case *ssa.Const, *ssa.MakeSlice:
		return true
	case *ssa.Phi:
		for _, e := range x.Edges {
			if !c14ownSlice(e, d+1, seen) {
				return false
			}
		}
		return true
	case *ssa.Slice:
		if _, isAlloc := x.X.(*ssa.Alloc); isAlloc {
			return true
		}
		return c14ownSlice(x.X, d+1, seen)
	case *ssa.ChangeType:
		return c14ownSlice(x.X, d+1, seen)
	case *ssa.Convert:
		return c14ownSlice(x.X, d+1, seen)
	case *ssa.Extract:
		return true // a result of a call
	case *ssa.Call:
		if calleeName(&x.Call) == "builtin.append" {
			return c14ownSlice(x.Call.Args[0], d+1, seen)
		}
		return true
	case *ssa.UnOp:
		if x.Op == token.MUL {
			if a, ok := x.X.(*ssa.Alloc); ok {
				// a local cell (named result captured by a closure / defer)
				for _, r := range *a.Referrers() {
					if st, ok := r.(*ssa.Store); ok && st.Addr == a && !c14ownSlice(st.Val, d+1, seen) {
						return false
					}
				}
				return true
			}
			return false // global, field, element
		}
	case *ssa.Lookup, *ssa.Index, *ssa.Field:
		return false
	case *ssa.Parameter, *ssa.FreeVar:
		return true
	}
	return true
}

// ---- P4 ------------------------------------------------------------------------------------------------------

// c14FiniteWeight: in the parser (everything route.Parse can reach in its package: through static calls, through a
// table of builder functions, through a small interface) a float obtained from strconv.ParseFloat is handed out only
// where it is known to be neither NaN nor infinite - directly (math.IsNaN / math.IsInf / f != f / an ordered comparison
// that holds) or through a repository predicate that implies it. A float that is returned unjudged is followed to the
// callers of the function (the judgement may have moved there).
func c14FiniteWeight(c *Ctx, rule string) {
	parse := c.fn("route", "Parse")
	if !c.need(rule, parse, "route.Parse") {
		return
	}
	isFloatConst := func(v ssa.Value) bool {
		k, ok := v.(*ssa.Const)
		if !ok || k.Value == nil {
			return false
		}
		b, ok := k.Type().Underlying().(*types.Basic)
		return ok && b.Info()&(types.IsFloat|types.IsInteger) != 0
	}
	leaf := func(env c14env, tracked func(ssa.Value) bool) map[string]bool {
		labels := map[string]bool{}
		about := func(v ssa.Value) bool { return c14derives(v, tracked) }
		pos, neg := false, false
		for _, ft := range env.Facts {
			if call, truth, ok := boolCallFact(ft, "math.IsNaN"); ok && !truth && about(call.Call.Args[0]) {
				labels["nan"] = true
			}
			if call, truth, ok := boolCallFact(ft, "math.IsInf"); ok && !truth && about(call.Call.Args[0]) {
				k, isK := constInt(call.Call.Args[1])
				switch {
				case isK && k == 0:
					pos, neg = true, true
				case isK && k > 0:
					pos = true
				case isK && k < 0:
					neg = true
				}
			}
			// f == f holds only for non-NaN
			if x, op, y, ok := c14cmp(ft); ok && op == token.EQL && x == y && about(x) {
				labels["nan"] = true
			}
			// an ordered comparison with a (finite) constant: `f <= K` that HOLDS excludes NaN and +Inf, `f > K` that does
			// NOT hold excludes +Inf only (it is false for NaN as well)
			if b, ok := ft.Cond.(*ssa.BinOp); ok {
				x, y, op := b.X, b.Y, b.Op
				if isFloatConst(x) && !isFloatConst(y) {
					x, y, op = y, x, c14flip(op)
				}
				if isFloatConst(y) && !isFloatConst(x) && about(x) {
					switch op {
					case token.LSS, token.LEQ:
						if ft.Truth {
							pos, labels["nan"] = true, true
						} else {
							neg = true
						}
					case token.GTR, token.GEQ:
						if ft.Truth {
							neg, labels["nan"] = true, true
						} else {
							pos = true
						}
					case token.EQL:
						if ft.Truth {
							pos, neg, labels["nan"] = true, true, true
						}
					}
				}
			}
		}
		if pos && neg {
			labels["inf"] = true
		}
		return labels
	}
	n := 0
	for _, f := range c14reach(c, 8, parse) {
		var floats []*ssa.Call
		eachInstr(f, func(i ssa.Instruction) {
			if call, ok := i.(*ssa.Call); ok && calleeName(&call.Call) == "strconv.ParseFloat" {
				floats = append(floats, call)
			}
		})
		for _, pf := range floats {
			// the values that stand for the parsed float: the result of ParseFloat, and the results of the repository
			// functions that return it unjudged
			tracked := map[ssa.Value]bool{}
			isTracked := func(v ssa.Value) bool { return tracked[v] }
			finiteOn := func(blk *ssa.BasicBlock, edge *c14env) bool {
				env := c14envAt(blk, edge)
				labels := leaf(env, isTracked)
				for _, v := range env.verdicts() {
					var idx []int
					for k, a := range v.Call.Call.Args {
						if c14derives(a, isTracked) {
							idx = append(idx, k)
						}
					}
					for l := range c14implies(v, idx, leaf, 0) {
						labels[l] = true
					}
				}
				return labels["nan"] && labels["inf"]
			}
			finiteAt := func(blk *ssa.BasicBlock) bool { return finiteOn(blk, nil) }
			// where the parsed float leaves the parser (stored, converted, passed on, returned to code that does not
			// judge it): every such use - directly or after merges - lies where the value is known to be finite
			seen := map[ssa.Value]bool{}
			var follow func(v ssa.Value, depth int)
			follow = func(v ssa.Value, depth int) {
				if seen[v] || v.Referrers() == nil {
					return
				}
				seen[v] = true
				owner := c14parent(v)
				for _, r := range *v.Referrers() {
					switch x := r.(type) {
					case *ssa.DebugRef:
						continue
					case *ssa.Phi:
						for k, e := range x.Edges {
							if p := x.Block().Preds[k]; e == v && !finiteOn(p, c14edgeFact(p, x.Block())) {
								tracked[x] = true
								follow(x, depth)
							}
						}
						continue
					case *ssa.BinOp:
						switch x.Op {
						case token.EQL, token.NEQ, token.LSS, token.LEQ, token.GTR, token.GEQ:
							continue // a test
						}
					case *ssa.Call:
						// the tests themselves: math.IsNaN / math.IsInf / a repository predicate
						if n := calleeName(&x.Call); strings.HasPrefix(n, "math.Is") {
							continue
						}
						if sc := x.Call.StaticCallee(); sc != nil && isRepoFn(sc) && sc.Signature.Results().Len() == 1 {
							if t := sc.Signature.Results().At(0).Type(); c14isBoolType(t) || c14isErrorType(t) {
								continue
							}
						}
						// handed to a repository function that takes the float (and its error) and judges it:
						// `finiteWeight(parseWeight(s))`, `checked(f)`: followed into the parameter
						if !finiteAt(x.Block()) && depth < 3 {
							if moved := c14followArg(x, v, func(p *ssa.Parameter) {
								tracked[p] = true
								follow(p, depth+1)
							}); moved {
								continue
							}
						}
					case *ssa.Return:
						// returned unjudged: the callers take over (all of them must be visible)
						if !finiteAt(x.Block()) && depth < 3 && owner != nil {
							idx := -1
							for k, res := range x.Results {
								if res == v {
									idx = k
								}
							}
							sites, complete := c14allSites(owner)
							if idx >= 0 && complete && len(sites) > 0 && len(sites) <= maxHelperSites {
								for _, s := range sites {
									cv, isVal := s.(ssa.Value)
									if !isVal {
										continue
									}
									if len(x.Results) == 1 {
										tracked[cv] = true
										follow(cv, depth+1)
										continue
									}
									// the result tuple: its extracts, or the call it is passed to as a whole
									if cv.Referrers() != nil {
										for _, r2 := range *cv.Referrers() {
											if ex, ok := r2.(*ssa.Extract); ok && ex.Index == idx {
												tracked[ex] = true
												follow(ex, depth+1)
											}
										}
									}
								}
								continue
							}
						}
					}
					n++
					c.check(rule, fnKey(r.Parent())+"|parsed weight is finite", r.Pos(), finiteAt(r.Block()),
						"strconv.ParseFloat accepts 'Inf' and 'NaN'; a non-finite weight becomes a NaN share in weighTargets, int(NaN) is a huge negative slot count and make() panics in the table update loop (no recover) - the parser must reject it")
				}
			}
			eachInstr(f, func(i ssa.Instruction) {
				if ex, ok := i.(*ssa.Extract); ok && ex.Tuple == ssa.Value(pf) && ex.Index == 0 {
					tracked[ex] = true
					follow(ex, 0)
				}
			})
		}
	}
	c.atLeast(rule, "places where a float parsed by strconv.ParseFloat leaves the route parser", n, 1)
}

// c14followArg: call passes v to a repository function with a body; visit is called with the parameter that receives it.
func c14followArg(call *ssa.Call, v ssa.Value, visit func(*ssa.Parameter)) bool {
	moved := false
	for _, g := range c14callees(&call.Call) {
		if g == nil || !isRepoFn(g) || len(g.Blocks) == 0 {
			return false
		}
		for k, p := range g.Params {
			if c14argFor(call, g, k) == v {
				visit(p)
				moved = true
			}
		}
	}
	return moved
}
