package main

// C14.N1: the destination pasted into a command is the registered instance. Everything is asked of the backward slice
// of the command (c14slice), not of a function with a fixed name.

import (
	"go/token"
	"go/types"
	"strings"

	"golang.org/x/tools/go/ssa"
)

// c14emptyFact: the fact states that a string selected by `about` is empty (s == "", len(s) == 0, !(len(s) > 0) ...).
func c14emptyFact(ft Fact, about func(ssa.Value) bool) bool {
	x, op, y, ok := c14cmp(ft)
	if !ok {
		return false
	}
	if s, isK := constString(x); isK && s == "" {
		x, y, op = y, x, c14flip(op)
	}
	if s, isK := constString(y); isK && s == "" {
		return op == token.EQL && about(x)
	}
	if _, isK := constInt(x); isK {
		x, y, op = y, x, c14flip(op)
	}
	k, isK := constInt(y)
	call, isCall := x.(*ssa.Call)
	if !isK || !isCall || calleeName(&call.Call) != "builtin.len" || len(call.Call.Args) != 1 || !about(call.Call.Args[0]) {
		return false
	}
	switch op {
	case token.EQL, token.LEQ:
		return k == 0
	case token.LSS:
		return k == 1
	}
	return false
}

// c14varargs: the elements of a variadic argument built at the call site, in order.
func c14varargs(v ssa.Value) []ssa.Value {
	sl, ok := v.(*ssa.Slice)
	if !ok {
		return nil
	}
	arr, ok := sl.X.(*ssa.Alloc)
	if !ok {
		return nil
	}
	type el struct {
		idx int64
		v   ssa.Value
	}
	var els []el
	for _, r := range *arr.Referrers() {
		ia, ok := r.(*ssa.IndexAddr)
		if !ok {
			continue
		}
		k, _ := constInt(ia.Index)
		for _, r2 := range *ia.Referrers() {
			if st, ok := r2.(*ssa.Store); ok && st.Addr == ia {
				els = append(els, el{k, st.Val})
			}
		}
	}
	out := make([]ssa.Value, len(els))
	for _, e := range els {
		if int(e.idx) < len(out) {
			out[e.idx] = e.v
		}
	}
	return out
}

func runC14N1(st *c14state) {
	c := st.c
	isField := func(field string) func(ssa.Value) bool {
		return func(x ssa.Value) bool { return c14isCatalogField(x, field) }
	}
	var joins []*ssa.Call
	seenJoin := map[*ssa.Call]bool{}
	for _, s := range st.sinks {
		c14slice(s.val, func(x ssa.Value) {
			if call, ok := x.(*ssa.Call); ok && calleeName(&call.Call) == "net.JoinHostPort" && !seenJoin[call] {
				seenJoin[call] = true
				joins = append(joins, call)
			}
		})
	}
	if len(joins) == 0 {
		c.check("C14.N1", fnKey(st.sinks[0].fn)+"|destination host:port", st.sinks[0].store.Pos(), false, "the destination must be built with net.JoinHostPort (IPv6 literals need brackets)")
	}
	for _, join := range joins {
		addr := join.Call.Args[0]
		aboutSvc := func(v ssa.Value) bool { return c14derives(v, isField("ServiceAddress")) }
		hasSvc, hasNode := aboutSvc(addr), c14derives(addr, isField("Address"))
		// the node address reaches the host only through a point that is guarded by "ServiceAddress is empty"
		g := &c14guard{isNode: isField("Address"), aboutSvc: aboutSvc, seen: map[ssa.Value]bool{}}
		fallback := hasNode && g.guarded(addr, 0)
		okPort := c14derives(join.Call.Args[1], isField("ServicePort"))
		c.check("C14.N1", fnKey(join.Parent())+"|destination is the service address (node address as fallback) and the service port", join.Pos(), hasSvc && hasNode && fallback && okPort,
			"the route must point at the registered instance: ServiceAddress, falling back to the node's Address only when it is empty, joined with ServicePort")
	}

	// the destination is computed afresh for every command: no text carried around a loop that emits commands may flow
	// into a command (an earlier tag's proto=/redirect= destination would leak into the commands of later tags)
	for _, s := range st.sinks {
		emit := []ssa.Instruction{s.store}
		f := s.fn
		for d := 0; d < 3 && f != nil; d++ {
			sites := c14sitesOf(f)
			if len(sites) == 0 || len(sites) > maxHelperSites {
				break
			}
			var next *ssa.Function
			for _, cs := range sites {
				emit = append(emit, cs)
				next = cs.Parent()
			}
			if len(sites) != 1 {
				break
			}
			f = next
		}
		heads := map[*ssa.BasicBlock]*loop{}
		for _, e := range emit {
			if e.Parent() == nil {
				continue
			}
			for _, l := range loopsOf(e.Parent()) {
				if l.Body[e.Block()] {
					heads[l.Head] = l
				}
			}
		}
		var carried *ssa.Phi
		c14slice(s.val, func(x ssa.Value) {
			phi, ok := x.(*ssa.Phi)
			if !ok || carried != nil {
				return
			}
			l := heads[phi.Block()]
			if l == nil {
				return
			}
			if b, isB := phi.Type().Underlying().(*types.Basic); isB && b.Info()&types.IsInteger != 0 {
				return // a counter is not text
			}
			for k, e := range phi.Edges {
				if l.Body[phi.Block().Preds[k]] && e != phi {
					carried = phi
				}
			}
		})
		pos := s.store.Pos()
		detail := ""
		if carried != nil {
			pos = carried.Pos()
			detail = " (carried: " + carried.Comment + " in " + fnKey(carried.Parent()) + ")"
		}
		c.check("C14.N1", fnKey(s.fn)+"|destination computed per routing tag", pos, carried == nil,
			"the destination of a route command must be built inside the iteration for its own routing tag; a destination initialised once before the loop is overwritten by an earlier tag's proto=/redirect= option and leaks into the commands of later tags (valid syntax, wrong target)"+detail)
	}

	// proto table: the scheme prefix `p://` is chosen where the option is known to be proto=p
	want := []string{"tcp", "https", "grpc", "grpcs"}
	seen := map[string]bool{}
	isProto := func(ft Fact, p string) bool {
		x, op, y, ok := c14cmp(ft)
		if !ok || op != token.EQL {
			return false
		}
		for _, v := range []ssa.Value{x, y} {
			if s, isK := constString(v); isK && (s == "proto="+p || s == p) {
				return true
			}
		}
		return false
	}
	schemeOf := func(v ssa.Value) string {
		s, ok := constString(v)
		if !ok {
			return ""
		}
		for _, p := range want {
			// "tcp://", "tcp://%s" (a format), or the bare scheme name joined with "://" elsewhere
			if s == p || strings.HasPrefix(s, p+"://") {
				return p
			}
		}
		return ""
	}
	scan := st.ownerFns()
	inits := map[*ssa.Function]bool{}
	for _, f := range scan {
		// a table kept in a package-level variable is filled by the package initialiser
		if p := rootPkg(f); p != nil {
			if init := p.Func("init"); init != nil && !inits[init] {
				inits[init] = true
			}
		}
	}
	for init := range inits {
		scan = append(scan, init)
	}
	// what a table entry stands for: a scheme constant, or a builder function that uses exactly one scheme
	schemesIn := func(fn *ssa.Function) map[string]bool {
		out := map[string]bool{}
		for _, g := range withAnon(fn) {
			eachInstr(g, func(i ssa.Instruction) {
				for _, op := range i.Operands(nil) {
					if op != nil && *op != nil {
						if p := schemeOf(*op); p != "" {
							out[p] = true
						}
					}
				}
			})
		}
		return out
	}
	entryScheme := func(v ssa.Value) string {
		if p := schemeOf(v); p != "" {
			return p
		}
		var fn *ssa.Function
		switch x := v.(type) {
		case *ssa.Function:
			fn = unwrap(x)
		case *ssa.MakeClosure:
			if g, ok := x.Fn.(*ssa.Function); ok {
				fn = unwrap(g)
			}
		}
		if fn == nil || !isRepoFn(fn) || len(fn.Blocks) == 0 {
			return ""
		}
		set := schemesIn(fn)
		if len(set) != 1 {
			return ""
		}
		for p := range set {
			return p
		}
		return ""
	}
	isKeyFor := func(v ssa.Value, p string) bool {
		k, isK := constString(v)
		return isK && (k == "proto="+p || k == p)
	}
	// rows of a literal table of structs: the stores into the fields of one element
	rows := map[ssa.Value][]*ssa.Store{}
	eachInstrOf(scan, func(f *ssa.Function, i ssa.Instruction) {
		if mu, ok := i.(*ssa.MapUpdate); ok {
			if p := entryScheme(mu.Value); p != "" && isKeyFor(mu.Key, p) {
				seen[p] = true
			}
			return
		}
		if st, ok := i.(*ssa.Store); ok {
			if fa, isFA := st.Addr.(*ssa.FieldAddr); isFA {
				rows[fa.X] = append(rows[fa.X], st)
			}
		}
		if inits[f] {
			return // of a package initialiser only the tables count
		}
		if phi, ok := i.(*ssa.Phi); ok {
			for k, e := range phi.Edges {
				if p := schemeOf(e); p != "" {
					for _, ft := range c14edgeFacts(phi.Block().Preds[k], phi.Block()) {
						if isProto(ft, p) {
							seen[p] = true
						}
					}
				}
			}
			return
		}
		for _, op := range i.Operands(nil) {
			if op == nil || *op == nil {
				continue
			}
			if p := schemeOf(*op); p != "" {
				for _, ft := range factsAt(i.Block()) {
					if isProto(ft, p) {
						seen[p] = true
					}
				}
			}
		}
	})
	for _, sts := range rows {
		for _, a := range sts {
			p := entryScheme(a.Val)
			if p == "" {
				continue
			}
			for _, b := range sts {
				if b != a && isKeyFor(b.Val, p) {
					seen[p] = true
				}
			}
		}
	}
	// generic spelling: the scheme IS the option's value — `v + "://" + addr` with v cut from the word after "proto="
	// (strings.CutPrefix / TrimPrefix / o[len("proto="):]) — chosen under a membership test of v against the schemes
	eachInstrOf(scan, func(f *ssa.Function, i ssa.Instruction) {
		b, ok := i.(*ssa.BinOp)
		if !ok || b.Op != token.ADD {
			return
		}
		sep, isK := constString(b.Y)
		if !isK || !strings.HasPrefix(sep, "://") {
			return
		}
		fromProtoOption := derives(b.X, func(v ssa.Value) bool {
			call, ok := v.(*ssa.Call)
			if ok {
				switch calleeName(&call.Call) {
				case "strings.CutPrefix", "strings.TrimPrefix":
					if k, isK := constString(call.Call.Args[1]); isK && k == "proto=" {
						return true
					}
				}
			}
			if sl, ok := v.(*ssa.Slice); ok && sl.Low != nil {
				if k, isK := constInt(sl.Low); isK && k == int64(len("proto=")) {
					return true
				}
			}
			return false
		})
		if !fromProtoOption {
			// other spelling: the word is cut at its "=" (strings.Cut / SplitN) and the key is compared with "proto"
			// where the scheme is chosen
			var cut ssa.Value
			derives(b.X, func(v ssa.Value) bool {
				if c14isSplitAtEq(v) {
					cut = v
					return true
				}
				return false
			})
			if cut != nil {
				for _, ft := range factsAt(b.Block()) {
					x, op, y, ok := c14cmp(ft)
					if !ok || op != token.EQL {
						continue
					}
					for _, pair := range [][2]ssa.Value{{x, y}, {y, x}} {
						if k, isK := constString(pair[1]); isK && k == "proto" && derives(pair[0], func(v ssa.Value) bool { return v == cut }) {
							fromProtoOption = true
						}
					}
				}
			}
		}
		if !fromProtoOption {
			return
		}
		// the membership test: v compared with each scheme constant somewhere in the same function
		related := func(w ssa.Value) bool {
			return w == b.X || c14sameElem(w, b.X) || derives(b.X, func(v ssa.Value) bool { return v == w }) || derives(w, func(v ssa.Value) bool { return v == b.X })
		}
		eachInstr(f, func(j ssa.Instruction) {
			// ... or looked up in a list / set of constants: slices.Contains(protoOptions, o), protoSet[o]
			var members []string
			switch x := j.(type) {
			case *ssa.Call:
				switch stripTypeArgs(calleeName(&x.Call)) {
				case "slices.Contains", "slices.Index":
					if len(x.Call.Args) == 2 && related(x.Call.Args[1]) {
						members = c14constElems(x.Call.Args[0], 0)
					}
				}
			case *ssa.Lookup:
				if _, isMap := x.X.Type().Underlying().(*types.Map); isMap && related(x.Index) {
					members = c14constElems(x.X, 0)
				}
			}
			for _, k := range members {
				for _, p := range want {
					if k == p || k == "proto="+p {
						seen[p] = true
					}
				}
			}
			cmp, ok := j.(*ssa.BinOp)
			if !ok || cmp.Op != token.EQL {
				return
			}
			for _, pair := range [][2]ssa.Value{{cmp.X, cmp.Y}, {cmp.Y, cmp.X}} {
				if k, isK := constString(pair[1]); isK && (pair[0] == b.X || c14sameElem(pair[0], b.X) || derives(b.X, func(v ssa.Value) bool { return v == pair[0] }) || derives(pair[0], func(v ssa.Value) bool { return v == b.X })) {
					for _, p := range want {
						if k == p || k == "proto="+p {
							seen[p] = true
						}
					}
				}
			}
		})
	})
	okProto := true
	var missing []string
	for _, p := range want {
		if !seen[p] {
			okProto = false
			missing = append(missing, "proto="+p)
		}
	}
	c.check("C14.N1", fnKey(st.sinks[0].fn)+"|scheme prefix follows the proto= option", st.sinks[0].fn.Pos(), okProto,
		"each proto= option (tcp, https, grpc, grpcs) must select its own scheme prefix for the destination; http:// is the default; not found for: "+strings.Join(missing, " "))
}

// c14guard searches backwards from a host value for the node address: on every way the node address can flow into the
// host, some step - the load, an assignment or merge, a return of a helper, the call site of a helper - happens where
// ServiceAddress is known to be empty, or it is a later operand of cmp.Or after the service address.
type c14guard struct {
	isNode   func(ssa.Value) bool
	aboutSvc func(ssa.Value) bool
	seen     map[ssa.Value]bool
}

func (g *c14guard) emptyIn(facts []Fact) bool {
	for _, ft := range facts {
		if c14emptyFact(ft, g.aboutSvc) {
			return true
		}
	}
	return false
}

func (g *c14guard) carriesNode(v ssa.Value) bool { return c14derives(v, g.isNode) }

func (g *c14guard) guarded(v ssa.Value, d int) bool {
	if v == nil || g.seen[v] {
		return true
	}
	g.seen[v] = true
	if d > 24 {
		return false
	}
	if _, isK := v.(*ssa.Const); isK || !g.carriesNode(v) {
		return true
	}
	if in, ok := v.(ssa.Instruction); ok && in.Block() != nil && g.emptyIn(factsAt(in.Block())) {
		return true
	}
	all := func(vs ...ssa.Value) bool {
		for _, x := range vs {
			if !g.guarded(x, d+1) {
				return false
			}
		}
		return true
	}
	// the results (index idx, or all) of the repository functions a call may reach
	returns := func(call *ssa.Call, idx int) (bool, bool) {
		fns := c14callees(&call.Call)
		n := 0
		for _, h := range fns {
			if h == nil || !isRepoFn(h) || len(h.Blocks) == 0 {
				continue
			}
			n++
			ok := true
			eachInstr(h, func(i ssa.Instruction) {
				r, isR := i.(*ssa.Return)
				if !isR {
					return
				}
				for k, res := range r.Results {
					if idx >= 0 && k != idx {
						continue
					}
					if !g.carriesNode(res) || g.emptyIn(factsAt(r.Block())) {
						continue
					}
					if !g.guarded(res, d+1) {
						ok = false
					}
				}
			})
			if !ok {
				return false, true
			}
		}
		return true, n > 0
	}
	switch x := v.(type) {
	case *ssa.Phi:
		for k, e := range x.Edges {
			if !g.carriesNode(e) || g.emptyIn(c14edgeFacts(x.Block().Preds[k], x.Block())) {
				continue
			}
			if !g.guarded(e, d+1) {
				return false
			}
		}
		return true
	case *ssa.UnOp:
		if x.Op != token.MUL {
			return all(x.X)
		}
		if g.isNode(x) {
			return false // the node address itself, not guarded anywhere on the way
		}
		// a copy kept in a local cell or in a field of a locally built struct: the assignments
		var stores []*ssa.Store
		collect := func(addr ssa.Value) {
			if refs := addr.Referrers(); refs != nil {
				for _, r := range *refs {
					if st, ok := r.(*ssa.Store); ok && st.Addr == addr {
						stores = append(stores, st)
					}
				}
			}
		}
		switch a := x.X.(type) {
		case *ssa.Alloc:
			collect(a)
		case *ssa.FieldAddr:
			// follow the struct to where it was built (through parameters and results)
			found := false
			ok := true
			c14derives(a.X, func(y ssa.Value) bool {
				al, isAlloc := y.(*ssa.Alloc)
				if !isAlloc || al.Referrers() == nil {
					return false
				}
				for _, r := range *al.Referrers() {
					fa, isFA := r.(*ssa.FieldAddr)
					if !isFA || fa.Field != a.Field || !types.Identical(fa.X.Type(), a.X.Type()) {
						continue
					}
					for _, r2 := range *fa.Referrers() {
						if st, isSt := r2.(*ssa.Store); isSt && st.Addr == fa {
							found = true
							if g.carriesNode(st.Val) && !g.emptyIn(factsAt(st.Block())) && !g.guarded(st.Val, d+1) {
								ok = false
							}
						}
					}
				}
				return false
			})
			if found {
				return ok
			}
			return false
		default:
			return false
		}
		for _, st := range stores {
			if g.carriesNode(st.Val) && !g.emptyIn(factsAt(st.Block())) && !g.guarded(st.Val, d+1) {
				return false
			}
		}
		return len(stores) > 0
	case *ssa.Field:
		return false
	case *ssa.Extract:
		if call, ok := x.Tuple.(*ssa.Call); ok {
			if ok, known := returns(call, x.Index); known {
				return ok
			}
		}
		return all(x.Tuple)
	case *ssa.Call:
		n := typeArgs.ReplaceAllString(calleeName(&x.Call), "")
		if strings.HasPrefix(n, "cmp.Or") && len(x.Call.Args) == 1 {
			sawSvc := false
			for _, el := range c14varargs(x.Call.Args[0]) {
				if el == nil {
					continue
				}
				if !sawSvc && !g.guarded(el, d+1) {
					return false
				}
				if g.aboutSvc(el) {
					sawSvc = true
				}
			}
			return true
		}
		if c14isTransparent(n) {
			return all(x.Call.Args...)
		}
		if ok, known := returns(x, -1); known {
			return ok
		}
		return false
	case *ssa.Parameter:
		fn := x.Parent()
		sites := gSites[fn]
		if fn == nil || len(sites) == 0 || len(sites) > maxHelperSites {
			return false
		}
		for k, p := range fn.Params {
			if p != x {
				continue
			}
			for _, s := range sites {
				if k >= len(s.Common().Args) {
					return false
				}
				arg := s.Common().Args[k]
				if !g.carriesNode(arg) || (s.Block() != nil && g.emptyIn(factsAt(s.Block()))) {
					continue
				}
				if !g.guarded(arg, d+1) {
					return false
				}
			}
		}
		return true
	case *ssa.BinOp:
		return all(x.X, x.Y)
	case *ssa.Convert:
		return all(x.X)
	case *ssa.ChangeType:
		return all(x.X)
	case *ssa.MakeInterface:
		return all(x.X)
	case *ssa.Slice:
		return all(x.X)
	}
	return false
}

// c14sameElem: a and b are the same value, or two loads of the same element (constant index) of the same list.
// c14constElems: the constant strings a list (slice literal, possibly kept in a package-level or local variable) holds,
// or the constant keys of a map literal.
func c14constElems(v ssa.Value, d int) []string {
	if v == nil || d > 4 {
		return nil
	}
	var out []string
	switch x := v.(type) {
	case *ssa.ChangeType:
		return c14constElems(x.X, d+1)
	case *ssa.UnOp:
		if x.Op != token.MUL {
			return nil
		}
		switch cell := x.X.(type) {
		case *ssa.Global:
			if cell.Pkg == nil {
				return nil
			}
			if init := cell.Pkg.Func("init"); init != nil {
				eachInstr(init, func(i ssa.Instruction) {
					if st, ok := i.(*ssa.Store); ok && st.Addr == cell {
						out = append(out, c14constElems(st.Val, d+1)...)
					}
				})
			}
		case *ssa.Alloc:
			for _, st := range c14cellStores(cell) {
				out = append(out, c14constElems(st.Val, d+1)...)
			}
		}
	case *ssa.Slice:
		arr, ok := x.X.(*ssa.Alloc)
		if !ok || arr.Referrers() == nil {
			return nil
		}
		for _, r := range *arr.Referrers() {
			ia, ok := r.(*ssa.IndexAddr)
			if !ok || ia.Referrers() == nil {
				continue
			}
			for _, u := range *ia.Referrers() {
				if st, isStore := u.(*ssa.Store); isStore && st.Addr == ia {
					if k, isK := constString(st.Val); isK {
						out = append(out, k)
					}
				}
			}
		}
	case *ssa.MakeMap:
		if x.Referrers() == nil {
			return nil
		}
		for _, r := range *x.Referrers() {
			if mu, ok := r.(*ssa.MapUpdate); ok && mu.Map == x {
				if k, isK := constString(mu.Key); isK {
					out = append(out, k)
				}
			}
		}
	}
	return out
}

func c14sameElem(a, b ssa.Value) bool {
	if c14sameValue(a, b) {
		return true
	}
	la, ok1 := a.(*ssa.UnOp)
	lb, ok2 := b.(*ssa.UnOp)
	if !ok1 || !ok2 || la.Op != token.MUL || lb.Op != token.MUL {
		return false
	}
	ia, ok1 := la.X.(*ssa.IndexAddr)
	ib, ok2 := lb.X.(*ssa.IndexAddr)
	if !ok1 || !ok2 || ia.X != ib.X {
		return false
	}
	ka, ok1 := constInt(ia.Index)
	kb, ok2 := constInt(ib.Index)
	return ok1 && ok2 && ka == kb
}
