package main

// Rules of C15 added after the fourth round of independently written breaking changes (DESIGN 11.12); wired in
// zzz_round4.go. The repair of C15.R2 that belongs to the same round is in c15_flow.go (fallback values assigned
// outside the VisitAll callback); its overlay mutants are c15round4R2Mutants below.

import (
	"go/token"
	"go/types"
	"sort"
	"strings"

	"golang.org/x/tools/go/ssa"
)

func init() {
	addRound4("C15", "(D1) the package-level defaults are read-only for loading (clause '... over the file, over the default', and: the result of a Load is determined by its sources alone): (a) no flag is bound to a variable inside a package-level variable; (b) a slice-valued flag.Value of package config whose storage is installed by its constructor without a copy (it then shares the backing array of the default configuration) never writes into the storage it finds when Set is called - no append onto it or onto a reslice of it, no element store, copy or in-place sort - decided by a forward may-analysis of 'the cell may still hold the found storage' over Set and the helpers / closures it enters; (c) the region of config.Load does not write in place (element store, copy, in-place sort, append onto a reslice) into a slice option a flag is bound to. Otherwise the first Load that sets such an option changes the defaults of every later Load in the process and, retroactively, the configurations returned earlier.", runC15D1, c15round4D1Mutants...)
}

// ---- C15.D1 (b): may the cell still hold the storage found at entry? -----------------------------------------------

// c15alias is a forward may-analysis over one flag.Value.Set (and what it enters): state = "the slice kept in the cell
// (the receiver's storage) may still be, or share its backing array with, the slice that was there when Set was
// called". Storing a fresh value (a literal, make, nil, the result of a library call, an append onto a fresh value, a
// reslice with capacity 0) ends that; storing a reslice of / an append onto what was loaded from the cell keeps it.
type c15alias struct {
	recv    *ssa.Parameter
	roots   map[ssa.Value]bool         // addresses of the cell: the receiver, helper parameters bound to it
	tainted map[ssa.Value]bool         // helper parameters bound to a value that may be the found storage
	load    map[ssa.Value]bool         // loads of the cell that may see the found storage
	exit    map[*ssa.Function]bool     // state at the returns of an analysed function
	fns     map[*ssa.Function]bool     // analysed functions
	busy    map[*ssa.Function]bool     // recursion guard
	viol    map[ssa.Instruction]string // places that write into the found storage
}

func c15isSliceT(t types.Type) bool {
	_, ok := t.Underlying().(*types.Slice)
	return ok
}

func c15ptrToSlice(t types.Type) bool {
	p, ok := t.Underlying().(*types.Pointer)
	return ok && c15isSliceT(p.Elem())
}

// cellAddr: v is the address of the cell.
func (a *c15alias) cellAddr(v ssa.Value, depth int) bool {
	if v == nil || depth > 6 {
		return false
	}
	if a.roots[v] {
		return true
	}
	switch x := v.(type) {
	case *ssa.ChangeType:
		return a.cellAddr(x.X, depth+1)
	case *ssa.Convert:
		return a.cellAddr(x.X, depth+1)
	case *ssa.FieldAddr:
		// a struct-typed flag.Value that keeps the slice in a field
		return x.X == ssa.Value(a.recv) && c15ptrToSlice(x.Type())
	case *ssa.UnOp:
		if x.Op != token.MUL {
			return false
		}
		switch y := x.X.(type) {
		case *ssa.Alloc, *ssa.FreeVar:
			// the receiver kept in a (captured) local variable
			if sv := c15stores(y); len(sv) == 1 {
				return a.cellAddr(sv[0], depth+1)
			}
		case *ssa.FieldAddr:
			// a struct-typed flag.Value that keeps a pointer to the slice
			return y.X == ssa.Value(a.recv) && c15ptrToSlice(x.Type())
		}
	}
	return false
}

// valTaint: v may be (a reslice of, an append onto) the found storage.
func (a *c15alias) valTaint(v ssa.Value, seen map[ssa.Value]bool) bool {
	if v == nil || seen[v] {
		return false
	}
	seen[v] = true
	switch x := v.(type) {
	case *ssa.Parameter:
		return a.tainted[x]
	case *ssa.UnOp:
		if x.Op != token.MUL {
			return false
		}
		if a.cellAddr(x.X, 0) {
			return a.load[x]
		}
		switch x.X.(type) {
		case *ssa.Alloc, *ssa.FreeVar:
			for _, sv := range c15stores(x.X) { // a (captured) local slice variable
				if a.valTaint(sv, seen) {
					return true
				}
			}
		}
	case *ssa.Slice:
		if x.Max != nil {
			if k, isK := constInt(x.Max); isK && k == 0 {
				return false // s[:0:0]: no capacity left, the next append allocates
			}
		}
		return a.valTaint(x.X, seen)
	case *ssa.Phi:
		for _, e := range x.Edges {
			if a.valTaint(e, seen) {
				return true
			}
		}
	case *ssa.ChangeType:
		return a.valTaint(x.X, seen)
	case *ssa.Convert:
		return a.valTaint(x.X, seen)
	case *ssa.MakeInterface:
		return a.valTaint(x.X, seen)
	case *ssa.Extract:
		return a.valTaint(x.Tuple, seen)
	case *ssa.Call:
		n := calleeName(&x.Call)
		if n == "builtin.append" && len(x.Call.Args) > 0 {
			return a.valTaint(x.Call.Args[0], seen)
		}
		if strings.HasPrefix(n, "slices.") && n != "slices.Clone" && n != "slices.Concat" && len(x.Call.Args) > 0 && c15isSliceT(x.Type()) {
			return a.valTaint(x.Call.Args[0], seen) // Grow, Delete, Insert, Compact, Clip ...: the result shares the array
		}
		for _, g := range c15callees(&x.Call) { // a helper's result: what it returns
			hit := false
			eachInstr(g, func(i ssa.Instruction) {
				if r, ok := i.(*ssa.Return); ok && !hit {
					for _, res := range r.Results {
						if (c15isSliceT(res.Type()) || c15ptrToSlice(res.Type())) && a.valTaint(res, seen) {
							hit = true
						}
					}
				}
			})
			if hit {
				return true
			}
		}
	}
	return false
}

func (a *c15alias) taint(v ssa.Value) bool { return a.valTaint(v, map[ssa.Value]bool{}) }

// run analyses fn entered with state entry; returns the state at its returns.
func (a *c15alias) run(fn *ssa.Function, entry bool, depth int) bool {
	if fn == nil || len(fn.Blocks) == 0 || depth > 3 || a.busy[fn] {
		return entry
	}
	a.busy[fn] = true
	defer delete(a.busy, fn)
	a.fns[fn] = true
	out := map[*ssa.BasicBlock]bool{}
	for round := 0; round < 12; round++ {
		changed := false
		for _, b := range fn.Blocks {
			st := b == fn.Blocks[0] && entry
			for _, p := range b.Preds {
				st = st || out[p]
			}
			for _, i := range b.Instrs {
				switch x := i.(type) {
				case *ssa.UnOp:
					if x.Op == token.MUL && st && !a.load[x] && a.cellAddr(x.X, 0) {
						a.load[x] = true
						changed = true
					}
				case *ssa.Store:
					if a.cellAddr(x.Addr, 0) {
						st = a.taint(x.Val)
					}
				case *ssa.Call:
					gs := c15callees(&x.Call)
					if len(gs) == 0 {
						break
					}
					after := false
					for _, g := range gs {
						for k, arg := range x.Call.Args {
							if k >= len(g.Params) {
								break
							}
							if a.cellAddr(arg, 0) && !a.roots[g.Params[k]] {
								a.roots[g.Params[k]] = true
								changed = true
							}
							if (c15isSliceT(arg.Type())) && a.taint(arg) && !a.tainted[g.Params[k]] {
								a.tainted[g.Params[k]] = true
								changed = true
							}
						}
						if a.run(g, st, depth+1) {
							after = true
						}
					}
					st = after
				case *ssa.Return:
					if st && !a.exit[fn] {
						a.exit[fn] = true
						changed = true
					}
				}
			}
			if out[b] != st {
				out[b] = st
				changed = true
			}
		}
		if !changed {
			break
		}
	}
	return a.exit[fn]
}

var c15inPlaceLib = map[string]bool{
	"sort.Strings": true, "sort.Float64s": true, "sort.Ints": true, "sort.Slice": true, "sort.SliceStable": true, "sort.Sort": true, "sort.Stable": true,
	"slices.Sort": true, "slices.SortFunc": true, "slices.SortStableFunc": true, "slices.Reverse": true,
}

// c15inPlaceWrite: instruction i writes into the backing array of an existing slice; returns that slice and how.
// withAppend: an append onto the slice counts (it writes into the array whenever there is capacity left).
func c15inPlaceWrite(i ssa.Instruction, withAppend bool) (ssa.Value, string) {
	switch x := i.(type) {
	case *ssa.Store:
		if ia, ok := x.Addr.(*ssa.IndexAddr); ok && c15isSliceT(ia.X.Type()) {
			return ia.X, "element store"
		}
	case *ssa.Call:
		n := calleeName(&x.Call)
		if len(x.Call.Args) == 0 {
			return nil, ""
		}
		switch {
		case n == "builtin.append" && withAppend:
			return x.Call.Args[0], "append"
		case n == "builtin.copy" || n == "builtin.clear":
			return x.Call.Args[0], strings.TrimPrefix(n, "builtin.")
		case c15inPlaceLib[n]:
			return x.Call.Args[0], n
		}
		for _, pfx := range []string{"slices.Sort", "slices.Reverse", "slices.Delete", "slices.Insert", "slices.Compact", "slices.Replace"} {
			if strings.HasPrefix(n, pfx) {
				return x.Call.Args[0], n
			}
		}
	}
	return nil, ""
}

// sinks: the places of the analysed functions that write into the found storage.
func (a *c15alias) sinks() {
	for fn := range a.fns {
		eachInstr(fn, func(i ssa.Instruction) {
			if base, how := c15inPlaceWrite(i, true); base != nil && a.taint(base) {
				a.viol[i] = how
			}
		})
	}
}

// c15valueSetters: the Set methods of the slice-valued flag.Value implementations of package config (pointer receiver
// whose element is a named slice type, or a struct that keeps the slice / a pointer to it in a field).
func c15valueSetters(c *Ctx) []*ssa.Function {
	pred := c15isSliceSetter
	out := c.fnsWhere("config", pred)
	// methods of generic types (sliceValue[T]) are not among the functions of the package: their parameterised bodies
	have := map[*ssa.Function]bool{}
	for _, f := range out {
		have[f] = true
	}
	if sp := c.spkg("config"); sp != nil {
		var names []string
		for n := range sp.Members {
			names = append(names, n)
		}
		sort.Strings(names)
		for _, n := range names {
			tm, ok := sp.Members[n].(*ssa.Type)
			if !ok {
				continue
			}
			nt, ok := tm.Type().(*types.Named)
			if !ok || nt.TypeParams().Len() == 0 {
				continue
			}
			for k := 0; k < nt.NumMethods(); k++ {
				if f := c.Prog.FuncValue(nt.Method(k)); f != nil && !have[f] && pred(f) {
					have[f] = true
					out = append(out, f)
				}
			}
		}
	}
	return out
}

func c15isSliceSetter(f *ssa.Function) bool {
	{
		sig := f.Signature
		if f.Name() != "Set" || sig.Recv() == nil || sig.Params().Len() != 1 || sig.Results().Len() != 1 || len(f.Params) != 2 || len(f.Blocks) == 0 {
			return false
		}
		if b, ok := sig.Params().At(0).Type().Underlying().(*types.Basic); !ok || b.Kind() != types.String {
			return false
		}
		if !c15isErrorType(sig.Results().At(0).Type()) {
			return false
		}
		pt, ok := sig.Recv().Type().(*types.Pointer)
		if !ok {
			return false
		}
		if c15isSliceT(pt.Elem()) {
			return true
		}
		if st, ok := pt.Elem().Underlying().(*types.Struct); ok {
			for k := 0; k < st.NumFields(); k++ {
				if t := st.Field(k).Type(); c15isSliceT(t) || c15ptrToSlice(t) {
					return true
				}
			}
		}
		return false
	}
}

// c15fresh: v is a slice nobody else has: nil, a literal, make, an append onto / a clone of such a value.
func c15fresh(v ssa.Value, depth int) bool {
	if v == nil || depth > 6 {
		return false
	}
	switch x := v.(type) {
	case *ssa.Const:
		return x.Value == nil
	case *ssa.MakeSlice:
		return true
	case *ssa.Slice:
		_, isAlloc := x.X.(*ssa.Alloc)
		return isAlloc
	case *ssa.ChangeType:
		return c15fresh(x.X, depth+1)
	case *ssa.Convert:
		return c15fresh(x.X, depth+1)
	case *ssa.Phi:
		for _, e := range x.Edges {
			if !c15fresh(e, depth+1) {
				return false
			}
		}
		return len(x.Edges) > 0
	case *ssa.Call:
		switch calleeName(&x.Call) {
		case "builtin.append":
			return len(x.Call.Args) > 0 && c15fresh(x.Call.Args[0], depth+1)
		case "slices.Clone", "slices.Concat":
			return true
		}
	}
	return false
}

// c15ownsStorage: every place of package config that makes a *T out of a pointer to the option's variable (the
// constructor of the flag.Value) installs a private copy in it, so that what Set finds is never shared with the caller's
// default. Conservative: false when no such place is found or a stored value is not recognisably fresh.
func c15ownsStorage(c *Ctx, recvT types.Type) bool {
	nCtor, owned := 0, true
	for _, f := range c.fnsWhere("config", func(f *ssa.Function) bool { return len(f.Blocks) > 0 }) {
		eachInstr(f, func(i ssa.Instruction) {
			ct, ok := i.(*ssa.ChangeType)
			if !ok || !types.Identical(ct.Type(), recvT) {
				return
			}
			nCtor++
			same := samePath(ct.X)
			nStore := 0
			eachInstr(f, func(j ssa.Instruction) {
				if st, ok := j.(*ssa.Store); ok && same(st.Addr) {
					nStore++
					if !c15fresh(st.Val, 0) {
						owned = false
					}
				}
			})
			if nStore == 0 {
				owned = false
			}
		})
		// a struct-typed flag.Value built in place (&T{dst: p}): the variable is the pointer the literal keeps
		eachInstr(f, func(i ssa.Instruction) {
			a, ok := i.(*ssa.Alloc)
			if !ok || !types.Identical(a.Type(), recvT) {
				return
			}
			p := c15keptPointer(a)
			if p == nil {
				return
			}
			nCtor++
			same := samePath(p)
			nStore := 0
			eachInstr(f, func(j ssa.Instruction) {
				if st, ok := j.(*ssa.Store); ok && same(st.Addr) {
					nStore++
					if !c15fresh(st.Val, 0) {
						owned = false
					}
				}
			})
			if nStore == 0 {
				owned = false
			}
		})
	}
	return nCtor > 0 && owned
}

func runC15D1(c *Ctx) {
	if c.spkg("config") == nil {
		c.undecided("C15.D1", "anchor|package config", "not found")
		return
	}
	regs := c15registrations(c)
	// (a) no flag writes into a package-level variable
	nSlice := 0
	sliceOpt := map[string]string{} // path key of a slice option's variable -> flag name
	var intoDefaults []string
	var firstPos token.Pos
	for _, r := range regs {
		if !r.hasPtr || r.computed {
			continue
		}
		// (defining a flag assigns its default to the variable, so a package-level scratch variable is reset by every
		// Load; a variable inside the package-level configuration is its own default and is not)
		if g, ok := r.ptr.id.(*ssa.Global); ok && r.ptr.kind == "global" && c15isConfigType(g.Type()) {
			if len(intoDefaults) == 0 {
				firstPos = r.pos
			}
			intoDefaults = append(intoDefaults, r.name+" -> "+r.ptr.String())
		}
		if r.ptrT != nil && c15ptrToSlice(r.ptrT) {
			nSlice++
			if k := r.ptr.key(); k != "" && r.ptr.kind == "cfg" {
				sliceOpt[k] = r.name
			}
		}
	}
	shown := intoDefaults
	if len(shown) > 3 {
		shown = shown[:3]
	}
	c.check("C15.D1", "config|no flag is bound to a variable of a package-level configuration", firstPos, len(intoDefaults) == 0,
		itoa(len(intoDefaults))+" of "+itoa(len(regs))+" flag definition(s) are bound to (part of) a package-level Config ("+strings.Join(shown, ", ")+"): loading then writes the options into state that outlives the Load and that the next Load in the process takes its defaults from, so an option no source sets no longer has its default")
	// (b) slice-valued flag.Value: Set does not write into what it finds
	setters := c15valueSetters(c)
	if nSlice > 0 && len(setters) == 0 {
		c.undecided("C15.D1", "anchor|Set method of the slice-valued flag.Value types of package config", "there are "+itoa(nSlice)+" slice-valued option(s) but no flag.Value with a slice as storage was found")
	}
	for _, set := range setters {
		recv := set.Params[0]
		a := &c15alias{recv: recv, roots: map[ssa.Value]bool{}, tainted: map[ssa.Value]bool{}, load: map[ssa.Value]bool{},
			exit: map[*ssa.Function]bool{}, fns: map[*ssa.Function]bool{}, busy: map[*ssa.Function]bool{}, viol: map[ssa.Instruction]string{}}
		if pt, ok := recv.Type().(*types.Pointer); ok && c15isSliceT(pt.Elem()) {
			a.roots[recv] = true
		}
		a.run(set, true, 0)
		a.sinks()
		key := fnKey(set) + "|does not write into the storage it finds"
		if len(a.viol) == 0 {
			c.ob("C15.D1", key, set.Pos(), OK, "every write of Set goes to storage allocated after the call began")
			continue
		}
		if c15ownsStorage(c, recv.Type()) {
			c.ob("C15.D1", key, set.Pos(), OK, "Set reuses the storage it finds, and every constructor installs a private copy of the default in it")
			continue
		}
		var at []ssa.Instruction
		for i := range a.viol {
			at = append(at, i)
		}
		sort.Slice(at, func(i, j int) bool { return at[i].Pos() < at[j].Pos() })
		c.check("C15.D1", key, at[0].Pos(), false,
			"the "+a.viol[at[0]]+" here can write into the backing array of the slice Set found in the option's variable (on some path the variable has not been given fresh storage before); the constructor of this flag.Value stores the caller's default slice there without copying it, so that array is the one of the package-level default configuration: the first Load that sets the option overwrites the default for every later Load in the process (an option no source sets then no longer has its default) and changes configurations returned earlier")
	}
	// (c) the loading region does not write in place into a slice option
	_, reg := c15loadRegion(c)
	if len(reg) == 0 {
		c.undecided("C15.D1", "anchor|config.Load", "not found")
		return
	}
	res := &c15resolver{sites: c15buildSites(reg)}
	nW := 0
	eachInstrOf(reg, func(f *ssa.Function, i ssa.Instruction) {
		base, how := c15inPlaceWrite(i, false)
		if base == nil {
			// an append onto a reslice of the option ((x)[:0], x[:n]) reuses its array
			if call, ok := i.(*ssa.Call); ok && calleeName(&call.Call) == "builtin.append" && len(call.Call.Args) > 0 {
				if sl, isSl := call.Call.Args[0].(*ssa.Slice); isSl && c15isSliceT(sl.X.Type()) {
					if k, isK := constInt(sl.Max); !(sl.Max != nil && isK && k == 0) {
						base, how = sl.X, "append onto a reslice"
					}
				}
			}
		}
		if base == nil {
			return
		}
		for {
			sl, ok := base.(*ssa.Slice)
			if !ok || !c15isSliceT(sl.X.Type()) {
				break
			}
			base = sl.X
		}
		p := res.path(base, nil, 0)
		name, isOpt := sliceOpt[p.key()]
		isDefault := false
		if g, ok := p.id.(*ssa.Global); ok && p.kind == "global" {
			isDefault = c15isConfigType(g.Type())
		}
		if !(p.kind == "cfg" && isOpt) && !isDefault {
			return
		}
		nW++
		what := "the slice option " + name + " (" + p.String() + ")"
		if isDefault {
			what = "the default configuration (" + p.String() + ")"
		}
		c.check("C15.D1", fnKey(f)+"|no in-place write into a slice option", i.Pos(), false,
			how+" into "+what+": until a source sets the option its variable shares the backing array of the package-level default, so the write changes the default of every later Load and the configurations returned earlier")
	})
	if nW == 0 {
		c.ob("C15.D1", "config.Load|no in-place write into a slice option", token.NoPos, OK, "no element store, copy, in-place sort or append onto a reslice of a slice option in the region of config.Load")
	}
}

// ---- overlay mutants -------------------------------------------------------------------------------------------------

const c15strSetHead = "func (v *stringSliceValue) Set(s string) error {\n\t*v = []string{}\n"
const c15fltSetHead = "func (f *floatSliceValue) Set(s string) error {\n\t*f = []float64{}\n"
const c15strCtor = "func newStringSliceValue(val []string, p *[]string) *stringSliceValue {\n\t*p = val\n"
const c15strSetBody = `func (v *stringSliceValue) Set(s string) error {
	*v = []string{}
	for _, x := range strings.Split(s, ",") {
		x = strings.TrimSpace(x)
		if x == "" {
			continue
		}
		*v = append(*v, x)
	}
	return nil
}
`

const c15strValueDecl = `type stringSliceValue []string

func newStringSliceValue(val []string, p *[]string) *stringSliceValue {
	*p = val
	return (*stringSliceValue)(p)
}

` + c15strSetBody + `
func (v *stringSliceValue) Get() interface{} { return []string(*v) }
func (v *stringSliceValue) String() string   { return strings.Join(*v, ",") }
`

func c15strValueStruct(reset string) string {
	return `type stringSliceValue struct{ p *[]string }

func newStringSliceValue(val []string, p *[]string) *stringSliceValue {
	*p = val
	return &stringSliceValue{p}
}

func (v *stringSliceValue) Set(s string) error {
	` + reset + `
	for _, x := range strings.Split(s, ",") {
		x = strings.TrimSpace(x)
		if x == "" {
			continue
		}
		*v.p = append(*v.p, x)
	}
	return nil
}

func (v *stringSliceValue) Get() interface{} { return *v.p }
func (v *stringSliceValue) String() string {
	if v.p == nil {
		return ""
	}
	return strings.Join(*v.p, ",")
}
`
}

var c15round4D1Mutants = []mutant{
	{Name: "string slice option reuses the storage it finds", File: "config/flagset.go", Old: c15strSetHead, New: "func (v *stringSliceValue) Set(s string) error {\n\t*v = (*v)[:0]\n", Expect: "C15.D1"},
	{Name: "float slice option accumulates into a reslice of what it finds", File: "config/flagset.go", Old: c15fltSetHead, New: "func (f *floatSliceValue) Set(s string) error {\n\tout := (*f)[:0]\n", Expect: "C15.D1",
		More: []repl{{Old: "\t\t*f = append(*f, v)\n\t}\n\treturn nil\n", New: "\t\tout = append(out, v)\n\t}\n\t*f = out\n\treturn nil\n"}}},
	{Name: "reset of the string slice option moved to a method that keeps the capacity", File: "config/flagset.go", Old: c15strSetHead, New: "func (v *stringSliceValue) reset() { *v = (*v)[:0] }\n\nfunc (v *stringSliceValue) Set(s string) error {\n\tv.reset()\n", Expect: "C15.D1"},
	{Name: "string slice option appends to what it finds (no reset)", File: "config/flagset.go", Old: c15strSetHead, New: "func (v *stringSliceValue) Set(s string) error {\n", Expect: "C15.D1"},
	{Name: "string slice option reset only for a non-empty value", File: "config/flagset.go", Old: c15strSetHead, New: "func (v *stringSliceValue) Set(s string) error {\n\tif s != \"\" {\n\t\t*v = []string{}\n\t}\n", Expect: "C15.D1"},
	{Name: "string slice option overwrites the elements it finds", File: "config/flagset.go", Old: c15strSetBody, New: `func (v *stringSliceValue) Set(s string) error {
	parts := strings.Split(s, ",")
	if len(parts) != len(*v) {
		*v = make([]string, len(parts))
	}
	for i, x := range parts {
		(*v)[i] = strings.TrimSpace(x)
	}
	return nil
}
`, Expect: "C15.D1"},
	{Name: "load starts from the package-level defaults instead of a new Config", File: "config/load.go", Old: "\tcfg = &Config{}\n\tf := NewFlagSet(", New: "\tcfg = defaultConfig\n\tf := NewFlagSet(", Expect: "C15.D1"},
	{Name: "service status normalised in place after parsing", File: "config/load.go", Old: "\tif cfg.GlobCacheSize < 0 {", New: "\tfor i := range cfg.Registry.Consul.ServiceStatus {\n\t\tcfg.Registry.Consul.ServiceStatus[i] = strings.ToLower(cfg.Registry.Consul.ServiceStatus[i])\n\t}\n\tif cfg.GlobCacheSize < 0 {", Expect: "C15.D1"},
	{Name: "string slice option filled by a closure after a reset that keeps the capacity", File: "config/flagset.go", Old: c15strSetBody, New: `func (v *stringSliceValue) Set(s string) error {
	add := func(x string) {
		if x = strings.TrimSpace(x); x != "" {
			*v = append(*v, x)
		}
	}
	*v = (*v)[:0]
	for _, x := range strings.Split(s, ",") {
		add(x)
	}
	return nil
}
`, Expect: "C15.D1"},
	{Name: "string slice option emptied with slices.Delete, which keeps the array", File: "config/flagset.go", Old: c15strSetHead, New: "func (v *stringSliceValue) Set(s string) error {\n\t*v = slices.Delete(*v, 0, len(*v))\n", Expect: "C15.D1",
		More: []repl{{Old: "\t\"fmt\"\n\t\"strconv\"\n", New: "\t\"fmt\"\n\t\"slices\"\n\t\"strconv\"\n"}}},
	{Name: "string slice value becomes a struct with a pointer to the option, reset keeps the capacity", File: "config/flagset.go", Old: c15strValueDecl, New: c15strValueStruct("*v.p = (*v.p)[:0]"), Expect: "C15.D1"},
	{Name: "benign: string slice value becomes a struct with a pointer to the option, reset allocates", File: "config/flagset.go", Old: c15strValueDecl, New: c15strValueStruct("*v.p = []string{}"), Expect: ""},
	{Name: "benign: string slice option filled by a closure after a reset that allocates", File: "config/flagset.go", Old: c15strSetBody, New: `func (v *stringSliceValue) Set(s string) error {
	add := func(x string) {
		if x = strings.TrimSpace(x); x != "" {
			*v = append(*v, x)
		}
	}
	*v = make([]string, 0, 4)
	for _, x := range strings.Split(s, ",") {
		add(x)
	}
	return nil
}
`, Expect: ""},
	{Name: "benign: constructor installs a copy of the default, Set reuses its own storage", File: "config/flagset.go", Old: c15strCtor, New: "func newStringSliceValue(val []string, p *[]string) *stringSliceValue {\n\t*p = append([]string(nil), val...)\n", Expect: "",
		More: []repl{{Old: c15strSetHead, New: "func (v *stringSliceValue) Set(s string) error {\n\t*v = (*v)[:0]\n"}}},
	{Name: "benign: Set collects into a local and stores it at the end", File: "config/flagset.go", Old: c15strSetBody, New: `func (v *stringSliceValue) Set(s string) error {
	var out []string
	for _, x := range strings.Split(s, ",") {
		if x = strings.TrimSpace(x); x != "" {
			out = append(out, x)
		}
	}
	if out == nil {
		out = []string{}
	}
	*v = out
	return nil
}
`, Expect: ""},
	{Name: "benign: reset to a reslice without capacity", File: "config/flagset.go", Old: c15strSetHead, New: "func (v *stringSliceValue) Set(s string) error {\n\t*v = (*v)[:0:0]\n", Expect: ""},
	{Name: "benign: reset with make sized by the number of parts, in a helper method", File: "config/flagset.go", Old: c15fltSetHead, New: "func (f *floatSliceValue) reset(n int) { *f = make([]float64, 0, n) }\n\nfunc (f *floatSliceValue) Set(s string) error {\n\tf.reset(strings.Count(s, \",\") + 1)\n", Expect: ""},
	{Name: "benign: service status copied before it is normalised", File: "config/load.go", Old: "\tif cfg.GlobCacheSize < 0 {", New: "\tstatus := make([]string, len(cfg.Registry.Consul.ServiceStatus))\n\tfor i, s := range cfg.Registry.Consul.ServiceStatus {\n\t\tstatus[i] = strings.ToLower(s)\n\t}\n\tcfg.Registry.Consul.ServiceStatus = status\n\tif cfg.GlobCacheSize < 0 {", Expect: ""},
}

// the tail of ParseFlags' fallback callback (the properties part) and what the two-pass variants put in its place
const c15propsTail = `		// check properties
		if p == nil {
			return
		}
		if val, ok := p.Get(fl.Name); ok {
			f.set[fl.Name] = true
			f.Set(fl.Name, val)
			return
		}
	})
	return nil
}
`

// ParseFlags delegating the two fallback sources to one method each (calls = the two calls in ParseFlags, mark = the
// marking statement of the properties' method or "").
func c15twoSteps(name, calls, mark, expect string) mutant {
	return mutant{Name: name, File: "config/flagset.go", Expect: expect,
		Old:  "\t// lookup the rest via environ and properties\n\tf.VisitAll(func(fl *flag.Flag) {\n",
		New:  calls + "\treturn nil\n}\n\nfunc (f *FlagSet) fromEnv(env map[string]string, prefixes []string) {\n\tf.VisitAll(func(fl *flag.Flag) {\n",
		More: []repl{{Old: c15propsTail, New: "\t})\n}\n\nfunc (f *FlagSet) fromProps(p *properties.Properties) {\n\tif p == nil {\n\t\treturn\n\t}\n\tfor _, key := range p.Keys() {\n\t\tif f.set[key] || f.Lookup(key) == nil {\n\t\t\tcontinue\n\t\t}\n\t\tval, _ := p.Get(key)\n" + mark + "\t\tf.Set(key, val)\n\t}\n}\n"}}}
}

var c15round4R2Mutants = []mutant{
	c15twoSteps("benign: one method per fallback source, environment first, both mark", "\tf.fromEnv(env, prefixes)\n\tf.fromProps(p)\n", "\t\tf.set[key] = true\n", ""),
	c15twoSteps("one method per fallback source, the properties' method does not mark", "\tf.fromEnv(env, prefixes)\n\tf.fromProps(p)\n", "", "C15.R2"),
	c15twoSteps("one method per fallback source, properties applied first", "\tf.fromProps(p)\n\tf.fromEnv(env, prefixes)\n", "\t\tf.set[key] = true\n", "C15.R2"),
	{Name: "properties applied in a loop over their keys, not marked as set", File: "config/flagset.go", Old: c15propsTail, New: `	})
	if p == nil {
		return nil
	}
	for _, key := range p.Keys() {
		if f.set[key] || f.Lookup(key) == nil {
			continue
		}
		val, _ := p.Get(key)
		f.Set(key, val)
	}
	return nil
}
`, Expect: "C15.R2"},
	{Name: "properties applied in a loop over their keys through a method that does not mark", File: "config/flagset.go", Old: c15propsTail, New: `	})
	if p != nil {
		for _, key := range p.Keys() {
			if !f.set[key] && f.Lookup(key) != nil {
				f.assign(key, p.MustGet(key))
			}
		}
	}
	return nil
}

func (f *FlagSet) assign(name, val string) {
	f.Set(name, val)
}
`, Expect: "C15.R2"},
	{Name: "properties applied in a second VisitAll pass, not marked as set", File: "config/flagset.go", Old: c15propsTail, New: `	})
	if p == nil {
		return nil
	}
	f.VisitAll(func(fl *flag.Flag) {
		if f.set[fl.Name] {
			return
		}
		if val, ok := p.Get(fl.Name); ok {
			f.Set(fl.Name, val)
		}
	})
	return nil
}
`, Expect: "C15.R2"},
	{Name: "properties applied in a loop over their keys without looking at the marks", File: "config/flagset.go", Old: c15propsTail, New: `	})
	if p == nil {
		return nil
	}
	for _, key := range p.Keys() {
		if f.Lookup(key) == nil {
			continue
		}
		val, _ := p.Get(key)
		f.set[key] = true
		f.Set(key, val)
	}
	return nil
}
`, Expect: "C15.R2"},
	{Name: "properties applied in a loop over their keys before the pass over the environment", File: "config/flagset.go", Old: "\t// lookup the rest via environ and properties\n", New: `	if p != nil {
		for _, key := range p.Keys() {
			if f.set[key] || f.Lookup(key) == nil {
				continue
			}
			val, _ := p.Get(key)
			f.set[key] = true
			f.Set(key, val)
		}
	}
`, Expect: "C15.R2", More: []repl{{Old: c15propsTail, New: "\t})\n\treturn nil\n}\n"}}},
	{Name: "benign: properties applied in a loop over their keys, marked as set", File: "config/flagset.go", Old: c15propsTail, New: `	})
	if p == nil {
		return nil
	}
	for _, key := range p.Keys() {
		if f.set[key] || f.Lookup(key) == nil {
			continue
		}
		val, _ := p.Get(key)
		f.set[key] = true
		f.Set(key, val)
	}
	return nil
}
`, Expect: ""},
	{Name: "benign: properties applied in a second VisitAll pass, marked after the assignment", File: "config/flagset.go", Old: c15propsTail, New: `	})
	if p == nil {
		return nil
	}
	f.VisitAll(func(fl *flag.Flag) {
		if f.set[fl.Name] {
			return
		}
		if val, ok := p.Get(fl.Name); ok {
			f.Set(fl.Name, val)
			f.set[fl.Name] = true
		}
	})
	return nil
}
`, Expect: ""},
	{Name: "benign: both passes assign through one method that marks", File: "config/flagset.go", Old: "\t\t\t\tf.set[fl.Name] = true\n\t\t\t\tf.Set(fl.Name, val)\n\t\t\t\treturn\n", New: "\t\t\t\tf.assign(fl.Name, val)\n\t\t\t\treturn\n", Expect: "", More: []repl{{Old: c15propsTail, New: `	})
	if p != nil {
		for _, key := range p.Keys() {
			if val, ok := p.Get(key); ok && !f.set[key] && f.Lookup(key) != nil {
				f.assign(key, val)
			}
		}
	}
	return nil
}

func (f *FlagSet) assign(name, val string) {
	f.set[name] = true
	f.Set(name, val)
}
`}}},
}
