package main

// C11, certificate sources: pacing of the watch loops (L1), unusable material is not published (L2), order of the loaded
// certificates (L3), the goroutine that applies updates (L4). Sites are found by role, see the Explain text in c11.go.

import (
	"go/token"
	"go/types"
	"strings"

	"golang.org/x/tools/go/ssa"
)

// ---- L1: pacing ------------------------------------------------------------------------------------------------------

// c11basicPacing: the instruction itself sleeps or blocks.
func c11basicPacing(i ssa.Instruction) bool {
	switch x := i.(type) {
	case *ssa.Send:
		return true
	case *ssa.Select:
		return x.Blocking
	case *ssa.UnOp:
		return x.Op == token.ARROW
	case *ssa.Call:
		return pacingCalls[calleeName(&x.Call)]
	}
	return false
}

func c11isConsulQuery(name string) bool {
	return name == "(*"+apiPkg+".Health).State" || name == "(*"+apiPkg+".KV).List" || name == "(*"+apiPkg+".KV).Get" || name == "(*"+apiPkg+".KV).Keys"
}

// c11blockingWrappers finds, by role, the repository functions of the given packages that issue a Consul blocking query
// whose WaitIndex is one of their parameters (today: cert.getCerts): function -> index of that parameter. A function
// that hands its parameter on to such a wrapper is one as well.
func c11blockingWrappers(c *Ctx, pkg string) map[*ssa.Function]int {
	out := map[*ssa.Function]int{}
	// closures too: `fetch := func(idx uint64) (...) { return getCerts(client, key, idx) }` handed to the watch loop
	fns := c.fnsWhere(pkg, func(f *ssa.Function) bool { return true })
	paramIdx := func(f *ssa.Function, v ssa.Value) int {
		for k, p := range f.Params {
			pp := p
			if v == ssa.Value(pp) || derives(v, func(x ssa.Value) bool { return x == ssa.Value(pp) }) {
				return k
			}
		}
		return -1
	}
	for _, f := range fns {
		eachInstr(f, func(i ssa.Instruction) {
			call, ok := i.(*ssa.Call)
			if !ok || !c11isConsulQuery(calleeName(&call.Call)) {
				return
			}
			for _, a := range call.Call.Args {
				if typeStr(a.Type()) != "*"+apiPkg+".QueryOptions" {
					continue
				}
				for _, d := range defsOf(a) {
					al, ok := d.Val.(*ssa.Alloc)
					if !ok {
						continue
					}
					for _, st := range fieldStores(al)["WaitIndex"] {
						if k := paramIdx(f, st.Val); k >= 0 {
							out[f] = k
						}
					}
				}
			}
		})
	}
	for round := 0; round < 2; round++ {
		for _, f := range fns {
			if _, done := out[f]; done {
				continue
			}
			eachInstr(f, func(i ssa.Instruction) {
				call, ok := i.(*ssa.Call)
				if !ok {
					return
				}
				if arg, isW := c11wrapperArg(call, out); isW {
					if p := paramIdx(f, arg); p >= 0 {
						out[f] = p
					}
				}
			})
		}
	}
	return out
}

// c11wrapperArg: the call denotes blocking-query wrappers only (a static call, or a call through an interface or a
// function value all of whose targets are wrappers) -> the argument that becomes the query's WaitIndex.
func c11wrapperArg(call *ssa.Call, wrappers map[*ssa.Function]int) (ssa.Value, bool) {
	fs := c11callees(&call.Call)
	if len(fs) == 0 {
		return nil, false
	}
	var arg ssa.Value
	for _, f := range fs {
		k, isW := wrappers[f]
		if !isW {
			return nil, false
		}
		if call.Call.IsInvoke() {
			k-- // the receiver is not among the arguments of an interface call
		}
		if k < 0 || k >= len(call.Call.Args) || (arg != nil && arg != call.Call.Args[k]) {
			return nil, false
		}
		arg = call.Call.Args[k]
	}
	return arg, arg != nil
}

// c11waitIndexAdvances is looppace.go's waitIndexAdvances (the WaitIndex argument is a loop-carried variable advanced from the
// call's own reply) that also understands an index kept in memory — a field of a state struct or of the watcher the loop
// is a method of: the argument is read inside the loop from a place that the loop body writes with a value derived from
// the call.
func c11waitIndexAdvances(call *ssa.Call, arg ssa.Value, l *loop) bool {
	if waitIndexAdvances(call, arg, l) {
		return true
	}
	u, ok := arg.(*ssa.UnOp)
	if !ok || u.Op != token.MUL || !l.Body[u.Block()] {
		return false
	}
	if _, isAlloc := u.X.(*ssa.Alloc); !isAlloc {
		if _, isField := u.X.(*ssa.FieldAddr); !isField {
			return false
		}
	}
	same := samePath(u.X)
	found := false
	for b := range l.Body {
		for _, in := range b.Instrs {
			st, isStore := in.(*ssa.Store)
			if !isStore || !(st.Addr == u.X || same(st.Addr)) {
				continue
			}
			if derives(st.Val, func(v ssa.Value) bool { return v == ssa.Value(call) }) {
				found = true
			}
		}
	}
	return found
}

// c11pacingNames: the library calls that pace a loop (looppace.go's table).
func c11pacingNames() map[string]bool {
	out := map[string]bool{}
	for n, yes := range pacingCalls {
		if yes {
			out[n] = true
		}
	}
	return out
}

// c11pacing builds the pacing predicate of package cert: what looppace.go knows, plus a direct Consul query with an
// advancing index, a blocking-query wrapper found by role, and a call of a helper that sleeps or blocks on all its paths.
func c11pacing(wrappers map[*ssa.Function]int) func(ssa.Instruction, *loop) bool {
	return func(i ssa.Instruction, l *loop) bool {
		if l != nil && len(i.Block().Instrs) > 0 && i == i.Block().Instrs[0] && c11pacedByVerdict(i.Block(), l) {
			return true
		}
		call, ok := i.(*ssa.Call)
		if !ok {
			return false
		}
		if consulQueryPaced(i, l) {
			return true
		}
		if l != nil && c11pacedByOwnVerdict(call, l) {
			return true
		}
		if arg, isW := c11wrapperArg(call, wrappers); isW {
			return c11waitIndexAdvances(call, arg, l)
		}
		sc := call.Call.StaticCallee()
		if sc == nil {
			// a pacing call kept in a function variable (`var sleep = time.Sleep`, a clock hook for tests)
			if !call.Call.IsInvoke() && c11callsOnly(&call.Call, c11pacingNames()) {
				return true
			}
			// a callback or an interface method all of whose targets sleep or block on all their paths (`emit(certs)` with
			// emit = func(c) { ch <- c })
			fs := c11callees(&call.Call)
			for _, g := range fs {
				if !mustExec(g, c11basicPacing, 0) {
					return false
				}
			}
			return len(fs) > 0
		}
		if !isRepoFn(sc) {
			return false
		}
		return mustExec(unwrap(sc), c11basicPacing, 0)
	}
}

// c11verdictEdges: call is a call of a repository helper whose boolean result decides the branch its own block ends in
// (`for !w.step() {}`, `if done := w.step(); done { return }`): the helper, the index of that result, and for each
// successor of the block the truth value the result has on that edge. An empty loop body is threaded away by the SSA
// builder, so the edge back to the loop head may leave this very block: no block lies under the fact.
func c11verdictEdges(call *ssa.Call) (h *ssa.Function, idx int, truths [2]bool, ok bool) {
	b := call.Block()
	if b == nil || len(b.Instrs) == 0 || len(b.Succs) != 2 || b.Succs[0] == b.Succs[1] {
		return nil, 0, truths, false
	}
	iff, isIf := b.Instrs[len(b.Instrs)-1].(*ssa.If)
	if !isIf {
		return nil, 0, truths, false
	}
	cond, t := iff.Cond, true
	for {
		u, isNot := cond.(*ssa.UnOp)
		if !isNot || u.Op != token.NOT {
			break
		}
		cond, t = u.X, !t
	}
	if e, isX := cond.(*ssa.Extract); isX {
		cond, idx = e.Tuple, e.Index
	}
	if cond != ssa.Value(call) {
		return nil, 0, truths, false
	}
	if h = c11callee(&call.Call); h == nil {
		return nil, 0, truths, false
	}
	return h, idx, [2]bool{t, !t}, true
}

// c11pacedByOwnVerdict: the block of call ends in a branch on call's own verdict, and on every edge of that branch that
// stays in the loop the helper has slept or blocked before returning that verdict (the other edges leave the loop: a
// step method that returns `true` at once when the watcher was stopped).
func c11pacedByOwnVerdict(call *ssa.Call, l *loop) bool {
	h, idx, truths, ok := c11verdictEdges(call)
	if !ok {
		return false
	}
	inLoop := 0
	for k, s := range call.Block().Succs {
		if !l.Body[s] {
			continue
		}
		inLoop++
		if !c11pacesBeforeReturn(h, idx, truths[k]) {
			return false
		}
	}
	return inLoop > 0
}

// c11pacedByVerdict: block b lies under the fact "helper h, called in this iteration of l, returned T", and h sleeps or
// blocks on every path that ends in `return T` (the step helper that sends on success and reports failure to a caller
// that sleeps, or the other way round).
func c11pacedByVerdict(b *ssa.BasicBlock, l *loop) bool {
	for _, f := range localFactsAt(b) {
		v, idx := f.Cond, 0
		if e, ok := v.(*ssa.Extract); ok {
			v, idx = e.Tuple, e.Index
		}
		call, ok := v.(*ssa.Call)
		if !ok || !l.Body[call.Block()] {
			continue
		}
		if h := c11callee(&call.Call); h != nil && c11pacesBeforeReturn(h, idx, f.Truth) {
			return true
		}
	}
	return false
}

// c11pacesBeforeReturn: every path of h from its entry to a return whose result idx can be `truth` sleeps or blocks. A
// constant result decides by itself; a computed verdict (`return err == nil`) can be `truth` only on the paths that took
// the branches on that same condition the matching way.
func c11pacesBeforeReturn(h *ssa.Function, idx int, truth bool) bool {
	return c11allWaysToVerdict(h, idx, truth, liftMust(c11basicPacing, 1))
}

// c11allWaysToVerdict: every path of h from its entry to a return whose result idx can be `truth` passes an instruction
// satisfying paces (pacing for L1, an examination of the source for L7).
func c11allWaysToVerdict(h *ssa.Function, idx int, truth bool, paces func(ssa.Instruction) bool) bool {
	if h == nil || len(h.Blocks) == 0 {
		return false
	}
	nRet := 0
	ok := true
	eachInstr(h, func(i ssa.Instruction) {
		r, isRet := i.(*ssa.Return)
		if !isRet || idx >= len(r.Results) || !ok {
			return
		}
		res := r.Results[idx]
		if k, isK := constBool(res); isK && k != truth {
			return
		}
		nRet++
		// the condition the verdict is, and the value it must have for the result to be `truth`
		cond, want := res, truth
		for {
			u, isNot := cond.(*ssa.UnOp)
			if !isNot || u.Op != token.NOT {
				break
			}
			cond, want = u.X, !want
		}
		if _, isK := constBool(res); isK {
			cond = nil
		}
		seen := map[*ssa.BasicBlock]bool{h.Blocks[0]: true}
		stack := []*ssa.BasicBlock{h.Blocks[0]}
		for len(stack) > 0 && ok {
			b := stack[len(stack)-1]
			stack = stack[:len(stack)-1]
			blocked := false
			for _, in := range b.Instrs {
				if paces(in) {
					blocked = true
					break
				}
				if in == ssa.Instruction(r) {
					ok = false // reached without pacing
				}
			}
			if blocked || !ok {
				continue
			}
			succs := b.Succs
			if len(b.Instrs) == 0 {
				continue
			}
			if iff, isIf := b.Instrs[len(b.Instrs)-1].(*ssa.If); isIf && cond != nil && len(b.Succs) == 2 {
				c2, t2 := iff.Cond, true
				for {
					u, isNot := c2.(*ssa.UnOp)
					if !isNot || u.Op != token.NOT {
						break
					}
					c2, t2 = u.X, !t2
				}
				if c11sameCond(c2, cond) { // only the branch on which the verdict is `truth`
					if want == t2 {
						succs = b.Succs[:1]
					} else {
						succs = b.Succs[1:]
					}
				}
			}
			for _, sb := range succs {
				if !seen[sb] {
					seen[sb] = true
					stack = append(stack, sb)
				}
			}
		}
	})
	return ok && nRet > 0
}

// c11sameCond: two conditions are the same test: the same value, or the same comparison of the same operands evaluated
// twice (`if err == nil {...}; return err == nil`).
func c11sameCond(a, b ssa.Value) bool {
	if a == b {
		return true
	}
	x, ok1 := a.(*ssa.BinOp)
	y, ok2 := b.(*ssa.BinOp)
	if !ok1 || !ok2 || x.Op != y.Op {
		return false
	}
	same := func(p, q ssa.Value) bool {
		if p == q {
			return true
		}
		kp, isKp := p.(*ssa.Const)
		kq, isKq := q.(*ssa.Const)
		if isKp && isKq {
			if kp.Value == nil || kq.Value == nil {
				return kp.Value == nil && kq.Value == nil
			}
			return kp.Value.ExactString() == kq.Value.ExactString()
		}
		return false
	}
	return same(x.X, y.X) && same(x.Y, y.Y)
}

// c11errEdgeSpins examines the error edge of a Consul query: the blocks of `in` (a loop body, or a whole wrapper function
// when l is nil) that lie under "the query's error is non-nil", and whether the loop head (or a return of the wrapper)
// can be reached from there without sleeping. A wrapper call without an error result is examined inside the wrapper.
func c11errEdgeSpins(call *ssa.Call, l *loop, wrappers map[*ssa.Function]int, sleeps func(ssa.Instruction) bool, depth int) (nErr int, spinAt []ssa.Instruction) {
	hasErr := false
	if tup, ok := call.Type().(*types.Tuple); ok {
		for k := 0; k < tup.Len(); k++ {
			if typeStr(tup.At(k).Type()) == "error" {
				hasErr = true
			}
		}
	} else if typeStr(call.Type()) == "error" {
		hasErr = true
	}
	if !hasErr {
		h := c11callee(&call.Call)
		if h == nil || depth > 1 {
			return 0, nil
		}
		eachInstr(h, func(i ssa.Instruction) {
			inner, ok := i.(*ssa.Call)
			if !ok {
				return
			}
			isQ := c11isConsulQuery(calleeName(&inner.Call))
			if _, isW := c11wrapperArg(inner, wrappers); isW {
				isQ = true
			}
			if isQ {
				n, sp := c11errEdgeSpins(inner, nil, wrappers, sleeps, depth+1)
				nErr += n
				spinAt = append(spinAt, sp...)
			}
		})
		return nErr, spinAt
	}
	isErr := func(v ssa.Value) bool {
		e, ok := v.(*ssa.Extract)
		return ok && e.Tuple == call && typeStr(e.Type()) == "error"
	}
	for _, eb := range call.Parent().Blocks {
		if l != nil && !l.Body[eb] {
			continue
		}
		if len(eb.Preds) != 1 || !knownNonNil(eb, isErr) || knownNonNil(eb.Preds[0], isErr) {
			continue
		}
		nErr++
		spin := false
		seen := map[*ssa.BasicBlock]bool{}
		stack := []*ssa.BasicBlock{eb}
		for len(stack) > 0 && !spin {
			x := stack[len(stack)-1]
			stack = stack[:len(stack)-1]
			if seen[x] {
				continue
			}
			seen[x] = true
			slept := false
			for _, xi := range x.Instrs {
				if sleeps(xi) {
					slept = true
					break
				}
				if _, isRet := xi.(*ssa.Return); isRet && l == nil {
					spin = true // back to the caller's loop without having slept
				}
			}
			if slept || spin {
				continue
			}
			for _, s := range x.Succs {
				if l != nil && s == l.Head {
					spin = true
				} else if l == nil || l.Body[s] {
					stack = append(stack, s)
				}
			}
		}
		if spin {
			spinAt = append(spinAt, eb.Instrs[0])
		}
	}
	return nErr, spinAt
}

func runC11L1(c *Ctx) {
	c11useCtx(c)
	wrappers := c11blockingWrappers(c, "cert")
	extra := c11pacing(wrappers)
	old := extraPacing
	extraPacing = extra
	defer func() { extraPacing = old }()
	runLoopPacing(c, "C11.L1", []string{"cert"}, 1)
	c11runCondLoopPacing(c, "C11.L1") // the same for watch loops written with a condition (c11_round5.go)

	// W3 for the Consul watcher, queries found by role (looppace.go's runConsulWatchLoops names cert.getCerts)
	sleeps := func(in ssa.Instruction) bool {
		if cc := callCommon(in); cc != nil && c11callsOnly(cc, map[string]bool{"time.Sleep": true}) {
			return true
		}
		if u, ok := in.(*ssa.UnOp); ok && u.Op == token.ARROW {
			return true
		}
		if call, ok := in.(*ssa.Call); ok {
			if sc := call.Call.StaticCallee(); sc != nil && isRepoFn(sc) {
				return mustExec(unwrap(sc), func(j ssa.Instruction) bool {
					if cc := callCommon(j); cc != nil && calleeName(cc) == "time.Sleep" {
						return true
					}
					u, ok := j.(*ssa.UnOp)
					return ok && u.Op == token.ARROW
				}, 0)
			}
		}
		return false
	}
	n := 0
	for _, f := range c.fnsWhere("cert", func(*ssa.Function) bool { return true }) {
		for _, l := range c11watchLoops(f) {
			for b := range l.Body {
				for _, in := range b.Instrs {
					call, ok := in.(*ssa.Call)
					if !ok {
						continue
					}
					blocks, isQ := false, false
					name := calleeName(&call.Call)
					if arg, isW := c11wrapperArg(call, wrappers); isW {
						isQ, blocks = true, c11waitIndexAdvances(call, arg, l)
					}
					if !isQ && c11isConsulQuery(name) {
						isQ, blocks = true, consulQueryPaced(call, l)
					}
					if !isQ {
						continue
					}
					n++
					c.check("C11.L1", fnKey(f)+"|Consul query blocks until the registry changes", call.Pos(), blocks,
						"the query's WaitIndex must be the loop-carried index advanced from the reply's LastIndex (or the poll branch must sleep); otherwise the query returns at once every time and the loop polls Consul at full speed")
					nErr, spinAt := c11errEdgeSpins(call, l, wrappers, sleeps, 0)
					if nErr > 0 {
						pos := call.Pos()
						if len(spinAt) > 0 {
							pos = spinAt[0].Pos()
						}
						c.check("C11.L1", fnKey(f)+"|error edge of the query sleeps before retrying", pos, len(spinAt) == 0,
							"when the query fails (agent unreachable) it returns immediately; without a sleep on that edge the loop retries at full speed")
					}
					if nErr == 0 {
						c.check("C11.L1", fnKey(f)+"|error edge of the query sleeps before retrying", call.Pos(), false, "the query's error is not examined inside the loop")
					}
				}
			}
		}
	}
	c.atLeast("C11.L1", "Consul queries inside watch loops of cert", n, 1)
}

// ---- L2: unusable material is not published --------------------------------------------------------------------------

// c11sendWalk traces a value sent on a certificates channel back to the fallible repository loaders it comes from. A
// loader is GUARDED when some block the value passes on its way to the send (the send's block, the return block of a
// helper, a phi predecessor) lies under the fact "the loader's error is nil".
type c11sendWalk struct {
	seen      map[ssa.Value]bool
	guarded   []*ssa.Call
	unguarded []*ssa.Call
}

func c11errOf(call *ssa.Call) func(ssa.Value) bool {
	isExt := func(v ssa.Value) bool {
		e, ok := v.(*ssa.Extract)
		return ok && e.Tuple == call && typeStr(e.Type()) == "error"
	}
	return func(v ssa.Value) bool {
		if isExt(v) {
			return true
		}
		if u, ok := v.(*ssa.UnOp); ok && u.Op == token.MUL {
			if _, isAlloc := u.X.(*ssa.Alloc); isAlloc {
				for _, d := range defsOf(u) {
					if isExt(d.Val) {
						return true
					}
				}
			}
		}
		return false
	}
}

func (w *c11sendWalk) walk(v ssa.Value, chain []*ssa.BasicBlock, depth int) {
	if v == nil || depth > 8 || w.seen[v] {
		return
	}
	w.seen[v] = true
	defer delete(w.seen, v)
	with := func(b ...*ssa.BasicBlock) []*ssa.BasicBlock {
		return append(append([]*ssa.BasicBlock{}, chain...), b...)
	}
	switch x := v.(type) {
	case *ssa.Phi:
		for k, e := range x.Edges {
			w.walk(e, with(x.Block().Preds[k]), depth+1)
		}
	case *ssa.Extract:
		if call, ok := x.Tuple.(*ssa.Call); ok {
			w.call(call, x.Index, chain, depth)
		}
	case *ssa.Call:
		if strings.HasPrefix(calleeName(&x.Call), "builtin.") || strings.HasPrefix(calleeName(&x.Call), "slices.") {
			for _, a := range x.Call.Args {
				w.walk(a, chain, depth+1)
			}
			return
		}
		w.call(x, 0, chain, depth)
	case *ssa.Slice:
		w.walk(x.X, chain, depth+1)
	case *ssa.ChangeType:
		w.walk(x.X, chain, depth+1)
	case *ssa.UnOp:
		if x.Op != token.MUL {
			return
		}
		switch a := x.X.(type) {
		case *ssa.Alloc:
			for _, d := range defsOf(x) {
				w.walk(d.Val, with(d.Block), depth+1)
			}
		case *ssa.FreeVar:
			w.walk(a, chain, depth+1)
		}
	case *ssa.FreeVar:
		fn := x.Parent()
		if fn == nil || fn.Parent() == nil {
			return
		}
		for k, fv := range fn.FreeVars {
			if fv != x {
				continue
			}
			eachInstr(fn.Parent(), func(i ssa.Instruction) {
				mc, ok := i.(*ssa.MakeClosure)
				if !ok || mc.Fn != fn || k >= len(mc.Bindings) {
					return
				}
				b := mc.Bindings[k]
				if a, isAlloc := b.(*ssa.Alloc); isAlloc {
					for _, r := range *a.Referrers() {
						if st, ok := r.(*ssa.Store); ok && st.Addr == a {
							w.walk(st.Val, with(st.Block()), depth+1)
						}
					}
					return
				}
				w.walk(b, with(mc.Block()), depth+1)
			})
		}
	case *ssa.Parameter:
		fn := x.Parent()
		if fn == nil {
			return
		}
		for k, p := range fn.Params {
			if p != x {
				continue
			}
			for _, s := range gSites[fn] {
				if cc := s.Common(); k < len(cc.Args) && s.Block() != nil {
					w.walk(cc.Args[k], with(s.Block()), depth+1)
				}
			}
			// the function is handed out as a callback or sits behind an interface (`emit(certs)`, `out.send(certs)`)
			for _, d := range c11dynSites(fn) {
				if cc := d.site.Common(); k-d.off >= 0 && k-d.off < len(cc.Args) && d.site.Block() != nil {
					w.walk(cc.Args[k-d.off], with(d.site.Block()), depth+1)
				}
			}
		}
	}
}

func (w *c11sendWalk) call(call *ssa.Call, idx int, chain []*ssa.BasicBlock, depth int) {
	sc := c11callee(&call.Call)
	if sc == nil || len(sc.Blocks) == 0 {
		return
	}
	res := sc.Signature.Results()
	fallible := res.Len() >= 2 && typeStr(res.At(res.Len()-1).Type()) == "error"
	outer := false
	if fallible {
		isErr := c11errOf(call)
		for _, b := range chain {
			if b != nil && knownNil(b, isErr) {
				outer = true
			}
		}
	}
	// a verdict the caller tested: result k of this call is known true/false on the value's way
	verdict := map[int]bool{}
	for _, b := range chain {
		if b == nil {
			continue
		}
		for _, f := range factsAt(b) {
			if e, isE := f.Cond.(*ssa.Extract); isE && e.Tuple == ssa.Value(call) {
				verdict[e.Index] = f.Truth
			}
		}
	}
	// what the callee returns: loaders below it must be guarded there, or hand their error up to a guarded caller
	found := 0
	eachInstr(sc, func(i ssa.Instruction) {
		r, ok := i.(*ssa.Return)
		if !ok || idx >= len(r.Results) || isNilConst(r.Results[idx]) {
			return
		}
		sub := &c11sendWalk{seen: w.seen}
		sub.walk(r.Results[idx], []*ssa.BasicBlock{r.Block()}, depth+1)
		found += len(sub.guarded) + len(sub.unguarded)
		w.guarded = append(w.guarded, sub.guarded...)
		for _, u := range sub.unguarded {
			switch {
			case outer && derives(r.Results[len(r.Results)-1], c11errOf(u)):
				w.guarded = append(w.guarded, u) // its error is this function's error, which the caller tested
			case c11verdictImpliesNil(r, verdict, c11errOf(u)):
				w.guarded = append(w.guarded, u) // `return certs, err == nil` and the caller went on only with true
			default:
				w.unguarded = append(w.unguarded, u)
			}
		}
	})
	if found == 0 && fallible {
		if outer {
			w.guarded = append(w.guarded, call)
		} else {
			w.unguarded = append(w.unguarded, call) // the innermost fallible loader, and nobody looked at its error
		}
	}
}

// c11verdictImpliesNil: one of the boolean results of return r is a nil test of the loader's error (`err == nil`,
// `!(err != nil)`), and the caller is known to have seen the value that means "the error is nil".
func c11verdictImpliesNil(r *ssa.Return, verdict map[int]bool, isErr func(ssa.Value) bool) bool {
	for k, truth := range verdict {
		if k >= len(r.Results) {
			continue
		}
		cond := r.Results[k]
		for {
			u, isNot := cond.(*ssa.UnOp)
			if !isNot || u.Op != token.NOT {
				break
			}
			cond, truth = u.X, !truth
		}
		if nonNil, ok := nilFact(Fact{Cond: cond, Truth: truth}, isErr); ok && !nonNil {
			return true
		}
	}
	return false
}

func runC11L2(c *Ctx) {
	n := 0
	for _, f := range c.fnsWhere("cert", func(*ssa.Function) bool { return true }) {
		eachInstr(f, func(i ssa.Instruction) {
			snd, ok := i.(*ssa.Send)
			if !ok || !c11isCertSlice(snd.X.Type()) {
				return
			}
			w := &c11sendWalk{seen: map[ssa.Value]bool{}}
			w.walk(snd.X, []*ssa.BasicBlock{snd.Block()}, 0)
			if len(w.guarded)+len(w.unguarded) == 0 {
				return // value built without a fallible loader (file source: fatal at start-up)
			}
			n++
			loader := ""
			if len(w.unguarded) > 0 {
				loader = fnKey(w.unguarded[0].Call.StaticCallee())
			} else {
				loader = fnKey(w.guarded[0].Call.StaticCallee())
			}
			c.check("C11.L2", fnKey(f)+"|certificates sent only when "+loader+" succeeded", snd.Pos(), len(w.unguarded) == 0,
				"the send on the certificates channel must be unreachable from the loader's error edge: a partly parsed set (the loader returns the good certificates together with the error) would replace the working set")
		})
	}
	c.atLeast("C11.L2", "sends of loaded certificate sets", n, 1)
}

// ---- L3: order of the loaded certificates ----------------------------------------------------------------------------

var c11sortCalls = map[string]bool{
	"sort.Strings": true, "sort.Sort": true, "sort.Stable": true, "sort.Slice": true, "sort.SliceStable": true,
	"slices.Sort": true, "slices.SortFunc": true, "slices.SortStableFunc": true, "slices.Sorted": true, "slices.SortedFunc": true, "slices.SortedStableFunc": true,
}

func c11isSort(i ssa.Instruction) bool {
	call, ok := i.(*ssa.Call)
	return ok && c11sortCalls[typeArgs.ReplaceAllString(calleeName(&call.Call), "")]
}

// c11sortedBefore: a sort (or a helper that sorts on all its paths) dominates block b; for an unexported helper without
// one, every call site must be dominated by a sort.
func c11sortedBefore(b *ssa.BasicBlock, depth int) bool {
	isSort := liftMust(c11isSort, 1)
	fn := b.Parent()
	found := false
	eachInstr(fn, func(i ssa.Instruction) {
		if isSort(i) && i.Block() != b && i.Block().Dominates(b) {
			found = true
		}
	})
	if found {
		return true
	}
	if depth < 2 && onlyStaticallyCalled(fn) && len(gSites[fn]) > 0 {
		for _, s := range gSites[fn] {
			if s.Block() == nil {
				return false
			}
			ok := c11sortedBefore(s.Block(), depth+1)
			for _, in := range s.Block().Instrs { // a sort earlier in the call's own block
				if in == ssa.Instruction(s) {
					break
				}
				if isSort(in) {
					ok = true
				}
			}
			if !ok {
				return false
			}
		}
		return true
	}
	return false
}

func runC11L3(c *Ctx) {
	lc := c.fnByRole("cert", "loadCertificates", func(f *ssa.Function) bool {
		res := f.Signature.Results()
		if f.Parent() != nil || res.Len() == 0 || !c11isCertSlice(res.At(0).Type()) {
			return false
		}
		hasMap := false
		for _, p := range f.Params {
			if _, ok := p.Type().Underlying().(*types.Map); ok {
				hasMap = true
			}
		}
		if !hasMap {
			return false
		}
		for _, g := range c.region(f) {
			if fnCalls(g, "crypto/tls.X509KeyPair") {
				return true
			}
		}
		return false
	})
	if !c.need("C11.L3", lc, "the PEM loader of package cert (map of PEM blocks -> []tls.Certificate, cert.loadCertificates by role)") {
		return
	}
	nLoops, ok := 0, true
	pos := lc.Pos()
	for _, f := range c.region(lc) {
		for _, l := range loopsOf(f) {
			builds := false
			for b := range l.Body {
				for _, in := range b.Instrs {
					switch x := in.(type) {
					case *ssa.Call:
						if calleeName(&x.Call) == "builtin.append" && c11isCertSlice(x.Type()) {
							builds = true
						}
					case *ssa.Store:
						if ia, isIA := x.Addr.(*ssa.IndexAddr); isIA && c11isCertSlice(ia.X.Type()) {
							builds = true
						}
					}
				}
			}
			if !builds {
				continue
			}
			nLoops++
			overMap := false
			for _, in := range l.Head.Instrs {
				if nx, isN := in.(*ssa.Next); isN && !nx.IsString {
					overMap = true
				}
			}
			if overMap || !c11sortedBefore(l.Head, 0) {
				ok = false
				pos = l.Head.Instrs[0].Pos()
			}
		}
	}
	c.check("C11.L3", fnKey(lc)+"|result ordered by the sorted name list", pos, ok && nLoops > 0,
		"the certificates must be appended in the order of the sorted file names (the first one is the default certificate): the loop that builds the result must run over a list that was sorted before it, not over the map, whose iteration order makes the default certificate random per reload")
}

// ---- L4: the goroutine that applies updates --------------------------------------------------------------------------

func runC11L4(c *Ctx, m *c11Model) {
	tlsConfig := c.fnByRole("cert", "TLSConfig", func(f *ssa.Function) bool {
		res := f.Signature.Results()
		return f.Parent() == nil && res.Len() >= 1 && typeStr(res.At(0).Type()) == "*crypto/tls.Config"
	})
	if !c.need("C11.L4", tlsConfig, "cert.TLSConfig") {
		return
	}
	reg := c11region(c, tlsConfig)
	narrow := c11liftMay(m.isPublishTry)
	isApply := func(i ssa.Instruction) bool {
		if narrow(i) {
			return true
		}
		// a sink behind an exported interface of the package (`type CertSink interface{ SetCertificates(...) }`)
		if call, ok := i.(*ssa.Call); ok && call.Call.IsInvoke() {
			for _, g := range c11implementationsOf(&call.Call, true) {
				if c11mayExec(g, m.isPublishTry, 1) {
					return true
				}
			}
		}
		return false
	}
	isCertsChan := func(v ssa.Value) bool {
		call, ok := v.(*ssa.Call)
		return ok && call.Call.IsInvoke() && call.Call.Method.Name() == "Certificates"
	}
	// the updater: receives from src.Certificates() and applies what it received
	type updater struct {
		fn      *ssa.Function
		recv    ssa.Instruction
		applied bool
	}
	var ups []*updater
	for _, g := range reg {
		eachInstr(g, func(i ssa.Instruction) {
			var recv ssa.Value
			switch x := i.(type) {
			case *ssa.UnOp:
				if x.Op == token.ARROW && derives(x.X, isCertsChan) {
					recv = x
				}
			case *ssa.Select:
				for _, st := range x.States {
					if st.Dir == types.RecvOnly && derives(st.Chan, isCertsChan) {
						recv = x
					}
				}
			}
			if recv == nil {
				return
			}
			u := &updater{fn: g, recv: i}
			ups = append(ups, u)
			ofRecv := func(v ssa.Value) bool {
				e, ok := v.(*ssa.Extract)
				return ok && e.Tuple == recv
			}
			base := map[Fact]bool{}
			for _, f := range factsAt(i.Block()) {
				base[f] = true
			}
			eachInstrOf(c11region(c, g), func(h *ssa.Function, j ssa.Instruction) {
				call, ok := j.(*ssa.Call)
				if !ok || !isApply(j) {
					return
				}
				fromRecv := false
				for _, a := range call.Call.Args {
					if c11isCertSlice(a.Type()) && derives(a, func(v ssa.Value) bool { return v == recv }) {
						fromRecv = true
					}
				}
				if !fromRecv {
					return
				}
				// unconditional w.r.t. the received value: between receive and apply only the channel-open / select-case tests
				extra := 0
				for _, f := range factsAt(j.Block()) {
					if base[f] || ofRecv(f.Cond) {
						continue
					}
					if b, isB := f.Cond.(*ssa.BinOp); isB && (ofRecv(b.X) || ofRecv(b.Y)) {
						if e, _ := b.X.(*ssa.Extract); e != nil && e.Index == 0 && ofRecv(b.X) {
							if _, isSel := recv.(*ssa.Select); isSel {
								continue // which case of the select fired
							}
						}
					}
					extra++
				}
				if extra == 0 {
					u.applied = true
				}
			})
		})
	}
	if len(ups) == 0 {
		c.check("C11.L4", fnKey(tlsConfig)+"|updates goroutine", tlsConfig.Pos(), false, "nothing below TLSConfig receives from src.Certificates(): a newly published set never takes effect")
		return
	}
	for _, u := range ups {
		c.check("C11.L4", fnKey(tlsConfig)+"$updates|every received set is applied", u.recv.Pos(), u.applied, "every certificate set received from the source must be handed to the store's publish entry unconditionally; a filtered update leaves handshakes on a stale set")
	}
	// started as a goroutine on every path to the successful return
	runsUpdater := func(f *ssa.Function) bool {
		for _, g := range c11region(c, f) {
			for _, u := range ups {
				if u.fn == g {
					return true
				}
			}
		}
		return false
	}
	var firstGo ssa.Instruction
	isStart := func(i ssa.Instruction) bool {
		g, ok := i.(*ssa.Go)
		if !ok {
			return false
		}
		var fns []*ssa.Function
		if sc := g.Call.StaticCallee(); sc != nil {
			fns = append(fns, unwrap(sc))
		} else {
			fns = c11funcsOf(g.Call.Value, 0)
		}
		for _, f := range fns {
			if runsUpdater(f) {
				if firstGo == nil {
					firstGo = i
				}
				return true
			}
		}
		return false
	}
	pass := liftMust(isStart, 1)
	okStart, seen := true, map[*ssa.BasicBlock]bool{tlsConfig.Blocks[0]: true}
	stack := []*ssa.BasicBlock{tlsConfig.Blocks[0]}
	for len(stack) > 0 {
		b := stack[len(stack)-1]
		stack = stack[:len(stack)-1]
		blocked := false
		for _, in := range b.Instrs {
			if pass(in) {
				blocked = true
				break
			}
			if r, ok := in.(*ssa.Return); ok && len(r.Results) > 0 && !isNilConst(r.Results[0]) {
				okStart = false
			}
		}
		if blocked {
			continue
		}
		for _, s := range b.Succs {
			if !seen[s] {
				seen[s] = true
				stack = append(stack, s)
			}
		}
	}
	started := false
	eachInstrOf(reg, func(f *ssa.Function, i ssa.Instruction) {
		if isStart(i) {
			started = true
		}
	})
	pos := tlsConfig.Pos()
	if firstGo != nil {
		pos = firstGo.Pos()
	}
	if !started {
		c.check("C11.L4", fnKey(tlsConfig)+"|updates goroutine", pos, false, "TLSConfig starts no goroutine applying certificate updates: a newly published set never takes effect")
		return
	}
	c.check("C11.L4", fnKey(tlsConfig)+"|updates goroutine started before the config is returned", pos, okStart, "the goroutine applying updates must be running when the config is handed out")
}
