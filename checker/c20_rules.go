package main

// C20 rules U1, F1, O1, B1, P5 — written against ROLES (what an instruction does) inside REGIONS (the Logger
// implementations and what they call; ServeHTTP and what it calls) instead of the names of today's functions.

import (
	"go/ast"
	"go/token"
	"go/types"
	"regexp"
	"strings"

	"golang.org/x/tools/go/ssa"
)

// ---- shared helpers of the C20 rules --------------------------------------------------------------------------------

// c20AllFns: c.AllFns plus the synthetic package initialisers (package-level variable initialisers live there).
func c20AllFns(c *Ctx) []*ssa.Function {
	fns := append([]*ssa.Function{}, c.AllFns...)
	for _, sp := range c.spkgs {
		if f := sp.Func("init"); f != nil && len(f.Blocks) > 0 {
			fns = append(fns, f)
		}
	}
	return fns
}

// c20FieldStores: the stores to field fld of the struct allocated by al: directly (literal or x.F = v), and in
// repository helpers that receive the struct's address as a parameter (normalise(&ev)).
func c20FieldStores(al ssa.Value, fld string, depth int) []*ssa.Store {
	out := append([]*ssa.Store{}, fieldStores(al)[fld]...)
	refs := al.Referrers()
	if refs == nil || depth > 2 {
		return out
	}
	for _, r := range *refs {
		ci, ok := r.(ssa.CallInstruction)
		if !ok {
			continue
		}
		sc := ci.Common().StaticCallee()
		if sc == nil || !isRepoFn(sc) || len(sc.Blocks) == 0 {
			continue
		}
		for k, a := range ci.Common().Args {
			if a == al && k < len(sc.Params) {
				out = append(out, c20FieldStores(sc.Params[k], fld, depth+1)...)
			}
		}
	}
	return out
}

// c20Allocs collects the allocations of named type typ that v may denote: the value itself, merges, results of
// repository helpers, helper parameters (to the arguments at their call sites).
func c20Allocs(v ssa.Value, typ string) []*ssa.Alloc {
	var out []*ssa.Alloc
	seen := map[*ssa.Alloc]bool{}
	derives(v, func(x ssa.Value) bool {
		if al, ok := x.(*ssa.Alloc); ok && !seen[al] {
			if p, isP := al.Type().(*types.Pointer); isP && namedIs(p.Elem(), typ) {
				seen[al] = true
				out = append(out, al)
			}
		}
		return false
	})
	return out
}

// c20Lifted: the instructions of f that satisfy pred themselves or are static calls of repository helpers that
// execute such an instruction on every path (must) / on some path (may).
func c20Lifted(f *ssa.Function, pred func(ssa.Instruction) bool, must bool) []ssa.Instruction {
	var out []ssa.Instruction
	lp := liftMay(pred)
	if must {
		lp = liftMust(pred, 1)
	}
	eachInstr(f, func(i ssa.Instruction) {
		if _, isDefer := i.(*ssa.Defer); isDefer {
			return
		}
		if _, isGo := i.(*ssa.Go); isGo {
			return
		}
		if lp(i) {
			out = append(out, i)
		}
	})
	return out
}

// c20Ordered: in f the roles happen in the given order on every path: role k is executed (by an instruction or by a
// helper that does it on all of its paths) and dominates role k+1; when two consecutive roles are played by the same
// helper call the order is checked inside that helper.
func c20Ordered(f *ssa.Function, roles []func(ssa.Instruction) bool, depth int) bool {
	if f == nil || len(f.Blocks) == 0 || depth > 3 {
		return false
	}
	at := make([]ssa.Instruction, len(roles))
	for k, r := range roles {
		cands := c20Lifted(f, r, true)
		if len(cands) == 0 {
			return false
		}
		// the candidate that dominates the others (the first on every path)
		pick := cands[0]
		for _, x := range cands[1:] {
			if dominatesInstr(x, pick) {
				pick = x
			}
		}
		at[k] = pick
	}
	for k := 0; k+1 < len(roles); {
		j := k
		for j+1 < len(roles) && at[j+1] == at[k] {
			j++
		}
		if j > k {
			// roles k..j are played by one instruction
			if roles[k](at[k]) {
				return false // one primitive instruction cannot play two roles
			}
			call, ok := at[k].(*ssa.Call)
			if !ok {
				return false
			}
			sc := call.Call.StaticCallee()
			if sc == nil || !c20Ordered(unwrap(sc), roles[k:j+1], depth+1) {
				return false
			}
		}
		if j+1 < len(roles) && !dominatesInstr(at[j], at[j+1]) {
			return false
		}
		k = j + 1
	}
	return true
}

// c20LockedAt: a mutex is held at instruction at: in its function, or at every static call site of its function when
// the function can only be called statically.
func c20LockedAt(at ssa.Instruction, depth int) bool {
	if len(heldAt(at, true)) > 0 {
		return true
	}
	f := at.Parent()
	if depth > 3 || f == nil || !onlyStaticallyCalled(f) {
		return false
	}
	sites := gSites[f]
	if len(sites) == 0 {
		return false
	}
	for _, s := range sites {
		if _, isGo := s.(*ssa.Go); isGo {
			return false
		}
		if !c20LockedAt(s, depth+1) {
			return false
		}
	}
	return true
}

func isBufferPtr(t types.Type) bool {
	p, ok := t.(*types.Pointer)
	return ok && namedIs(p.Elem(), "bytes.Buffer")
}

// isWriterIface: an interface type with a Write([]byte) method (io.Writer and its extensions).
func isWriterIface(t types.Type) bool {
	it, ok := t.Underlying().(*types.Interface)
	if !ok {
		return false
	}
	for k := 0; k < it.NumMethods(); k++ {
		if it.Method(k).Name() == "Write" {
			return true
		}
	}
	return false
}

// ---- P5 ---------------------------------------------------------------------------------------------------------------

// poolNewReturns: the sync.Pool the assertion reads from - a package-level variable or a field of a struct - has a New
// function returning the asserted type, wherever New is set (the variable's literal, a constructor, an init function).
func poolNewReturns(c *Ctx, ta *ssa.TypeAssert) bool {
	call, ok := ta.X.(*ssa.Call)
	if !ok || len(call.Call.Args) == 0 {
		return false
	}
	// the pool's identity: the variable, or (struct type, field)
	samePool := func(v ssa.Value) bool { return false }
	var home *ssa.Package
	switch p := call.Call.Args[0].(type) {
	case *ssa.Global:
		samePool = func(v ssa.Value) bool { return v == p }
		home = p.Pkg
	case *ssa.FieldAddr:
		pt, fi := p.X.Type(), p.Field
		samePool = func(v ssa.Value) bool {
			fa, ok := v.(*ssa.FieldAddr)
			return ok && fa.Field == fi && types.Identical(fa.X.Type(), pt)
		}
		home = rootPkg(call.Parent())
	default:
		return false
	}
	found, all := false, true
	for _, f := range c20AllFns(c) {
		if rootPkg(f) != home {
			continue
		}
		eachInstr(f, func(i ssa.Instruction) {
			st, ok := i.(*ssa.Store)
			if !ok {
				return
			}
			fa, ok := st.Addr.(*ssa.FieldAddr)
			if !ok || !samePool(fa.X) || fieldName(fa.X.Type(), fa.Field) != "New" {
				return
			}
			fns := funcsOf(st.Val)
			if len(fns) == 0 {
				all = false
				return
			}
			for _, fn := range fns {
				found = true
				eachInstr(fn, func(j ssa.Instruction) {
					if r, ok := j.(*ssa.Return); ok && len(r.Results) == 1 {
						if !types.Identical(stripIface(r.Results[0]).Type(), ta.AssertedType) {
							all = false
						}
					}
				})
			}
		})
	}
	return found && all
}

// ---- F1 ---------------------------------------------------------------------------------------------------------------

// c20FieldKeys: the constant keys of the renderer table(s) of package logger: every map whose elements are functions
// taking an *Event, filled by a literal or by assignments, whatever the variable is called.
func c20FieldKeys(c *Ctx) map[string]bool {
	keys := map[string]bool{}
	sp, pp := c.spkg("logger"), c.ppkg("logger")
	if sp == nil || pp == nil {
		return keys
	}
	isRenderer := func(t types.Type) bool { return c20IsRendererType(t, 0) }
	var pr *c20prover
	for _, f := range c20AllFns(c) {
		if rootPkg(f) != sp {
			continue
		}
		eachInstr(f, func(i ssa.Instruction) {
			mu, ok := i.(*ssa.MapUpdate)
			if !ok {
				return
			}
			mt, ok := mu.Map.Type().Underlying().(*types.Map)
			if !ok || !isRenderer(mt.Elem()) {
				return
			}
			if s, ok := constString(mu.Key); ok {
				keys[s] = true
				return
			}
			// a table-driven registration: fields[u.name] = ... for the elements u of a table of structs
			var addr ssa.Value
			fld := -1
			switch k := mu.Key.(type) {
			case *ssa.UnOp:
				if fa, isFA := k.X.(*ssa.FieldAddr); isFA && k.Op == token.MUL {
					addr, fld = fa.X, fa.Field
				}
			case *ssa.Field:
				if ld, isLd := k.X.(*ssa.UnOp); isLd && ld.Op == token.MUL {
					addr, fld = ld.X, k.Field
				}
			}
			if addr == nil {
				return
			}
			if _, isPtr := addr.Type().Underlying().(*types.Pointer); !isPtr {
				return
			}
			if pr == nil {
				pr = newC20Prover(c)
			}
			if names, ok := c20MemberStrings(pr, addr, fld); ok {
				for _, s := range names {
					keys[s] = true
				}
			}
		})
	}
	// the same from the syntax (a literal in a position the SSA builder folds differently)
	for _, f := range pp.Syntax {
		ast.Inspect(f, func(n ast.Node) bool {
			cl, ok := n.(*ast.CompositeLit)
			if !ok {
				return true
			}
			tv, ok := pp.TypesInfo.Types[cl]
			if !ok {
				return true
			}
			mt, ok := tv.Type.Underlying().(*types.Map)
			if !ok || !isRenderer(mt.Elem()) {
				return true
			}
			for _, e := range cl.Elts {
				if kv, ok := e.(*ast.KeyValueExpr); ok {
					if s, ok := constStringExpr(pp.TypesInfo, kv.Key); ok {
						keys[s] = true
					}
				}
			}
			return true
		})
	}
	return keys
}

// c20IsRendererType: something that renders an event: a function one of whose parameters is, points to or wraps a
// logger.Event (func(b, e *Event), func(c *renderContext)), an interface with such a method, or a small struct with
// such a member (a table entry {name, render}).
func c20IsRendererType(t types.Type, depth int) bool {
	switch u := t.Underlying().(type) {
	case *types.Signature:
		for k := 0; k < u.Params().Len(); k++ {
			if c20Carries(u.Params().At(k).Type(), "logger.Event", 0) {
				return true
			}
		}
	case *types.Interface:
		for k := 0; k < u.NumMethods(); k++ {
			if c20IsRendererType(u.Method(k).Type(), depth+1) {
				return true
			}
		}
	case *types.Struct:
		if depth == 0 {
			for k := 0; k < u.NumFields(); k++ {
				if c20IsRendererType(u.Field(k).Type(), depth+1) {
					return true
				}
			}
		}
	case *types.Pointer:
		if depth == 0 {
			return c20IsRendererType(u.Elem(), depth+1)
		}
	}
	return false
}

func runC20F1(c *Ctx) {
	pp := c.ppkg("logger")
	if pp == nil {
		return
	}
	keys := c20FieldKeys(c)
	var doc string
	for _, f := range pp.Syntax {
		if f.Doc != nil && strings.Contains(f.Doc.Text(), "$remote_addr") {
			doc = f.Doc.Text()
		}
	}
	c.atLeast("C20.F1", "keys of the table of field renderers", len(keys), 20)
	if doc == "" {
		c.undecided("C20.F1", "logger|package documentation", "the documentation comment listing the fields was not found")
		return
	}
	tok := regexp.MustCompile(`\$[a-zA-Z0-9_]+(\.<name>)?`)
	nDoc := 0
	for _, line := range strings.Split(doc, "\n") {
		line = strings.TrimSpace(line)
		if !strings.HasPrefix(line, "$") {
			continue
		}
		name := tok.FindString(line)
		if name == "" || strings.HasPrefix(name, "$header") {
			continue
		}
		nDoc++
		c.check("C20.F1", "logger|documented field "+name, pp.Syntax[0].Pos(), keys[name], "the package documentation promises the field "+name+" but the fields table has no renderer for it: a format using it is rejected at start-up")
	}
	c.atLeast("C20.F1", "documented fields", nDoc, 20)
	// named formats
	for _, cn := range []string{"CommonFormat", "CombinedFormat"} {
		obj := pp.Types.Scope().Lookup(cn)
		k, ok := obj.(*types.Const)
		if !ok {
			c.undecided("C20.F1", "logger."+cn, "constant not found")
			continue
		}
		format := strings.Trim(k.Val().ExactString(), "\"")
		okAll := true
		bad := ""
		for _, t := range regexp.MustCompile(`\$[a-zA-Z0-9_]+(\.[a-zA-Z0-9_-]+)?`).FindAllString(format, -1) {
			if strings.HasPrefix(t, "$header.") {
				continue
			}
			if !keys[t] {
				okAll, bad = false, t
			}
		}
		c.check("C20.F1", "logger."+cn+"|uses only known fields", obj.Pos(), okAll, "the named format uses "+bad+", which is not in the fields table")
	}
}

// ---- O1 ---------------------------------------------------------------------------------------------------------------

func runC20O1(c *Ctx) {
	serve := c.method("proxy", "HTTPProxy", "ServeHTTP")
	if !c.need("C20.O1", serve, "proxy.HTTPProxy.ServeHTTP") {
		return
	}
	isLog := func(i ssa.Instruction) bool {
		call, ok := i.(*ssa.Call)
		return ok && c20IsLogCall(&call.Call)
	}
	// the inner handler: h.ServeHTTP(rw, r), or a handler kept as a function value and called directly: h(rw, r)
	isInner := func(i ssa.Instruction) bool {
		call, ok := i.(*ssa.Call)
		if !ok {
			return false
		}
		if call.Call.IsInvoke() {
			return call.Call.Method.Name() == "ServeHTTP"
		}
		if sc := call.Call.StaticCallee(); sc != nil && sc.Synthetic != "" && strings.HasPrefix(sc.Name(), "ServeHTTP$") {
			return true // the method value h.ServeHTTP called on the spot: serve := h.ServeHTTP; serve(rw, r)
		}
		if !c20IsDynamic(&call.Call) {
			return false
		}
		sig, ok := call.Call.Value.Type().Underlying().(*types.Signature)
		if !ok {
			return false
		}
		for k := 0; k < sig.Params().Len(); k++ {
			if namedIs(sig.Params().At(k).Type(), "net/http.ResponseWriter") {
				return true
			}
		}
		return false
	}
	// the Log calls of the request path: in ServeHTTP or in the helpers it calls
	var logs []*ssa.Call
	for _, f := range c.region(serve) {
		eachInstr(f, func(i ssa.Instruction) {
			if isLog(i) {
				logs = append(logs, i.(*ssa.Call))
			}
		})
	}
	c.atLeast("C20.O1", "Logger.Log calls reachable from ServeHTTP", len(logs), 1)
	// where ServeHTTP itself gets there: the Log call, or the call of the helper that makes it
	tops := append(c20Lifted(serve, isLog, false), c20DeferredDoing(serve, isLog)...)
	once := len(logs) == 1 && len(tops) == 1
	if once {
		// neither the call in ServeHTTP nor the Log call in its helper sits in a loop
		if pathAvoiding(tops[0], tops[0], nil) || pathAvoiding(logs[0], logs[0], nil) {
			once = false
		}
		// and a helper in between is called from one place only
		for f := logs[0].Parent(); f != nil && f != serve; {
			sites := gSites[f]
			if len(sites) != 1 || !onlyStaticallyCalled(f) {
				once = false
				break
			}
			if pathAvoiding(sites[0], sites[0], nil) {
				once = false
			}
			f = sites[0].Parent()
		}
	}
	isHost := func(v ssa.Value) bool { _, ok := fieldOf(v, "url.URL", "Host"); return ok }
	for _, l := range logs {
		where := fnKey(l.Parent())
		c.check("C20.O1", where+"|exactly one log line per request path", l.Pos(), once,
			"a request must produce exactly one access-log line: no path may execute Logger.Log twice")
		after := len(tops) > 0 && c20LoggedAfter(serve, isLog, isInner, 0)
		c.check("C20.O1", where+"|logged after the response was handled", l.Pos(), after, "the event is logged after the inner handler returned (status and size are known)")
		evs := c20Allocs(l.Call.Args[0], "logger.Event")
		if len(evs) == 0 {
			c.check("C20.O1", where+"|event literal", l.Pos(), false, "the event passed to Logger.Log must be built on the request path (a literal or a value filled field by field)")
			continue
		}
		for _, fld := range []string{"Request", "Response", "RequestURL", "UpstreamURL"} {
			okF := true
			for _, ev := range evs {
				sts := c20FieldStores(ev, fld, 0)
				if len(sts) == 0 {
					okF = false
				}
				for _, st := range sts {
					if isNilConst(st.Val) || !plainlyNonNil(st.Val, 0) {
						okF = false
					}
				}
			}
			c.check("C20.O1", where+"|event."+fld+" set to a non-nil value", l.Pos(), okF,
				"the renderers dereference Event."+fld+" ($response_status, $request_url, $upstream_request_uri ...); it must be set to the request / a freshly built value")
		}
		okAddr := true
		for _, ev := range evs {
			sts := c20FieldStores(ev, "UpstreamAddr", 0)
			if len(sts) == 0 {
				okAddr = false
			}
			for _, st := range sts {
				if !derives(st.Val, isHost) {
					okAddr = false
				}
			}
		}
		c.check("C20.O1", where+"|event.UpstreamAddr is the target URL's host", l.Pos(), okAddr, "$upstream_addr/_host/_port describe the upstream the request was sent to")
	}
}

// c20LoggedAfter: wherever f gets to the Log call (the call itself, or the call of the helper that makes it) the inner
// handler has returned: an instruction that runs the inner handler (itself or through a helper) dominates it. When
// ONE call does both - the tail of the request path, handler call and access log together, was moved into a helper -
// the order is decided inside that helper.
func c20LoggedAfter(f *ssa.Function, isLog, isInner func(ssa.Instruction) bool, depth int) bool {
	if f == nil || len(f.Blocks) == 0 || depth > 4 {
		return false
	}
	tops := append(c20Lifted(f, isLog, false), c20DeferredDoing(f, isLog)...)
	inners := c20Lifted(f, isInner, false)
	eachInstr(f, func(i ssa.Instruction) {
		if c20RunsArgument(i, isInner) {
			inners = append(inners, i)
		}
	})
	if len(tops) == 0 || len(inners) == 0 {
		return false
	}
	for _, t := range tops {
		if d, isDefer := t.(*ssa.Defer); isDefer {
			// a deferred log runs when f returns: the handler has run by then if no return can be reached from the defer
			// statement without running it
			isIn := func(i ssa.Instruction) bool {
				for _, x := range inners {
					if x == i {
						return true
					}
				}
				return false
			}
			if _, reach := exitReachableAvoiding(d, isIn); reach {
				return false
			}
			continue
		}
		ok, both := false, false
		for _, i := range inners {
			if i == t {
				both = true
			} else if dominatesInstr(i, t) {
				ok = true
			}
		}
		if !ok && both && !isLog(t) && !isInner(t) {
			if call, isCall := t.(*ssa.Call); isCall {
				if sc := call.Call.StaticCallee(); sc != nil && isRepoFn(sc) {
					ok = c20LoggedAfter(unwrap(sc), isLog, isInner, depth+1)
				}
			}
		}
		if !ok {
			return false
		}
	}
	return true
}

// c20CellValues: the values assigned to the local variable whose cell is addr (an Alloc, or the FreeVar through which
// a closure sees it), in the function that declares it and in the closures that capture it; ok is false when the
// cell's address goes anywhere else.
func c20CellValues(addr ssa.Value, depth int) ([]ssa.Value, bool) {
	if depth > 3 {
		return nil, false
	}
	switch a := addr.(type) {
	case *ssa.FreeVar:
		fn := a.Parent()
		if fn == nil || fn.Parent() == nil {
			return nil, false
		}
		idx := -1
		for k, fv := range fn.FreeVars {
			if fv == a {
				idx = k
			}
		}
		var out []ssa.Value
		found, ok := false, true
		eachInstr(fn.Parent(), func(i ssa.Instruction) {
			if mc, isMC := i.(*ssa.MakeClosure); isMC && mc.Fn == ssa.Value(fn) && idx >= 0 && idx < len(mc.Bindings) {
				found = true
				vs, k := c20CellValues(mc.Bindings[idx], depth+1)
				if !k {
					ok = false
				}
				out = append(out, vs...)
			}
		})
		return out, found && ok
	case *ssa.Alloc:
		var out []ssa.Value
		ok := true
		var down func(v ssa.Value, d int)
		down = func(v ssa.Value, d int) {
			refs := v.Referrers()
			if refs == nil || d > 3 {
				ok = false
				return
			}
			for _, ref := range *refs {
				switch y := ref.(type) {
				case *ssa.Store:
					if y.Addr != v {
						ok = false
						return
					}
					out = append(out, y.Val)
				case *ssa.UnOp:
					if y.Op != token.MUL {
						ok = false
					}
				case *ssa.DebugRef:
				case *ssa.MakeClosure:
					fn, isF := y.Fn.(*ssa.Function)
					if !isF {
						ok = false
						return
					}
					for k, b := range y.Bindings {
						if b == v && k < len(fn.FreeVars) {
							down(fn.FreeVars[k], d+1)
						}
					}
				default:
					ok = false
				}
			}
		}
		down(a, 0)
		return out, ok
	}
	return nil, false
}

// c20IsLogCall: a call of the Log method of a logger.Logger: through the interface, or through its method value called
// where it is visible (logf := p.Logger.Log; logf(ev)). In both spellings Args[0] is the event.
func c20IsLogCall(cc *ssa.CallCommon) bool {
	if cc == nil {
		return false
	}
	if cc.IsInvoke() {
		return cc.Method.Name() == "Log" && namedIs(cc.Value.Type(), "logger.Logger")
	}
	sc := cc.StaticCallee()
	if sc == nil || sc.Synthetic == "" || sc.Name() != "Log$bound" || len(sc.FreeVars) != 1 || len(cc.Args) != 1 {
		return false
	}
	return namedIs(sc.FreeVars[0].Type(), "logger.Logger")
}

// c20DeferredDoing: the defer statements of f whose function (a closure, a named function, a method value) may do pred.
func c20DeferredDoing(f *ssa.Function, pred func(ssa.Instruction) bool) []ssa.Instruction {
	var out []ssa.Instruction
	eachInstr(f, func(i ssa.Instruction) {
		d, ok := i.(*ssa.Defer)
		if !ok || d.Call.IsInvoke() {
			return
		}
		var fns []*ssa.Function
		if sc := d.Call.StaticCallee(); sc != nil {
			if isRepoFn(sc) {
				fns = append(fns, unwrap(sc))
			}
		} else {
			fns = funcsOf(d.Call.Value)
		}
		for _, g := range fns {
			if mayExec(g, pred, 1) {
				out = append(out, i)
				return
			}
		}
	})
	return out
}

// c20RunsArgument: i is a static call of a repository helper that is handed a function value which may do pred, and
// the helper calls that parameter on every one of its paths (measure(now, func() { h.ServeHTTP(rw, r) })).
func c20RunsArgument(i ssa.Instruction, pred func(ssa.Instruction) bool) bool {
	call, ok := i.(*ssa.Call)
	if !ok {
		return false
	}
	sc := call.Call.StaticCallee()
	if sc == nil || !isRepoFn(sc) || len(sc.Blocks) == 0 {
		return false
	}
	sc = unwrap(sc)
	for k, a := range call.Call.Args {
		if _, isFn := a.Type().Underlying().(*types.Signature); !isFn || k >= len(sc.Params) {
			continue
		}
		does := false
		for _, g := range funcsOf(a) {
			if mayExec(g, pred, 1) {
				does = true
			}
		}
		if !does {
			continue
		}
		prm := sc.Params[k]
		callsParam := func(j ssa.Instruction) bool {
			if _, isGo := j.(*ssa.Go); isGo {
				return false
			}
			cc := callCommon(j)
			return cc != nil && !cc.IsInvoke() && cc.Value == ssa.Value(prm)
		}
		if mustExec(sc, callsParam, 0) {
			return true
		}
	}
	return false
}

// plainlyNonNil: a fresh allocation, the handler's own parameter, the result of a net/http method documented to
// return a non-nil copy (WithContext, Clone), the result of a repository helper that only returns such values, a
// helper's parameter that only receives such values, or a merge of such values.
func plainlyNonNil(v ssa.Value, depth int) bool {
	if depth > 6 {
		return false
	}
	switch x := v.(type) {
	case *ssa.Alloc:
		return true
	case *ssa.Parameter:
		fn := x.Parent()
		if fn == nil || !onlyStaticallyCalled(fn) || len(gSites[fn]) == 0 {
			return true // an entry point (ServeHTTP's r): non-nil by the caller's contract
		}
		idx := -1
		for k, p := range fn.Params {
			if p == x {
				idx = k
			}
		}
		for _, s := range gSites[fn] {
			if idx < 0 || idx >= len(s.Common().Args) || !plainlyNonNil(s.Common().Args[idx], depth+1) {
				return false
			}
		}
		return true
	case *ssa.Phi:
		for _, e := range x.Edges {
			if e != x && !plainlyNonNil(e, depth+1) {
				return false
			}
		}
		return true
	case *ssa.MakeInterface:
		return plainlyNonNil(x.X, depth+1)
	case *ssa.ChangeType:
		return plainlyNonNil(x.X, depth+1)
	case *ssa.UnOp:
		// a local variable kept in a cell (it is captured by a closure): everything ever assigned to it is non-nil
		if x.Op != token.MUL {
			return false
		}
		vals, ok := c20CellValues(x.X, 0)
		if !ok || len(vals) == 0 {
			return false
		}
		for _, w := range vals {
			if !plainlyNonNil(w, depth+1) {
				return false
			}
		}
		return true
	case *ssa.Call:
		switch calleeName(&x.Call) {
		case "(*net/http.Request).WithContext", "(*net/http.Request).Clone":
			return true
		}
		if sc := x.Call.StaticCallee(); sc != nil && isRepoFn(sc) && len(sc.Blocks) > 0 && sc.Signature.Results().Len() == 1 {
			ok, n := true, 0
			eachInstr(sc, func(i ssa.Instruction) {
				if r, isR := i.(*ssa.Return); isR && len(r.Results) == 1 {
					n++
					if !plainlyNonNil(r.Results[0], depth+1) {
						ok = false
					}
				}
			})
			return ok && n > 0
		}
	}
	return false
}

// ---- B1 ---------------------------------------------------------------------------------------------------------------

func runC20B1(c *Ctx) {
	_, logs := c20LoggerScope(c)
	isGet := func(i ssa.Instruction) bool {
		cc := callCommon(i)
		return cc != nil && calleeName(cc) == "(*sync.Pool).Get"
	}
	isPut := func(i ssa.Instruction) bool {
		cc := callCommon(i)
		return cc != nil && calleeName(cc) == "(*sync.Pool).Put"
	}
	isReset := func(i ssa.Instruction) bool {
		cc := callCommon(i)
		if cc == nil {
			return false
		}
		switch calleeName(cc) {
		case "(*bytes.Buffer).Reset":
			return true
		case "(*bytes.Buffer).Truncate":
			k, ok := constInt(cc.Args[1])
			return ok && k == 0
		}
		return false
	}
	// the line goes out: the shared writer (an io.Writer) is invoked, or handed to something that writes to it
	isOut := func(i ssa.Instruction) bool {
		cc := callCommon(i)
		if cc == nil {
			return false
		}
		if cc.IsInvoke() {
			return isWriterIface(cc.Value.Type()) && strings.HasPrefix(cc.Method.Name(), "Write")
		}
		if sc := cc.StaticCallee(); sc != nil && isRepoFn(sc) {
			return false // looked into by the lifting
		}
		for _, a := range cc.Args {
			if isWriterIface(a.Type()) && !isBufferPtr(stripIface(a).Type()) { // fmt.Fprint(b, ...) into the line buffer is not output
				return true
			}
		}
		return false
	}
	var entries []*ssa.Function
	for _, f := range logs {
		if mayExec(f, isGet, 0) {
			entries = append(entries, f)
		}
	}
	if len(entries) == 0 {
		c.undecided("C20.B1", "anchor|the Logger implementation that takes its buffer from a pool", "no implementation of logger.Logger reaches (*sync.Pool).Get")
		return
	}
	for _, logM := range entries {
		key := fnKey(logM)
		roles := []func(ssa.Instruction) bool{isGet, isReset, isOut, isPut}
		puts := c20Lifted(logM, isPut, false)
		outs := c20Lifted(logM, isOut, true)
		gets := c20Lifted(logM, isGet, true)
		// `defer pool.Put(b)` registered once the buffer is there: the Put runs when Log returns, after everything else
		deferredPut := false
		if len(puts) == 0 {
			eachInstr(logM, func(i ssa.Instruction) {
				if d, isD := i.(*ssa.Defer); isD && isPut(d) {
					for _, g := range gets {
						if dominatesInstr(g, d) {
							deferredPut = true
						}
					}
				}
			})
		}
		if deferredPut {
			roles = roles[:3]
		}
		ok := c20Ordered(logM, roles, 0)
		// the first thing that happens to the buffer is the Reset: it dominates every other call that takes the buffer
		resets := c20Lifted(logM, isReset, true)
		eachInstr(logM, func(j ssa.Instruction) {
			cc := callCommon(j)
			if cc == nil || isReset(j) {
				return
			}
			if d, isD := j.(*ssa.Defer); isD && isPut(d) {
				return
			}
			uses := false
			for _, a := range cc.Args {
				if isBufferPtr(a.Type()) {
					uses = true
				}
			}
			if !uses {
				return
			}
			dom := false
			for _, r := range resets {
				if r == j || dominatesInstr(r, j) {
					dom = true
				}
			}
			if !dom {
				ok = false
			}
		})
		// no Put may come before the line is written, on any path
		for _, p := range puts {
			dominated := false
			for _, o := range outs {
				if o != p && dominatesInstr(o, p) {
					dominated = true
				}
				if o == p {
					// written and put back by the same helper: c20Ordered looked inside
					dominated = true
				}
			}
			if !dominated {
				ok = false
			}
		}
		c.check("C20.B1", key+"|pooled buffer: Get, Reset, write, Put", logM.Pos(), ok,
			"a buffer from the pool still holds the previous line: it must be Reset before rendering, written out, and only then put back (a buffer put back earlier is rendered into by another request while it is being written)")
		if ok {
			// nothing touches the buffer after Put
			after := false
			for _, p := range puts {
				eachInstr(logM, func(j ssa.Instruction) {
					if j == p || !pathAvoiding(p, j, nil) {
						return
					}
					if cc := callCommon(j); cc != nil {
						for _, a := range cc.Args {
							if isBufferPtr(a.Type()) {
								after = true
							}
						}
					}
				})
			}
			pos := logM.Pos()
			if len(puts) > 0 {
				pos = puts[0].Pos()
			}
			c.check("C20.B1", key+"|no use of the buffer after Put", pos, !after, "after Put another request may own the buffer")
		}
		// the shared writer is only used under the mutex, wherever the write sits
		nOut := 0
		for _, f := range c.region(logM) {
			eachInstr(f, func(i ssa.Instruction) {
				if !isOut(i) {
					return
				}
				nOut++
				c.check("C20.B1", key+"|shared writer used under the mutex", i.Pos(), c20LockedAt(i, 0),
					"concurrent requests share the log writer; lines interleave (and os.File offsets race) unless the write happens under l.mu")
			})
		}
		c.atLeast("C20.B1", "writes to the shared log writer", nOut, 1)
	}
}

var _ = token.NoPos
