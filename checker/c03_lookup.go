package main

import (
	"go/token"
	"go/types"

	"golang.org/x/tools/go/ssa"
)

// ---- path-matcher calls and route scans (L1) ---------------------------------------------------------------------

// c03IsMatcherSig: func(string, *route.Route) bool — the signature of the configured path matcher.
func c03IsMatcherSig(sig *types.Signature) bool {
	if sig == nil || sig.Params().Len() != 2 || sig.Results().Len() != 1 {
		return false
	}
	if !c03IsString(sig.Params().At(0).Type()) {
		return false
	}
	p, ok := sig.Params().At(1).Type().(*types.Pointer)
	if !ok || !namedIs(p.Elem(), "route.Route") {
		return false
	}
	b, ok := sig.Results().At(0).Type().Underlying().(*types.Basic)
	return ok && b.Kind() == types.Bool
}

// c03IsMatchCall: i consults the path matcher: a call (of a function value, a parameter, a field, a named function)
// with the matcher signature, or a static call of a repository wrapper whose every result is such a call.
func c03IsMatchCall(i ssa.Instruction) bool { return c03isMatchCallDepth(i, 0) }

func c03isMatchCallDepth(i ssa.Instruction, depth int) bool {
	call, ok := i.(*ssa.Call)
	if !ok {
		return false
	}
	if c03IsMatcherSig(call.Call.Signature()) && (call.Call.Signature().Recv() == nil || call.Call.IsInvoke()) {
		return true
	}
	sc := call.Call.StaticCallee()
	if depth >= 2 || sc == nil || !isRepoFn(sc) || len(sc.Blocks) == 0 || sc.Signature.Results().Len() != 1 {
		return false
	}
	all, n := true, 0
	eachInstr(sc, func(j ssa.Instruction) {
		if r, isR := j.(*ssa.Return); isR {
			n++
			res, isI := r.Results[0].(ssa.Instruction)
			if !isI || !c03isMatchCallDepth(res, depth+1) {
				all = false
			}
		}
	})
	return all && n > 0
}

func c03findMatchCalls(r *c03Roles) {
	wrapper := map[*ssa.Function]bool{}
	for _, f := range r.routeFns {
		eachInstr(f, func(i ssa.Instruction) {
			if call, ok := i.(*ssa.Call); ok && c03IsMatchCall(i) {
				if sc := call.Call.StaticCallee(); sc != nil && isRepoFn(sc) && !c03IsMatcherSig(call.Call.Signature()) {
					wrapper[sc] = true
				}
			}
		})
	}
	for _, f := range r.routeFns {
		if wrapper[f] {
			continue // the call inside a pure wrapper is represented by the calls of the wrapper
		}
		ff := f
		eachInstr(f, func(i ssa.Instruction) {
			if call, ok := i.(*ssa.Call); ok && c03IsMatchCall(i) {
				r.matchCalls = append(r.matchCalls, call)
				r.innerFns[ff] = true
				for p := ff.Parent(); p != nil; p = p.Parent() {
					r.innerFns[p] = true
				}
			}
		})
	}
}

// c03StdFirstMatch: mc is the result of a predicate closure handed to slices.IndexFunc / slices.ContainsFunc: the
// library offers every element in order and stops at the first one accepted.
func c03StdFirstMatch(mc *ssa.Call) bool {
	f := mc.Parent()
	p := f.Parent()
	if p == nil {
		return false
	}
	direct := true
	eachInstr(f, func(i ssa.Instruction) {
		if r, ok := i.(*ssa.Return); ok && (len(r.Results) != 1 || r.Results[0] != ssa.Value(mc)) {
			direct = false
		}
	})
	if !direct {
		return false
	}
	handed := false
	eachInstr(p, func(i ssa.Instruction) {
		cc := callCommon(i)
		if cc == nil {
			return
		}
		switch c03Name(cc) {
		case "slices.IndexFunc", "slices.ContainsFunc":
			for _, a := range cc.Args {
				for _, g := range funcsOf(a) {
					if g == f {
						handed = true
					}
				}
			}
		}
	})
	return handed
}

func runC03L1(c *Ctx, r *c03Roles) {
	// (a) the host matchers examine every key of the table
	for _, l := range r.keyLoops {
		f := c03loopFn(l)
		for b := range l.Body {
			if b == l.Head {
				continue
			}
			for _, sx := range b.Succs {
				if !l.Body[sx] {
					c.check("C03.L1", fnKey(f)+"|all host keys are examined", b.Instrs[len(b.Instrs)-1].Pos(), false, "the host matcher leaves its loop over the table's keys early: a more specific host key later in the (random) map order is never considered")
				}
			}
		}
		// no return of a host list that bypasses the loop
		eachInstr(f, func(i ssa.Instruction) {
			ret, ok := i.(*ssa.Return)
			if !ok {
				return
			}
			for _, v := range ret.Results {
				if !c03IsStringSlice(v.Type()) || isNilConst(v) {
					continue
				}
				bypass := c03ReachFromEntry(f, ret, func(j ssa.Instruction) bool { return j.Block() == l.Head })
				c.check("C03.L1", fnKey(f)+"|all host keys are examined", ret.Pos(), !bypass,
					"the host matcher can return a list of host keys without having run its loop over the table's keys (a fast path): every key whose pattern matches the request host is a candidate — a wildcard host or the same host spelled with its default port is never considered on this path")
			}
		})
	}
	c.atLeast("C03.L1", "loops over the table's keys that compare them with the request host", len(r.keyLoops), 1)

	// (b) route scans
	nScan := 0
	scanFns := map[*ssa.Function]bool{}
	for _, mc := range r.matchCalls {
		f := mc.Parent()
		if c03StdFirstMatch(mc) {
			nScan++
			scanFns[f.Parent()] = true
			c.check("C03.L1", fnKey(f.Parent())+"|every route of the host is offered to the matcher", mc.Pos(), true, "scan by slices.IndexFunc")
			c.check("C03.L1", fnKey(f.Parent())+"|first route accepted by the matcher decides", mc.Pos(), true, "scan by slices.IndexFunc")
			continue
		}
		if l := c03InnermostLoop(f, mc.Block()); l != nil {
			nScan++
			scanFns[f] = true
			c03CheckScan(c, f, l, mc, mc)
			continue
		}
		if len(c03EnclosingLoops(mc, 0)) == 0 {
			continue // a matcher consulted outside any scan (not a lookup)
		}
		// the body of the scan loop lives in a helper that reports the matcher's verdict in one of its results
		idx, ok := c03VerdictResult(f, mc)
		followed := false
		if ok {
			for _, s := range gSites[f] {
				call, isCall := s.(*ssa.Call)
				if !isCall {
					continue
				}
				l := c03InnermostLoop(call.Parent(), call.Block())
				if l == nil {
					continue
				}
				var verdict ssa.Value
				if f.Signature.Results().Len() == 1 {
					verdict = call
				} else {
					for _, ref := range *call.Referrers() {
						if e, isE := ref.(*ssa.Extract); isE && e.Index == idx {
							verdict = e
						}
					}
				}
				if verdict == nil {
					continue
				}
				followed = true
				nScan++
				scanFns[call.Parent()] = true
				c03CheckScan(c, call.Parent(), l, call, verdict)
			}
		}
		if !followed {
			nScan++
			c.undecided("C03.L1", fnKey(f)+"|route scan", "the path matcher is consulted in a helper of the loop over the host's routes and none of the helper's results is the matcher's verdict: the scan cannot be followed")
		}
	}
	c.atLeast("C03.L1", "scans of a host's routes with the configured path matcher", nScan, 1)

	// (c) the table index that feeds a scan uses a lower-cased key (or a key of the table) — at every call site
	nKey := 0
	seenIdx := map[*ssa.Lookup]bool{}
	var idxs []*ssa.Lookup
	addIdx := func(v ssa.Value) {
		if lkp, ok := v.(*ssa.Lookup); ok && c03IsTableT(lkp.X.Type()) && !seenIdx[lkp] {
			seenIdx[lkp] = true
			idxs = append(idxs, lkp)
		}
	}
	for _, mc := range r.matchCalls {
		// the routes offered to the matcher come out of these table indexes (through helpers and parameters)
		n0 := len(idxs)
		for _, a := range mc.Call.Args {
			if p, ok := a.Type().(*types.Pointer); ok && namedIs(p.Elem(), "route.Route") {
				derives(a, func(x ssa.Value) bool { addIdx(x); return false })
			}
		}
		if len(idxs) > n0 {
			continue
		}
		// not traceable by value (a predicate closure called by the library): the table indexes next to the scan
		f := mc.Parent()
		for f.Parent() != nil {
			f = f.Parent()
		}
		if !scanFns[f] && !scanFns[mc.Parent()] {
			continue
		}
		for _, g := range withAnon(f) {
			eachInstr(g, func(i ssa.Instruction) {
				if v, ok := i.(ssa.Value); ok {
					addIdx(v)
				}
			})
		}
	}
	for _, lkp := range idxs {
		nKey++
		c.check("C03.L1", fnKey(lkp.Parent())+"|key lower-cased", lkp.Pos(), c03CanonKey(lkp.Index),
			"routes are stored under lower-cased hosts; the lookup must lower-case its key (or every caller must pass a lower-cased host or a key of the table): a host name from the wire ('Secure.Example.com' in a TLS ClientHello) otherwise finds no route")
	}
	c.atLeast("C03.L1", "table indexes feeding a route scan", nKey, 1)
}

// c03CheckScan: loop l of f scans the routes of a host; `at` consults the matcher (the call itself, or the call of the
// helper that does) and verdict is the boolean that says whether the route was accepted.
func c03CheckScan(c *Ctx, f *ssa.Function, l *loop, at ssa.Instruction, verdict ssa.Value) {
	// every route of the host is offered to the matcher: no way round the loop that skips the call
	skip := false
	for _, entry := range l.Head.Succs {
		if l.Body[entry] && entry != l.Head && c03PathWithin(entry, l.Head, l.Body, c03IsMatchCall) {
			skip = true
		}
	}
	c.check("C03.L1", fnKey(f)+"|every route of the host is offered to the matcher", at.Pos(), !skip,
		"a route can be skipped without consulting the configured matcher (a pre-filter before match()): what looks redundant for the prefix matchers is wrong for glob, whose patterns can be longer than the paths they match — a request then misses its most specific route or gets no route although a candidate exists")
	// the first route accepted decides: the branch taken when the verdict is `true` cannot come back to the loop head
	// without leaving the loop
	nAccept, okFirst := 0, true
	for _, p := range f.Blocks {
		if len(p.Instrs) == 0 || len(p.Succs) != 2 || p.Succs[0] == p.Succs[1] {
			continue
		}
		iff, ok := p.Instrs[len(p.Instrs)-1].(*ssa.If)
		if !ok {
			continue
		}
		cond, truth := iff.Cond, true
		for {
			u, isNot := cond.(*ssa.UnOp)
			if !isNot || u.Op != token.NOT {
				break
			}
			cond, truth = u.X, !truth
		}
		if cond != verdict {
			continue
		}
		nAccept++
		acc := p.Succs[0]
		if !truth {
			acc = p.Succs[1]
		}
		if acc == l.Head || (l.Body[acc] && c03PathWithin(acc, l.Head, l.Body, func(ssa.Instruction) bool { return false })) {
			okFirst = false
		}
	}
	c.check("C03.L1", fnKey(f)+"|first route accepted by the matcher decides", at.Pos(), okFirst && nAccept > 0,
		"routes are sorted most specific first; the scan must end at the first route the matcher accepts (a later, shorter path must not replace it)")
}

// c03VerdictResult: helper h consults the matcher once (mc) and one of its boolean results is the verdict: every
// return yields mc itself there, or the constant that the branch facts at the return establish for mc.
func c03VerdictResult(h *ssa.Function, mc *ssa.Call) (int, bool) {
	res := h.Signature.Results()
	for idx := 0; idx < res.Len(); idx++ {
		if b, ok := res.At(idx).Type().Underlying().(*types.Basic); !ok || b.Kind() != types.Bool {
			continue
		}
		all, n := true, 0
		eachInstr(h, func(i ssa.Instruction) {
			r, ok := i.(*ssa.Return)
			if !ok {
				return
			}
			n++
			v := r.Results[idx]
			if v == ssa.Value(mc) {
				return
			}
			want, isK := constBool(v)
			if !isK {
				all = false
				return
			}
			known := false
			for _, ft := range localFactsAt(r.Block()) {
				if ft.Cond == ssa.Value(mc) && ft.Truth == want {
					known = true
				}
			}
			if !known {
				all = false
			}
		})
		if all && n > 0 {
			return idx, true
		}
	}
	return 0, false
}

// c03CanonKey: v is a canonical host key on every path and, for a parameter, at every static call site: lower-cased,
// a lower-case constant, or a key of the table (must-analysis of c03_keys.go).
func c03CanonKey(v ssa.Value) bool {
	d := &c03deep{state: map[c03deepKey]int{}}
	return d.str(v)
}

func c03KnownTrue(b *ssa.BasicBlock, v ssa.Value) bool {
	for _, f := range localFactsAt(b) {
		if f.Cond == v && f.Truth {
			return true
		}
	}
	return false
}
